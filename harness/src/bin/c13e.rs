//! C13, expression layer: ArcExpression::eval / EvalResult / SparqlValue / SparqlNumber /
//! call_function of sophia_sparql, driven through the real engine
//!   SELECT ?r { <tag:s> <tag:pa> ?a . <tag:s> <tag:pb> ?b . <tag:s> <tag:pc> ?c  BIND(<expr> AS ?r) }
//!   ASK       { ... FILTER(<expr>) }
//! against (a) the Coq implementation model coq/C13/ExprImpl.v instantiated with ExprConcrete.v
//! (the case files evaluate `expr_ok XC the_cfg <expr> <mu> <bound term> <kept>`), and
//! (b) an independent oracle: SPARQL 1.1 section 17 written directly in Rust below (own lexical
//! mappings, own numeric tower over i128 / native IEEE floats, own dateTime reader).
//! Oracle disagreements are reported with a class prefix obtained by re-running the oracle with
//! each combination of the known deviations switched on.
//! `--probe` reads expressions from stdin and prints what the engine binds (replay of witnesses).
//!
//! Second half (case ids 2_000_000 + j, regression cases 3_000_000 + j): the built-in FUNCTION CALLS of
//! sparql/src/function.rs (call_function) and SparqlNumber::{abs, ceil, floor, round}, against coq/C13/FuncModel.v
//! instantiated with FuncConcrete.v (`fk` = fexpr_ok: bound term / unbound / panic and FILTER's decision; `fr` = frows_ok:
//! which of several solutions a FILTER keeps, through SparqlDataset::prepare_query + query).  Streams: every implemented
//! function x every class of terms in every argument position / random nested well-typed calls under the operators /
//! SUBSTR boundary indices (0, negative, beyond the end, fractional, halves, huge, NaN, +-INF) over ASCII, non-ASCII,
//! astral, combining and language-tagged strings / the laws a user relies on, evaluated BY THE ENGINE (the oracle: each
//! must be true) / the functions without implementation / multi-row FILTER / the queries that failed before the repairs
//! a02a275 and 5a72fb8 with the answers the Recommendations prescribe.  The fresh label of BNODE() and the number drawn
//! by RAND() are read off the engine's answer and handed to the model as inputs.
use sophia_api::prelude::*;
use sophia_api::sparql::{Query, SparqlDataset, SparqlResult};
use sophia_api::term::TermKind;
use sophia_inmem::dataset::LightDataset;
use sophia_sparql::*;
use std::collections::{BTreeMap, HashSet};
use verif_harness::*;

// ------------------------------------------------------------------------------------------
// terms
// ------------------------------------------------------------------------------------------
#[derive(Clone, PartialEq, Eq, PartialOrd, Ord, Debug, Hash)]
enum T { Iri(String), Bn(String), Lit(String, String), Lang(String, String), Tr(Box<[T; 3]>) }
const RDF_LANGSTRING: &str = "http://www.w3.org/1999/02/22-rdf-syntax-ns#langString";
fn x(local: &str) -> String { format!("{XSD}{local}") }
fn x_(local: &str) -> String { x(local) }
fn lit(lex: &str, local: &str) -> T { T::Lit(lex.into(), x(local)) }
/// a SPARQL string literal (Rust's Debug would write \u{301} for a combining mark)
fn sparql_str(l: &str) -> String {
    let mut o = String::from("\"");
    for c in l.chars() { match c { '"' => o.push_str("\\\""), '\\' => o.push_str("\\\\"), '\n' => o.push_str("\\n"), '\r' => o.push_str("\\r"), '\t' => o.push_str("\\t"), c => o.push(c) } }
    o.push('"'); o
}
impl T {
    fn to_st(&self) -> ST {
        match self {
            T::Iri(s) => iri(s), T::Bn(s) => bnode(s), T::Lit(l, d) => lit_dt(l, d), T::Lang(l, t) => lit_lang(l, t),
            T::Tr(b) => triple(b[0].to_st(), b[1].to_st(), b[2].to_st()),
        }
    }
    fn from_term<X: Term>(t: X) -> T {
        match t.kind() {
            TermKind::Iri => T::Iri(t.iri().unwrap().as_str().to_string()),
            TermKind::BlankNode => T::Bn(t.bnode_id().unwrap().as_str().to_string()),
            TermKind::Literal => match t.language_tag() {
                Some(tag) => T::Lang(t.lexical_form().unwrap().to_string(), tag.as_str().to_string()),
                None => T::Lit(t.lexical_form().unwrap().to_string(), t.datatype().unwrap().as_str().to_string()),
            },
            TermKind::Triple => { let [s, p, o] = t.triple().unwrap(); T::Tr(Box::new([T::from_term(s), T::from_term(p), T::from_term(o)])) }
            TermKind::Variable => T::Iri(format!("?var:{}", t.variable().unwrap().as_str())),
        }
    }
    fn coq(&self) -> String {
        match self {
            T::Iri(s) => format!("(Iri {})", coq_str(s)), T::Bn(s) => format!("(Bnode {})", coq_str(s)),
            T::Lit(l, d) => format!("(LitDt {} {})", coq_str(l), coq_str(d)), T::Lang(l, t) => format!("(LitLang {} {})", coq_str(l), coq_str(t)),
            T::Tr(b) => format!("(Triple {} {} {})", b[0].coq(), b[1].coq(), b[2].coq()),
        }
    }
    fn sparql(&self) -> String {
        match self {
            T::Iri(s) => format!("<{s}>"), T::Bn(s) => format!("_:{s}"), T::Lit(l, d) => format!("{}^^<{d}>", sparql_str(l)), T::Lang(l, t) => format!("{}@{t}", sparql_str(l)),
            T::Tr(b) => format!("<< {} {} {} >>", b[0].sparql(), b[1].sparql(), b[2].sparql()),
        }
    }
    fn show(&self) -> String { self.sparql().replace(XSD, "xsd:") }
    fn is_lit(&self) -> bool { matches!(self, T::Lit(..) | T::Lang(..)) }
    /// Term::eq: language tags compare without case
    fn same(&self, o: &T) -> bool {
        match (self, o) {
            (T::Lang(a, s), T::Lang(b, t)) => a == b && s.eq_ignore_ascii_case(t),
            (T::Tr(a), T::Tr(b)) => (0..3).all(|i| a[i].same(&b[i])),
            _ => self == o,
        }
    }
}

// ------------------------------------------------------------------------------------------
// expressions
// ------------------------------------------------------------------------------------------
#[derive(Clone, Copy, Debug, PartialEq, Eq)]
enum F1 { Str, Lang, Datatype, IsIri, IsBlank, IsLiteral, IsNumeric }
#[derive(Clone, Copy, Debug, PartialEq, Eq)]
enum B2 { Or, And, Eq, SameTerm, Gt, Ge, Lt, Le, Add, Sub, Mul, Div }
#[derive(Clone, Debug)]
enum E { Const(usize), Var(usize), Bound(usize), Not(Box<E>), Bin(B2, Box<E>, Box<E>), In(Box<E>, Vec<E>), Plus(Box<E>), Minus(Box<E>), If(Box<E>, Box<E>, Box<E>), Coalesce(Vec<E>), Fn(F1, Box<E>) }
const VARS: [&str; 4] = ["a", "b", "c", "u"]; // ?u is never bound
fn bx(e: E) -> Box<E> { Box::new(e) }
fn bin(o: B2, a: E, b: E) -> E { E::Bin(o, bx(a), bx(b)) }
impl E {
    /// SPARQL text, fully parenthesised (spargebra 0.3.5 parses `2-3-4` as `2-(3-4)`)
    fn sparql(&self, pool: &[T], r: &mut Rng) -> String {
        match self {
            E::Const(i) => pool[*i].sparql(),
            E::Var(v) => format!("?{}", VARS[*v]),
            E::Bound(v) => format!("BOUND(?{})", VARS[*v]),
            E::Not(a) => match &**a {
                E::Bin(B2::Eq, p, q) if r.chance(1, 2) => format!("({} != {})", p.sparql(pool, r), q.sparql(pool, r)),
                E::In(p, l) if r.chance(1, 2) => format!("({} NOT IN ({}))", p.sparql(pool, r), l.iter().map(|e| e.sparql(pool, r)).collect::<Vec<_>>().join(", ")),
                _ => format!("(!({}))", a.sparql(pool, r)),
            },
            E::Bin(o, a, b) => {
                let (a, b) = (a.sparql(pool, r), b.sparql(pool, r));
                match o { B2::SameTerm => format!("sameTerm({a}, {b})"),
                    _ => format!("({a} {} {b})", match o { B2::Or => "||", B2::And => "&&", B2::Eq => "=", B2::Gt => ">", B2::Ge => ">=", B2::Lt => "<", B2::Le => "<=", B2::Add => "+", B2::Sub => "-", B2::Mul => "*", B2::Div => "/", B2::SameTerm => unreachable!() }) }
            }
            E::In(a, l) => format!("({} IN ({}))", a.sparql(pool, r), l.iter().map(|e| e.sparql(pool, r)).collect::<Vec<_>>().join(", ")),
            E::Plus(a) => format!("(+({}))", a.sparql(pool, r)),
            E::Minus(a) => format!("(-({}))", a.sparql(pool, r)),
            E::If(c, t, e) => format!("IF({}, {}, {})", c.sparql(pool, r), t.sparql(pool, r), e.sparql(pool, r)),
            E::Coalesce(l) => format!("COALESCE({})", l.iter().map(|e| e.sparql(pool, r)).collect::<Vec<_>>().join(", ")),
            E::Fn(f, a) => format!("{}({})", match f { F1::Str => "STR", F1::Lang => "LANG", F1::Datatype => "DATATYPE", F1::IsIri => "isIRI", F1::IsBlank => "isBLANK", F1::IsLiteral => "isLITERAL", F1::IsNumeric => "isNUMERIC" }, a.sparql(pool, r)),
        }
    }
    fn coq(&self) -> String {
        let l = |v: &Vec<E>| coq_list(v.iter().map(|e| e.coq()));
        match self {
            E::Const(i) => format!("(EConst t{i})"),
            E::Var(v) => format!("(EVar {})", coq_str(VARS[*v])),
            E::Bound(v) => format!("(EBound {})", coq_str(VARS[*v])),
            E::Not(a) => format!("(ENot {})", a.coq()),
            E::Bin(o, a, b) => format!("({} {} {})", match o { B2::Or => "EOr", B2::And => "EAnd", B2::Eq => "EEq", B2::SameTerm => "ESameTerm", B2::Gt => "EGt", B2::Ge => "EGe", B2::Lt => "ELt", B2::Le => "ELe", B2::Add => "EAdd", B2::Sub => "ESub", B2::Mul => "EMul", B2::Div => "EDiv" }, a.coq(), b.coq()),
            E::In(a, v) => format!("(EIn {} {})", a.coq(), l(v)),
            E::Plus(a) => format!("(EPlus {})", a.coq()),
            E::Minus(a) => format!("(EMinus {})", a.coq()),
            E::If(c, t, e) => format!("(EIf {} {} {})", c.coq(), t.coq(), e.coq()),
            E::Coalesce(v) => format!("(ECoalesce {})", l(v)),
            E::Fn(f, a) => format!("(EFn {} {})", match f { F1::Str => "FStr", F1::Lang => "FLang", F1::Datatype => "FDatatype", F1::IsIri => "FIsIri", F1::IsBlank => "FIsBlank", F1::IsLiteral => "FIsLiteral", F1::IsNumeric => "FIsNumeric" }, a.coq()),
        }
    }
    fn size(&self) -> usize {
        match self { E::Const(_) | E::Var(_) | E::Bound(_) => 1, E::Not(a) | E::Plus(a) | E::Minus(a) | E::Fn(_, a) => 1 + a.size(), E::Bin(_, a, b) => 1 + a.size() + b.size(),
            E::In(a, l) => 1 + a.size() + l.iter().map(|e| e.size()).sum::<usize>(), E::If(c, t, e) => 1 + c.size() + t.size() + e.size(), E::Coalesce(l) => 1 + l.iter().map(|e| e.size()).sum::<usize>() }
    }
}

// ------------------------------------------------------------------------------------------
// the oracle: SPARQL 1.1 section 17
// ------------------------------------------------------------------------------------------
/// known deviations of the implementation; the SPECIFICATION is `Dv::default()`
#[derive(Clone, Copy, Default, Debug, PartialEq)]
struct Dv { if_noebv: bool, eq_ill: bool, nan_truthy: bool, ebv_illnum: bool, nan_cmp: bool, lex: bool, dec_sci: bool, inf_lex: bool, in_first: bool, unsigned_m0: bool }
const DV_NAMES: [&str; 10] = ["IF-NOEBV", "EQ-ILLFORMED", "FLOAT-NAN-EBV", "EBV-ILLFORMED-NUMERIC", "NAN-COMPARE", "LEXICAL-SPACE", "DECIMAL-SCI-OUTPUT", "INF-OUTPUT", "IN-FIRST-ERROR", "UNSIGNED-MINUS-ZERO"];
fn dv_of(mask: u32) -> Dv { let b = |i: u32| mask & (1 << i) != 0; Dv { if_noebv: b(0), eq_ill: b(1), nan_truthy: b(2), ebv_illnum: b(3), nan_cmp: b(4), lex: b(5), dec_sci: b(6), inf_lex: b(7), in_first: b(8), unsigned_m0: b(9) } }

#[derive(Clone, Copy, Debug, PartialEq)]
enum Num { I(i128), D(i128, u32), F(f32), Db(f64) }
#[derive(Clone, Debug, PartialEq)]
enum R { T(T), N(Num), B(bool), StrOfNum(Num) }
#[derive(Clone, Copy, Debug, PartialEq)]
enum Er { Type, Unknown } // a SPARQL error / the oracle cannot tell (i128 overflow, open lexical form, inexact decimal division)
type Res = Result<R, Er>;
type Dt = (i128, Option<i64>);
#[derive(Clone, Debug, PartialEq)]
enum K { Num(Num), BadNum, HugeNum, Str(String), Lang(String, String), Bool(bool), BadBool, DT(Dt), BadDT, OtherLit, Iri, Blank, Other }

fn dnorm(mut m: i128, mut s: u32) -> Num { if m == 0 { return Num::D(0, 0) } while s > 0 && m % 10 == 0 { m /= 10; s -= 1 } Num::D(m, s) }
fn all_digits(s: &str) -> bool { s.bytes().all(|b| b.is_ascii_digit()) }
fn unsign(s: &str) -> (bool, &str) { if let Some(r) = s.strip_prefix('-') { (true, r) } else if let Some(r) = s.strip_prefix('+') { (false, r) } else { (false, s) } }
/// what num_bigint's BigInt::from_str accepts (only used to CLASSIFY a deviation): underscores after the first digit
fn bigint_lenient(s: &str) -> Option<Option<i128>> {
    let (neg, body) = if let Some(t) = s.strip_prefix('-') { if t.starts_with('+') { return None } (true, t) } else if let Some(t) = s.strip_prefix('+') { if t.starts_with('+') { return None } (false, t) } else { (false, s) };
    if body.is_empty() || body.starts_with('_') || !body.bytes().all(|b| b.is_ascii_digit() || b == b'_') { return None }
    Some(body.replace('_', "").parse::<i128>().ok().map(|v| if neg { -v } else { v }))
}
/// XSD integer: Some(None) = in the lexical space but too big for the oracle
fn xsd_integer(lex: &str, dv: &Dv) -> Option<Option<i128>> {
    if dv.lex { return bigint_lenient(lex) }
    let (neg, d) = unsign(lex);
    if d.is_empty() || !all_digits(d) { return None }
    Some(d.parse::<i128>().ok().map(|v| if neg { -v } else { v }))
}
fn mk_dec(m: i128, sc: i64) -> Option<Num> {
    if sc >= 0 { if sc > 60 { return None } Some(dnorm(m, sc as u32)) }
    else { if -sc > 30 { return None } 10i128.checked_pow((-sc) as u32).and_then(|p| m.checked_mul(p)).map(|v| Num::D(v, 0)) }
}
fn xsd_decimal(lex: &str, dv: &Dv) -> Option<Option<Num>> {
    if dv.lex { // what bigdecimal's BigDecimal::from_str accepts (only used to CLASSIFY a deviation)
        let (base, ex) = match lex.find(['e', 'E']) { Some(p) => { let e = &lex[p + 1..]; let d = unsign(e).1; if d.is_empty() || !all_digits(d) { return None } (&lex[..p], e.parse::<i64>().ok()?) } None => (lex, 0) };
        if base.is_empty() { return None }
        let (digits, off) = match base.find('.') { None => (base.to_string(), 0), Some(p) if p == base.len() - 1 => (base[..p].to_string(), 0),
            Some(p) => (format!("{}{}", &base[..p], &base[p + 1..]), base[p + 1..].chars().filter(|c| *c != '_').count() as i64) };
        return match bigint_lenient(&digits)? { None => Some(None), Some(m) => Some(mk_dec(m, off - ex)) };
    }
    let (neg, d) = unsign(lex);
    let (i, f) = match d.split_once('.') { Some((i, f)) => (i, f), None => (d, "") };
    if (i.is_empty() && f.is_empty()) || !all_digits(i) || !all_digits(f) { return None }
    let Ok(m) = format!("{i}{f}").parse::<i128>() else { return Some(None) };
    Some(mk_dec(if neg { -m } else { m }, f.len() as i64))
}
fn xsd_float_syntax(lex: &str, dv: &Dv) -> bool {
    if matches!(lex, "INF" | "+INF" | "-INF" | "NaN") { return true }
    if dv.lex { let l = unsign(lex).1.to_ascii_lowercase(); if l == "inf" || l == "infinity" || l == "nan" { return true } }
    let (_, d) = unsign(lex);
    let (m, e) = match d.find(['e', 'E']) { Some(p) => (&d[..p], Some(&d[p + 1..])), None => (d, None) };
    let (i, f) = match m.split_once('.') { Some((i, f)) => (i, f), None => (m, "") };
    if (i.is_empty() && f.is_empty()) || !all_digits(i) || !all_digits(f) { return false }
    match e { None => true, Some(e) => { let e = unsign(e).1; !e.is_empty() && all_digits(e) } }
}
fn days_from_civil(y: i128, m: i128, d: i128) -> i128 {
    let y = if m <= 2 { y - 1 } else { y };
    let era = y.div_euclid(400); let yoe = y - era * 400;
    let mp = (m + 9) % 12; let doy = (153 * mp + 2) / 5 + d - 1;
    era * 146097 + yoe * 365 + yoe / 4 - yoe / 100 + doy
}
fn xsd_datetime(lex: &str) -> Option<Dt> {
    if !lex.is_ascii() { return None }
    let b = lex.as_bytes();
    let (neg, mut i) = if b.first() == Some(&b'-') { (true, 1) } else { (false, 0) };
    let st = i; while i < b.len() && b[i].is_ascii_digit() { i += 1 }
    if i - st < 4 || i - st > 6 { return None }
    let y: i128 = lex[st..i].parse().ok()?; let y = if neg { -y } else { y };
    let two = |i: usize| -> Option<i128> { if i + 2 <= b.len() && b[i].is_ascii_digit() && b[i + 1].is_ascii_digit() { lex[i..i + 2].parse().ok() } else { None } };
    let lit = |i: usize, c: u8| -> Option<()> { if b.get(i) == Some(&c) { Some(()) } else { None } };
    lit(i, b'-')?; let mo = two(i + 1)?; lit(i + 3, b'-')?; let d = two(i + 4)?; lit(i + 6, b'T')?; let h = two(i + 7)?; lit(i + 9, b':')?; let mi = two(i + 10)?; lit(i + 12, b':')?; let se = two(i + 13)?;
    i += 15;
    let mut nano: i128 = 0;
    if b.get(i) == Some(&b'.') { let st = i + 1; i = st; while i < b.len() && b[i].is_ascii_digit() { i += 1 } if i == st || i - st > 9 { return None } nano = lex[st..i].parse::<i128>().ok()? * 10i128.pow(9 - (i - st) as u32); }
    let tz = match &lex[i..] { "" => None, "Z" => Some(0), z => { let zb = z.as_bytes(); if zb.len() != 6 || zb[3] != b':' || !(zb[0] == b'+' || zb[0] == b'-') { return None }
        if !all_digits(&z[1..3]) || !all_digits(&z[4..6]) { return None }
        let hh: i64 = z[1..3].parse().ok()?; let mm: i64 = z[4..6].parse().ok()?; if hh > 14 || mm > 59 || (hh == 14 && mm > 0) { return None } Some((if zb[0] == b'-' { -1 } else { 1 }) * (hh * 3600 + mm * 60)) } };
    let leap = (y % 4 == 0 && y % 100 != 0) || y % 400 == 0;
    let dim = match mo { 2 => if leap { 29 } else { 28 }, 4 | 6 | 9 | 11 => 30, 1..=12 => 31, _ => return None };
    if d < 1 || d > dim { return None }
    let day = days_from_civil(y, mo, d);
    let secs = if h < 24 && mi < 60 && se < 60 { day * 86400 + h * 3600 + mi * 60 + se } else if h == 24 && mi == 0 && se == 0 && nano == 0 { (day + 1) * 86400 } else { return None };
    let local = secs * 1_000_000_000 + nano;
    Some(match tz { None => (local, None), Some(off) => (local - off as i128 * 1_000_000_000, Some(off)) })
}
/// XSD 3.2.7.4 (no implicit timezone): None = indeterminate
fn dt_cmp(a: &Dt, b: &Dt) -> Option<std::cmp::Ordering> {
    use std::cmp::Ordering::*;
    const H14: i128 = 14 * 3600 * 1_000_000_000;
    match (a.1.is_some(), b.1.is_some()) {
        (true, true) | (false, false) => Some(a.0.cmp(&b.0)),
        (true, false) => if a.0 < b.0 - H14 { Some(Less) } else if a.0 > b.0 + H14 { Some(Greater) } else { None },
        (false, true) => if b.0 < a.0 - H14 { Some(Greater) } else if b.0 > a.0 + H14 { Some(Less) } else { None },
    }
}
fn int_range(local: &str) -> Option<(Option<i128>, Option<i128>)> {
    Some(match local {
        "nonPositiveInteger" => (None, Some(0)), "negativeInteger" => (None, Some(-1)), "long" => (Some(i64::MIN as i128), Some(i64::MAX as i128)), "int" => (Some(i32::MIN as i128), Some(i32::MAX as i128)),
        "short" => (Some(-32768), Some(32767)), "byte" => (Some(-128), Some(127)), "nonNegativeInteger" => (Some(0), None), "unsignedLong" => (Some(0), Some(u64::MAX as i128)),
        "unsignedInt" => (Some(0), Some(u32::MAX as i128)), "unsignedShort" => (Some(0), Some(65535)), "unsignedByte" => (Some(0), Some(255)), "positiveInteger" => (Some(1), None), _ => return None,
    })
}
fn classify(t: &T, dv: &Dv) -> K {
    match t {
        T::Iri(_) => K::Iri, T::Bn(_) => K::Blank, T::Tr(_) => K::Other, T::Lang(l, tag) => K::Lang(l.clone(), tag.clone()),
        T::Lit(lex, dt) => {
            let Some(local) = dt.strip_prefix(XSD) else { return K::OtherLit };
            let of = |o: Option<Option<Num>>| match o { None => K::BadNum, Some(None) => K::HugeNum, Some(Some(n)) => K::Num(n) };
            match local {
                "integer" => of(xsd_integer(lex, dv).map(|o| o.map(Num::I))),
                "decimal" => of(xsd_decimal(lex, dv)),
                "float" => if xsd_float_syntax(lex, dv) { lex.parse::<f32>().map(|f| K::Num(Num::F(f))).unwrap_or(K::BadNum) } else { K::BadNum },
                "double" => if xsd_float_syntax(lex, dv) { lex.parse::<f64>().map(|f| K::Num(Num::Db(f))).unwrap_or(K::BadNum) } else { K::BadNum },
                "string" => K::Str(lex.clone()),
                "boolean" => match lex.as_str() { "true" | "1" => K::Bool(true), "false" | "0" => K::Bool(false), _ => K::BadBool },
                "dateTime" => xsd_datetime(lex).map(K::DT).unwrap_or(K::BadDT),
                _ => match int_range(local) {
                    None => K::OtherLit,
                    Some((lo, hi)) => {
                        // only the unbounded types go through BigInt's lenient parser
                        let d = Dv { lex: dv.lex && (lo.is_none() || hi.is_none()), ..*dv };
                        if dv.unsigned_m0 && local.starts_with("unsigned") && lex.starts_with('-') { return K::BadNum }
                        match xsd_integer(lex, &d) { None => K::BadNum, Some(None) => if hi.is_some() && lo.is_some() { K::BadNum } else { K::HugeNum },
                            Some(Some(v)) => if lo.is_none_or(|l| l <= v) && hi.is_none_or(|h| v <= h) { K::Num(Num::I(v)) } else { K::BadNum } }
                    }
                },
            }
        }
    }
}
fn rank(n: &Num) -> u8 { match n { Num::I(_) => 0, Num::D(..) => 1, Num::F(_) => 2, Num::Db(_) => 3 } }
fn to_dec(n: &Num) -> (i128, u32) { match n { Num::I(v) => (*v, 0), Num::D(m, s) => (*m, *s), _ => unreachable!() } }
fn dec_str(m: i128, s: u32) -> String { format!("{m}e-{s}") }
fn to_f32(n: &Num) -> f32 { match n { Num::I(v) => *v as f32, Num::D(m, s) => dec_str(*m, *s).parse().unwrap(), Num::F(f) => *f, Num::Db(d) => *d as f32 } }
fn to_f64(n: &Num) -> f64 { match n { Num::I(v) => *v as f64, Num::D(m, s) => dec_str(*m, *s).parse().unwrap(), Num::F(f) => *f as f64, Num::Db(d) => *d } }
fn align(a: (i128, u32), b: (i128, u32)) -> Option<(i128, i128, u32)> {
    let s = a.1.max(b.1);
    Some((a.0.checked_mul(10i128.checked_pow(s - a.1)?)?, b.0.checked_mul(10i128.checked_pow(s - b.1)?)?, s))
}
fn arith(op: B2, a: &Num, b: &Num) -> Result<Num, Er> {
    let u = Er::Unknown;
    match rank(a).max(rank(b)) {
        0 => { let (Num::I(x), Num::I(y)) = (a, b) else { unreachable!() };
            match op { B2::Add => x.checked_add(*y).map(Num::I).ok_or(u), B2::Sub => x.checked_sub(*y).map(Num::I).ok_or(u), B2::Mul => x.checked_mul(*y).map(Num::I).ok_or(u),
                _ => if *y == 0 { Err(Er::Type) } else { dec_div((*x, 0), (*y, 0)) } } }
        1 => { let (x, y) = (to_dec(a), to_dec(b));
            match op { B2::Add => { let (p, q, s) = align(x, y).ok_or(u)?; p.checked_add(q).map(|m| dnorm(m, s)).ok_or(u) }
                B2::Sub => { let (p, q, s) = align(x, y).ok_or(u)?; p.checked_sub(q).map(|m| dnorm(m, s)).ok_or(u) }
                B2::Mul => x.0.checked_mul(y.0).map(|m| dnorm(m, x.1 + y.1)).ok_or(u),
                _ => if y.0 == 0 { Err(Er::Type) } else { dec_div(x, y) } } }
        2 => { let (x, y) = (to_f32(a), to_f32(b)); Ok(Num::F(match op { B2::Add => x + y, B2::Sub => x - y, B2::Mul => x * y, _ => x / y })) }
        _ => { let (x, y) = (to_f64(a), to_f64(b)); Ok(Num::Db(match op { B2::Add => x + y, B2::Sub => x - y, B2::Mul => x * y, _ => x / y })) }
    }
}
/// exact quotient when it terminates within a few dozen fractional digits, else the oracle cannot tell
fn dec_div(x: (i128, u32), y: (i128, u32)) -> Result<Num, Er> {
    let (mut n, d) = (x.0, y.0); let mut s = x.1 as i64 - y.1 as i64;
    for _ in 0..40 { if s >= 0 && n % d == 0 { return Ok(dnorm(n / d, s as u32)) } n = n.checked_mul(10).ok_or(Er::Unknown)?; s += 1; }
    Err(Er::Unknown)
}
fn num_cmp(a: &Num, b: &Num) -> Result<Option<std::cmp::Ordering>, Er> {
    Ok(match rank(a).max(rank(b)) {
        0 | 1 => { let (p, q, _) = align(to_dec(a), to_dec(b)).ok_or(Er::Unknown)?; Some(p.cmp(&q)) }
        2 => to_f32(a).partial_cmp(&to_f32(b)),
        _ => to_f64(a).partial_cmp(&to_f64(b)),
    })
}
fn num_dt(n: &Num) -> String { x(match n { Num::I(_) => "integer", Num::D(..) => "decimal", Num::F(_) => "float", Num::Db(_) => "double" }) }
fn class_of(r: &R, dv: &Dv) -> K { match r { R::T(t) => classify(t, dv), R::N(n) => K::Num(*n), R::B(b) => K::Bool(*b), R::StrOfNum(_) => K::Str("?".into()) } }
fn ebv(r: &R, dv: &Dv) -> Result<bool, Er> {
    if let R::StrOfNum(_) = r { return Ok(true) } // every lexical form of a number is non-empty
    match class_of(r, dv) {
        K::Bool(b) => Ok(b), K::BadBool => Ok(false), K::BadNum => if dv.ebv_illnum { Err(Er::Type) } else { Ok(false) },
        K::Str(s) | K::Lang(s, _) => Ok(!s.is_empty()),
        K::Num(n) => Ok(match n { Num::I(v) => v != 0, Num::D(m, _) => m != 0, Num::F(f) => f != 0.0 && (dv.nan_truthy || !f.is_nan()), Num::Db(d) => d != 0.0 && !d.is_nan() }),
        K::HugeNum => Ok(true),
        _ => Err(Er::Type),
    }
}
/// the RDF term of a result, when it does not depend on an open lexical form
fn term_of(r: &R) -> Option<T> { match r { R::T(t) => Some(t.clone()), R::B(b) => Some(lit(if *b { "true" } else { "false" }, "boolean")), _ => None } }
/// the same under the deviation INF-OUTPUT: a computed infinity is written "inf" / "-inf", so its TERM is known (and is
/// the same term as the ill-formed literal "inf"^^xsd:float: RDFterm-equal and sameTerm then answer true)
fn term_of_dv(r: &R, dv: &Dv) -> Option<T> {
    match r {
        R::N(Num::F(f)) if dv.inf_lex && f.is_infinite() => Some(lit(if *f > 0.0 { "inf" } else { "-inf" }, "float")),
        R::N(Num::Db(f)) if dv.inf_lex && f.is_infinite() => Some(lit(if *f > 0.0 { "inf" } else { "-inf" }, "double")),
        _ => term_of(r),
    }
}
fn rdfterm_equal(a: &R, b: &R, dv: &Dv) -> Result<bool, Er> {
    match (term_of_dv(a, dv), term_of_dv(b, dv)) {
        (Some(s), Some(o)) => if s.same(&o) { Ok(true) } else if s.is_lit() && o.is_lit() { Err(Er::Type) } else { Ok(false) },
        // a computed number (valid lexical form, numeric datatype) against something that is not a numeric value
        (s, o) => match s.or(o) { None => Err(Er::Unknown), Some(t) => match classify(&t, dv) {
            K::Iri | K::Blank | K::Other => Ok(false),
            K::HugeNum => Err(Er::Unknown),
            _ => Err(Er::Type) } }, // incl. ill-formed numbers: a computed number always has a valid lexical form
    }
}
fn eq(a: &R, b: &R, dv: &Dv) -> Result<bool, Er> {
    if matches!(a, R::StrOfNum(_)) || matches!(b, R::StrOfNum(_)) { return Err(Er::Unknown) }
    match (class_of(a, dv), class_of(b, dv)) {
        (K::Num(x), K::Num(y)) => Ok(num_cmp(&x, &y)? == Some(std::cmp::Ordering::Equal)),
        (K::HugeNum, K::Num(_) | K::HugeNum) | (K::Num(_), K::HugeNum) => Err(Er::Unknown),
        (K::Str(s1), K::Str(s2)) => Ok(s1 == s2),
        (K::Bool(x), K::Bool(y)) => Ok(x == y),
        (K::DT(x), K::DT(y)) => match dt_cmp(&x, &y) { Some(o) => Ok(o.is_eq()), None => rdfterm_equal(a, b, dv) },
        (K::Lang(s1, t1), K::Lang(s2, t2)) => Ok(s1 == s2 && t1.eq_ignore_ascii_case(&t2)), // 17.3.1 extension: values known to differ
        (K::BadBool, K::BadBool) if dv.eq_ill => Ok(true),
        (K::BadBool, K::Bool(_)) | (K::Bool(_), K::BadBool) if dv.eq_ill => Ok(false),
        (K::BadDT, K::BadDT) if dv.eq_ill => Ok(true),
        (K::BadDT, K::DT(_)) | (K::DT(_), K::BadDT) if dv.eq_ill => Ok(false),
        _ => rdfterm_equal(a, b, dv),
    }
}
fn rel(op: B2, a: &R, b: &R, dv: &Dv) -> Result<bool, Er> {
    use std::cmp::Ordering::*;
    if matches!(a, R::StrOfNum(_)) || matches!(b, R::StrOfNum(_)) { return Err(Er::Unknown) }
    let pred = |o: std::cmp::Ordering| match op { B2::Gt => o == Greater, B2::Ge => o != Less, B2::Lt => o == Less, _ => o != Greater };
    match (class_of(a, dv), class_of(b, dv)) {
        (K::Num(x), K::Num(y)) => match num_cmp(&x, &y)? { Some(o) => Ok(pred(o)), None => if dv.nan_cmp { Err(Er::Type) } else { Ok(false) } },
        (K::HugeNum, K::Num(_) | K::HugeNum) | (K::Num(_), K::HugeNum) => Err(Er::Unknown),
        (K::Str(s1), K::Str(s2)) => Ok(pred(s1.chars().cmp(s2.chars()))),
        (K::Bool(x), K::Bool(y)) => Ok(pred(Ord::cmp(&x, &y))),
        (K::DT(x), K::DT(y)) => dt_cmp(&x, &y).map(pred).ok_or(Er::Type),
        // 17.3.1 extensions of sophia (a type error replaced by a value)
        (K::Lang(s1, t1), K::Lang(s2, t2)) => Ok(pred(t1.to_ascii_lowercase().cmp(&t2.to_ascii_lowercase()).then(s1.chars().cmp(s2.chars())))),
        (K::BadNum | K::OtherLit, K::BadNum | K::OtherLit) => match (term_of(a), term_of(b)) { (Some(s), Some(o)) if s.same(&o) => Ok(pred(Equal)), _ => Err(Er::Type) },
        _ => Err(Er::Type),
    }
}
fn or3(a: Result<bool, Er>, b: Result<bool, Er>) -> Result<bool, Er> {
    match (a, b) { (Ok(x), Ok(y)) => Ok(x || y), (Ok(true), _) | (_, Ok(true)) => Ok(true), (Err(Er::Unknown), _) | (_, Err(Er::Unknown)) => Err(Er::Unknown), _ => Err(Er::Type) }
}
fn and3(a: Result<bool, Er>, b: Result<bool, Er>) -> Result<bool, Er> {
    match (a, b) { (Ok(x), Ok(y)) => Ok(x && y), (Ok(false), _) | (_, Ok(false)) => Ok(false), (Err(Er::Unknown), _) | (_, Err(Er::Unknown)) => Err(Er::Unknown), _ => Err(Er::Type) }
}
fn num_of(r: &R, dv: &Dv) -> Result<Num, Er> { match class_of(r, dv) { K::Num(n) if !matches!(r, R::StrOfNum(_)) => Ok(n), K::HugeNum => Err(Er::Unknown), _ => Err(Er::Type) } }
fn eval(e: &E, pool: &[T], mu: &[Option<usize>; 4], dv: &Dv) -> Res {
    let ev = |e: &E| eval(e, pool, mu, dv);
    match e {
        E::Const(i) => Ok(R::T(pool[*i].clone())),
        E::Var(v) => mu[*v].map(|i| R::T(pool[i].clone())).ok_or(Er::Type),
        E::Bound(v) => Ok(R::B(mu[*v].is_some())),
        E::Not(a) => Ok(R::B(!ebv(&ev(a)?, dv)?)),
        E::Bin(B2::Or, a, b) => or3(ev(a).and_then(|r| ebv(&r, dv)), ev(b).and_then(|r| ebv(&r, dv))).map(R::B),
        E::Bin(B2::And, a, b) => and3(ev(a).and_then(|r| ebv(&r, dv)), ev(b).and_then(|r| ebv(&r, dv))).map(R::B),
        E::Bin(o, a, b) => {
            // an error in either operand is an error; Unknown only matters if no operand is a definite error
            let (a, b) = match (ev(a), ev(b)) { (Err(Er::Type), _) | (_, Err(Er::Type)) => return Err(Er::Type), (a, b) => (a?, b?) };
            match o {
                B2::Eq => eq(&a, &b, dv).map(R::B),
                B2::SameTerm => match (term_of_dv(&a, dv), term_of_dv(&b, dv)) {
                    (Some(s), Some(t)) => Ok(R::B(s.same(&t))),
                    // a computed number or STR(number) against a term: decided only if the datatypes differ
                    (s, t) => match s.or(t) { Some(T::Lit(_, d)) => { let other = if term_of_dv(&a, dv).is_none() { &a } else { &b }; let dt = match other { R::N(n) => num_dt(n), _ => x("string") }; if d != dt { Ok(R::B(false)) } else { Err(Er::Unknown) } } Some(_) => Ok(R::B(false)), None => Err(Er::Unknown) },
                },
                B2::Gt | B2::Ge | B2::Lt | B2::Le => rel(*o, &a, &b, dv).map(R::B),
                _ => { let (x, y) = match (num_of(&a, dv), num_of(&b, dv)) { (Err(Er::Type), _) | (_, Err(Er::Type)) => return Err(Er::Type), (x, y) => (x?, y?) }; arith(*o, &x, &y).map(R::N) }
            }
        }
        E::In(a, l) => {
            let x = ev(a)?;
            if dv.in_first {
                for e in l { match ev(e).and_then(|o| eq(&x, &o, dv)) { Ok(false) => continue, Ok(true) => return Ok(R::B(true)), Err(e) => return Err(e) } }
                Ok(R::B(false))
            } else { l.iter().rev().fold(Ok(false), |acc, e| or3(ev(e).and_then(|o| eq(&x, &o, dv)), acc)).map(R::B) }
        }
        E::Plus(a) => num_of(&ev(a)?, dv).map(R::N),
        E::Minus(a) => num_of(&ev(a)?, dv).and_then(|n| Ok(R::N(match n { Num::I(v) => Num::I(v.checked_neg().ok_or(Er::Unknown)?), Num::D(m, s) => Num::D(-m, s), Num::F(f) => Num::F(-f), Num::Db(d) => Num::Db(-d) }))),
        E::If(c, t, f) => match ev(c).and_then(|r| ebv(&r, dv)) { Ok(true) => ev(t), Ok(false) => ev(f), Err(Er::Unknown) => Err(Er::Unknown),
            Err(Er::Type) => if dv.if_noebv && ev(c).is_ok() { ev(f) } else { Err(Er::Type) } },
        E::Coalesce(l) => { for e in l { match ev(e) { Ok(r) => return Ok(r), Err(Er::Unknown) => return Err(Er::Unknown), Err(Er::Type) => {} } } Err(Er::Type) }
        E::Fn(f, a) => {
            let r = ev(a)?;
            let kind = match &r { R::T(T::Iri(_)) => 0, R::T(T::Bn(_)) => 1, R::T(T::Tr(_)) => 3, _ => 2 };
            match f {
                F1::Str => match &r { R::T(T::Iri(i)) => Ok(R::T(lit(i, "string"))), R::T(T::Lit(l, _)) | R::T(T::Lang(l, _)) => Ok(R::T(lit(l, "string"))), R::B(b) => Ok(R::T(lit(if *b { "true" } else { "false" }, "string"))),
                    R::N(n) => Ok(R::StrOfNum(*n)), R::StrOfNum(_) => Ok(r.clone()), _ => Err(Er::Type) },
                F1::Lang => match &r { R::T(T::Lang(_, t)) => Ok(R::T(lit(t, "string"))), _ if kind == 2 => Ok(R::T(lit("", "string"))), _ => Err(Er::Type) },
                F1::Datatype => match &r { R::T(T::Lit(_, d)) => Ok(R::T(T::Iri(d.clone()))), R::T(T::Lang(..)) => Ok(R::T(T::Iri(RDF_LANGSTRING.into()))), R::N(n) => Ok(R::T(T::Iri(num_dt(n)))), R::B(_) => Ok(R::T(T::Iri(x("boolean")))), R::StrOfNum(_) => Ok(R::T(T::Iri(x("string")))), _ => Err(Er::Type) },
                F1::IsIri => Ok(R::B(kind == 0)), F1::IsBlank => Ok(R::B(kind == 1)), F1::IsLiteral => Ok(R::B(kind == 2)),
                F1::IsNumeric => Ok(R::B(!matches!(r, R::StrOfNum(_)) && matches!(class_of(&r, dv), K::Num(_) | K::HugeNum))),
            }
        }
    }
}
/// does the engine's answer (bound term or unbound, FILTER kept or not) agree with the oracle's?
/// None = the oracle cannot tell
fn agrees(o: &Res, bound: &Option<T>, kept: bool, dv: &Dv) -> Option<bool> {
    // Some(false) = definitely not the expected literal; None = the oracle cannot read the engine's literal (beyond i128)
    let num_matches = |n: &Num, t: &T, want_dt: &str| -> Option<bool> {
        let T::Lit(lex, dt) = t else { return Some(false) };
        if dt != want_dt { return Some(false) }
        let strict = Dv::default();
        let inf_ok = dv.inf_lex && matches!(lex.as_str(), "inf" | "-inf");
        Some(match n {
            Num::I(v) => match xsd_integer(lex, &strict) { Some(None) => return None, r => r == Some(Some(*v)) },
            Num::D(m, s) => { let lenient = Dv { lex: dv.dec_sci, ..strict }; match xsd_decimal(lex, &lenient) { Some(None) => return None, r => r == Some(Some(Num::D(*m, *s))) } }
            Num::F(f) => (xsd_float_syntax(lex, &strict) || inf_ok) && lex.parse::<f32>().is_ok_and(|g| g.to_bits() == f.to_bits() || (g.is_nan() && f.is_nan())),
            Num::Db(f) => (xsd_float_syntax(lex, &strict) || inf_ok) && lex.parse::<f64>().is_ok_and(|g| g.to_bits() == f.to_bits() || (g.is_nan() && f.is_nan())),
        })
    };
    let (bind_ok, keep) = match o {
        Err(Er::Unknown) => return None,
        Err(Er::Type) => (bound.is_none(), Ok(false)),
        Ok(r) => (match (r, bound) {
            (_, None) => false,
            (R::T(t), Some(b)) => t.same(b),
            (R::B(v), Some(b)) => *b == lit(if *v { "true" } else { "false" }, "boolean"),
            (R::N(n), Some(b)) => num_matches(n, b, &num_dt(n))?,
            (R::StrOfNum(n), Some(b)) => num_matches(n, &match b { T::Lit(l, d) if *d == x("string") => T::Lit(l.clone(), num_dt(n)), _ => T::Iri(String::new()) }, &num_dt(n))?,
        }, ebv(r, dv)),
    };
    match keep { Err(Er::Unknown) => None, k => Some(bind_ok && kept == (k == Ok(true))) }
}

// ------------------------------------------------------------------------------------------
// the engine
// ------------------------------------------------------------------------------------------
#[derive(Debug, Clone, PartialEq)]
enum Obs { Bound(Option<T>), Kept(bool), Err(String), Panic(String), Parse(String) }
fn run_engine(d: &LightDataset, q: &str) -> Obs {
    let parsed = match SparqlQuery::<LightDataset>::parse(q) { Ok(p) => p, Err(e) => return Obs::Parse(e.to_string()) };
    let r = std::panic::catch_unwind(std::panic::AssertUnwindSafe(|| match SparqlWrapper(d).query(&parsed) {
        Err(e) => Obs::Err(e.to_string()),
        Ok(SparqlResult::Boolean(b)) => Obs::Kept(b),
        Ok(SparqlResult::Bindings(b)) => {
            let rows: Vec<_> = b.into_iter().collect();
            if rows.len() != 1 { return Obs::Err(format!("{} rows", rows.len())) }
            match &rows[0] { Ok(r) => Obs::Bound(r[0].as_ref().map(|t| T::from_term(t.borrow_term()))), Err(e) => Obs::Err(format!("row error: {e}")) }
        }
        Ok(_) => Obs::Err("unexpected result kind".into()),
    }));
    match r { Ok(o) => o, Err(p) => Obs::Panic(p.downcast_ref::<String>().cloned().or(p.downcast_ref::<&str>().map(|s| s.to_string())).unwrap_or_default()) }
}
fn dataset_for(pool: &[T], mu: &[Option<usize>; 4]) -> (LightDataset, String) {
    let mut d = LightDataset::new(); let mut bgp = String::new();
    for v in 0..3 { if let Some(i) = mu[v] { d.insert(&iri("tag:s"), &iri(&format!("tag:p{}", VARS[v])), &pool[i].to_st(), None::<&ST>).unwrap(); bgp.push_str(&format!("<tag:s> <tag:p{0}> ?{0} . ", VARS[v])); } }
    (d, bgp)
}
/// ONE spelling per term within one case's dataset.  The in-memory store keeps a single entry for terms that are equal under
/// Term::eq -- language tags compare without case -- spelled as first inserted; binding "b"@En and "b"@en to two variables
/// would make the engine answer "b"@En for both, which is no defect (the property speaks of RDF terms), while the model and
/// the oracle are handed the two spellings.  So a binding whose term equals an earlier term of the same dataset up to the
/// case of language tags (also inside quoted triples) is replaced by that earlier pool entry.  `seen` lists the pool entries
/// already in the dataset, in insertion order.  No random draw is consumed: no case changes but those with such a pair.
fn one_spelling(pool: &[T], seen: &mut Vec<usize>, i: usize) -> usize {
    let c = seen.iter().copied().find(|j| pool[*j].same(&pool[i])).unwrap_or(i);
    seen.push(c);
    c
}
fn one_spelling_mu(pool: &[T], seen: &mut Vec<usize>, mu: &mut [Option<usize>; 4], from: usize) {
    for v in from..3 { if let Some(i) = mu[v] { mu[v] = Some(one_spelling(pool, seen, i)); } }
}
fn eval_engine(pool: &[T], mu: &[Option<usize>; 4], text: &str) -> (Obs, Obs, String) {
    let (d, bgp) = dataset_for(pool, mu);
    let q1 = format!("SELECT ?r {{ {bgp} BIND({text} AS ?r) }}");
    let q2 = format!("ASK {{ {bgp} FILTER({text}) }}");
    (run_engine(&d, &q1), run_engine(&d, &q2), q1)
}

// ------------------------------------------------------------------------------------------
// the term pool: (class label, term); the label groups terms for the operator x class streams
// ------------------------------------------------------------------------------------------
fn pool() -> Vec<(&'static str, T)> {
    let mut p: Vec<(&'static str, T)> = vec![];
    for l in ["0", "1", "2", "-1", "+5", "007", "-0", "3", "10"] { p.push(("int", lit(l, "integer"))) }
    for l in ["9223372036854775807", "-9223372036854775808", "9223372036854775808", "-9223372036854775809", "4611686018427387904", "3037000500", "-3037000500", "99999999999999999999", "-99999999999999999999", "9223372036854775806"] { p.push(("int-boundary", lit(l, "integer"))) }
    for l in ["abc", "1_0", "", "1.0", " 1", "1e2", "+-1", "--1", "1_", "_1", "-+1", "++1", "+", "-", "1__0", "-1_0", "99999999999999999999_9"] { p.push(("int-ill", lit(l, "integer"))) }
    for (l, d) in [("1", "byte"), ("127", "byte"), ("-128", "byte"), ("255", "unsignedByte"), ("+5", "unsignedInt"), ("-5", "negativeInteger"), ("0", "nonPositiveInteger"), ("18446744073709551615", "unsignedLong"), ("9223372036854775807", "long"), ("1", "positiveInteger"), ("0", "nonNegativeInteger"), ("-0", "nonNegativeInteger"), ("32767", "short"), ("2147483647", "int")] { p.push(("int-derived", lit(l, d))) }
    for (l, d) in [("128", "byte"), ("-129", "byte"), ("-1", "nonNegativeInteger"), ("0", "positiveInteger"), ("1", "negativeInteger"), ("256", "unsignedByte"), ("18446744073709551616", "unsignedLong"), ("abc", "long"), ("1_0", "int"), ("1_0", "nonNegativeInteger"), ("-1", "unsignedInt"), ("1.0", "short")] { p.push(("int-derived-ill", lit(l, d))) }
    for l in ["-0", "-00"] { p.push(("unsigned-minus-zero", lit(l, "unsignedByte"))) }
    for l in ["0.0", "1.0", "1.5", "-1.5", "2.0", "0.1", "1.10", ".5", "5.", "+5.0", "0.0000001", "-0.00000012", "0.000001", "123456789012345678901234567890.5", "3.0", "0.25"] { p.push(("decimal", lit(l, "decimal"))) }
    for l in ["1e3", "1_0.5", ".", "abc", "", "1.2.3", "1E-2", "+", "1.5e0", ".-5", ".+5", "1.-5", "-.", "1__0", "5._"] { p.push(("decimal-ill", lit(l, "decimal"))) }
    for l in ["0", "-0.0", "1", "1.5", "0.1", "3.4e38", "1e-45", "16777217", "2", "-2.5", "1e10"] { p.push(("float", lit(l, "float"))) }
    for l in ["NaN", "INF", "-INF", "+INF"] { p.push(("float-special", lit(l, "float"))) }
    for l in ["inf", "nan", "infinity", "-Infinity", "1e", "abc", "", "0x1", "+nan"] { p.push(("float-ill", lit(l, "float"))) }
    for l in ["0e0", "-0e0", "1e0", "1.5", "2.5e0", "0.1", "1e308", "5e-324", "9007199254740993", "1E2", "-3e0", "1.7976931348623157e308", "1e23", ".5e1", "2e0"] { p.push(("double", lit(l, "double"))) }
    for l in ["NaN", "INF", "-INF", "+INF"] { p.push(("double-special", lit(l, "double"))) }
    for l in ["inf", "-nan", "Infinity", "e5", "1e400x", "NAN", "-inf", "", "1e5.5", "1_0e0", ".e1", "+.e1", "1e+", "--1e0"] { p.push(("double-ill", lit(l, "double"))) }
    for l in ["", "a", "b", "abc", "B", "\u{e9}", "1", "true"] { p.push(("string", lit(l, "string"))) }
    for (l, t) in [("a", "en"), ("a", "EN"), ("a", "fr"), ("b", "en"), ("", "en"), ("a", "en-US"), ("b", "FR")] { p.push(("lang", T::Lang(l.into(), t.into()))) }
    for l in ["true", "false", "1", "0"] { p.push(("boolean", lit(l, "boolean"))) }
    for l in ["TRUE", "foo", "bar", ""] { p.push(("boolean-ill", lit(l, "boolean"))) }
    for l in ["2020-01-01T00:00:00Z", "2020-01-01T00:00:00", "2020-01-01T01:00:00+01:00", "2020-01-01T12:00:00-05:00", "2020-01-02T00:00:00", "2019-12-31T24:00:00", "2020-01-01T00:00:00.5Z", "2020-01-01T15:00:00", "-0044-03-15T12:00:00Z", "2020-02-29T23:59:59.999+14:00"] { p.push(("dateTime", lit(l, "dateTime"))) }
    for l in ["foo", "bar", "2020-02-30T00:00:00", "2020-01-01", "2020-01-01T25:00:00Z", "20-01-01T00:00:00"] { p.push(("dateTime-ill", lit(l, "dateTime"))) }
    for (l, d) in [("1", "http://x/dt"), ("2", "http://x/dt"), ("2020-01-01", "http://www.w3.org/2001/XMLSchema#date"), ("1", "http://www.w3.org/2001/XMLSchema#Integer")] { p.push(("other-literal", T::Lit(l.into(), d.into()))) }
    for i in ["http://x/a", "http://x/b", "tag:x"] { p.push(("iri", T::Iri(i.into()))) }
    for b in ["b1", "b2"] { p.push(("bnode", T::Bn(b.into()))) }
    p.push(("triple", T::Tr(Box::new([T::Iri("http://x/a".into()), T::Iri("http://x/p".into()), lit("1", "integer")]))));
    p.push(("triple", T::Tr(Box::new([T::Bn("b1".into()), T::Iri("http://x/p".into()), T::Lang("a".into(), "en".into())]))));
    // integers far beyond isize (2^64, 10^20 + k, 10^30) and the small values that sums / differences of them come back to
    for l in ["18446744073709551616", "-18446744073709551616", "100000000000000000000", "100000000000000000030", "-100000000000000000000", "1000000000000000000000000000000", "-1000000000000000000000000000000", "9223372036854775837", "-9223372036854775838"] { p.push(("int-far", lit(l, "integer"))) }
    for l in ["30", "29", "31", "-3", "-2", "-5", "-10", "4", "-30", "6", "9"] { p.push(("int-round", lit(l, "integer"))) }
    for l in ["30.0", "30.5", "29.5", "0.5", "-1.0"] { p.push(("dec-round", lit(l, "decimal"))) }
    for l in ["3e1", "1e30", "-1e0"] { p.push(("dbl-round", lit(l, "double"))) }
    // ---- classes used by the function-call streams only (FIRST_FN_CLASS): every string kind ----
    for l in ["abcabc", "ABC", "aBc", "hello world", "12345", "x-y_z.~", "a/b?c=d&e", "100%", " ", "bc", "c", "ab", "A", "abc def"] { p.push(("fascii", lit(l, "string"))) }
    for l in ["stra\u{df}e", "a\u{e9}", "\u{e9}a", "\u{65e5}\u{672c}\u{8a9e}", "\u{1f600}", "a\u{1f600}b", "e\u{301}", "\u{3a3}\u{391}\u{3a3}", "\u{3c3}\u{3b1}\u{3c2}", "\u{fb01}n", "\u{130}", "\u{414}\u{434}", "\u{df}", "\u{10428}\u{10400}", "\u{212a}", "\u{b5}\u{ff}"] { p.push(("funi", lit(l, "string"))) }
    for (l, t) in [("abc", "en"), ("abc", "EN"), ("abc", "en-US"), ("abc", "fr"), ("bc", "en"), ("", "fr"), ("stra\u{df}e", "de"), ("\u{e9}a", "fr"), ("ABC", "en"), ("b", "En"), ("c", "en-us"), ("\u{1f600}", "zxx")] { p.push(("flang", T::Lang(l.into(), t.into()))) }
    for l in ["en", "EN", "en-US", "fr", "de-CH-1996", "", "x", "en-", "1en", "e n", "zh-Hant", "-en", "e\u{301}"] { p.push(("ftag", lit(l, "string"))) }
    for l in ["*", "en", "EN", "en-us", "fr", "", "en-", "*-x", "de-ch", "e", "en-US-x"] { p.push(("frange", lit(l, "string"))) }
    for l in ["http://x/a", "tag:x", "urn:x:\u{e9}", "mailto:a@b", "http://x/%41", "HTTP://X/A#f"] { p.push(("firi-abs", lit(l, "string"))) }
    for l in ["a", "../rel", "#frag", "//host/p", "?q", "", "a/b"] { p.push(("firi-rel", lit(l, "string"))) }
    for l in ["http://x/ y", "http://x/%zz", "http://x/<a>", "a b", "http://x/a|b", "a\\b", "%", "http://x/\u{7f}"] { p.push(("firi-bad", lit(l, "string"))) }
    for l in ["", "a", "b", "bc", "abc", "c", "\u{e9}", "\u{1f600}", "\u{df}", "x", "A", "ab", "ca", "\u{301}", " "] { p.push(("fneedle", lit(l, "string"))) }
    for l in ["", "abc", "A-Z_a.z~0", "x-y_z.~"] { p.push(("funres", lit(l, "string"))) }
    for l in ["3.0", "-3.0", "2.5", "0.5", "-0.5", "-2.5", "3.5", "-3.5", "2.4", "2.6", "-2.4", "-2.6", "7.0", "-7.0", "123456789012345678901.5", "-0.0000001", "0.49", "0.51", "4.0"] { p.push(("fdec", lit(l, "decimal"))) }
    for l in ["-2.5e0", "-0.5e0", "0.5e0", "-1.5e0", "1.5e0", "-0.4e0", "0.49999999999999994e0", "4503599627370497e0", "3.5e0", "-3.5e0", "1e30", "-1e30", "1e300", "2.4e0", "-2.6e0", "4e0"] { p.push(("fdbl", lit(l, "double"))) }
    for l in ["-2.5", "-0.5", "2.5", "0.5", "8388609", "-1.5", "1e30", "0.3"] { p.push(("fflt", lit(l, "float"))) }
    for l in ["-5", "100", "2020", "4", "5", "12", "31", "23", "59", "60"] { p.push(("fint", lit(l, "integer"))) }
    for d in ["double", "string", "integer"] { p.push(("fdatatype", T::Iri(x(d)))) }
    p
}
const FIRST_FN_CLASS: &str = "fascii";
/// inline constants must be writable in a query and survive spargebra unchanged (it lower-cases language tags)
fn inlinable(t: &T) -> bool { match t { T::Iri(_) | T::Lit(..) => true, T::Lang(_, tag) => *tag == tag.to_ascii_lowercase(), _ => false } }

struct Gen<'a> { r: Rng, pool: &'a [(&'static str, T)], classes: &'a [(&'static str, Vec<usize>)] }
impl<'a> Gen<'a> {
    fn of_class(&mut self, c: &str) -> usize { let v = &self.classes.iter().find(|(n, _)| *n == c).unwrap().1; *self.r.pick(v) }
    fn any_term(&mut self) -> usize { let c = self.r.below(self.classes.len()); *self.r.pick(&self.classes[c].1) }
    /// a leaf standing for pool term i: bind it to a variable, or write it inline
    fn leaf_for(&mut self, i: usize, mu: &mut [Option<usize>; 4]) -> E {
        if inlinable(&self.pool[i].1) && self.r.chance(1, 3) { return E::Const(i) }
        for v in 0..3 { if mu[v] == Some(i) { return E::Var(v) } }
        for v in 0..3 { if mu[v].is_none() { mu[v] = Some(i); return E::Var(v) } }
        if inlinable(&self.pool[i].1) { E::Const(i) } else { E::Var(self.r.below(3)) }
    }
    fn leaf(&mut self, mu: &mut [Option<usize>; 4]) -> E {
        match self.r.below(20) { 0 => E::Var(3), 1 => E::Bound(self.r.below(4)), 2..=5 if mu.iter().any(|m| m.is_some()) => { let vs: Vec<usize> = (0..3).filter(|v| mu[*v].is_some()).collect(); E::Var(*self.r.pick(&vs)) } _ => { let i = self.any_term(); self.leaf_for(i, mu) } }
    }
    fn tree(&mut self, depth: usize, mu: &mut [Option<usize>; 4]) -> E {
        if depth == 0 || self.r.chance(1, 6) { return self.leaf(mu) }
        let d = depth - 1;
        match self.r.below(30) {
            0..=11 => { let o = *self.r.pick(&[B2::Or, B2::And, B2::Eq, B2::Eq, B2::SameTerm, B2::Gt, B2::Ge, B2::Lt, B2::Le, B2::Add, B2::Sub, B2::Mul, B2::Div]); bin(o, self.tree(d, mu), self.tree(d, mu)) }
            12..=14 => E::Not(bx(self.tree(d, mu))),
            15..=16 => { let n = self.r.below(4); E::In(bx(self.tree(d, mu)), (0..n).map(|_| self.tree(d.min(1), mu)).collect()) }
            17 => E::Plus(bx(self.tree(d, mu))), 18..=19 => E::Minus(bx(self.tree(d, mu))),
            20..=22 => E::If(bx(self.tree(d, mu)), bx(self.tree(d, mu)), bx(self.tree(d, mu))),
            23..=24 => { let n = self.r.below(4); E::Coalesce((0..n).map(|_| self.tree(d, mu)).collect()) }
            _ => { let f = *self.r.pick(&[F1::Str, F1::Lang, F1::Datatype, F1::IsIri, F1::IsBlank, F1::IsLiteral, F1::IsNumeric]); E::Fn(f, bx(self.tree(d, mu))) }
        }
    }
}

// ------------------------------------------------------------------------------------------
// function calls (sparql/src/function.rs): expressions over the operators above plus calls
// ------------------------------------------------------------------------------------------
#[derive(Clone, Copy, Debug, PartialEq, Eq)]
enum Fu { Str, Lang, LangMatches, Datatype, Iri, BNode, Rand, Abs, Ceil, Floor, Round, Concat, SubStr, StrLen, Replace, UCase, LCase, EncodeForUri, Contains, StrStarts, StrEnds, StrBefore, StrAfter,
    Year, Month, Day, Hours, Minutes, Seconds, Timezone, Tz, Now, Uuid, StrUuid, Md5, Sha1, Sha256, Sha384, Sha512, StrLang, StrDt, IsIri, IsBlank, IsLiteral, IsNumeric, Regex, Triple, Subject, Predicate, Object, IsTriple, Custom }
const IMPLEMENTED: [Fu; 34] = [Fu::IsTriple, Fu::Str, Fu::Lang, Fu::LangMatches, Fu::Datatype, Fu::Iri, Fu::BNode, Fu::Rand, Fu::Abs, Fu::Ceil, Fu::Floor, Fu::Round, Fu::Concat, Fu::SubStr, Fu::StrLen, Fu::UCase, Fu::LCase, Fu::EncodeForUri,
    Fu::Contains, Fu::StrStarts, Fu::StrEnds, Fu::StrBefore, Fu::StrAfter, Fu::Year, Fu::Month, Fu::Day, Fu::Hours, Fu::Minutes, Fu::Seconds, Fu::IsIri, Fu::IsBlank, Fu::IsLiteral, Fu::IsNumeric, Fu::Triple];
const UNIMPLEMENTED: [Fu; 18] = [Fu::Replace, Fu::Regex, Fu::StrLang, Fu::StrDt, Fu::Timezone, Fu::Tz, Fu::Now, Fu::Uuid, Fu::StrUuid, Fu::Md5, Fu::Sha1, Fu::Sha256, Fu::Sha384, Fu::Sha512, Fu::Subject, Fu::Predicate, Fu::Object, Fu::Custom];
impl Fu {
    fn sparql(self) -> &'static str {
        match self { Fu::Str => "STR", Fu::Lang => "LANG", Fu::LangMatches => "LANGMATCHES", Fu::Datatype => "DATATYPE", Fu::Iri => "IRI", Fu::BNode => "BNODE", Fu::Rand => "RAND", Fu::Abs => "ABS", Fu::Ceil => "CEIL", Fu::Floor => "FLOOR", Fu::Round => "ROUND",
            Fu::Concat => "CONCAT", Fu::SubStr => "SUBSTR", Fu::StrLen => "STRLEN", Fu::Replace => "REPLACE", Fu::UCase => "UCASE", Fu::LCase => "LCASE", Fu::EncodeForUri => "ENCODE_FOR_URI", Fu::Contains => "CONTAINS", Fu::StrStarts => "STRSTARTS", Fu::StrEnds => "STRENDS",
            Fu::StrBefore => "STRBEFORE", Fu::StrAfter => "STRAFTER", Fu::Year => "YEAR", Fu::Month => "MONTH", Fu::Day => "DAY", Fu::Hours => "HOURS", Fu::Minutes => "MINUTES", Fu::Seconds => "SECONDS", Fu::Timezone => "TIMEZONE", Fu::Tz => "TZ", Fu::Now => "NOW",
            Fu::Uuid => "UUID", Fu::StrUuid => "STRUUID", Fu::Md5 => "MD5", Fu::Sha1 => "SHA1", Fu::Sha256 => "SHA256", Fu::Sha384 => "SHA384", Fu::Sha512 => "SHA512", Fu::StrLang => "STRLANG", Fu::StrDt => "STRDT", Fu::IsIri => "isIRI", Fu::IsBlank => "isBLANK",
            Fu::IsLiteral => "isLITERAL", Fu::IsNumeric => "isNUMERIC", Fu::Regex => "REGEX", Fu::Triple => "TRIPLE", Fu::Subject => "SUBJECT", Fu::Predicate => "PREDICATE", Fu::Object => "OBJECT", Fu::IsTriple => "isTRIPLE",
            Fu::Custom => "<http://www.w3.org/2001/XMLSchema#integer>" }
    }
    /// the name used in the known-finding class FUNC-NOT-IMPLEMENTED-SILENT(<NAME>)
    fn kf_name(self) -> String { if self == Fu::Custom { "CUSTOM".into() } else { self.sparql().to_ascii_uppercase() } }
    fn coq(self) -> String { if self == Fu::Custom { format!("(FnCustom {})", coq_str(&x("integer"))) } else { format!("Fn{self:?}") } }
}
#[derive(Clone, Debug)]
enum FE { E(E), Call(Fu, Vec<FE>), Not(Box<FE>), Bin(B2, Box<FE>, Box<FE>), If(Box<FE>, Box<FE>, Box<FE>), Coalesce(Vec<FE>) }
fn fb(e: FE) -> Box<FE> { Box::new(e) }
fn fbin(o: B2, a: FE, b: FE) -> FE { FE::Bin(o, fb(a), fb(b)) }
fn call(f: Fu, args: Vec<FE>) -> FE { FE::Call(f, args) }
fn fand(v: Vec<FE>) -> FE { let mut it = v.into_iter(); let first = it.next().unwrap(); it.fold(first, |acc, e| fbin(B2::And, acc, e)) }
impl FE {
    fn sparql(&self, pool: &[T], r: &mut Rng) -> String {
        match self {
            FE::E(e) => e.sparql(pool, r),
            FE::Call(f, args) => format!("{}({})", f.sparql(), args.iter().map(|a| a.sparql(pool, r)).collect::<Vec<_>>().join(", ")),
            FE::Not(a) => format!("(!({}))", a.sparql(pool, r)),
            FE::Bin(o, a, b) => { let (a, b) = (a.sparql(pool, r), b.sparql(pool, r));
                match o { B2::SameTerm => format!("sameTerm({a}, {b})"), _ => format!("({a} {} {b})", match o { B2::Or => "||", B2::And => "&&", B2::Eq => "=", B2::Gt => ">", B2::Ge => ">=", B2::Lt => "<", B2::Le => "<=", B2::Add => "+", B2::Sub => "-", B2::Mul => "*", B2::Div => "/", B2::SameTerm => unreachable!() }) } }
            FE::If(c, t, e) => format!("IF({}, {}, {})", c.sparql(pool, r), t.sparql(pool, r), e.sparql(pool, r)),
            FE::Coalesce(l) => format!("COALESCE({})", l.iter().map(|e| e.sparql(pool, r)).collect::<Vec<_>>().join(", ")),
        }
    }
    fn coq(&self) -> String {
        let l = |v: &Vec<FE>| coq_list(v.iter().map(|e| e.coq()));
        match self {
            FE::E(e) => format!("(XE {})", e.coq()),
            FE::Call(f, args) => format!("(XCall {} {})", f.coq(), l(args)),
            FE::Not(a) => format!("(XNot {})", a.coq()),
            FE::Bin(o, a, b) => { let (a, b) = (a.coq(), b.coq()); match o { B2::Or => format!("(XOr {a} {b})"), B2::And => format!("(XAnd {a} {b})"), B2::Eq => format!("(XEq {a} {b})"), B2::SameTerm => format!("(XSame {a} {b})"),
                B2::Gt => format!("(XCmp CGt {a} {b})"), B2::Ge => format!("(XCmp CGe {a} {b})"), B2::Lt => format!("(XCmp CLt {a} {b})"), B2::Le => format!("(XCmp CLe {a} {b})"),
                B2::Add => format!("(XAr AAdd {a} {b})"), B2::Sub => format!("(XAr ASub {a} {b})"), B2::Mul => format!("(XAr AMul {a} {b})"), B2::Div => format!("(XAr ADiv {a} {b})") } }
            FE::If(c, t, e) => format!("(XIf {} {} {})", c.coq(), t.coq(), e.coq()),
            FE::Coalesce(v) => format!("(XCoalesce {})", l(v)),
        }
    }
    fn calls(&self, out: &mut Vec<Fu>) {
        match self { FE::E(_) => {}, FE::Call(f, a) => { out.push(*f); a.iter().for_each(|e| e.calls(out)) }, FE::Not(a) => a.calls(out), FE::Bin(_, a, b) => { a.calls(out); b.calls(out) }
            FE::If(a, b, c) => { a.calls(out); b.calls(out); c.calls(out) }, FE::Coalesce(l) => l.iter().for_each(|e| e.calls(out)) }
    }
}
/// generator of (mostly well-typed) calls; leaves are pool terms bound through the BGP or written inline
struct FG<'a> { g: Gen<'a>, mu: [Option<usize>; 4] }
impl<'a> FG<'a> {
    fn t(&mut self, i: usize) -> FE { FE::E(self.g.leaf_for(i, &mut self.mu)) }
    fn c(&mut self, class: &str) -> FE { let i = self.g.of_class(class); self.t(i) }
    fn pc(&mut self, classes: &[&str]) -> FE { let c = *self.g.r.pick(classes); self.c(c) }
    fn any(&mut self) -> FE { if self.g.r.chance(1, 14) { FE::E(E::Var(3)) } else { let i = self.g.any_term(); self.t(i) } }
    fn s_leaf(&mut self) -> FE { self.pc(&["fascii", "fascii", "funi", "funi", "flang", "flang", "string", "lang", "fneedle"]) }
    fn n_leaf(&mut self) -> FE { self.pc(&["int", "int", "int", "decimal", "fdec", "fdbl", "fflt", "double", "double-special", "float", "int-boundary", "int-derived"]) }
    /// a string-valued argument
    fn s_arg(&mut self, d: usize) -> FE {
        if d == 0 || self.g.r.chance(3, 5) { return self.s_leaf() }
        let f = *self.g.r.pick(&[Fu::UCase, Fu::LCase, Fu::SubStr, Fu::Concat, Fu::Str, Fu::StrBefore, Fu::StrAfter, Fu::EncodeForUri, Fu::Lang]);
        if f == Fu::Str { let a = self.any(); call(Fu::Str, vec![a]) } else { self.typed(f, d - 1) }
    }
    /// a number-valued argument
    fn n_arg(&mut self, d: usize) -> FE {
        if d == 0 || self.g.r.chance(3, 4) { return self.n_leaf() }
        match self.g.r.below(4) { 0 => { let s = self.s_arg(d - 1); call(Fu::StrLen, vec![s]) } 1 => { let f = *self.g.r.pick(&[Fu::Abs, Fu::Ceil, Fu::Floor, Fu::Round]); self.typed(f, d - 1) }
            2 => { let (a, b) = (self.n_arg(d - 1), self.n_arg(d - 1)); let o = *self.g.r.pick(&[B2::Add, B2::Sub, B2::Mul]); fbin(o, a, b) } _ => { let c = self.c("dateTime"); let f = *self.g.r.pick(&[Fu::Year, Fu::Month, Fu::Day, Fu::Hours, Fu::Minutes, Fu::Seconds]); call(f, vec![c]) } }
    }
    /// a call of f with arguments of the kinds f is defined on
    fn typed(&mut self, f: Fu, d: usize) -> FE {
        use Fu::*;
        let args = match f {
            Str | Lang | Datatype | IsIri | IsBlank | IsLiteral | IsNumeric | IsTriple | Custom => vec![if d > 0 && self.g.r.chance(1, 3) { if self.g.r.chance(1, 2) { self.s_arg(d) } else { self.n_arg(d) } } else { self.any() }],
            LangMatches => { let t = if self.g.r.chance(1, 2) { let l = self.pc(&["flang", "lang", "fascii"]); call(Lang, vec![l]) } else { self.c("ftag") }; vec![t, self.c("frange")] }
            Iri => vec![self.pc(&["firi-abs", "firi-abs", "firi-rel", "firi-bad", "iri", "flang"])],
            BNode => if self.g.r.chance(1, 2) { vec![] } else { vec![self.s_arg(d)] },
            Rand | Now | Uuid | StrUuid => vec![],
            Abs | Ceil | Floor | Round => vec![self.n_arg(d)],
            Concat => { let n = self.g.r.below(4); (0..n).map(|_| self.s_arg(d)).collect() }
            SubStr => { let s = self.s_arg(d); let st = self.n_arg(d); if self.g.r.chance(1, 2) { vec![s, st] } else { let l = self.n_arg(d); vec![s, st, l] } }
            StrLen | UCase | LCase | EncodeForUri | Md5 | Sha1 | Sha256 | Sha384 | Sha512 => vec![self.s_arg(d)],
            Contains | StrStarts | StrEnds | StrBefore | StrAfter => { let h = self.s_arg(d); let n = if self.g.r.chance(2, 3) { self.c("fneedle") } else { self.s_arg(d) }; vec![h, n] }
            Year | Month | Day | Hours | Minutes | Seconds | Timezone | Tz => vec![self.pc(&["dateTime", "dateTime", "dateTime", "dateTime-ill"])],
            Triple => { let s = self.pc(&["iri", "bnode", "iri"]); let p = self.c("iri"); let o = self.any(); vec![s, p, o] }
            Subject | Predicate | Object => vec![self.c("triple")],
            Replace => vec![self.s_arg(d), self.c("fneedle"), self.c("fneedle")],
            Regex => vec![self.s_arg(d), self.c("fneedle")],
            StrLang => vec![self.c("fascii"), self.c("ftag")],
            StrDt => vec![self.c("fascii"), self.c("iri")],
        };
        call(f, args)
    }
}
/// COMPUTED numeric operands (the stream `computed-compare`): arithmetic whose intermediate results leave the isize range
/// and whose value falls back inside it (the engine keeps such a result in its big-integer representation), and sums,
/// differences, products and negations over every numeric type.  Returns the expression and, when it is known, a pool
/// term with the same integer value.
impl<'a> Gen<'a> {
    fn ix(&self, lex: &str) -> usize { self.pool.iter().position(|(_, t)| *t == lit(lex, "integer")).unwrap_or_else(|| panic!("not in the pool: {lex}")) }
    fn round_trip(&mut self, mu: &mut [Option<usize>; 4]) -> (E, Option<usize>) {
        let bigs = ["9223372036854775808", "-9223372036854775809", "99999999999999999999", "-99999999999999999999", "18446744073709551616", "-18446744073709551616", "100000000000000000000", "1000000000000000000000000000000", "-1000000000000000000000000000000", "9223372036854775807", "-9223372036854775808"];
        let smalls = ["0", "1", "2", "3", "10", "-1", "30", "-3", "4", "-5"];
        let bl = self.r.ps(&bigs); let b = self.ix(bl); let sl = self.r.ps(&smalls); let si = self.ix(sl);
        let neg_of = |me: &Self, l: &str| -> Option<usize> { let n = if l == "0" { "0".to_string() } else if let Some(r) = l.strip_prefix('-') { r.to_string() } else { format!("-{l}") }; me.pool.iter().position(|(_, t)| *t == lit(&n, "integer")) };
        let mut lf = |me: &mut Self, i: usize, mu: &mut [Option<usize>; 4]| me.leaf_for(i, mu);
        let zero = self.ix("0"); let one = self.ix("1"); let two = self.ix("2");
        let (max, min) = (self.ix("9223372036854775807"), self.ix("-9223372036854775808"));
        match self.r.below(16) {
            0 => (bin(B2::Sub, bin(B2::Add, lf(self, b, mu), lf(self, si, mu)), lf(self, b, mu)), Some(si)),
            1 => (bin(B2::Sub, bin(B2::Add, lf(self, si, mu), lf(self, b, mu)), lf(self, b, mu)), Some(si)),
            2 => (bin(B2::Add, bin(B2::Sub, lf(self, si, mu), lf(self, b, mu)), lf(self, b, mu)), Some(si)),
            3 => (bin(B2::Sub, bin(B2::Sub, lf(self, b, mu), lf(self, si, mu)), lf(self, b, mu)), neg_of(self, sl)),
            4 => (bin(B2::Mul, lf(self, b, mu), lf(self, zero, mu)), Some(zero)),
            5 => (bin(B2::Add, bin(B2::Mul, lf(self, zero, mu), lf(self, b, mu)), lf(self, si, mu)), Some(si)),
            6 => (bin(B2::Sub, lf(self, b, mu), lf(self, b, mu)), Some(zero)),
            7 => { let (x, y, d) = *self.r.pick(&[("9223372036854775808", "9223372036854775807", "1"), ("100000000000000000030", "100000000000000000000", "30"), ("9223372036854775837", "9223372036854775807", "30"), ("-9223372036854775809", "-9223372036854775808", "-1"), ("-9223372036854775838", "-9223372036854775808", "-30"), ("99999999999999999999", "100000000000000000000", "-1"), ("9223372036854775808", "9223372036854775806", "2")]);
                   let (x, y) = (self.ix(x), self.ix(y)); (bin(B2::Sub, lf(self, x, mu), lf(self, y, mu)), Some(self.ix(d))) }
            8 => (E::Minus(bx(E::Minus(bx(lf(self, min, mu))))), Some(min)),
            9 => (bin(B2::Sub, bin(B2::Add, lf(self, max, mu), lf(self, one, mu)), lf(self, one, mu)), Some(max)),
            10 => (bin(B2::Add, bin(B2::Sub, lf(self, min, mu), lf(self, one, mu)), lf(self, one, mu)), Some(min)),
            11 => (bin(B2::Add, E::Minus(bx(lf(self, b, mu))), lf(self, b, mu)), Some(zero)),
            12 => (bin(B2::Sub, bin(B2::Mul, lf(self, b, mu), lf(self, one, mu)), lf(self, b, mu)), Some(zero)),
            13 => (bin(B2::Sub, bin(B2::Add, lf(self, b, mu), lf(self, b, mu)), bin(B2::Mul, lf(self, b, mu), lf(self, two, mu))), Some(zero)),
            14 => { let (x, y, d) = *self.r.pick(&[("100000000000000000000", "-100000000000000000000", "0"), ("100000000000000000030", "-100000000000000000000", "30"), ("18446744073709551616", "-18446744073709551616", "0"), ("9223372036854775808", "-9223372036854775809", "-1"), ("99999999999999999999", "-99999999999999999999", "0")]);
                   let (x, y) = (self.ix(x), self.ix(y)); (if self.r.chance(1, 2) { bin(B2::Add, lf(self, x, mu), lf(self, y, mu)) } else { bin(B2::Add, lf(self, y, mu), lf(self, x, mu)) }, Some(self.ix(d))) }
            _ => (E::Plus(bx(bin(B2::Sub, bin(B2::Add, lf(self, b, mu), lf(self, si, mu)), lf(self, b, mu)))), Some(si)),
        }
    }
    /// a sum / difference / product / negation over leaves of every numeric type (possibly nested once)
    fn computed_num(&mut self, d: usize, mu: &mut [Option<usize>; 4]) -> E {
        if d > 0 && self.r.chance(1, 3) { return self.round_trip(mu).0 }
        let cs = ["int", "int", "int-round", "int-boundary", "int-far", "int-derived", "decimal", "decimal", "float", "double", "double", "float-special", "double-special"];
        let mut operand = |me: &mut Self, mu: &mut [Option<usize>; 4]| if d > 0 && me.r.chance(1, 4) { me.computed_num(d - 1, mu) } else { let c = *me.r.pick(&cs); let i = me.of_class(c); me.leaf_for(i, mu) };
        match self.r.below(8) {
            0 => E::Minus(bx(operand(self, mu))), 1 => E::Plus(bx(operand(self, mu))),
            k => { let op = [B2::Add, B2::Sub, B2::Mul, B2::Add, B2::Sub, B2::Div][k - 2]; let x = operand(self, mu); let y = if self.r.chance(1, 5) { x.clone() } else { operand(self, mu) }; bin(op, x, y) }
        }
    }
    /// every comparison operator (and IN / NOT IN / sameTerm) with computed operands on either side or on both
    fn computed_compare(&mut self, kind: usize, mu: &mut [Option<usize>; 4]) -> E {
        let cmp_ops = [B2::Eq, B2::Eq, B2::Lt, B2::Le, B2::Gt, B2::Ge, B2::SameTerm];
        match kind {
            0 | 1 => { // an integer that went beyond isize and came back, against an ordinary integer
                let (lhs, same) = self.round_trip(mu);
                let rhs = match self.r.below(20) {
                    0..=8 => match same { Some(i) => self.leaf_for(i, mu), None => { let i = self.of_class("int"); self.leaf_for(i, mu) } },
                    9..=12 => { let c = *self.r.pick(&["int", "int-round", "int-boundary", "int-derived"]); let i = self.of_class(c); self.leaf_for(i, mu) }
                    13..=15 => self.round_trip(mu).0,
                    16 | 17 => { let c = *self.r.pick(&["decimal", "double", "float"]); let i = self.of_class(c); self.leaf_for(i, mu) }
                    _ => self.computed_num(0, mu),
                };
                let (a, b) = if self.r.chance(1, 2) { (lhs, rhs) } else { (rhs, lhs) };
                match self.r.below(9) {
                    0..=6 => { let e = bin(cmp_ops[self.r.below(7)], a, b); if self.r.chance(1, 4) { E::Not(bx(e)) } else { e } }
                    7 => { let mut l = vec![b]; if self.r.chance(1, 2) { let i = self.of_class("int"); l.insert(0, self.leaf_for(i, mu)) } if self.r.chance(1, 3) { l.push(self.round_trip(mu).0) } E::In(bx(a), l) }
                    _ => { let mut l = vec![b]; if self.r.chance(1, 2) { let i = self.of_class("int-round"); l.push(self.leaf_for(i, mu)) } E::Not(bx(E::In(bx(a), l))) }
                }
            }
            2 => { // computed operands of every numeric type on both sides
                let a = self.computed_num(1, mu);
                let b = if self.r.chance(2, 3) { self.computed_num(1, mu) } else { let c = *self.r.pick(&["int", "int-boundary", "int-far", "decimal", "float", "double", "int-round"]); let i = self.of_class(c); self.leaf_for(i, mu) };
                let (a, b) = if self.r.chance(1, 2) { (a, b) } else { (b, a) };
                let e = bin(cmp_ops[self.r.below(7)], a, b); if self.r.chance(1, 4) { E::Not(bx(e)) } else { e }
            }
            _ => { // the comparison inside a larger expression: connectives, IF, COALESCE, IN with several computed members
                let c1 = { let k = self.r.below(2); self.computed_compare(k, mu) };
                match self.r.below(6) {
                    0 => { let c2 = self.computed_compare(2, mu); bin(*self.r.pick(&[B2::Or, B2::And]), c1, c2) }
                    1 => { let (t, f) = (self.round_trip(mu).0, self.computed_num(0, mu)); E::If(bx(c1), bx(t), bx(f)) }
                    2 => { let (x, same) = self.round_trip(mu); let y = match same { Some(i) => self.leaf_for(i, mu), None => self.round_trip(mu).0 }; bin(B2::Eq, E::If(bx(c1), bx(x), bx(y.clone())), y) }
                    3 => E::Coalesce(vec![bin(B2::Div, self.round_trip(mu).0, self.round_trip(mu).0), c1]),
                    4 => { let (x, _) = self.round_trip(mu); let l = (0..self.r.range(1, 3)).map(|_| self.round_trip(mu).0).collect(); E::In(bx(x), l) }
                    _ => { let (x, y) = (self.round_trip(mu).0, self.round_trip(mu).0); bin(*self.r.pick(&[B2::Lt, B2::Ge, B2::Eq]), bin(*self.r.pick(&[B2::Add, B2::Sub, B2::Mul]), x, y), c1) }
                }
            }
        }
    }
}
const BINOPS: [B2; 12] = [B2::Eq, B2::SameTerm, B2::Lt, B2::Le, B2::Gt, B2::Ge, B2::Add, B2::Sub, B2::Mul, B2::Div, B2::Or, B2::And];

fn main() {
    // panics of the engine are caught and reported per case; a panic of the harness itself is shown
    std::panic::set_hook(Box::new(|i| { if i.location().is_some_and(|l| l.file().ends_with("c13e.rs")) { eprintln!("harness panic: {i}") } }));
    let a = parse_args();
    let pool_l = pool();
    let pool_t: Vec<T> = pool_l.iter().map(|p| p.1.clone()).collect();
    let mut classes: Vec<(&'static str, Vec<usize>)> = vec![];
    for (i, (c, _)) in pool_l.iter().enumerate() { match classes.iter_mut().find(|(n, _)| n == c) { Some(e) => e.1.push(i), None => classes.push((c, vec![i])) } }
    let idx_of = |t: &T| pool_t.iter().position(|u| u == t).unwrap();
    let no_mu: [Option<usize>; 4] = [None; 4];
    if a.rest.iter().any(|s| s == "--probe") {
        use std::io::BufRead;
        for l in std::io::stdin().lock().lines() {
            let l = l.unwrap(); if l.trim().is_empty() { continue }
            let q = format!("PREFIX xsd: <http://www.w3.org/2001/XMLSchema#> SELECT ?r {{ BIND(({l}) AS ?r) }}");
            println!("{l}  ==>  {}", match run_engine(&LightDataset::new(), &q) { Obs::Bound(Some(t)) => t.show(), Obs::Bound(None) => "UNBOUND".into(), o => format!("{o:?}") });
        }
        return;
    }

    // --- which repairs does the engine under test contain?  (the model is run with the same switches)
    let probe = |text: &str| eval_engine(&pool_t, &no_mu, text).0;
    let xs = |l: &str, d: &str| lit(l, d).sparql();
    let bool_t = |b: bool| Obs::Bound(Some(lit(if b { "true" } else { "false" }, "boolean")));
    let cfg = [
        probe("IF(<tag:x>, 1, 2)") == Obs::Bound(None),
        probe(&format!("({} = {})", xs("foo", "boolean"), xs("bar", "boolean"))) == Obs::Bound(None),
        probe(&format!("(!({}))", xs("NaN", "float"))) == bool_t(true),
        probe(&format!("(!({}))", xs("abc", "integer"))) == bool_t(true),
        probe(&format!("({} < 1)", xs("NaN", "double"))) == bool_t(false),
        probe(&format!("({} + 0)", xs("1_0", "integer"))) == Obs::Bound(None) && probe(&format!("({} + 0)", xs(".-5", "decimal"))) == Obs::Bound(None) && probe(&format!("({} + 0)", xs("inf", "double"))) == Obs::Bound(None),
        probe("(0.0000001 * 1.0)") == Obs::Bound(Some(lit("0.0000001", "decimal"))),
        probe(&format!("({} + 0)", xs("-0", "unsignedByte"))) == Obs::Bound(Some(lit("0", "integer"))),
    ];
    let dt_panics = matches!(probe(&format!("({} = 1)", xs("99999999999-01-01T00:00:00", "dateTime"))), Obs::Panic(_));
    let mut header = String::from("From Sophia.C13 Require Import ExprConcrete FuncConcrete.\n");
    header.push_str(&format!("Definition the_cfg : cfg := mkCfg {}.\n", cfg.iter().map(|b| coq_bool(*b)).collect::<Vec<_>>().join(" ")));
    for (i, t) in pool_t.iter().enumerate() { header.push_str(&format!("Definition t{i} : term := {}.\n", t.coq())); }
    header.push_str("Definition ck := expr_ok XC the_cfg.\n");
    header.push_str("Definition fk (e : fexpr) (mu : amap) (lbl rnd : str) (obs : qres) : bool := fexpr_ok XC YC the_cfg (lbl, d_rust XC rnd) e mu obs.\n");
    header.push_str("Definition fr (e : fexpr) (rows : list (amap * bool)) : bool := frows_ok XC YC the_cfg ([], d_rust XC [53; 101; 45; 49]) e rows.\n");

    let mut sum = Summary::default();
    sum.rule = "case = (expression tree of depth <= 4 over a pool of ~190 terms covering every value class, well- and ill-formed; <= 3 variables bound through a BGP, one unbound, inline constants); streams: random trees / every binary operator x every pair of value classes / unary operators, functions and boolean contexts x every class / near-boundary integer arithmetic / the known deviations / comparisons (= != < <= > >= IN NOT IN sameTerm, alone and inside connectives, IF, COALESCE) whose operands are COMPUTED: sums, differences, products, negations over every numeric type, and integers that leave the isize range and come back (+-2^63, +-2^64, 10^20, 10^30), also as SELECT expressions; non-trivial = the expression has an operator (not a bare leaf); distinct = distinct (expression text, solution).  Function calls (ids >= 2000000): 34 implemented functions x 51 term classes x argument positions / random nested calls / SUBSTR boundaries / 14 laws evaluated by the engine / 12 laws over ABS CEIL FLOOR ROUND STR SUBSTR ... of computed integers back in the isize range / 18 functions without implementation / multi-row FILTER through prepare_query / regression queries; every such case calls at least one function".into();
    sum.extra.push(("engine_repairs".into(), format!("{{\"C13e-1\": {}, \"C13e-2\": {}, \"C13e-3\": {}, \"C13e-4\": {}, \"C13e-5\": {}, \"C13e-6\": {}, \"C13e-7\": {}, \"C13e-8\": {}, \"C13e-9\": {}}}", cfg[0], cfg[1], cfg[2], cfg[3], cfg[4], cfg[5], cfg[6], !dt_panics, cfg[7])));
    if dt_panics {
        sum.oracle_failures.push(("probe".into(), format!("PANIC-DATETIME-YEAR: the query  SELECT ?r {{ BIND(({} = 1) AS ?r) }}  panics (XsdDateTime::new unwraps the i32 parse of a year that the regex does not bound); expected: the literal is ill-formed, '=' raises a type error, ?r unbound", xs("99999999999-01-01T00:00:00", "dateTime"))));
    }

    let all_classes = classes.clone();
    classes.truncate(classes.iter().position(|(n, _)| *n == FIRST_FN_CLASS).unwrap()); // the operator streams keep their pool
    let nc = classes.len();
    let base = Rng::new(a.seed);
    let mut cases = vec![]; let mut seen = HashSet::new();
    // the witnesses of the Coq `..._refuted` Examples (ExprProofs.v), replayed verbatim: case ids 1000000 + j
    const WBASE: usize = 1_000_000;
    let k_ = |l: &str, d: &str| E::Const(idx_of(&lit(l, d)));
    let witnesses: Vec<E> = vec![
        E::If(bx(E::Const(idx_of(&T::Iri("tag:x".into())))), bx(k_("1", "integer")), bx(k_("2", "integer"))),
        E::Not(bx(bin(B2::Eq, k_("foo", "boolean"), k_("true", "boolean")))),
        bin(B2::Eq, k_("foo", "dateTime"), k_("bar", "dateTime")),
        E::Not(bx(k_("NaN", "float"))),
        E::Not(bx(k_("abc", "integer"))),
        E::Not(bx(bin(B2::Lt, k_("NaN", "double"), k_("1", "integer")))),
        bin(B2::Add, k_("1_0", "integer"), k_("0", "integer")),
        bin(B2::Add, k_(".-5", "decimal"), k_("0", "integer")),
        bin(B2::Eq, k_("inf", "double"), k_("INF", "double")),
        bin(B2::Mul, k_("0.0000001", "decimal"), k_("1.0", "decimal")),
        bin(B2::Add, k_("-0", "unsignedByte"), k_("1", "integer")),
        E::In(bx(k_("2", "integer")), vec![bin(B2::Div, k_("1", "integer"), k_("0", "integer")), k_("2", "integer")]),
        bin(B2::Div, k_("1e0", "double"), k_("0e0", "double")),
        // a consequence of INF-OUTPUT found by the thorough tier: the computed INF is the TERM "inf"^^xsd:float, the same term as
        // this ill-formed literal, so RDFterm-equal (17.4.1.7) answers true where the specification raises a type error
        E::Coalesce(vec![E::Fn(F1::Str, bx(E::In(bx(bin(B2::Mul, k_("INF", "float"), k_("INF", "float"))), vec![E::Coalesce(vec![k_("inf", "float"), k_("0x1", "float")])]))), k_("0x1", "float")]),
        bin(B2::SameTerm, bin(B2::Mul, k_("INF", "double"), k_("1e0", "double")), k_("inf", "double")),
    ];
    // comparisons over COMPUTED operands (case ids 500000 + j) and the directed ones among them (600000 + j)
    const CBASE: usize = 500_000;
    const DBASE: usize = 600_000;
    let n_computed = a.n / 3;
    let i_ = |l: &str| k_(l, "integer");
    let big30 = || bin(B2::Sub, i_("100000000000000000030"), i_("100000000000000000000"));   // 30, computed beyond isize
    let big0 = || bin(B2::Mul, i_("100000000000000000000"), i_("0"));                            // 0
    let sum0 = || bin(B2::Add, i_("100000000000000000000"), i_("-100000000000000000000"));      // 0
    let max_rt = || bin(B2::Sub, bin(B2::Add, i_("9223372036854775807"), i_("1")), i_("1"));    // isize::MAX
    let min_rt = || E::Minus(bx(E::Minus(bx(i_("-9223372036854775808")))));                     // isize::MIN
    let ne = |a: E, b: E| E::Not(bx(bin(B2::Eq, a, b)));
    let directed_computed: Vec<E> = vec![
        // a difference / sum / product of integers beyond isize that is an ordinary integer again, on either side of every operator
        bin(B2::Eq, big30(), i_("30")), bin(B2::Eq, i_("30"), big30()), ne(big30(), i_("30")), ne(i_("30"), big30()), ne(big30(), i_("29")),
        bin(B2::Lt, big30(), i_("31")), bin(B2::Lt, i_("29"), big30()), bin(B2::Lt, i_("31"), big30()), bin(B2::Le, big30(), i_("30")), bin(B2::Le, i_("31"), big30()),
        bin(B2::Gt, big30(), i_("29")), bin(B2::Gt, i_("31"), big30()), bin(B2::Gt, big30(), i_("31")), bin(B2::Ge, big30(), i_("30")), bin(B2::Ge, i_("30"), big30()), bin(B2::Ge, i_("29"), big30()),
        E::In(bx(i_("30")), vec![big30()]), E::In(bx(big30()), vec![i_("29"), i_("30")]), E::Not(bx(E::In(bx(i_("30")), vec![big30()]))), E::Not(bx(E::In(bx(big30()), vec![i_("29"), i_("31")]))),
        bin(B2::SameTerm, big30(), i_("30")), bin(B2::SameTerm, i_("30"), big30()),
        bin(B2::Eq, big0(), i_("0")), bin(B2::Lt, i_("0"), big0()), bin(B2::Lt, big0(), i_("1")), bin(B2::Gt, big0(), i_("-1")), bin(B2::Le, i_("1"), big0()),
        bin(B2::Lt, sum0(), i_("1")), bin(B2::Ge, sum0(), i_("0")), bin(B2::Eq, i_("0"), sum0()), bin(B2::Gt, bin(B2::Add, i_("-100000000000000000000"), i_("100000000000000000030")), i_("30")),
        bin(B2::Eq, max_rt(), i_("9223372036854775807")), bin(B2::Gt, max_rt(), i_("9223372036854775806")), bin(B2::Lt, i_("9223372036854775806"), max_rt()), bin(B2::Le, max_rt(), i_("9223372036854775806")),
        bin(B2::Eq, min_rt(), i_("-9223372036854775808")), bin(B2::Lt, min_rt(), i_("0")), bin(B2::Lt, i_("-9223372036854775808"), min_rt()), bin(B2::Ge, i_("-9223372036854775808"), min_rt()),
        bin(B2::Le, bin(B2::Add, bin(B2::Sub, i_("-9223372036854775808"), i_("1")), i_("1")), i_("-9223372036854775808")),
        // computed on both sides
        bin(B2::Eq, bin(B2::Sub, i_("18446744073709551616"), i_("18446744073709551616")), bin(B2::Sub, i_("1000000000000000000000000000000"), i_("1000000000000000000000000000000"))),
        bin(B2::Lt, bin(B2::Sub, i_("18446744073709551616"), i_("18446744073709551616")), bin(B2::Sub, i_("9223372036854775808"), i_("9223372036854775807"))),
        bin(B2::Eq, big30(), bin(B2::Add, i_("29"), i_("1"))), bin(B2::Lt, bin(B2::Add, i_("29"), i_("2")), big30()), bin(B2::Eq, bin(B2::Sub, big30(), i_("30")), big0()),
        // against decimals and doubles, and computed decimals / doubles
        bin(B2::Eq, big30(), k_("30.0", "decimal")), bin(B2::Lt, big30(), k_("30.5", "decimal")), bin(B2::Eq, big30(), k_("3e1", "double")), bin(B2::Lt, k_("29.5", "decimal"), big30()),
        bin(B2::Gt, bin(B2::Add, big30(), k_("0.5", "decimal")), i_("30")), bin(B2::Lt, bin(B2::Sub, bin(B2::Add, i_("100000000000000000000"), k_("0.5", "decimal")), i_("100000000000000000000")), i_("1")),
        bin(B2::Eq, bin(B2::Sub, bin(B2::Add, k_("1e30", "double"), k_("1e0", "double")), k_("1e30", "double")), i_("0")), bin(B2::Lt, bin(B2::Mul, big30(), k_("1e0", "double")), k_("30.5", "decimal")),
        // inside larger expressions
        bin(B2::Eq, E::If(bx(bin(B2::Eq, big30(), i_("30"))), bx(i_("1")), bx(i_("2"))), i_("1")), bin(B2::And, bin(B2::Eq, big30(), i_("30")), bin(B2::Eq, big0(), i_("0"))),
        bin(B2::Or, bin(B2::Lt, big30(), i_("30")), bin(B2::Gt, big30(), i_("30"))), E::Coalesce(vec![bin(B2::Div, big0(), big0()), bin(B2::Eq, big0(), i_("0"))]),
        E::Fn(F1::Str, bx(bin(B2::Eq, big30(), i_("30")))), bin(B2::Eq, E::Fn(F1::Str, bx(big30())), k_("1", "string")),
    ];
    let range: Vec<usize> = match a.only { Some(i) => vec![i], None => (0..a.n).chain(CBASE..CBASE + n_computed).chain(DBASE..DBASE + directed_computed.len()).chain(WBASE..WBASE + witnesses.len()).collect() };
    let mut explained: BTreeMap<String, u64> = BTreeMap::new();
    for idx in range {
        let mut g = Gen { r: base.fork(idx as u64), pool: &pool_l, classes: &classes };
        let mut mu: [Option<usize>; 4] = [None; 4];
        let k = idx / 5;
        let (stream, e) = if idx >= WBASE { if idx - WBASE >= witnesses.len() { continue } ("witness", witnesses[idx - WBASE].clone()) }
            else if idx >= DBASE { if idx - DBASE >= directed_computed.len() { continue } ("computed-compare-directed", directed_computed[idx - DBASE].clone()) }
            else if idx >= CBASE { let kind = (idx - CBASE) % 4; ("computed-compare", g.computed_compare(kind, &mut mu)) }
            else { match idx % 5 {
            0 | 1 => { let d = g.r.range(1, 4); ("random", g.tree(d, &mut mu)) }
            2 => { // every binary operator x every ordered pair of classes
                let op = BINOPS[k % 12]; let pair = (k / 12) % (nc * nc);
                let (c1, c2) = (classes[pair / nc].0, classes[pair % nc].0);
                let (i, j) = (g.of_class(c1), g.of_class(c2));
                let (x, y) = (g.leaf_for(i, &mut mu), g.leaf_for(j, &mut mu));
                ("binop-x-classes", bin(op, x, y))
            }
            3 => { // unary contexts x every class
                let ctx = k % 14; let c = classes[(k / 14) % nc].0; let i = g.of_class(c); let x = g.leaf_for(i, &mut mu);
                let one = E::Const(idx_of(&lit("1", "integer"))); let two = E::Const(idx_of(&lit("2", "integer")));
                ("context-x-class", match ctx {
                    0 => x, 1 => E::Not(bx(x)), 2 => E::Plus(bx(x)), 3 => E::Minus(bx(x)), 4 => E::If(bx(x), bx(one), bx(two)),
                    5 => bin(B2::Or, x, E::Const(idx_of(&lit("false", "boolean")))), 6 => bin(B2::And, x, E::Const(idx_of(&lit("true", "boolean")))),
                    7 => E::Fn(F1::Str, bx(x)), 8 => E::Fn(F1::Lang, bx(x)), 9 => E::Fn(F1::Datatype, bx(x)), 10 => E::Fn(F1::IsNumeric, bx(x)),
                    11 => E::Fn(*g.r.pick(&[F1::IsIri, F1::IsBlank, F1::IsLiteral]), bx(x)), 12 => E::Coalesce(vec![x, one]), _ => E::Not(bx(E::Not(bx(x)))),
                })
            }
            _ => if k % 2 == 0 { // near-boundary integer arithmetic and promotions
                let cs = ["int-boundary", "int-boundary", "int", "int-derived", "decimal", "float", "double"];
                let (ci, cj) = (cs[g.r.below(4)], cs[g.r.below(7)]); let (i, j) = (g.of_class(ci), g.of_class(cj));
                let (x, y) = (g.leaf_for(i, &mut mu), g.leaf_for(j, &mut mu));
                let op = *g.r.pick(&[B2::Add, B2::Sub, B2::Mul, B2::Div, B2::Eq, B2::Lt]);
                let e = bin(op, if g.r.chance(1, 3) { E::Minus(bx(x)) } else { x }, y);
                ("int-boundary", if g.r.chance(1, 3) { let z = g.of_class("int-boundary"); let z = g.leaf_for(z, &mut mu); bin(*g.r.pick(&[B2::Add, B2::Sub, B2::Mul]), e, z) } else { e })
            } else { // the candidate deviations, with varying operands
                let t = |g: &mut Gen, c: &str, mu: &mut [Option<usize>; 4]| { let i = g.of_class(c); g.leaf_for(i, mu) };
                let one = E::Const(idx_of(&lit("1", "integer"))); let zero = E::Const(idx_of(&lit("0", "integer")));
                let err = bin(B2::Div, one.clone(), zero.clone());
                ("deviations", match (k / 2) % 12 {
                    0 => { let c = *g.r.pick(&["iri", "bnode", "dateTime", "other-literal", "int-ill", "triple"]); E::If(bx(t(&mut g, c, &mut mu)), bx(one), bx(zero)) }
                    1 => { let x = t(&mut g, "int", &mut mu); let mut l = vec![err.clone(), x.clone()]; if g.r.chance(1, 2) { l.reverse() } if g.r.chance(1, 2) { l.insert(0, t(&mut g, "int", &mut mu)) } let e = E::In(bx(x), l); if g.r.chance(1, 2) { E::Not(bx(e)) } else { e } }
                    2 => { let c = *g.r.pick(&["boolean-ill", "dateTime-ill"]); let o = *g.r.pick(&[c, c, "boolean", "dateTime"]); let e = bin(B2::Eq, t(&mut g, c, &mut mu), t(&mut g, o, &mut mu)); if g.r.chance(1, 2) { E::Not(bx(e)) } else { e } }
                    3 => { let x = t(&mut g, "float-special", &mut mu); match g.r.below(3) { 0 => E::Not(bx(x)), 1 => E::If(bx(x), bx(one), bx(zero)), _ => bin(B2::Or, x, zero) } }
                    4 => { let c = *g.r.pick(&["int-ill", "decimal-ill", "float-ill", "double-ill", "int-derived-ill"]); let x = t(&mut g, c, &mut mu); match g.r.below(3) { 0 => E::Not(bx(x)), 1 => bin(B2::Or, x, one), _ => bin(B2::And, x, one) } }
                    5 => { let c = *g.r.pick(&["float-special", "double-special"]); let o = *g.r.pick(&["int", "decimal", "float", "double", "double-special"]); let op = *g.r.pick(&[B2::Lt, B2::Le, B2::Gt, B2::Ge]); let (x, y) = (t(&mut g, c, &mut mu), t(&mut g, o, &mut mu)); let e = if g.r.chance(1, 2) { bin(op, x, y) } else { bin(op, y, x) }; if g.r.chance(1, 2) { E::Not(bx(e)) } else { e } }
                    6 => { let c = *g.r.pick(&["int-ill", "decimal-ill", "float-ill", "double-ill", "int-derived-ill"]); let x = t(&mut g, c, &mut mu); match g.r.below(4) { 0 => bin(B2::Add, x, zero), 1 => E::Fn(F1::IsNumeric, bx(x)), 2 => bin(B2::Eq, x, one), _ => E::Plus(bx(x)) } }
                    7 => { let x = t(&mut g, "decimal", &mut mu); let y = t(&mut g, "decimal", &mut mu); bin(*g.r.pick(&[B2::Mul, B2::Mul, B2::Div, B2::Sub]), x, y) }
                    8 => { let c = *g.r.pick(&["float", "double", "float-special", "double-special", "int"]); let x = t(&mut g, c, &mut mu); let y = t(&mut g, "double", &mut mu); bin(*g.r.pick(&[B2::Div, B2::Mul]), x, bin(B2::Sub, y.clone(), y)) }
                    9 => { let x = t(&mut g, "unsigned-minus-zero", &mut mu); match g.r.below(3) { 0 => bin(B2::Add, x, one), 1 => E::Fn(F1::IsNumeric, bx(x)), _ => E::Not(bx(x)) } }
                    10 => { let (x, y) = (t(&mut g, "lang", &mut mu), t(&mut g, "lang", &mut mu)); bin(*g.r.pick(&[B2::Eq, B2::Lt, B2::Le, B2::Gt, B2::Ge, B2::SameTerm]), x, y) }
                    _ => { let c = *g.r.pick(&["other-literal", "int-ill", "boolean-ill", "dateTime-ill"]); let x = t(&mut g, c, &mut mu); bin(*g.r.pick(&[B2::Le, B2::Ge, B2::Lt, B2::Eq]), x.clone(), x) }
                })
            },
        } };
        let mu_drawn = mu;
        one_spelling_mu(&pool_t, &mut vec![], &mut mu, 0);
        if mu != mu_drawn { sum.bump("dataset:two-spellings-of-one-literal-drawn (one kept)") }
        let mut pr = g.r.fork(77);
        let text = e.sparql(&pool_t, &mut pr);
        let (o1, o2, q1) = eval_engine(&pool_t, &mu, &text);
        let mu_show: Vec<String> = (0..3).filter_map(|v| mu[v].map(|i| format!("?{}={}", VARS[v], pool_t[i].show()))).collect();
        let descr = format!("{} with {{{}}}", text.replace(XSD, "xsd:"), mu_show.join(", "));
        if stream.starts_with("computed-compare") {
            // the same expression as a SELECT expression: it must produce what BIND produces
            let (d, bgp) = dataset_for(&pool_t, &mu);
            let o3 = run_engine(&d, &format!("SELECT ({text} AS ?r) {{ {bgp} }}"));
            if o3 != o1 { sum.oracle_failures.push((idx.to_string(), format!("SELECT-EXPRESSION-DIFFERS: {descr}: BIND gives {o1:?}, the SELECT expression gives {o3:?}"))); }
        }
        sum.evaluations += 1;
        sum.bump(&format!("stream:{stream}"));
        let (bound, kept) = match (&o1, &o2) {
            (Obs::Bound(b), Obs::Kept(k)) => (b.clone(), *k),
            _ => {
                let cls = if matches!(o1, Obs::Panic(_)) || matches!(o2, Obs::Panic(_)) { "PANIC" } else if matches!(o1, Obs::Parse(_)) { "HARNESS-PARSE" } else { "ENGINE-ERROR" };
                sum.oracle_failures.push((idx.to_string(), format!("{cls}: {descr}: BIND query gave {o1:?}, FILTER query gave {o2:?}")));
                sum.bump("result:no-answer");
                if a.only.is_some() { println!("CASE {idx} [{stream}]: {q1}\n  => {o1:?} / {o2:?}"); }
                continue;
            }
        };
        // oracle
        let spec = eval(&e, &pool_t, &mu, &Dv::default());
        let verdict = agrees(&spec, &bound, kept, &Dv::default());
        let show_b = |b: &Option<T>| b.as_ref().map(|t| t.show()).unwrap_or("unbound".into());
        match verdict {
            None => sum.bump("oracle:cannot-tell"),
            Some(true) => sum.bump("oracle:agrees"),
            Some(false) => {
                // which known deviations (among those the engine under test still has) explain the answer?  smallest set first
                let present: u32 = (0..7).filter(|i| !cfg[*i as usize]).map(|i| 1u32 << i).sum::<u32>() | (1 << 7) | (1 << 8) | if cfg[7] { 0 } else { 1 << 9 };
                let mut masks: Vec<u32> = (1..1024u32).filter(|m| m & !present == 0).collect(); masks.sort_by_key(|m| m.count_ones());
                let verdicts: Vec<(u32, Option<bool>)> = masks.iter().map(|m| { let dv = dv_of(*m); (*m, agrees(&eval(&e, &pool_t, &mu, &dv), &bound, kept, &dv)) }).collect();
                let name = |m: u32| (0..10).filter(|i| m & (1 << i) != 0).map(|i| DV_NAMES[i]).collect::<Vec<_>>().join("+");
                let cls = match verdicts.iter().find(|(_, v)| *v == Some(true)) {
                    Some((m, _)) => name(*m),
                    None => match verdicts.iter().find(|(_, v)| v.is_none()) { Some((m, _)) => format!("{} (value beyond the oracle's arithmetic, not compared)", name(*m)), None => "UNEXPLAINED".into() },
                };
                *explained.entry(cls.clone()).or_default() += 1;
                sum.bump(&format!("oracle:differs:{cls}"));
                let want = match &spec { Err(_) => "an error (unbound, solution dropped)".to_string(), Ok(R::T(t)) => t.show(), Ok(R::B(b)) => format!("{b}"), Ok(R::N(n)) => format!("{n:?} as a valid {}", num_dt(n).replace(XSD, "xsd:")), Ok(R::StrOfNum(n)) => format!("a lexical form of {n:?}") };
                sum.oracle_failures.push((idx.to_string(), format!("{cls}: {descr}: the engine binds {} and FILTER {} the solution; SPARQL 1.1 section 17 gives {want}", show_b(&bound), if kept { "keeps" } else { "drops" })));
            }
        }
        sum.bump(if bound.is_some() { "result:bound" } else { "result:error" });
        if kept { sum.bump("filter:kept") }
        if a.only.is_some() { println!("CASE {idx} [{stream}]: {q1}\n  engine: ?r = {}, FILTER keeps = {kept}\n  oracle: {spec:?} => {verdict:?}\n  coq: ck {} ...", show_b(&bound), e.coq()); }
        if seen.insert(descr.clone()) && e.size() > 1 { sum.distinct_nontrivial += 1; }
        if sum.samples.len() < 6 && e.size() > 3 && idx % 7 == 0 { sum.samples.push(format!("case {idx} [{stream}]: {descr} => ?r = {}, kept = {kept}", show_b(&bound))); }
        let c_mu = coq_list((0..3).filter_map(|v| mu[v].map(|i| format!("({}, t{i})", coq_str(VARS[v])))));
        cases.push((idx, format!("ck {} {} {} {}", e.coq(), c_mu, coq_opt(bound.as_ref().map(|t| t.coq())), coq_bool(kept))));
    }

    // =======================================================================================
    // function calls (function.rs): case ids FBASE + j, regression cases RBASE + j
    // =======================================================================================
    const FBASE: usize = 2_000_000;
    const RBASE: usize = 3_000_000;
    let nf = a.n * 2 / 3;
    let tix = |t: &T| pool_t.iter().position(|u| u == t).unwrap_or_else(|| panic!("not in the pool: {t:?}"));
    let ks = |l: &str| FE::E(E::Const(tix(&lit(l, "string"))));
    let kn = |l: &str, d: &str| FE::E(E::Const(tix(&lit(l, d))));
    let sres = |l: &str| Some(lit(l, "string"));
    // the queries that failed before a02a275 (SUBSTR) and 5a72fb8 (CEIL / FLOOR / ROUND) -- the witnesses of the Coq
    // `_refuted` lemmas of FuncProofs.v -- with the answer SPARQL 1.1 / XPath F&O prescribe, and the known findings
    let regressions: Vec<(&str, FE, Option<T>)> = vec![
        ("substr-byte-index", call(Fu::SubStr, vec![ks("\u{e9}"), kn("2", "integer")]), sres("")),
        ("substr-byte-index", call(Fu::SubStr, vec![ks("\u{e9}a"), kn("2", "integer")]), sres("a")),
        ("substr-byte-index", call(Fu::SubStr, vec![ks("a\u{e9}"), kn("1", "integer"), kn("2", "integer")]), sres("a\u{e9}")),
        ("substr-byte-index", call(Fu::SubStr, vec![ks("\u{e9}a"), kn("3", "integer")]), sres("")),
        ("substr-rounding", call(Fu::SubStr, vec![ks("12345"), kn("-0.5e0", "double"), kn("3", "integer")]), sres("12")),
        ("substr-rounding", call(Fu::SubStr, vec![ks("12345"), kn("-1.5e0", "double"), kn("4", "integer")]), sres("12")),
        ("substr-overflow", call(Fu::SubStr, vec![ks("abc"), kn("1e30", "double"), kn("1e30", "double")]), sres("")),
        ("substr-overflow", call(Fu::SubStr, vec![ks("abc"), kn("-INF", "double"), kn("5", "integer")]), sres("")),
        ("substr-overflow", call(Fu::SubStr, vec![ks("abc"), kn("0", "integer"), kn("-INF", "double")]), sres("")),
        ("substr-inf", call(Fu::SubStr, vec![ks("abc"), kn("-INF", "double"), kn("INF", "double")]), sres("")),
        ("substr-inf", call(Fu::SubStr, vec![ks("abc"), kn("-INF", "double")]), sres("abc")),
        ("substr-nan", call(Fu::SubStr, vec![ks("abc"), kn("NaN", "double")]), sres("")),
        ("substr-nan", call(Fu::SubStr, vec![ks("abc"), kn("2", "integer"), kn("NaN", "double")]), sres("")),
        ("substr-xpath-examples", call(Fu::SubStr, vec![ks("12345"), kn("1.5", "decimal"), kn("2.6", "decimal")]), sres("234")),
        ("substr-xpath-examples", call(Fu::SubStr, vec![ks("12345"), kn("0", "integer"), kn("3", "integer")]), sres("12")),
        ("substr-xpath-examples", call(Fu::SubStr, vec![ks("12345"), kn("5", "integer"), kn("-1", "integer")]), sres("")),
        ("substr-xpath-examples", call(Fu::SubStr, vec![ks("12345"), kn("-1", "integer"), kn("INF", "double")]), sres("12345")),
        ("ceil-floor-decimal", call(Fu::Ceil, vec![kn("3.0", "decimal")]), Some(lit("3.0", "decimal"))),
        ("ceil-floor-decimal", call(Fu::Floor, vec![kn("3.0", "decimal")]), Some(lit("3.0", "decimal"))),
        ("ceil-floor-decimal", call(Fu::Ceil, vec![kn("-3.0", "decimal")]), Some(lit("-3.0", "decimal"))),
        ("ceil-floor-decimal", call(Fu::Floor, vec![kn("1.0", "decimal")]), Some(lit("1.0", "decimal"))),
        ("round-decimal", call(Fu::Round, vec![kn("2.5", "decimal")]), Some(lit("3.0", "decimal"))),
        ("round-decimal", call(Fu::Round, vec![kn("-1.5", "decimal")]), Some(lit("-1.0", "decimal"))),
        ("round-decimal", call(Fu::Round, vec![kn("0.5", "decimal")]), Some(lit("1.0", "decimal"))),
        ("round-decimal", call(Fu::Round, vec![kn("-0.5", "decimal")]), Some(lit("0.0", "decimal"))),
        ("round-decimal", call(Fu::Round, vec![kn("-2.5", "decimal")]), Some(lit("-2.0", "decimal"))),
        ("round-float", call(Fu::Round, vec![kn("-2.5e0", "double")]), Some(lit("-2e0", "double"))),
        ("round-float", call(Fu::Round, vec![kn("-0.5e0", "double")]), Some(lit("-0e0", "double"))),
        ("round-float", call(Fu::Round, vec![kn("0.5e0", "double")]), Some(lit("1e0", "double"))),
        ("round-float", call(Fu::Round, vec![kn("0.49999999999999994e0", "double")]), Some(lit("0e0", "double"))),
        ("round-float", call(Fu::Round, vec![kn("4503599627370497e0", "double")]), Some(lit("4.503599627370497e15", "double"))),
        ("round-float", call(Fu::Round, vec![kn("-2.5", "float")]), Some(lit("-2e0", "float"))),
        ("round-float", call(Fu::Round, vec![kn("-0.5", "float")]), Some(lit("-0e0", "float"))),
        ("round-bigint", call(Fu::Round, vec![kn("9223372036854775808", "integer")]), Some(lit("9223372036854775808", "integer"))),
        ("round-bigint", call(Fu::Ceil, vec![kn("-9223372036854775809", "integer")]), Some(lit("-9223372036854775809", "integer"))),
        ("round-bigint", call(Fu::Floor, vec![kn("99999999999999999999", "integer")]), Some(lit("99999999999999999999", "integer"))),
        ("round-bigint", call(Fu::Abs, vec![kn("-9223372036854775809", "integer")]), Some(lit("9223372036854775809", "integer"))),
        ("round-bigint", call(Fu::Abs, vec![kn("-9223372036854775808", "integer")]), Some(lit("9223372036854775808", "integer"))),
        ("computed-arguments", call(Fu::StrLen, vec![fbin(B2::Add, kn("1", "integer"), kn("1", "integer"))]), None),
        ("computed-arguments", call(Fu::Iri, vec![fbin(B2::Add, kn("1", "integer"), kn("1", "integer"))]), None),
        ("computed-arguments", call(Fu::StrLen, vec![call(Fu::Str, vec![fbin(B2::Add, kn("1", "integer"), kn("10", "integer"))])]), Some(lit("2", "integer"))),
        ("langmatches-empty", call(Fu::LangMatches, vec![ks(""), ks("*")]), Some(lit("false", "boolean"))),
        ("langmatches-empty", FE::Not(fb(call(Fu::LangMatches, vec![call(Fu::Lang, vec![ks("abc")]), ks("*")]))), Some(lit("true", "boolean"))),
        ("bnode-arg", fbin(B2::SameTerm, call(Fu::BNode, vec![ks("a")]), call(Fu::BNode, vec![ks("a")])), Some(lit("true", "boolean"))),
        ("not-implemented", call(Fu::StrLang, vec![ks("abc"), ks("en")]), None),
        ("not-implemented", call(Fu::Regex, vec![ks("abc"), ks("b")]), None),
        ("iri-relative", call(Fu::Iri, vec![ks("a")]), None),
    ];
    // functions applied to COMPUTED integers that left the isize range and came back (case ids LBASE + j): each law must be true
    const LBASE: usize = 2_500_000;
    let n_flaws = a.n / 10;
    let frange: Vec<usize> = match a.only { Some(i) if i >= FBASE => vec![i], Some(_) => vec![], None => (FBASE..FBASE + nf).chain(LBASE..LBASE + n_flaws).chain(RBASE..RBASE + regressions.len()).collect() };
    let fn_classes: Vec<&'static str> = all_classes.iter().map(|c| c.0).collect();
    let pool_bnodes: HashSet<String> = pool_t.iter().filter_map(|t| if let T::Bn(b) = t { Some(b.clone()) } else { None }).collect();
    for idx in frange {
        let mut g = FG { g: Gen { r: base.fork(idx as u64), pool: &pool_l, classes: &all_classes }, mu: [None; 4] };
        let j = idx - if idx >= RBASE { RBASE } else if idx >= LBASE { LBASE } else { FBASE };
        let k = j / 8;
        let mut law: Option<String> = None;       // Some(class of a failure): the expression must evaluate to true
        let mut expect: Option<T> = None;         // the term the specification prescribes (regression cases)
        let mut rows: Option<Vec<usize>> = None;  // the multi-row FILTER stream: the terms ?a ranges over
        let (stream, e): (&str, FE) = if idx >= RBASE {
            if j >= regressions.len() { continue }
            expect = regressions[j].2.clone();
            match regressions[j].0 { "langmatches-empty" => law = Some("FUNC-LANGMATCHES-EMPTY".into()), "bnode-arg" => law = Some("FUNC-BNODE-ARG-IGNORED".into()), n => if expect.is_some() { law = Some(format!("FUNC-REGRESSION({n})")) } }
            ("regression", regressions[j].1.clone())
        } else if idx >= LBASE {
            let (rt, same) = g.g.round_trip(&mut g.mu);
            let x = FE::E(rt);
            // a literal with the same value (or the computed value itself when none is in the pool)
            let y = match same { Some(i) => g.t(i), None => x.clone() };
            let xsd_integer = FE::E(E::Const(tix(&T::Iri(x_("integer")))));
            let (name, e) = match j % 12 {
                0 => ("abs", fbin(B2::Eq, call(Fu::Abs, vec![x]), call(Fu::Abs, vec![y]))),
                1 => ("abs-term", fbin(B2::SameTerm, call(Fu::Abs, vec![x]), call(Fu::Abs, vec![y]))),
                2 => { let f = *g.g.r.pick(&[Fu::Ceil, Fu::Floor, Fu::Round]); ("ceil-floor-round", fand(vec![fbin(B2::Eq, call(f, vec![x.clone()]), y.clone()), fbin(B2::SameTerm, call(f, vec![x.clone()]), call(f, vec![y])), fbin(B2::Le, call(f, vec![x.clone()]), x.clone()), fbin(B2::Ge, call(f, vec![x.clone()]), x)])) }
                3 => ("str", fbin(B2::SameTerm, call(Fu::Str, vec![x]), call(Fu::Str, vec![y]))),
                4 => ("datatype-isnumeric", fand(vec![call(Fu::IsNumeric, vec![x.clone()]), call(Fu::IsLiteral, vec![x.clone()]), fbin(B2::SameTerm, call(Fu::Datatype, vec![x]), xsd_integer)])),
                5 => ("strlen-str", fbin(B2::Eq, call(Fu::StrLen, vec![call(Fu::Str, vec![x])]), call(Fu::StrLen, vec![call(Fu::Str, vec![y])]))),
                6 => { let s = g.pc(&["fascii", "funi", "string"]); ("substr-start", fbin(B2::SameTerm, call(Fu::SubStr, vec![s.clone(), x]), call(Fu::SubStr, vec![s, y]))) }
                7 => { let s = g.pc(&["fascii", "funi", "string"]); let one = kn("1", "integer"); ("substr-length", fbin(B2::SameTerm, call(Fu::SubStr, vec![s.clone(), one.clone(), x]), call(Fu::SubStr, vec![s, one, y]))) }
                8 => ("abs-order", fand(vec![fbin(B2::Ge, call(Fu::Abs, vec![x.clone()]), x.clone()), fbin(B2::Ge, call(Fu::Abs, vec![x.clone()]), kn("0", "integer")), fbin(B2::Le, fbin(B2::Sub, kn("0", "integer"), call(Fu::Abs, vec![x.clone()])), x)])),
                9 => ("coalesce-if", fbin(B2::Eq, FE::Coalesce(vec![FE::If(fb(fbin(B2::Eq, x.clone(), y.clone())), fb(x.clone()), fb(kn("abc", "integer")))]), y)),
                10 => ("concat-str", fbin(B2::SameTerm, call(Fu::Concat, vec![call(Fu::Str, vec![x]), ks("a")]), call(Fu::Concat, vec![call(Fu::Str, vec![y]), ks("a")]))),
                _ => ("round-abs-compose", fbin(B2::Eq, call(Fu::Round, vec![call(Fu::Abs, vec![fbin(B2::Sub, kn("0", "integer"), x)])]), call(Fu::Abs, vec![y]))),
            };
            law = Some(format!("FUNC-LAW(computed-integer:{name})"));
            ("laws-computed-integers", e)
        } else { match j % 8 {
            0 => { // every implemented function x every class of terms, in every argument position
                let f = IMPLEMENTED[k % IMPLEMENTED.len()]; let cl = fn_classes[(k / IMPLEMENTED.len()) % fn_classes.len()]; let posn = k / (IMPLEMENTED.len() * fn_classes.len());
                let FE::Call(_, mut args) = g.typed(f, 1) else { unreachable!() };
                let odd = match g.g.r.below(12) { 0 => FE::E(E::Var(3)), 1 => { let (x, y) = (g.c("int"), g.c("int")); fbin(B2::Add, x, y) } 2 => { let (x, y) = (g.c("int"), g.c("int")); fbin(B2::Lt, x, y) } _ => g.c(cl) }; // unbound / a computed number / a computed boolean / a term of the class
                if args.is_empty() { if f == Fu::Concat || f == Fu::BNode { args.push(odd) } } else { let p = (posn + g.g.r.below(args.len())) % args.len(); args[p] = odd }
                ("fn-x-class", call(f, args))
            }
            1 | 2 => { // random nested, mostly well-typed calls under the operators
                let f = *g.g.r.pick(&IMPLEMENTED); let d = g.g.r.range(1, 2); let inner = g.typed(f, d);
                let w = if f == Fu::Rand { 8 } else if f == Fu::BNode { g.g.r.below(5) } else { g.g.r.below(9) };
                ("random-calls", match w {
                    0 => FE::Not(fb(inner)), 1 => { let o = g.any(); fbin(B2::Eq, inner, o) } 2 => { let s = g.s_arg(1); let o = *g.g.r.pick(&[B2::Eq, B2::Lt, B2::Ge, B2::SameTerm]); fbin(o, inner, s) }
                    3 => { let n = g.n_arg(1); let o = *g.g.r.pick(&[B2::Add, B2::Lt, B2::Eq, B2::Mul]); fbin(o, inner, n) } 4 => { let (t, f2) = (g.s_arg(1), g.any()); FE::If(fb(inner), fb(t), fb(f2)) }
                    5 => { let o = g.any(); FE::Coalesce(vec![inner, o]) }
                    6 => { let f2 = *g.g.r.pick(&[Fu::Contains, Fu::StrStarts, Fu::IsLiteral, Fu::IsNumeric, Fu::LangMatches, Fu::StrLen, Fu::IsIri, Fu::Lang, Fu::Ceil]); let o = g.typed(f2, 1); let op = *g.g.r.pick(&[B2::Or, B2::And]); fbin(op, inner, o) }
                    _ => inner })
            }
            3 => { // SUBSTR: boundary indices over every kind of string
                let s = g.pc(&["fascii", "funi", "flang", "funi", "string", "lang"]);
                fn num(g: &mut FG, tix: &dyn Fn(&T) -> usize) -> FE {
                    match g.g.r.below(10) {
                        0..=3 => { let l = g.g.r.ps(&["0", "1", "2", "3", "-1", "-5", "10", "100", "4", "5"]); g.t(tix(&lit(l, "integer"))) }
                        4 | 5 => { let l = g.g.r.ps(&["1.5", "2.5", "-0.5", "0.5", "-1.5", "2.4", "2.6", "0.0", "3.0", "3.5"]); g.t(tix(&lit(l, "decimal"))) }
                        6 | 7 => { let l = g.g.r.ps(&["-0.5e0", "-1.5e0", "0.5e0", "1.5e0", "1e30", "-1e30", "1e300", "0.49999999999999994e0", "3.5e0", "4e0", "2.5e0"]); g.t(tix(&lit(l, "double"))) }
                        8 => g.pc(&["double-special", "float-special", "int-boundary", "fflt"]),
                        _ => g.n_arg(1),
                    }
                }
                let st = num(&mut g, &tix); let args = if g.g.r.chance(2, 5) { vec![s, st] } else { let l = num(&mut g, &tix); vec![s, st, l] };
                ("substr-boundaries", call(Fu::SubStr, args))
            }
            4 | 5 => { // the laws a user relies on, evaluated by the engine: each must be true
                let one = kn("1", "integer"); let zero = kn("0", "integer"); let empty = ks("");
                let (name, e) = match k % 14 {
                    0 => { let (x, y) = (g.s_leaf(), g.s_leaf()); ("strlen-concat", fbin(B2::Eq, call(Fu::StrLen, vec![call(Fu::Concat, vec![x.clone(), y.clone()])]), fbin(B2::Add, call(Fu::StrLen, vec![x]), call(Fu::StrLen, vec![y])))) }
                    1 => { let (s, x) = (g.s_leaf(), g.c("fneedle")); let st = |e: FE| call(Fu::Str, vec![e]);
                        ("before-after", FE::If(fb(call(Fu::Contains, vec![s.clone(), x.clone()])),
                            fb(fbin(B2::Eq, call(Fu::Concat, vec![st(call(Fu::StrBefore, vec![s.clone(), x.clone()])), st(x.clone()), st(call(Fu::StrAfter, vec![s.clone(), x.clone()]))]), st(s.clone()))),
                            fb(fand(vec![fbin(B2::SameTerm, call(Fu::StrBefore, vec![s.clone(), x.clone()]), empty.clone()), fbin(B2::SameTerm, call(Fu::StrAfter, vec![s, x]), empty.clone())])))) }
                    2 => { let s = g.pc(&["fascii", "fascii", "string"]); let f = *g.g.r.pick(&[Fu::UCase, Fu::LCase]);
                        ("case-idempotent-ascii", fand(vec![fbin(B2::SameTerm, call(f, vec![call(f, vec![s.clone()])]), call(f, vec![s.clone()])), fbin(B2::Eq, call(Fu::StrLen, vec![call(f, vec![s.clone()])]), call(Fu::StrLen, vec![s]))])) }
                    3 => { let i = g.g.any_term(); let x = g.t(i); let fs = [Fu::IsIri, Fu::IsBlank, Fu::IsLiteral, Fu::IsTriple];
                        let exactly = |i: usize| fand((0..4).map(|j| if i == j { call(fs[j], vec![x.clone()]) } else { FE::Not(fb(call(fs[j], vec![x.clone()]))) }).collect());
                        ("term-kinds-partition", (1..4).fold(exactly(0), |acc, i| fbin(B2::Or, acc, exactly(i)))) }
                    4 => { let s = g.c("firi-abs"); ("str-iri", fand(vec![fbin(B2::SameTerm, call(Fu::Str, vec![call(Fu::Iri, vec![s.clone()])]), s.clone()), call(Fu::IsIri, vec![call(Fu::Iri, vec![s])])])) }
                    5 => { let s = g.s_leaf(); ("substr-from-1", fbin(B2::SameTerm, call(Fu::SubStr, vec![s.clone(), one.clone()]), s)) }
                    6 => { let s = g.s_leaf(); let n = g.g.r.ps(&["0", "1", "2", "3", "10"]); let (n0, n1) = (kn(n, "integer"), fbin(B2::Add, kn(n, "integer"), one.clone()));
                        let (pre, suf) = (call(Fu::SubStr, vec![s.clone(), one.clone(), n0]), call(Fu::SubStr, vec![s.clone(), n1]));
                        ("substr-split", fand(vec![call(Fu::StrStarts, vec![s.clone(), pre.clone()]), call(Fu::StrEnds, vec![s.clone(), suf.clone()]), fbin(B2::SameTerm, call(Fu::Concat, vec![pre, suf]), s)])) }
                    7 => { let x = g.pc(&["flang", "lang", "fascii", "string", "int", "funi"]); let lg = call(Fu::Lang, vec![x]);
                        law = Some("FUNC-LANGMATCHES-EMPTY".into());
                        ("langmatches-star", fbin(B2::Eq, call(Fu::LangMatches, vec![lg.clone(), ks("*")]), FE::Not(fb(fbin(B2::Eq, lg, empty.clone()))))) }
                    8 => { let s = g.c("funres"); ("encode-unreserved", fbin(B2::SameTerm, call(Fu::EncodeForUri, vec![s.clone()]), s)) }
                    9 => { let x = g.pc(&["fdec", "fdec", "decimal", "int", "fdbl", "fflt"]); let half = kn(".5", "decimal");
                        let (c, f, r) = (call(Fu::Ceil, vec![x.clone()]), call(Fu::Floor, vec![x.clone()]), call(Fu::Round, vec![x.clone()]));
                        ("ceil-floor-round", fand(vec![fbin(B2::Ge, c.clone(), x.clone()), fbin(B2::Lt, fbin(B2::Sub, c, x.clone()), one.clone()), fbin(B2::Le, f.clone(), x.clone()), fbin(B2::Lt, fbin(B2::Sub, x.clone(), f), one.clone()),
                            fbin(B2::Le, fbin(B2::Sub, r.clone(), x.clone()), half.clone()), fbin(B2::Lt, fbin(B2::Sub, x, r), half)])) }
                    10 => { let s = g.pc(&["fascii", "string", "fneedle"]); law = Some("FUNC-BNODE-ARG-IGNORED".into()); ("bnode-same-argument", fbin(B2::SameTerm, call(Fu::BNode, vec![s.clone()]), call(Fu::BNode, vec![s]))) }
                    11 => { let (s, x) = (g.s_leaf(), g.c("fneedle")); // STRSTARTS / STRENDS imply CONTAINS; STRSTARTS = the first occurrence is at the start
                        let (ct, ss, se) = (call(Fu::Contains, vec![s.clone(), x.clone()]), call(Fu::StrStarts, vec![s.clone(), x.clone()]), call(Fu::StrEnds, vec![s.clone(), x.clone()]));
                        ("contains-starts-ends", fand(vec![fbin(B2::Or, FE::Not(fb(fbin(B2::Or, ss.clone(), se))), ct.clone()),
                            fbin(B2::Eq, ss, fand(vec![ct, fbin(B2::Eq, call(Fu::StrLen, vec![call(Fu::StrBefore, vec![s, x])]), zero.clone())]))])) }
                    12 => { let d = g.c("dateTime"); let dt = |f: Fu| call(f, vec![d.clone()]); // the fields are in their ranges
                        let within = |e: FE, lo: &str, hi: &str| fand(vec![fbin(B2::Ge, e.clone(), kn(lo, "integer")), fbin(B2::Le, e, kn(hi, "integer"))]);
                        ("datetime-fields", fand(vec![within(dt(Fu::Month), "1", "12"), within(dt(Fu::Day), "1", "31"), within(dt(Fu::Hours), "0", "23"), within(dt(Fu::Minutes), "0", "59"),
                            fbin(B2::Ge, dt(Fu::Seconds), zero.clone()), fbin(B2::Lt, dt(Fu::Seconds), kn("60", "integer")), call(Fu::IsNumeric, vec![dt(Fu::Year)])])) }
                    _ => ("rand-range", fand(vec![fbin(B2::Ge, call(Fu::Rand, vec![]), zero.clone()), fbin(B2::Lt, call(Fu::Rand, vec![]), one.clone()), fbin(B2::SameTerm, call(Fu::Datatype, vec![call(Fu::Rand, vec![])]), FE::E(E::Const(tix(&T::Iri(x("double"))))))])),
                };
                if law.is_none() { law = Some(format!("FUNC-LAW({name})")) }
                ("laws", e)
            }
            6 => { // functions without implementation, on arguments they are defined on
                let f = UNIMPLEMENTED[k % UNIMPLEMENTED.len()]; let inner = g.typed(f, 1);
                ("not-implemented", if g.g.r.chance(1, 4) { FE::Not(fb(inner)) } else { inner })
            }
            _ => { // FILTER through SparqlDataset::prepare_query over several solutions: which rows survive
                let n = g.g.r.range(3, 7);
                let cl: Vec<&str> = match k % 4 { 0 => vec!["fascii", "funi", "flang", "string", "lang", "fneedle"], 1 => vec!["int", "fdec", "fdbl", "decimal", "double-special", "fflt"], 2 => vec!["dateTime", "dateTime", "dateTime-ill", "iri", "bnode", "triple", "flang"], _ => fn_classes.clone() };
                let ts: Vec<usize> = (0..n).map(|_| { let c = *g.g.r.pick(&cl); g.g.of_class(c) }).collect();
                g.mu[0] = Some(ts[0]); let va = FE::E(E::Var(0));
                let e = match k % 4 {
                    0 => match g.g.r.below(7) { 0 => { let x = g.c("fneedle"); call(Fu::Contains, vec![va, x]) } 1 => { let x = g.c("fneedle"); call(Fu::StrStarts, vec![call(Fu::UCase, vec![va]), x]) } 2 => { let r = g.c("frange"); call(Fu::LangMatches, vec![call(Fu::Lang, vec![va]), r]) }
                        3 => fbin(B2::Gt, call(Fu::StrLen, vec![va]), kn("2", "integer")), 4 => { let x = g.c("fneedle"); fbin(B2::Eq, call(Fu::SubStr, vec![va, kn("2", "integer")]), x) } 5 => { let x = g.c("fneedle"); call(Fu::Regex, vec![va, x]) }
                        _ => FE::Not(fb(call(Fu::LangMatches, vec![call(Fu::Lang, vec![va]), ks("*")]))) },
                    1 => match g.g.r.below(4) { 0 => fbin(B2::Eq, call(Fu::Ceil, vec![va.clone()]), va), 1 => fbin(B2::Lt, call(Fu::Round, vec![va.clone()]), va), 2 => fbin(B2::Ge, call(Fu::Abs, vec![va]), kn("2", "integer")), _ => call(Fu::SubStr, vec![ks("abc"), va]) },
                    2 => match g.g.r.below(4) { 0 => fbin(B2::Ge, call(Fu::Year, vec![va]), kn("2020", "integer")), 1 => call(Fu::IsTriple, vec![va]), 2 => call(Fu::IsIri, vec![call(Fu::Iri, vec![call(Fu::Str, vec![va])])]), _ => fbin(B2::Lt, call(Fu::Seconds, vec![va]), kn("1", "integer")) },
                    _ => { let f = *g.g.r.pick(&[Fu::StrLen, Fu::UCase, Fu::IsLiteral, Fu::IsNumeric, Fu::Str, Fu::Lang, Fu::Datatype, Fu::Abs, Fu::Day, Fu::EncodeForUri]); call(f, vec![va]) }
                };
                rows = Some(ts);
                ("filter-rows", e)
            }
        } };
        let mut pr = g.g.r.fork(77);
        let text = e.sparql(&pool_t, &mut pr);
        // one spelling per term in the dataset: the rows of the multi-row stream first (they are inserted first), then ?b ?c
        let mut mu = g.mu;
        let drawn = (mu, rows.clone());
        match rows.as_mut() {
            Some(ts) => { let mut seen = vec![]; for t in ts.iter_mut() { *t = one_spelling(&pool_t, &mut seen, *t) } mu[0] = Some(ts[0]); one_spelling_mu(&pool_t, &mut seen, &mut mu, 1) }
            None => one_spelling_mu(&pool_t, &mut vec![], &mut mu, 0),
        }
        if drawn != (mu, rows.clone()) { sum.bump("dataset:two-spellings-of-one-literal-drawn (one kept)") }
        let mut called = vec![]; e.calls(&mut called);
        let unimpl: Option<Fu> = called.iter().copied().find(|f| UNIMPLEMENTED.contains(f));
        sum.evaluations += 1;
        sum.bump(&format!("stream:fn:{stream}"));
        for f in &called { sum.bump(&format!("fn:{}", f.sparql())) }
        let mu_show: Vec<String> = (0..3).filter_map(|v| mu[v].map(|i| format!("?{}={}", VARS[v], pool_t[i].show()))).collect();
        let c_mu_of = |m: &[Option<usize>; 4]| coq_list((0..3).filter_map(|v| m[v].map(|i| format!("({}, t{i})", coq_str(VARS[v])))));
        if let Some(ts) = rows {
            // ---- several solutions, FILTER decides which survive; through prepare_query ----
            let mut d = LightDataset::new(); let mut bgp = String::from("?s <tag:v> ?a . ");
            for (i, t) in ts.iter().enumerate() { d.insert(&iri(&format!("tag:s{i}")), &iri("tag:v"), &pool_t[*t].to_st(), None::<&ST>).unwrap(); }
            for v in 1..3 { if let Some(i) = mu[v] { d.insert(&iri("tag:k"), &iri(&format!("tag:p{}", VARS[v])), &pool_t[i].to_st(), None::<&ST>).unwrap(); bgp.push_str(&format!("<tag:k> <tag:p{0}> ?{0} . ", VARS[v])); } }
            let q = format!("SELECT ?s {{ {bgp} FILTER({text}) }}");
            let descr = format!("{} over ?a in [{}] with {{{}}}", text.replace(XSD, "xsd:"), ts.iter().map(|t| pool_t[*t].show()).collect::<Vec<_>>().join(", "), mu_show[1.min(mu_show.len())..].join(", "));
            let res = std::panic::catch_unwind(std::panic::AssertUnwindSafe(|| -> Result<Vec<String>, String> {
                let w = SparqlWrapper(&d);
                let prepared = w.prepare_query(&q).map_err(|e| format!("prepare_query: {e}"))?;
                match w.query(&prepared) { Ok(SparqlResult::Bindings(b)) => b.into_iter().map(|r| r.map(|r| T::from_term(r[0].as_ref().unwrap().borrow_term()).show()).map_err(|e| format!("row error: {e}"))).collect(), Ok(_) => Err("unexpected result kind".into()), Err(e) => Err(format!("query: {e}")) }
            }));
            let kept: Vec<bool> = match res {
                Ok(Ok(names)) => (0..ts.len()).map(|i| names.contains(&format!("<tag:s{i}>"))).collect(),
                Ok(Err(e)) => { if unimpl.is_some() && e.contains("Not implemented") { sum.bump("result:not-implemented-error"); } else { sum.oracle_failures.push((idx.to_string(), format!("ENGINE-ERROR: {descr}: {e}"))); } continue }
                Err(p) => { let m = p.downcast_ref::<String>().cloned().or(p.downcast_ref::<&str>().map(|s| s.to_string())).unwrap_or_default(); sum.oracle_failures.push((idx.to_string(), format!("PANIC: {descr}: the query {q} panics: {m}"))); continue }
            };
            if let Some(f) = unimpl { sum.oracle_failures.push((idx.to_string(), format!("FUNC-NOT-IMPLEMENTED-SILENT({}): {descr}: FILTER keeps {} of {} solutions; the function has no implementation and the engine answers with an expression error instead of a NotImplemented error", f.kf_name(), kept.iter().filter(|b| **b).count(), kept.len()))); }
            sum.bump_by("filter-rows:kept", kept.iter().filter(|b| **b).count() as u64); sum.bump_by("filter-rows:dropped", kept.iter().filter(|b| !**b).count() as u64);
            if a.only.is_some() { println!("CASE {idx} [{stream}]: {q}\n  rows: {}\n  kept: {kept:?}\n  coq: {}", ts.iter().map(|t| pool_t[*t].show()).collect::<Vec<_>>().join(", "), e.coq()); }
            if seen.insert(descr.clone()) { sum.distinct_nontrivial += 1; }
            let c_rows = coq_list(ts.iter().zip(&kept).map(|(t, k)| { let mut m = mu; m[0] = Some(*t); format!("({}, {})", c_mu_of(&m), coq_bool(*k)) }));
            cases.push((idx, format!("fr {} {}", e.coq(), c_rows)));
            continue;
        }
        let (o1, o2, q1) = eval_engine(&pool_t, &mu, &text);
        let descr = format!("{} with {{{}}}", text.replace(XSD, "xsd:"), mu_show.join(", "));
        let show_b = |b: &Option<T>| b.as_ref().map(|t| t.show()).unwrap_or("unbound".into());
        let panicked = matches!(o1, Obs::Panic(_)) || matches!(o2, Obs::Panic(_));
        let (bound, kept) = match (&o1, &o2) {
            (Obs::Bound(b), Obs::Kept(k)) => (b.clone(), *k),
            _ if panicked => { sum.oracle_failures.push((idx.to_string(), format!("PANIC: {descr}: BIND query gave {o1:?}, FILTER query gave {o2:?}"))); sum.bump("result:panic"); (None, false) }
            (Obs::Err(m), _) | (_, Obs::Err(m)) if unimpl.is_some() && m.contains("Not implemented") => { sum.bump("result:not-implemented-error"); continue }
            _ => { sum.oracle_failures.push((idx.to_string(), format!("{}: {descr}: BIND query gave {o1:?}, FILTER query gave {o2:?}", if matches!(o1, Obs::Parse(_)) { "HARNESS-PARSE" } else { "ENGINE-ERROR" }))); sum.bump("result:no-answer"); continue }
        };
        // ---- oracle ----
        if !panicked {
            if let Some(f) = unimpl {
                sum.oracle_failures.push((idx.to_string(), format!("FUNC-NOT-IMPLEMENTED-SILENT({}): {descr}: the engine binds {} and FILTER {} the solution; the function has no implementation and the engine answers with an expression error instead of a NotImplemented error", f.kf_name(), show_b(&bound), if kept { "keeps" } else { "drops" })));
            } else if let Some(T::Iri(i)) = &bound { if !pool_t.contains(&T::Iri(i.clone())) && !i.split_once(':').is_some_and(|(s, _)| !s.is_empty() && s.chars().all(|c| c.is_ascii_alphanumeric() || "+-.".contains(c)) && s.chars().next().unwrap().is_ascii_alphabetic()) {
                sum.oracle_failures.push((idx.to_string(), format!("FUNC-IRI-RELATIVE: {descr}: the engine binds the relative reference <{i}>, which is not an RDF term; 17.4.2.8: the argument is resolved against the base IRI of the query and must result in an absolute IRI")));
            } }
            if let Some(cls) = &law {
                let want = expect.clone().unwrap_or(lit("true", "boolean"));
                let ok = bound.as_ref().is_some_and(|b| b.same(&want));
                if ok { sum.bump("law:holds") } else if unimpl.is_none() {
                    sum.oracle_failures.push((idx.to_string(), format!("{cls}: {descr}: the engine binds {}; the specification gives {}", show_b(&bound), want.show())));
                }
            }
        }
        sum.bump(if panicked { "result:panic" } else if bound.is_some() { "result:bound" } else { "result:error" });
        if kept { sum.bump("filter:kept") }
        // ---- the model: the fresh blank node label / the random number are inputs ----
        let lbl = match &bound { Some(T::Bn(b)) if !pool_bnodes.contains(b) => b.clone(), _ => String::new() };
        let rnd = match (&e, &bound) { (FE::Call(Fu::Rand, _), Some(T::Lit(l, _))) => l.clone(), _ => "5e-1".to_string() };
        let obs = if panicked { "QPanic".to_string() } else { format!("(QRows {} {})", coq_opt(bound.as_ref().map(|t| t.coq())), coq_bool(kept)) };
        if a.only.is_some() { println!("CASE {idx} [{stream}]: {q1}\n  engine: ?r = {}, FILTER keeps = {kept}, panic = {panicked}\n  law: {law:?}\n  coq: fk {} ...", show_b(&bound), e.coq()); }
        if seen.insert(descr.clone()) { sum.distinct_nontrivial += 1; }
        if sum.samples.len() < 12 && j % 11 == 3 { sum.samples.push(format!("case {idx} [{stream}]: {descr} => ?r = {}, kept = {kept}", show_b(&bound))); }
        cases.push((idx, format!("fk {} {} {} {} {}", e.coq(), c_mu_of(&mu), coq_str(&lbl), coq_str(&rnd), obs)));
    }
    if a.only.is_none() {
        sum.shards = write_shards(&a.out, &header, &cases, a.shards);
        sum.extra.push(("coq_cases".into(), cases.len().to_string()));
        sum.extra.push(("failure_classes".into(), format!("{{{}}}", explained.iter().map(|(k, v)| format!("{}: {v}", json_str(k))).collect::<Vec<_>>().join(", "))));
        std::fs::write(format!("{}/summary.json", a.out), sum.to_json()).unwrap();
    }
    println!("c13e: {} cases, {} distinct non-trivial, {} oracle failures {:?}; engine repairs {:?}, dateTime year panic: {dt_panics}", sum.evaluations, sum.distinct_nontrivial, sum.oracle_failures.len(), explained, cfg);
}
