(* C08/Properties.v -- pinned statements of the logical core of property C08: the terms the
   parsing back-ends hand over satisfy the toolkit's own validators.  The validators are
   re-generated from api/src/term/{bnode_id,var_name,language_tag}.rs on every run. *)
From Sophia.Common Require Import Prelude.
From Sophia.C08 Require Import Regex Tokens Lang Incl Examples.
From Sophia.gen Require Import LabelSrc.

Check (rio_label_accepted : forall w, matchb rio_bnode_label w = true -> matchb bnode_id_regex w = true).
Check (rio_label_is_bnode_id : forall w, matchb rio_bnode_label w = matchb bnode_id_regex w).
Check (bnode_id_within_w3c : forall w, matchb bnode_id_regex w = true -> matchb w3c_bnode_label w = true).
Check (rio_langtag_accepted : forall w, matchb rio_langtag w = true -> matchb lang_tag_regex w = true).
Check (varname_is_sparql : forall w, matchb sparql_varname w = matchb varname_regex w).
(* the matcher used to state them decides the regular language *)
Check (matchb_spec : forall r w, matchb r w = true <-> langc r w).

Print Assumptions rio_label_accepted.
Print Assumptions rio_label_is_bnode_id.
Print Assumptions bnode_id_within_w3c.
Print Assumptions rio_langtag_accepted.
Print Assumptions varname_is_sparql.
Print Assumptions matchb_spec.
Print Assumptions w3c_label_strictly_larger.
Print Assumptions labels_nonvacuous.
