//! C17: Relativizer::relativize against the resolve-back oracle (BaseIri::resolve) and against the
//! Coq model (C17/Model.v: relativize, the oxiri resolver model, RFC 3986 section 5.2).
use sophia_iri::{Iri, relativize::Relativizer, resolve::BaseIri};
use verif_harness::*;

/// hand-written pairs placed at the first case indices: the known witnesses and one pair per branch
const FIXED: &[(&str, &str)] = &[
    ("http://a/b/c", "http://a/b/x:y"),      // first segment containing ':'
    ("http://a/b/c", "http://a/b//d"),       // empty segment right after the common prefix
    ("http://a/b/c", "http://a/b/../c"),     // dot segments in the IRI
    ("s:a/b", "s:a/c:d"),                    // rootless base
    ("http://a/b", "http://a/bcd"),          // base is a strict prefix of the IRI
    ("http://a/b?q", "http://a/b?qr"),
    ("http://a/b#f", "http://a/bc"),
    ("http://a/b?q", "http://a/b"),          // base has a query, the IRI has none
    ("http://a/b?q", "http://a/b#f"),
    ("s://h", "s://hh"),                     // authority is a strict prefix
    ("s://h?q", "s://hh"),
    ("s:/a", "s://x"),                       // authority only on one side
    ("s:a", "s:?q"),
    ("s:a", "s:/x"),
    ("http://a", "http://a/x"),
    ("http://\u{e9}?q", "http://\u{e9}/x"),  // slicing inside a character
    ("http://a/\u{e9}", "http://a/\u{e8}"),  // common prefix ends inside a character
    ("http://a/\u{e9}/x", "http://a/\u{e8}/x"),
    ("s:a/b", "s:x"),
    ("s:/a/b", "s:/x"),
    ("http://a/b/c/d?q#f?f", "http://a/b/c/d?q#f?f"),
    ("http://a/b/c/d?q#f?f", "http://a/b/c/d?q"),
    ("http://a/b/c/d?q#f?f", "http://a/b/c/d?Q0#F0"),
    ("http://a/b/c/d?q#f?f", "http://a/b/c/"),
    ("http://a/b/c/d?q#f?f", "http://a/b/P1"),
    ("http://a/b/c/d?q#f?f", "http://a/P2?Q3#F3"),
    ("http://a/b/c/d?q#f?f", "http://a/"),
    ("x-ample:bb/c/d", "x-ample:bb/P1"),
    ("x-ample:bb/c/d", "x-ample:P2"),
    ("http://a/b/../c/d", "http://a/b/../c/x"),
    ("http://a/b/../d", "http://a/b/x"),
    ("http://a/b/..?q", "http://a/b/.."),
    ("http://a?q", "http://a"),
    ("s:?q", "s:"),
    ("http://a/b/c", "http://a/b/c/d"),
    ("http://a/b/c/", "http://a/b/c"),
    ("http://a//b", "http://a/c"),
    ("http://a/b?x/y", "http://a/b?x/z"),
    ("http://a/b#x/y", "http://a/b#x/z?w"),
    ("http://a/b/c", "http://a/b/.x/..y"),
    ("http://a/b/c", "http://a/b/x/./y"),
    ("http://a/b/c", "http://a/b/x/.."),
    ("http://a/b/c", "https://a/b/c"),
    ("http://a/b/c", "http://ab/b/c"),
];

const SCHEMES: &[&str] = &["http", "s", "x-ample", "urn"];
const AUTHS: &[&str] = &["a", "a", "h:80", "u@h", "\u{e9}", "\u{65e5}\u{672c}", "", "[::1]"];
const SEGS: &[&str] = &[
    "a", "b", "c", "d", "a", "b", "bc", "x:y", "c:d", ":", "", "", ".", "..", "\u{e9}", "\u{e8}", "\u{e9}e", "\u{65e5}\u{672c}", "\u{65e5}\u{6708}",
    "b.c", "..x", ".x", "...", "%2e", "a@b", "a;p=1", "\u{1F600}", "\u{1F601}", "1", "x+y",
];
const QUERIES: &[&str] = &["q", "q/r?s", "", "\u{e9}", "q=1&r=../x", "q"];
const FRAGS: &[&str] = &["f", "f/g?h", "", "\u{e8}", "f"];

struct Parts { scheme: String, auth: Option<String>, rooted: bool, segs: Vec<String>, query: Option<String>, frag: Option<String> }
impl Parts {
    fn text(&self) -> String {
        let mut s = format!("{}:", self.scheme);
        if let Some(a) = &self.auth { s.push_str("//"); s.push_str(a); }
        if self.rooted && !self.segs.is_empty() { s.push('/'); }
        s.push_str(&self.segs.join("/"));
        if let Some(q) = &self.query { s.push('?'); s.push_str(q); }
        if let Some(f) = &self.frag { s.push('#'); s.push_str(f); }
        s
    }
}
fn gen_parts(r: &mut Rng) -> Parts {
    let scheme = r.pick(SCHEMES).to_string();
    let auth = if r.chance(2, 3) { Some(r.pick(AUTHS).to_string()) } else { None };
    let nseg = if r.chance(1, 8) { 0 } else { r.range(1, 5) };
    let segs: Vec<String> = (0..nseg).map(|_| r.pick(SEGS).to_string()).collect();
    let rooted = auth.is_some() || r.chance(1, 2);
    let query = if r.chance(1, 3) { Some(r.pick(QUERIES).to_string()) } else { None };
    let frag = if r.chance(1, 3) { Some(r.pick(FRAGS).to_string()) } else { None };
    Parts { scheme, auth, rooted, segs, query, frag }
}
/// an IRI related to the base: same scheme/authority, the first k segments kept, then others
fn gen_related(r: &mut Rng, b: &Parts) -> Parts {
    let keep = r.below(b.segs.len() + 1);
    let mut segs: Vec<String> = b.segs[..keep].to_vec();
    let extra = r.below(4);
    for _ in 0..extra { segs.push(r.pick(SEGS).to_string()); }
    let mode = r.below(10);
    let (mut query, mut frag) = (b.query.clone(), b.frag.clone());
    if mode < 6 {
        query = if r.chance(1, 3) { Some(r.pick(QUERIES).to_string()) } else { None };
        frag = if r.chance(1, 3) { Some(r.pick(FRAGS).to_string()) } else { None };
    }
    if mode == 6 { segs = b.segs.clone(); query = None; }
    if mode == 7 { segs = b.segs.clone(); frag = Some(r.pick(FRAGS).to_string()); }
    if mode == 8 { segs = b.segs.clone(); query = Some(format!("{}x", b.query.clone().unwrap_or_default())); }
    let mut p = Parts { scheme: b.scheme.clone(), auth: b.auth.clone(), rooted: b.rooted, segs, query, frag };
    if r.chance(1, 12) { p.auth = if p.auth.is_some() { None } else { Some(r.pick(AUTHS).to_string()) }; p.rooted = true; }
    if r.chance(1, 12) && p.auth.is_none() { p.rooted = !p.rooted; }
    if r.chance(1, 15) { if let Some(a) = &mut p.auth { a.push('x'); } }
    p
}
const REFS: &[&str] = &[
    "", "#f", "?q", "?q#f", "x", "x/y", "./x", "../x", "../../x", "../../../x", "../../../../x", "./", "../", ".", "..", "/x", "/x/../y", "/../x", "/./x", "/", "//h/x", "//h/x/../y", "//h",
    "x:y", "./x:y", "s:x/../y", "http://h/./x", "x/./y", "x/../y", "x/..", "x/.", "x//y", "x/../../y", "..x", ".x/", "x?q/../r", "x#f/../g", "\u{e9}/../\u{e8}", "a/b/c/../../../../d", ".../x", "x/...", "./..", "../.", "./../x", "x/./", "/.", "/..", "?", "#",
    "g;x=1/./y", "g;x=1/../y", "../g", "../..", "../../", "../../g", "./g/.", "g/./h", "g/../h",
];

fn lead_parents(r: &str) -> usize { let mut k = 0; let mut s = r; while let Some(t) = s.strip_prefix("../") { k += 1; s = t; } k }

/// the other three entry points of resolution (BaseIri::resolve_into, BaseIriRef::resolve, BaseIriRef::resolve_into)
/// must give what BaseIri::resolve gives; returns a description of the first difference
fn resolve_entry_points_agree(b: &str, rf: &str, expected: &Result<String, ()>) -> Option<String> {
    use sophia_iri::resolve::BaseIriRef;
    let base = BaseIri::new(b.to_string()).ok()?;
    let mut buf = String::from("stale content ");
    buf.clear();
    let r1: Result<String, ()> = base.resolve_into(rf, &mut buf).map(|x| x.as_str().to_string()).map_err(|_| ());
    if &r1 != expected { return Some(format!("BaseIri::resolve_into gives {r1:?} where BaseIri::resolve gives {expected:?}")); }
    let bref = BaseIriRef::new(b.to_string()).ok()?;
    let r2: Result<String, ()> = bref.resolve(rf).map(|x| x.as_str().to_string()).map_err(|_| ());
    if &r2 != expected { return Some(format!("BaseIriRef::resolve gives {r2:?} where BaseIri::resolve gives {expected:?}")); }
    let mut buf2 = String::new();
    let r3: Result<String, ()> = bref.resolve_into(rf, &mut buf2).map(|x| x.as_str().to_string()).map_err(|_| ());
    if &r3 != expected { return Some(format!("BaseIriRef::resolve_into gives {r3:?} where BaseIri::resolve gives {expected:?}")); }
    None
}

fn main() {
    let a = parse_args();
    let mut sum = Summary::default();
    sum.rule = "case = one (base, IRI) pair x parents limit 0..4 (+ 2 (base, reference) pairs for the resolver models); the first cases are hand-written witnesses, the others are generated: \
base = scheme x optional authority (ASCII, with port/userinfo, multi-byte, empty, IP literal) x rooted/rootless/empty path of 0..5 segments from a vocabulary with empty, dot, colon and multi-byte segments x optional query/fragment containing '/' and '?'; \
IRI = 70% derived from the base (same scheme/authority, a prefix of its segments, then other segments; or same path and other query/fragment; sometimes the authority dropped/added/extended), 30% independent; \
non-trivial = IRI and base share scheme and authority text (so the path/query branches of relativize are exercised); distinct = distinct (base, IRI)".into();
    let base_rng = Rng::new(a.seed);
    let header = "From Sophia.C17 Require Import Model.\n".to_string();
    let mut cases = vec![];
    let mut seen = std::collections::HashSet::new();
    let prev_hook = std::panic::take_hook();
    std::panic::set_hook(Box::new(|_| {}));
    let range: Vec<usize> = match a.only { Some(i) => vec![i], None => (0..a.n).collect() };
    for idx in range {
        let mut r = base_rng.fork(idx as u64);
        let (b, i) = if idx < FIXED.len() { (FIXED[idx].0.to_string(), FIXED[idx].1.to_string()) } else {
            let bp = gen_parts(&mut r);
            let ip = if r.chance(7, 10) { gen_related(&mut r, &bp) } else { gen_parts(&mut r) };
            (bp.text(), ip.text())
        };
        let Ok(base) = BaseIri::new(b.clone()) else { sum.bump("skipped:invalid-base"); continue };
        let Ok(iri) = Iri::new(i.clone()) else { sum.bump("skipped:invalid-iri"); continue };
        if BaseIri::new(i.clone()).is_err() { sum.bump("skipped:invalid-iri"); continue }
        let ib = BaseIri::new(i.clone()).unwrap();
        let same_path = base.scheme() == ib.scheme() && base.authority() == ib.authority() && base.path() == ib.path();
        let same_upto_frag = same_path && base.query() == ib.query();
        let shares_auth = base.scheme() == ib.scheme() && base.authority() == ib.authority();
        let mut body = vec![];
        let mut descs = vec![];
        for n in 0u8..=4 {
            let got = std::panic::catch_unwind(std::panic::AssertUnwindSafe(|| {
                let rel = Relativizer::new(base.as_ref(), n);
                rel.relativize(iri.as_ref()).map(|x| x.as_str().to_string())
            }));
            let (code, out, back_ok, back): (u8, String, bool, String) = match &got {
                Err(_) => (2, String::new(), false, String::new()),
                Ok(None) => (0, String::new(), false, String::new()),
                Ok(Some(rf)) => match base.resolve(rf.as_str()) {
                    Ok(x) => (1, rf.clone(), true, x.as_str().to_string()),
                    Err(_) => (1, rf.clone(), false, String::new()),
                },
            };
            // ---- the property oracle ----
            let fail = |sum: &mut Summary, what: String| {
                sum.oracle_failures.push((format!("{idx}/n={n}"), format!("base <{b}> iri <{i}> parents {n}: {what}")));
            };
            if code == 1 {
                let exp: Result<String, ()> = if back_ok { Ok(back.clone()) } else { Err(()) };
                if let Ok(Some(d)) = std::panic::catch_unwind(|| resolve_entry_points_agree(&b, &out, &exp)) { fail(&mut sum, format!("relativize returned {out:?}; resolving it back: {d}")); }
            }
            match code {
                2 => fail(&mut sum, "relativize panicked".into()),
                1 => {
                    if !back_ok { fail(&mut sum, format!("relativize returned {out:?}, which BaseIri::resolve rejects")); }
                    else if back != i { fail(&mut sum, format!("relativize returned {out:?}, which resolves to <{back}>, not to the IRI")); }
                    if lead_parents(&out) > n as usize { fail(&mut sum, format!("relativize returned {out:?} with more than {n} '../'")); }
                }
                _ => {
                    if same_path {
                        // "always relativised": a reference that is a proper suffix of the IRI (optionally after "./"),
                        // not a network-path reference, resolves to the IRI, yet nothing was returned
                        let mut cands: Vec<String> = vec![];
                        for k in 1..=i.len() { if i.is_char_boundary(k) { cands.push(i[k..].to_string()); cands.push(format!("./{}", &i[k..])); } }
                        cands.push(".".into());
                        let witness = cands.iter().find(|c| !c.starts_with("//") && lead_parents(c) == 0 && matches!(base.resolve(c.as_str()), Ok(x) if x.as_str() == i));
                        if same_upto_frag || witness.is_some() {
                            fail(&mut sum, format!("IRI differs from the base in query/fragment only but relativize returned None{}", witness.map(|w| format!(" (e.g. {w:?} resolves to it)")).unwrap_or_default()));
                        } else if let Some(w) = cands.iter().find(|c| c.starts_with("//") && matches!(base.resolve(c.as_str()), Ok(x) if x.as_str() == i)) {
                            // the property says "always relativised"; the only reference that resolves to the IRI is a
                            // network-path one, which relativize never produces: a (listed) finding, not a wrong answer
                            fail(&mut sum, format!("no-query corner: IRI differs from the base only by dropping the query, relativize returned None although the network-path reference {w:?} resolves to it"));
                        } else { sum.bump("same-path-but-no-reference-exists"); }
                    }
                }
            }
            sum.bump(&format!("n={n}:{}", ["none", "some", "panic"][code as usize]));
            if code == 1 {
                sum.bump(if out.starts_with("../") { "ref:../" } else if out.starts_with("./") { "ref:./" } else if out.starts_with('/') { "ref:/abs" } else if out.starts_with('?') { "ref:?query" } else if out.is_empty() || out.starts_with('#') { "ref:#frag-or-empty" } else { "ref:path" });
            }
            descs.push(format!("n={n}:{}", match code { 0 => "None".to_string(), 2 => "PANIC".to_string(), _ => format!("{out:?}->{}", if back_ok { back.clone() } else { "ERR".into() }) }));
            body.push(format!("case_ok b i {n} {code} {} {} {}", coq_bytes(out.as_bytes()), coq_bool(back_ok), coq_bytes(back.as_bytes())));
            sum.evaluations += 1;
        }
        // ---- (base, reference) pairs: the resolver models against BaseIri::resolve ----
        for _ in 0..2 {
            let rf = if r.chance(1, 4) { let p = gen_parts(&mut r); let t = p.text(); if r.chance(1, 2) { t } else { t[p.scheme.len() + 1..].to_string() } } else { r.pick(REFS).to_string() };
            let res = base.resolve(rf.as_str());
            let (ok, out) = match &res { Ok(x) => (true, x.as_str().to_string()), Err(_) => (false, String::new()) };
            // the model does not validate code points: keep the error cases it models (leading ':' / "//" path) only
            if !ok && !rf.starts_with(':') && !format!("{:?}", res).contains("TwoSlashes") { sum.bump("resolve:other-error-skipped"); continue }
            {
                let exp: Result<String, ()> = if ok { Ok(out.clone()) } else { Err(()) };
                if let Ok(Some(d)) = std::panic::catch_unwind(|| resolve_entry_points_agree(&b, &rf, &exp)) { sum.oracle_failures.push((format!("{idx}/resolve"), format!("base <{b}> reference {rf:?}: the entry points of resolution disagree: {d}"))); }
            }
            sum.bump(if ok { "resolve:ok" } else { "resolve:error" });
            body.push(format!("resolve_ok b {} {} {}", coq_bytes(rf.as_bytes()), coq_bool(ok), coq_bytes(out.as_bytes())));
            body.push(format!("resolve_rfc_ok b {} {} {}", coq_bytes(rf.as_bytes()), coq_bool(ok), coq_bytes(out.as_bytes())));
            sum.evaluations += 1;
        }
        let text = format!("base=<{b}> iri=<{i}>");
        if a.only.is_some() { println!("CASE {idx}: {text} => {}", descs.join(" ")); }
        if shares_auth { sum.bump("shares-scheme-authority"); }
        if same_path { sum.bump("same-path"); }
        if !b.is_ascii() || !i.is_ascii() { sum.bump("non-ascii"); }
        if seen.insert(text.clone()) && shares_auth { sum.distinct_nontrivial += 1; }
        if sum.samples.len() < 6 && idx >= FIXED.len() && shares_auth { sum.samples.push(format!("case {idx}: {text} => {}", descs.join(" "))); }
        cases.push((idx, format!("let b := {} in let i := {} in\n  {}", coq_bytes(b.as_bytes()), coq_bytes(i.as_bytes()), body.join("\n  && "))));
    }
    std::panic::set_hook(prev_hook);
    if a.only.is_none() {
        sum.shards = write_shards(&a.out, &header, &cases, a.shards);
        sum.extra.push(("coq_cases".into(), cases.len().to_string()));
        std::fs::write(format!("{}/summary.json", a.out), sum.to_json()).unwrap();
    }
    println!("c17: {} evaluations, {} distinct non-trivial, {} oracle failures", sum.evaluations, sum.distinct_nontrivial, sum.oracle_failures.len());
}
