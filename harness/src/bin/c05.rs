//! C05: sophia_c14n (RDFC-1.0) on symmetric blank-node structures, each with a relabelled and
//! reordered copy in another store type, with a recording hash function whose table is handed to
//! the Coq model (C05/Model.v) as the function H.  Oracle (plain Rust): identical bytes for the
//! copy, the document re-reads to a dataset isomorphic to the input labelled c14n0..c14n(n-1), the
//! identifier map is a bijection mapping the input onto the returned quads, and equality with an
//! independent transcription of the W3C text (c05_common).  Every third case is a dataset of near-identical
//! quads or of parallel edges, every sixth one has sibling nodes related to one other node through several quads that
//! differ by predicate / graph / direction (Hash Related Blank Node asked several times about one node); stores include one that yields in insertion order, and the same quads are
//! canonicalised in many insertion orders (the quads of every sibling permuted independently); the entry points with default limits, short-write and failing
//! writers, a failing dataset and the Term view of the returned quads are driven too (c05_common).  Every dataset is also
//! canonicalised under labels taken from the algorithm's own name spaces (c14n0..c14n(n-1) as issued = the document read
//! back, in other arrangements, near misses, b0.., a / z, and edited / merged read-back documents): same document, same
//! identifier per node when step 5 meets no tie; one relabelling per case goes to the model (C05/Alias.v, alias_ok).
#[path = "c05_common/mod.rs"]
mod c05_common;
fn main() {
    c05_common::run("C05");
}
