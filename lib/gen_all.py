#!/usr/bin/env python3
"""Run every translator (source of /repo -> coq/gen/*.v)."""
import os, sys
ROOT = os.path.dirname(os.path.dirname(os.path.abspath(__file__)))
sys.path.insert(0, os.path.join(ROOT, "lib"))
import props
ok = True
seen = set()
for pid, cfg in props.PROPS.items():
    for tr in cfg.get("translators", []):
        if tr in seen:
            continue
        seen.add(tr)
        good, info = tr(ROOT)
        ok = ok and good
        print(pid, tr.__name__, "ok" if good else "FAILED", info.get("error", ""))
sys.exit(0 if ok else 1)
