(* C09/EquivIri.v -- the regenerated regular expression `iri_regex` (gen/RegexSrc.v, from
   iri/src/_regex.rs) and the RFC 3987 rule `IRI` (Rfc3987.v) denote the same language.
   The equation between the two atom-level terms is decided by RelationAlgebra's `ka` (a reflexive,
   Coq-verified decision procedure for Kleene algebra) for ALL Kleene algebras; it is then
   instantiated in the model of languages over code points and transported to the matcher.
   When the equation does not hold, `ka` fails with "not a KA theorem:" followed by a
   distinguishing word over the atoms `f k`; lib/regex2coq.py turns it into a concrete string. *)
From RelationAlgebra Require Import lattice monoid kleene kat_tac lang.
From Coq Require Import NArith.
From Sophia.C09 Require Import Regex Rfc3987 Eval Lang.
From Sophia.gen Require Import RegexSrc.

Section s.
  Context `{L : monoid.laws} `{Hl : BKA ≪ l} (n : ob X) (f : N -> X n n).
  Lemma iri_ka : eval n f (abstract iri_regex) ≡ eval n f (abstract IRI).
  Proof. vm_compute. ka. Qed.
End s.

Theorem iri_regex_is_rfc3987 : forall w, matchb iri_regex w = matchb IRI w.
Proof.
  apply ka_to_matchb.
  - vm_compute. reflexivity.
  - vm_compute. reflexivity.
  - intro f. apply iri_ka.
Qed.
