(* C11/ModelSeq.v -- READ ERRORS IN THE MIDDLE of an enumeration.
   The iterators of Graph / Dataset are fallible item by item ("an error may occur at any time during the
   iteration"): the store's own enumeration is a sequence of Ok items (statements) and Err items, and the
   statements that follow an Err item belong to the store as much as the ones before it.  Every view
   (UnionGraph, PartialUnionGraph, DatasetGraph, GraphAsDataset; api/src/graph/adapter.rs,
   api/src/dataset/adapter.rs) and every provided enumeration / pattern method built on them
   (api/src/graph.rs, api/src/dataset.rs: resiter's filter_ok / map_ok / flat_map_ok / filter_map_ok) relays
   that sequence ONE ITEM FOR ONE: statements are filtered and mapped, error items all pass.
   Definitions only; the histories of ModelErr.v are embedded (SE).  *)
From Sophia.C11 Require Export ModelErr.

(* an item of a fallible iterator: Ok(a) or Err(MyErr(code)) *)
Inductive item (A : Type) := IOk (a : A) | IErr (c : N).
Arguments IOk {A}. Arguments IErr {A}.

Definition oks {A} (l : list (item A)) : list A :=
  flat_map (fun i => match i with IOk a => [a] | IErr _ => [] end) l.
Definition errs {A} (l : list (item A)) : list N :=
  flat_map (fun i => match i with IOk _ => [] | IErr c => [c] end) l.

(* resiter: filter_ok lets every error through, map_ok maps the Ok items, flat_map_ok expands them
   (filter_map_ok is flat_map_ok with at most one result) *)
Definition filter_ok {A} (f : A -> bool) (l : list (item A)) : list (item A) :=
  filter (fun i => match i with IOk a => f a | IErr _ => true end) l.
Definition map_ok {A B} (f : A -> B) (l : list (item A)) : list (item B) :=
  map (fun i => match i with IOk a => IOk (f a) | IErr c => IErr c end) l.
Definition flat_map_ok {A B} (f : A -> list B) (l : list (item A)) : list (item B) :=
  flat_map (fun i => match i with IOk a => map IOk (f a) | IErr c => [IErr c] end) l.

(* a dataset-valued expression: the store itself, given by its own enumeration (gs = false: a dataset
   store whose quads_matching is the provided quads().filter_ok(..); gs = true: a graph store behind
   GraphAsDataset, every statement being in the default graph), or a graph-valued view d.h() seen as a
   dataset *)
Inductive fview :=
| FRoot (gs : bool) (own : list (item tq))
| FGad (d : fview) (h : hop).

(* the graph-name matcher a view hands to quads_matching: Any / the selector / [g] *)
Definition hop_g (h : hop) : gmatch N :=
  match h with
  | HUnion => any_g N
  | HPUnion m => gdesc_g m
  | HGraph g => one_g N N.eqb g
  end.
Definition to_default (q : tq) : tq := mkQ (qt q) None.      (* Triple::into_quad after Quad::into_triple *)

(* Dataset::quads_matching.
   Store: quads().filter_ok(matched_by).
   GraphAsDataset: if gm.matches(None) { graph.triples_matching(sm,pm,om).map(into_quad) } else { empty() }:
   asked for named graphs only it answers by itself -- nothing, hence no error item either;
   the wrapped graph's triples_matching is the view's: d.quads_matching(sm,pm,om, its matcher).map(into_triple) *)
Fixpoint f_quads_matching (v : fview) (sm pm om : tmatch N) (gm : gmatch N) : list (item tq) :=
  match v with
  | FRoot false own => filter_ok (fun q => triple_matches N sm pm om (qt q) && gm (qg q)) own
  | FRoot true own => if gm None then filter_ok (fun q => triple_matches N sm pm om (qt q)) own else []
  | FGad d h => if gm None then map_ok to_default (f_quads_matching d sm pm om (hop_g h)) else []
  end.
Definition f_quads (v : fview) : list (item tq) := f_quads_matching v (any_t N) (any_t N) (any_t N) (any_g N).
Definition is_adapter (v : fview) : bool := match v with FRoot gs _ => gs | FGad _ _ => true end.

(* the graph-valued view d.h(): triples_matching / triples *)
Definition f_triples_matching (v : fview) (h : hop) (sm pm om : tmatch N) : list (item tt) :=
  map_ok qt (f_quads_matching v sm pm om (hop_g h)).
Definition f_triples (v : fview) (h : hop) : list (item tt) := f_triples_matching v h (any_t N) (any_t N) (any_t N).

(* d.h1().as_dataset().h2().as_dataset()... *)
Fixpoint mk_view (v : fview) (p : list hop) : fview :=
  match p with
  | [] => v
  | h :: p' => mk_view (FGad v h) p'
  end.

(* the answers *)
Inductive qout :=
| QT (l : list (item tt))          (* triples / triples_matching: the complete sequence *)
| QQ (l : list (item tq))          (* quads / quads_matching *)
| QTerms (l : list (item N))       (* an enumeration of terms: compared as (set of terms, sequence of error codes) *)
| QFlag (b : bool)                 (* contains *)
| QErr (c : N)
| QNone.                           (* never equal to anything *)

(* contains = ..matching([s],[p],[o]..).next().transpose().map(is_some) *)
Definition first_flag {A} (l : list (item A)) : qout :=
  match l with
  | [] => QFlag false
  | IOk _ :: _ => QFlag true
  | IErr c :: _ => QErr c
  end.
Definition t_atoms (pl : pool) (t : tt) : list N :=
  snd (pool_get pl (ts t)) ++ snd (pool_get pl (tp t)) ++ snd (pool_get pl (to_ t)).
Definition t_tcs (pl : pool) (t : tt) : list N := pool_tc pl (ts t) ++ pool_tc pl (tp t) ++ pool_tc pl (to_ t).

Definition f_gobs (pl : pool) (v : fview) (h : hop) (o : gobs) : qout :=
  match o with
  | GOMatching sm pm om => QT (f_triples_matching v h (mdesc_t sm) (mdesc_t pm) (mdesc_t om))
  | GOAll => QT (f_triples v h)
  | GOContains t =>
      first_flag (f_triples_matching v h (mdesc_t (MOneOf [ts t])) (mdesc_t (MOneOf [tp t])) (mdesc_t (MOneOf [to_ t])))
  | GOTerms pos => QTerms (map_ok (t_at pos) (f_triples v h))
  | GOAtoms k =>
      QTerms (if N.eqb k 3 then flat_map_ok (t_tcs pl) (f_triples v h)
              else filter_ok (fun a => N.eqb (fst (pool_get pl a)) k) (flat_map_ok (t_atoms pl) (f_triples v h)))
  end.
Definition f_dobs (pl : pool) (v : fview) (o : dobs) : qout :=
  match o with
  | DOMatching sm pm om gm => QQ (f_quads_matching v (mdesc_t sm) (mdesc_t pm) (mdesc_t om) (gdesc_g gm))
  | DOAll => QQ (f_quads v)
  | DOContains q =>
      first_flag (f_quads_matching v (mdesc_t (MOneOf [ts (qt q)])) (mdesc_t (MOneOf [tp (qt q)]))
                                   (mdesc_t (MOneOf [to_ (qt q)])) (one_g N N.eqb (qg q)))
  | DOTerms pos =>
      (* GraphAsDataset::graph_names is empty() *)
      QTerms (if is_adapter v && N.eqb pos 3 then [] else flat_map_ok (q_at pos) (f_quads v))
  | DOAtoms k =>
      QTerms (if N.eqb k 3 then flat_map_ok (fun q => flat_map (pool_tc pl) (q_terms q)) (f_quads v)
              else filter_ok (fun a => N.eqb (fst (pool_get pl a)) k)
                             (flat_map_ok (fun q => flat_map (fun x => snd (pool_get pl x)) (q_terms q)) (f_quads v)))
  end.
Definition seq_eval (gs : bool) (pl : pool) (own : list (item tq)) (x : xop) : qout :=
  match x with
  | XGObs p h o => f_gobs pl (mk_view (FRoot gs own) p) h o
  | XDObs p o => f_dobs pl (mk_view (FRoot gs own) p) o
  | _ => QNone
  end.

(* ---------- the store's own enumeration: its statements in ITS order (not part of the property), and the
   error items where the plan puts them: (p, c) = Err(c) just before the statement of rank p, at the very
   end when there are fewer statements; several errors at one place in the order of the plan ---------- *)
Definition plan := list (N * N).
Definition errs_at (pl : plan) (here : N -> bool) : list (item tq) :=
  flat_map (fun pc => if here (fst pc) then [IErr (snd pc)] else []) pl.
Fixpoint with_plan_from (pl : plan) (i : N) (l : list tq) : list (item tq) :=
  match l with
  | [] => errs_at pl (fun p => i <=? p)
  | q :: r => errs_at pl (N.eqb i) ++ IOk q :: with_plan_from pl (N.succ i) r
  end.
Definition with_plan (pl : plan) (l : list tq) : list (item tq) := with_plan_from pl 0 l.

Definition item_eqb {A} (e : A -> A -> bool) (a b : item A) : bool :=
  match a, b with
  | IOk x, IOk y => e x y
  | IErr c, IErr d => N.eqb c d
  | _, _ => false
  end.
(* is `own` an enumeration of the state d under the plan? *)
Definition own_ok (d : dataset N) (pl : plan) (own : list (item tq)) : bool :=
  keys_eqb (map qkey (oks own)) (map qkey d)
  && list_eqb (item_eqb (quad_eqb N N.eqb)) own (with_plan pl (oks own)).

Definition terms_eqb (a b : list (item N)) : bool :=
  str_eqb (dedup_sorted (sortN (oks a))) (dedup_sorted (sortN (oks b))) && str_eqb (errs a) (errs b).
Definition qout_eqb (a b : qout) : bool :=
  match a, b with
  | QT x, QT y => list_eqb (item_eqb (triple_eqb N N.eqb)) x y
  | QQ x, QQ y => list_eqb (item_eqb (quad_eqb N N.eqb)) x y
  | QTerms x, QTerms y => terms_eqb x y
  | QFlag x, QFlag y => Bool.eqb x y
  | QErr x, QErr y => N.eqb x y
  | _, _ => false
  end.

(* ---------- histories ---------- *)
Inductive sop :=
| SE (o : eop)                                   (* an operation of ModelErr.v *)
| SSetErrs (p : plan)                            (* from now on the store's enumerations carry these error items *)
| SSeq (own : list (item tq)) (x : xop).         (* an observation keeping every item; own = the store's own enumeration *)
Inductive sout := SX (o : eout) | SQ (q : qout).
Definition sstate := (estate * plan)%type.

Definition sstep (sk : skind) (gs : bool) (pl : pool) (st : sstate) (o : sop) : sstate * sout :=
  match o with
  | SE e => let '(st', r) := estep sk pl (fst st) e in ((st', snd st), SX r)
  | SSetErrs p => ((fst st, p), SX (EX (XO (OFlag (negb (is_nil p))))))
  | SSeq own x => (st, SQ (if own_ok (fst (fst st)) (snd st) own then seq_eval gs pl own x else QNone))
  end.
Fixpoint srun (sk : skind) (gs : bool) (pl : pool) (st : sstate) (ops : list sop) : list sout :=
  match ops with
  | [] => []
  | o :: ops' => let '(st', r) := sstep sk gs pl st o in r :: srun sk gs pl st' ops'
  end.
Definition sout_eqb (a b : sout) : bool :=
  match a, b with
  | SX x, SX y => eout_eqb x y
  | SQ x, SQ y => qout_eqb x y
  | _, _ => false
  end.
Definition scase_ok (sk : skind) (gs : bool) (pl : pool) (init : list tq) (ops : list sop) (observed : list sout) : bool :=
  let d0 := fold_left (fun d q => fst (s_insert sk d q)) init [] in
  list_eqb sout_eqb (srun sk gs pl ((d0, None), []) ops) observed.
