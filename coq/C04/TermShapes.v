(* C04/TermShapes.v -- what the token productions of the Turtle grammar (Grammar.v, TermGrammar.v) say about
   the letters of their words: every character in a class, first / last character in a class, where an
   escaped punctuation character or a dot can stand.  Each inclusion between atom-level terms is decided by
   RelationAlgebra's `ka` for ALL Kleene algebras, instantiated in the model of languages over code points
   and transported to the matcher (same route as Incl.v); the shape languages are then read off with the
   lemmas of Lang.v.  The statements exported at the end mention only the matcher and lists: the files that
   use them do not import RelationAlgebra. *)
From RelationAlgebra Require Import lattice monoid kleene kat_tac lang.
From Coq Require Import NArith List.
Import ListNotations.
From Sophia.C04 Require Import Regex Grammar TermGrammar Eval Lang.

Section s.
  Context `{L : monoid.laws} `{Hl : BKA ≪ l} (n : ob X) (f : N -> X n n).
  Lemma prefix_all_ka : eval n f (abstract PN_PREFIX) ≦ eval n f (abstract (S_all cls_pfx)).
  Proof. apply leq_iff_cup. vm_compute. ka. Qed.
  Lemma prefix_first_ka : eval n f (abstract PN_PREFIX) ≦ eval n f (abstract (S_first cls_base)).
  Proof. apply leq_iff_cup. vm_compute. ka. Qed.
  Lemma bnode_all_ka : eval n f (abstract BNODE_BODY) ≦ eval n f (abstract (S_all cls_pfx)).
  Proof. apply leq_iff_cup. vm_compute. ka. Qed.
  Lemma bnode_end_ka : eval n f (abstract BNODE_BODY) ≦ eval n f (abstract (S_end cls_notdot)).
  Proof. apply leq_iff_cup. vm_compute. ka. Qed.
  Lemma numeric_all_ka : eval n f (abstract NUMERIC) ≦ eval n f (abstract (S_all cls_num)).
  Proof. apply leq_iff_cup. vm_compute. ka. Qed.
  Lemma numeric_end_ka : eval n f (abstract NUMERIC) ≦ eval n f (abstract (S_end cls_digit)).
  Proof. apply leq_iff_cup. vm_compute. ka. Qed.
  Lemma numeric_first_ka : eval n f (abstract NUMERIC) ≦ eval n f (abstract (S_first cls_numstart)).
  Proof. apply leq_iff_cup. vm_compute. ka. Qed.
  Lemma pname_noesc_all_ka : eval n f (abstract PNAME_noesc) ≦ eval n f (abstract (S_all cls_tok)).
  Proof. apply leq_iff_cup. vm_compute. ka. Qed.
  Lemma pname_noesc_ka : eval n f (abstract PNAME_noesc) ≦ eval n f (abstract PNAME).
  Proof. apply leq_iff_cup. vm_compute. ka. Qed.
  Lemma pname_all_ka : eval n f (abstract PNAME) ≦ eval n f (abstract (S_all cls_not01)).
  Proof. apply leq_iff_cup. vm_compute. ka. Qed.
  Lemma pname_esc10_ka : eval n f (abstract PNAME) ≦ eval n f (abstract S_esc10).
  Proof. apply leq_iff_cup. vm_compute. ka. Qed.
  Lemma pname_enddot_ka : eval n f (abstract PNAME) ≦ eval n f (abstract S_enddot).
  Proof. apply leq_iff_cup. vm_compute. ka. Qed.
  Lemma pname_colon_ka : eval n f (abstract PNAME) ≦ eval n f (abstract S_colon).
  Proof. apply leq_iff_cup. vm_compute. ka. Qed.
End s.

Ltac by_ka lem :=
  apply ka_incl_matchb; [vm_compute; reflexivity | vm_compute; reflexivity | let f := fresh "f" in intro f; exact (lem _ _ (lang_laws N) _ lang_tt f)].

(* ---------- reading the shapes ---------- *)
Local Open Scope N_scope.
Definition all_in (c : cclass) (w : list N) : Prop := Forall (fun x => inr x c = true) w.

Lemma read_all c w : matchb (S_all c) w = true -> all_in c w.
Proof. intro M. apply matchb_spec in M. apply lang_Star_Lf in M. exact M. Qed.

Lemma read_end c w : matchb (S_end c) w = true -> exists z x, w = z ++ [x] /\ inr x c = true.
Proof.
  intro M. apply matchb_spec in M. unfold S_end, cats in M.
  apply lang_Cat in M. destruct M as [u [v [-> [_ Hv]]]].
  apply lang_Lf in Hv. destruct Hv as [x [-> Hx]]. exists u, x. split; [reflexivity | exact Hx].
Qed.

Lemma read_first c w : matchb (S_first c) w = true -> exists x z, w = x :: z /\ inr x c = true.
Proof.
  intro M. apply matchb_spec in M. unfold S_first, cats in M.
  apply lang_Cat in M. destruct M as [u [v [-> [Hu _]]]].
  apply lang_Lf in Hu. destruct Hu as [x [-> Hx]]. exists x, v. split; [reflexivity | exact Hx].
Qed.

Lemma inr_chr k x : inr x [(k, k)] = true -> x = k.
Proof.
  unfold inr, existsb, in_range, fst, snd. intro H.
  rewrite Bool.orb_false_r in H. apply Bool.andb_true_iff in H. destruct H as [H1 H2].
  apply N.leb_le in H1, H2. Lia.lia.
Qed.

(* ---------- the exported facts ---------- *)
Theorem prefix_all w : matchb PN_PREFIX w = true -> all_in cls_pfx w.
Proof. intro M. apply read_all. revert w M. by_ka @prefix_all_ka. Qed.
Theorem prefix_first w : matchb PN_PREFIX w = true -> exists x z, w = x :: z /\ inr x cls_base = true.
Proof. intro M. apply read_first. revert w M. by_ka @prefix_first_ka. Qed.
Theorem bnode_all w : matchb BNODE_BODY w = true -> all_in cls_pfx w.
Proof. intro M. apply read_all. revert w M. by_ka @bnode_all_ka. Qed.
Theorem bnode_end w : matchb BNODE_BODY w = true -> exists z x, w = z ++ [x] /\ inr x cls_notdot = true.
Proof. intro M. apply read_end. revert w M. by_ka @bnode_end_ka. Qed.
Theorem numeric_all w : matchb NUMERIC w = true -> all_in cls_num w.
Proof. intro M. apply read_all. revert w M. by_ka @numeric_all_ka. Qed.
Theorem numeric_end w : matchb NUMERIC w = true -> exists z x, w = z ++ [x] /\ inr x cls_digit = true.
Proof. intro M. apply read_end. revert w M. by_ka @numeric_end_ka. Qed.
Theorem numeric_first w : matchb NUMERIC w = true -> exists x z, w = x :: z /\ inr x cls_numstart = true.
Proof. intro M. apply read_first. revert w M. by_ka @numeric_first_ka. Qed.
Theorem pname_noesc_all w : matchb PNAME_noesc w = true -> all_in cls_tok w.
Proof. intro M. apply read_all. revert w M. by_ka @pname_noesc_all_ka. Qed.
Theorem pname_noesc_incl w : matchb PNAME_noesc w = true -> matchb PNAME w = true.
Proof. revert w. by_ka @pname_noesc_ka. Qed.
Theorem pname_all w : matchb PNAME w = true -> all_in cls_not01 w.
Proof. intro M. apply read_all. revert w M. by_ka @pname_all_ka. Qed.

(* in a prefixed name, the first escpunct character (if any) comes right after a backslash *)
Theorem pname_esc10 w : matchb PNAME w = true ->
  all_in cls_not10 w \/
  exists x e y, w = x ++ 92 :: e :: y /\ all_in cls_not10 x /\ inr e cls_a10 = true.
Proof.
  intro M. assert (M' : matchb S_esc10 w = true) by (revert w M; by_ka @pname_esc10_ka). clear M.
  unfold S_esc10, alts in M'. rewrite matchb_alt in M'. apply Bool.orb_true_iff in M'. destruct M' as [M|M].
  - left. apply read_all. exact M.
  - right. apply matchb_spec in M. unfold cats in M.
    apply lang_Cat in M. destruct M as [x [v [-> [Hx M]]]].
    apply lang_Cat in M. destruct M as [b [v' [-> [Hb M]]]].
    apply lang_Cat in M. destruct M as [e [y [-> [He _]]]].
    apply lang_Lf in Hb. destruct Hb as [b0 [-> Hb]]. apply inr_chr in Hb. subst b0.
    apply lang_Lf in He. destruct He as [e0 [-> He]].
    apply lang_Star_Lf in Hx.
    exists x, e0, y. split; [reflexivity|]. split; [exact Hx | exact He].
Qed.

(* a prefixed name ends with a character that is not a dot, or with an escaped dot *)
Theorem pname_enddot w : matchb PNAME w = true ->
  (exists z x, w = z ++ [x] /\ inr x cls_notdot = true) \/ exists z, w = z ++ [92; 46].
Proof.
  intro M. assert (M' : matchb S_enddot w = true) by (revert w M; by_ka @pname_enddot_ka). clear M.
  unfold S_enddot, alts in M'. rewrite matchb_alt in M'. apply Bool.orb_true_iff in M'. destruct M' as [M|M].
  - left. apply read_end. exact M.
  - right. apply matchb_spec in M. unfold cats in M.
    apply lang_Cat in M. destruct M as [z [v [-> [_ M]]]].
    apply lang_Cat in M. destruct M as [b [d [-> [Hb Hd]]]].
    apply lang_Lf in Hb. destruct Hb as [b0 [-> Hb]]. apply inr_chr in Hb. subst b0.
    apply lang_Lf in Hd. destruct Hd as [d0 [-> Hd]]. apply inr_chr in Hd. subst d0.
    exists z. reflexivity.
Qed.

(* a prefixed name has a colon, preceded by PN_PREFIX characters only *)
Theorem pname_colon w : matchb PNAME w = true -> exists x y, w = x ++ 58 :: y /\ all_in cls_pfx x.
Proof.
  intro M. assert (M' : matchb S_colon w = true) by (revert w M; by_ka @pname_colon_ka). clear M.
  apply matchb_spec in M'. unfold S_colon, cats in M'.
  apply lang_Cat in M'. destruct M' as [x [v [-> [Hx M]]]].
  apply lang_Cat in M. destruct M as [c [y [-> [Hc _]]]].
  apply lang_Lf in Hc. destruct Hc as [c0 [-> Hc]]. apply inr_chr in Hc. subst c0.
  apply lang_Star_Lf in Hx. exists x, y. split; [reflexivity | exact Hx].
Qed.

(* building a prefixed name from its parts *)
Theorem pname_build pre suf :
  pre = [] \/ matchb PN_PREFIX pre = true -> matchb PN_LOCAL_noesc suf = true ->
  matchb PNAME_noesc (pre ++ 58 :: suf) = true.
Proof.
  intros Hp Hs. apply matchb_spec. unfold PNAME_noesc, PNAME_NS, cats, opt.
  apply lang_Cat. exists (pre ++ [58]), suf. split; [rewrite <- app_assoc; reflexivity|]. split.
  - apply lang_Cat. exists pre, [58]. split; [reflexivity|]. split.
    + apply lang_Alt. destruct Hp as [->|Hp]; [right; apply lang_Eps; reflexivity | left; apply matchb_spec; exact Hp].
    + apply lang_Lf. exists 58. split; reflexivity.
  - apply lang_Alt. left. apply matchb_spec. exact Hs.
Qed.

(* the three numeric productions inside their union, and the union back to them *)
Theorem numeric_cases w : matchb NUMERIC w = orb (matchb INTEGER w) (orb (matchb DECIMAL w) (matchb DOUBLE w)).
Proof. unfold NUMERIC, alts. rewrite !matchb_alt. reflexivity. Qed.

(* BooleanLiteral has two words *)
Theorem boolean_words w : matchb BOOLEAN w = true -> w = [116; 114; 117; 101] \/ w = [102; 97; 108; 115; 101].
Proof.
  intro M. unfold BOOLEAN, alts in M. rewrite matchb_alt in M. apply Bool.orb_true_iff in M.
  destruct M as [M|M]; apply matchb_spec in M; unfold cats in M;
    repeat (let u := fresh "u" in let v := fresh "v" in let Hu := fresh "Hu" in
            apply lang_Cat in M; destruct M as [u [v [-> [Hu M]]]];
            apply lang_Lf in Hu; let x := fresh "x" in destruct Hu as [x [-> Hu]]; apply inr_chr in Hu; subst x);
    apply lang_Lf in M; destruct M as [x [-> Hx]]; apply inr_chr in Hx; subst x; [left|right]; reflexivity.
Qed.
