"""Evaluation of the string constants of a Rust source file, as far as the translators need it.

The regular expressions (and other string tables) the properties depend on are read from the Rust
sources.  A maintainer may spell such a constant in many equivalent ways: a raw string, an ordinary
string with escapes, a `const` referred to by name, `concat!(...)`, `format!("..{}..{NAME}..", A)`,
`"..".to_owned() + B` ...  This module tokenises the file (comments, char / string / raw-string
literals) and evaluates such expressions, so that a harmless re-spelling regenerates the same model
instead of breaking the translator.  Anything it does not understand raises ValueError (the caller
reports that the tie to the source is broken; it never guesses).
"""
import re


class Tok:
    __slots__ = ("kind", "val")

    def __init__(self, kind, val):
        self.kind, self.val = kind, val

    def __repr__(self):
        return "%s:%r" % (self.kind, self.val)


_ESC = {"n": "\n", "r": "\r", "t": "\t", "\\": "\\", "0": "\0", '"': '"', "'": "'"}


def _unescape(body):
    out, i = [], 0
    while i < len(body):
        c = body[i]
        if c != "\\":
            out.append(c); i += 1; continue
        i += 1
        c = body[i]
        if c in _ESC:
            out.append(_ESC[c]); i += 1
        elif c == "x":
            out.append(chr(int(body[i + 1:i + 3], 16))); i += 3
        elif c == "u":
            j = body.index("}", i)
            out.append(chr(int(body[i + 2:j].replace("_", ""), 16))); i = j + 1
        elif c == "\n":                      # line continuation: skip the newline and leading white space
            i += 1
            while i < len(body) and body[i] in " \t\n\r":
                i += 1
        else:
            raise ValueError("unknown escape \\%s in a string literal" % c)
    return "".join(out)


def tokenize(text):
    toks, i, n = [], 0, len(text)
    while i < n:
        c = text[i]
        if c.isspace():
            i += 1; continue
        if text.startswith("//", i):
            j = text.find("\n", i); i = n if j < 0 else j; continue
        if text.startswith("/*", i):
            depth, i = 1, i + 2
            while i < n and depth:
                if text.startswith("/*", i): depth += 1; i += 2
                elif text.startswith("*/", i): depth -= 1; i += 2
                else: i += 1
            continue
        m = re.match(r'(?:b?r)(#*)"', text[i:])
        if m:                                 # raw string r"..", r#".."#, br".."
            hashes = m.group(1); start = i + m.end(); end = text.index('"' + hashes, start)
            toks.append(Tok("str", text[start:end])); i = end + 1 + len(hashes); continue
        if c == '"' or (c == "b" and text.startswith('b"', i)):
            j = i + (2 if c == "b" else 1); start = j
            while text[j] != '"':
                j += 2 if text[j] == "\\" else 1
            toks.append(Tok("str", _unescape(text[start:j]))); i = j + 1; continue
        if c == "'":
            m = re.match(r"'(\\x[0-9a-fA-F]{2}|\\u\{[0-9a-fA-F_]+\}|\\.|[^'\\])'", text[i:])
            if m:                             # a char literal (otherwise: a lifetime)
                toks.append(Tok("char", _unescape(m.group(1)))); i += m.end(); continue
            m = re.match(r"'[A-Za-z_][A-Za-z0-9_]*", text[i:])
            toks.append(Tok("lifetime", m.group(0))); i += m.end(); continue
        m = re.match(r"[A-Za-z_][A-Za-z0-9_]*", text[i:])
        if m:
            toks.append(Tok("id", m.group(0))); i += m.end(); continue
        m = re.match(r"[0-9][0-9A-Za-z_.]*", text[i:])
        if m:
            toks.append(Tok("num", m.group(0))); i += m.end(); continue
        toks.append(Tok("p", c)); i += 1
    return toks


_OPEN, _CLOSE = {"(": ")", "[": "]", "{": "}"}, {")", "]", "}"}


def _matching(toks, i):
    """index of the token closing the bracket opened at toks[i]"""
    depth = 0
    for j in range(i, len(toks)):
        t = toks[j]
        if t.kind == "p" and t.val in _OPEN: depth += 1
        elif t.kind == "p" and t.val in _CLOSE:
            depth -= 1
            if depth == 0: return j
    raise ValueError("unbalanced brackets")


def _split_commas(toks):
    parts, cur, depth = [], [], 0
    for t in toks:
        if t.kind == "p" and t.val in _OPEN: depth += 1
        if t.kind == "p" and t.val in _CLOSE: depth -= 1
        if t.kind == "p" and t.val == "," and depth == 0:
            parts.append(cur); cur = []
        else:
            cur.append(t)
    if cur: parts.append(cur)
    return parts


class Consts:
    """the `const` / `static` items of one Rust file"""

    def __init__(self, path):
        self.path = path
        self.toks = tokenize(open(path, encoding="utf8").read())
        self.items = {}
        t = self.toks
        for i, x in enumerate(t):
            if x.kind == "id" and x.val in ("const", "static"):
                j = i + 1
                while j < len(t) and t[j].kind == "id" and t[j].val in ("ref", "mut"):
                    j += 1
                if j + 1 < len(t) and t[j].kind == "id" and t[j + 1].kind == "p" and t[j + 1].val == ":":
                    name = t[j].val
                    k = j + 2; depth = 0                     # skip the type up to the `=` at depth 0
                    while k < len(t) and not (t[k].kind == "p" and t[k].val == "=" and depth == 0 and not (t[k + 1].kind == "p" and t[k + 1].val in "=>")):
                        if t[k].kind == "p" and t[k].val in "(<[{": depth += 1
                        if t[k].kind == "p" and t[k].val in ")>]}": depth -= 1
                        if t[k].kind == "p" and t[k].val == ";" and depth <= 0: break
                        k += 1
                    if k >= len(t) or t[k].val != "=":
                        continue
                    e = k + 1; depth = 0
                    while e < len(t) and not (t[e].kind == "p" and t[e].val == ";" and depth == 0):
                        if t[e].kind == "p" and t[e].val in _OPEN: depth += 1
                        if t[e].kind == "p" and t[e].val in _CLOSE: depth -= 1
                        e += 1
                    self.items.setdefault(name, []).append(t[k + 1:e])

    # ------------------------------------------------------------------ expressions
    def _init(self, name):
        got = self.items.get(name, [])
        if len(got) != 1:
            raise ValueError("%s: expected exactly one `const`/`static` %s, found %d" % (self.path, name, len(got)))
        return got[0]

    def string(self, name, _seen=()):
        if name in _seen:
            raise ValueError("%s: cyclic definition of %s" % (self.path, name))
        return self._eval(self._init(name), _seen + (name,))

    def _eval(self, toks, seen):
        toks = list(toks)
        # a block or parenthesis around the whole expression
        while toks and toks[0].kind == "p" and toks[0].val in "({" and _matching(toks, 0) == len(toks) - 1:
            toks = toks[1:-1]
        # top-level `+`
        parts, cur, depth = [], [], 0
        for t in toks:
            if t.kind == "p" and t.val in _OPEN: depth += 1
            if t.kind == "p" and t.val in _CLOSE: depth -= 1
            if t.kind == "p" and t.val == "+" and depth == 0:
                parts.append(cur); cur = []
            else:
                cur.append(t)
        parts.append(cur)
        if len(parts) > 1:
            return "".join(self._eval(p, seen) for p in parts)
        return self._term(toks, seen)

    def _term(self, toks, seen):
        if not toks:
            raise ValueError("%s: empty expression" % self.path)
        while toks and toks[0].kind == "p" and toks[0].val in "&*":
            toks = toks[1:]
        # trailing no-op methods
        while len(toks) >= 4 and toks[-1].val == ")" and toks[-2].val == "(" and toks[-3].kind == "id" and toks[-4].val == "." and \
                toks[-3].val in ("as_str", "to_string", "to_owned", "clone", "into", "as_ref", "borrow", "deref", "into_boxed_str"):
            toks = toks[:-4]
        if toks[0].kind == "p" and toks[0].val in "({" and _matching(toks, 0) == len(toks) - 1:
            return self._eval(toks, seen)
        if len(toks) == 1 and toks[0].kind == "str":
            return toks[0].val
        # path :: NAME   or NAME
        if all((t.kind == "id") or (t.kind == "p" and t.val == ":") for t in toks) and toks[-1].kind == "id":
            return self.string(toks[-1].val, seen)
        # macro calls
        if len(toks) >= 4 and toks[0].kind == "id" and toks[1].val == "!" and toks[2].val in _OPEN and _matching(toks, 2) == len(toks) - 1:
            args = _split_commas(toks[3:-1])
            if toks[0].val == "concat":
                return "".join(self._eval(a, seen) for a in args)
            if toks[0].val == "format":
                return self._format(args, seen)
        # String::from(expr), String::new() ...
        if len(toks) >= 6 and toks[0].val == "String" and toks[3].val == "from" and toks[4].val == "(" and _matching(toks, 4) == len(toks) - 1:
            return self._eval(toks[5:-1], seen)
        raise ValueError("%s: cannot evaluate the string expression `%s`" % (self.path, " ".join(str(t.val) for t in toks)[:200]))

    def _format(self, args, seen):
        if not args or len(args[0]) != 1 or args[0][0].kind != "str":
            raise ValueError("%s: format! without a literal format string" % self.path)
        fmt = args[0][0].val
        pos, named = [], {}
        for a in args[1:]:
            if len(a) >= 3 and a[0].kind == "id" and a[1].val == "=" and not (a[2].kind == "p" and a[2].val == "="):
                named[a[0].val] = a[2:]
            else:
                pos.append(a)
        out, i, nxt = [], 0, 0
        while i < len(fmt):
            c = fmt[i]
            if fmt.startswith("{{", i): out.append("{"); i += 2; continue
            if fmt.startswith("}}", i): out.append("}"); i += 2; continue
            if c == "{":
                j = fmt.index("}", i); spec = fmt[i + 1:j]
                if ":" in spec:
                    raise ValueError("%s: format specification {%s} not supported" % (self.path, spec))
                if spec == "":
                    out.append(self._eval(pos[nxt], seen)); nxt += 1
                elif spec.isdigit():
                    out.append(self._eval(pos[int(spec)], seen))
                elif spec in named:
                    out.append(self._eval(named[spec], seen))
                else:
                    out.append(self.string(spec, seen))           # inline captured identifier
                i = j + 1; continue
            out.append(c); i += 1
        return "".join(out)

    # ------------------------------------------------------------------ regexes
    def regex_source(self, name):
        """the pattern given to Regex::new in the initialiser of the static `name`
        (lazy_static! `static ref`, LazyLock / Lazy / OnceLock closures, with or without a block)"""
        if name not in self.items:
            # renamed?  if the file holds exactly one static built with Regex::new, that is the one
            cands = [n for n, inits in self.items.items() if len(inits) == 1 and self._calls_regex_new(inits[0])]
            if len(cands) == 1:
                name = cands[0]
        toks = self._init(name)
        for i in range(len(toks) - 4):
            if toks[i].kind == "id" and toks[i].val in ("Regex", "RegexBuilder") and toks[i + 1].val == ":" and toks[i + 2].val == ":" and \
                    toks[i + 3].val == "new" and toks[i + 4].val == "(":
                j = _matching(toks, i + 4)
                return self._eval(toks[i + 5:j], (name,))
        raise ValueError("%s: the initialiser of %s does not call Regex::new" % (self.path, name))

    @staticmethod
    def _calls_regex_new(toks):
        return any(toks[i].kind == "id" and toks[i].val == "Regex" and toks[i + 1].val == ":" and toks[i + 2].val == ":" and toks[i + 3].val == "new"
                   for i in range(len(toks) - 3))
