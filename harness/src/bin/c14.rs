//! C14: ORDER BY of sophia_sparql run through the public query API on small datasets drawn from a
//! pool of ~170 terms, against the Coq model (C14/Model.v) and an independent oracle:
//!   (i)   the ordered result is a permutation of the unordered solutions,
//!   (ii)  no later solution is '<' an earlier one (SPARQL operator '<' re-implemented here from
//!         the XSD lexical forms: exact decimals, promotion by correctly rounded parsing,
//!         codepoint order of strings, false < true, XSD partial order of dateTimes),
//!   (iii) unbound < blank node < IRI < literal < triple term,
//!   (iv)  the comparator observed by sorting every 2-element multiset of the pool is
//!         antisymmetric and its "not greater" is transitive on every triple of the pool,
//!   and sorting never panics.
//! End-to-end cases (kinds q:*, second half of the file): the criteria are EXPRESSIONS over operands
//! (arithmetic whose operands leave and re-enter the isize range, mixed numeric types, strings, booleans,
//! conditionals, date parts, keys computed from BIND-ed keys), given in ORDER BY directly, through BIND or
//! through a SELECT expression, with ASC/DESC mixes, FILTER, GRAPH, LIMIT/OFFSET and DISTINCT, over three
//! dataset types and the three query entry points.  The keys are observed through BIND, and
//!   (v)   two different terms with exactly equal values (1 / 1.0 / 1e0 / "01"^^xsd:integer, one instant in
//!         two time zones, true / "1"^^xsd:boolean) are tied: the NEXT key decides (also in the rows cases),
//!   (vi)  the engine's own operator '<' (BIND and FILTER over every ordered pair of solutions) never
//!         contradicts the output order,
//!   (vii) a LIMIT/OFFSET window is the window of the complete ordered result, (viii) DISTINCT keeps the order.
//! Context cases (kinds c:*, third part of the file): ORDER BY at every place of the algebra (top level, sub-select,
//! sub-select under GRAPH <g> / GRAPH ?g, up to three SELECTs deep) over a default graph and named graphs that differ,
//! with keys whose value depends on the active graph (EXISTS / NOT EXISTS, BOUND, IF, COALESCE, graph variables), and
//!   (ix)  every key is evaluated in the active graph of the SELECT its ORDER BY belongs to: the oracle evaluates the
//!         whole query as SPARQL 1.1 section 18 prescribes; LIMIT / OFFSET windows of the sub-selects make their order visible.
//! Conversion cases (kinds v:*, before the sweep constants at the end of the file): the promotions integer/decimal -> f64 / f32 that the
//! operator '<' performs (coerce_to_double / coerce_to_float), observed through ?v * 1e0 and ?v * "1"^^xsd:float, compared in Coq
//! with round-to-nearest-even (Rounding.v / Engine.v) and with Rust's correctly rounded parser, and
//!   (x)   no number of the target format lies between the exact value and its image (the promotion never crosses a float),
//!         which is what makes the exact order of ORDER BY and the promoted order of '<' compatible.
//! Directed stream (ids from DIRECTED_BASE, one case for every six random ones; same oracles and Coq checkers as the q:* / c:* kinds):
//!   q:unprojected  criteria over variables that the SELECT clause does not project and that are sensitive to WHETHER the last operand
//!                  is bound (BOUND, '!', IF, COALESCE, EXISTS, IN, functions over a variable bound in about half of the solutions);
//!   q:near-ties    values that '<' orders although they are as close as their value space allows (dateTimes 1 ns .. 1 s apart written
//!                  in several time zones, neighbouring doubles / floats, decimals that differ after 17..30 fraction digits, consecutive
//!                  integers across the ends of the isize range, strings with a common prefix), shuffled, with a second key that orders
//!                  the solutions the other way round: two values wrongly tied on the first key come out in the wrong order;
//!   c:*+part-proj  context cases whose SELECT clauses (the outermost one included) keep only part of the variables, with keys that
//!                  depend on whether a variable is bound (Coq: Context.v evaluates Project above OrderBy; Directed.v / DirectedProofs.v);
//!   every end-to-end case of the stream has a SELECT clause that projects ?s, some of the operands or *, and
//!   (i')  the columns are those of the SELECT clause and the projected operands of every ordered solution are those of that solution.
//! The model receives, for every pool term, the value that the implementation itself parsed
//! (Debug rendering of ResultTerm::value()), so that lexical parsing is not part of the model.
use sophia_api::prelude::*;
use sophia_api::sparql::{Query as _, SparqlDataset as _};
use sophia_api::term::{SimpleTerm, Term, TermKind};
use sophia_sparql::{ResultTerm, SparqlQuery, SparqlWrapper};
use sophia_term::ArcTerm;
use std::cmp::Ordering;
use verif_harness::*;

// ---------------------------------------------------------------- pool
fn x(l: &str, local: &str) -> ST { lit_dt(l, &format!("{XSD}{local}")) }
fn pool_terms() -> Vec<ST> {
    let mut v: Vec<ST> = vec![];
    for l in ["0", "1", "-1", "9", "10", "007", "+5", "-0", "9007199254740991", "9007199254740992", "9007199254740993",
              "16777217", "9223372036854775807", "9223372036854775808", "123456789012345678901234567890",
              "-123456789012345678901234567890", "1a", " 1", "1_000", ""] { v.push(x(l, "integer")); }
    v.push(x(&format!("1{}", "0".repeat(400)), "integer"));
    for l in ["2.0", "1.0", "0.1", "1.5", "-1.5", "2.50", "2.5", "0.30000000000000004", "9007199254740992.5",
              "9007199254740993.0", "123456789012345678901234567890.123456789", "0.0000000000000000000000000000000000001",
              "1.", ".5", "-0.0", "1e3", "abc", "16777216.5"] { v.push(x(l, "decimal")); }
    for l in ["1", "1.0E0", "0.1", "1.5", "-1.5", "2.5e0", "9007199254740992", "9.007199254740993E15", "9007199254740994",
              "1e400", "INF", "-INF", "+INF", "NaN", "-0.0", "0", "5e-324", "1e-400", "1.7976931348623157e308",
              "0.30000000000000004", "16777217", "inf", "nan", "", "1e5x", "123456789012345678901234567890"] { v.push(x(l, "double")); }
    for l in ["1", "1.5", "0.1", "16777217", "16777216", "NaN", "INF", "-INF", "-0.0", "3.4028235e38", "x", "infinity", "2.5"] { v.push(x(l, "float")); }
    for (l, t) in [("5", "long"), ("-7", "int"), ("300", "short"), ("127", "byte"), ("300", "byte"), ("18446744073709551615", "unsignedLong"),
                   ("7", "unsignedInt"), ("8", "unsignedShort"), ("255", "unsignedByte"), ("256", "unsignedByte"), ("3", "nonNegativeInteger"),
                   ("-3", "nonNegativeInteger"), ("4", "positiveInteger"), ("0", "positiveInteger"), ("-2", "nonPositiveInteger"),
                   ("0", "nonPositiveInteger"), ("-6", "negativeInteger"), ("0", "negativeInteger"), ("1 ", "int"), ("2.0", "long")] { v.push(x(l, t)); }
    for l in ["a", "b", "B", "", "10", "9", "abc", "\u{e9}", "z\u{10000}", "1"] { v.push(x(l, "string")); }
    for (l, t) in [("a", "en"), ("a", "EN"), ("b", "en"), ("a", "fr"), ("a", "en-US"), ("", "en"), ("1", "de")] { v.push(lit_lang(l, t)); }
    for (l, d) in [("x", "http://example.org/dt"), ("1", "http://example.org/dt"), ("2", "http://example.org/dt")] { v.push(lit_dt(l, d)); }
    for (l, t) in [("2024", "gYear"), ("2024-01-01", "date"), ("P1D", "duration"), ("1", "hexBinary")] { v.push(x(l, t)); }
    v.push(lit_dt("<b>a</b>", &format!("{RDF}HTML")));
    for l in ["true", "false", "1", "0", "TRUE", "maybe"] { v.push(x(l, "boolean")); }
    for l in ["2024-09-17T12:00:00Z", "2024-09-17T13:00:00+01:00", "2024-09-17T23:00:00+10:00", "2024-09-17T10:00:00-05:00",
              "2024-09-17T15:00:00", "2024-09-17T12:00:00", "2024-09-18T06:00:00", "2024-09-17T24:00:00", "2024-09-18T00:00:00",
              "2024-09-17T12:00:00.5Z", "2024-09-17T12:00:00.500Z", "2024-09-17T12:00:00.25", "-0044-03-15T12:00:00Z", "12024-01-01T00:00:00Z",
              "2023-02-29T00:00:00", "yesterday", "2024-09-17T12:00:00+14:00", "2024-09-17T12:00:00-14:00", "2024-09-16T21:59:59Z",
              "2024-09-18T02:00:01Z", "1969-12-31T23:59:59.999999999Z", "1970-01-01T00:00:00"] { v.push(x(l, "dateTime")); }
    for i in ["http://example.org/a", "http://example.org/b", "http://example.org/A", "urn:x", "a:"] { v.push(iri(i)); }
    for b in ["b1", "b2", "B"] { v.push(bnode(b)); }
    v.push(triple(iri("http://example.org/a"), iri("http://example.org/p"), x("1", "integer")));
    v.push(triple(iri("http://example.org/a"), iri("http://example.org/p"), x("2", "integer")));
    v.push(triple(bnode("b1"), iri("http://example.org/p"), iri("http://example.org/a")));
    v
}

/// terms added after the swept pool (the sweep of all pairs stays on `pool_terms`): more spellings of
/// equal values (ties that a later key must break) and integers around the ends of the isize range
fn extra_terms() -> Vec<ST> {
    let mut v: Vec<ST> = vec![];
    for l in ["01", "+1", "10", "010", "-01", "2", "3", "-7", "9223372036854775805", "-9223372036854775805", "-9223372036854775808",
              "-9223372036854775809", "18446744073709551616", "4611686018427387904", "3037000500", "-9223372036854775807"] { v.push(x(l, "integer")); }
    for l in ["1.00", "10.0", "-1.50", "+2.500", "0.10", "3.0", "-7.0", "9223372036854775808.0", "0"] { v.push(x(l, "decimal")); }
    for l in ["1e0", "1E1", "10", "-1.5E0", "0.25e1", "3", "-7.0e0", "9223372036854775808", "-0.0e0", "100e-2"] { v.push(x(l, "double")); }
    for l in ["1.0", "1e1", "-1.5", "3", "9223372036854775808", "0"] { v.push(x(l, "float")); }
    for (l, t) in [("1", "long"), ("1", "unsignedByte"), ("01", "positiveInteger"), ("10", "short"), ("-7", "negativeInteger"), ("3", "unsignedInt"),
                   ("9223372036854775808", "unsignedLong"), ("9223372036854775808", "positiveInteger"), ("-9223372036854775809", "negativeInteger")] { v.push(x(l, t)); }
    for l in ["2024-09-17T14:00:00+02:00", "2024-09-17T08:00:00-04:00", "2024-09-17T12:00:00.0", "2024-09-17T12:00:00.000", "2024-09-17T12:00:00.250",
              "2024-09-17T12:00:00.50Z", "2024-09-18T00:00:00.0", "1970-01-01T00:00:00.000"] { v.push(x(l, "dateTime")); }
    for (l, t) in [("a", "En"), ("b", "EN"), ("1", "DE")] { v.push(lit_lang(l, t)); }
    for (l, t) in [("-2.5", "decimal"), ("-2.5", "double"), ("-0.5", "decimal"), ("-0.5", "float"), ("0.5", "double")] { v.push(x(l, t)); }
    for (l, t) in [("-0", "unsignedInt"), ("-00", "unsignedLong"), ("-0", "nonNegativeInteger"), ("-1", "unsignedInt")] { v.push(x(l, t)); }
    // triple terms that differ by a language string only (Term::cmp on language strings is reachable only inside triple terms)
    for (l, t) in [("a", "en"), ("b", "EN"), ("a", "fr"), ("a", "EN")] { v.push(triple(iri("http://example.org/a"), iri("http://example.org/p"), lit_lang(l, t))); }
    v
}

fn show(t: &ST) -> String {
    match t {
        SimpleTerm::Iri(i) => format!("<{}>", i.as_str()),
        SimpleTerm::BlankNode(b) => format!("_:{}", b.as_str()),
        SimpleTerm::LiteralDatatype(l, d) => { let l: String = if l.len() > 48 { format!("{}..({} chars)", &l[..12], l.len()) } else { l.to_string() }; format!("{:?}^^{}", l, d.as_str().replace(XSD, "xsd:").replace(RDF, "rdf:")) }
        SimpleTerm::LiteralLanguage(l, t) => format!("{:?}@{}", l, t.as_str()),
        SimpleTerm::Triple(spo) => format!("<< {} {} {} >>", show(&spo[0]), show(&spo[1]), show(&spo[2])),
        SimpleTerm::Variable(v) => format!("?{}", v.as_str()),
    }
}

mod ora {
    //! no `Term` trait in scope here (it would shadow Ord::cmp on the primitive types)
    use sophia_api::term::SimpleTerm;
    use std::cmp::Ordering;
    use verif_harness::{ST, XSD};
// ---------------------------------------------------------------- calendar
/// days since 1970-01-01 of a proleptic Gregorian date (astronomical year numbering)
pub fn days_from_civil(y: i64, m: i64, d: i64) -> i64 {
    let y = if m <= 2 { y - 1 } else { y };
    let era = if y >= 0 { y } else { y - 399 } / 400;
    let yoe = y - era * 400;
    let mp = (m + 9) % 12;
    let doy = (153 * mp + 2) / 5 + d - 1;
    let doe = yoe * 365 + yoe / 4 - yoe / 100 + doy;
    era * 146097 + doe - 719468
}
pub fn days_in_month(y: i64, m: i64) -> i64 {
    match m { 1 | 3 | 5 | 7 | 8 | 10 | 12 => 31, 4 | 6 | 9 | 11 => 30, _ => if (y % 4 == 0 && y % 100 != 0) || y % 400 == 0 { 29 } else { 28 } }
}

// ---------------------------------------------------------------- independent oracle: SPARQL '<' from the XSD lexical forms
#[derive(Clone, Debug)]
pub struct Dec { neg: bool, int: String, frac: String } // no leading zeros in int, no trailing zeros in frac
pub fn all_digits(s: &str) -> bool { s.bytes().all(|b| b.is_ascii_digit()) }
pub fn parse_dec(s: &str, allow_point: bool) -> Option<Dec> {
    let (neg, r) = match s.as_bytes().first()? { b'-' => (true, &s[1..]), b'+' => (false, &s[1..]), _ => (false, s) };
    let (i, f) = match r.find('.') { Some(p) if allow_point => (&r[..p], &r[p + 1..]), Some(_) => return None, None => (r, "") };
    if !all_digits(i) || !all_digits(f) || (i.is_empty() && f.is_empty()) { return None; }
    if r.contains('.') && i.is_empty() && f.is_empty() { return None; }
    Some(Dec { neg, int: i.trim_start_matches('0').to_string(), frac: f.trim_end_matches('0').to_string() })
}
impl Dec {
    pub fn is_zero(&self) -> bool { self.int.is_empty() && self.frac.is_empty() }
    pub fn cmp_abs(&self, o: &Dec) -> Ordering {
        self.int.len().cmp(&o.int.len()).then_with(|| self.int.cmp(&o.int)).then_with(|| {
            let n = self.frac.len().max(o.frac.len());
            format!("{:0<n$}", self.frac).cmp(&format!("{:0<n$}", o.frac))
        })
    }
    pub fn cmp(&self, o: &Dec) -> Ordering {
        match (self.is_zero(), o.is_zero()) { (true, true) => return Ordering::Equal, _ => {} }
        let (sn, on) = (self.neg && !self.is_zero(), o.neg && !o.is_zero());
        match (sn, on) { (false, true) => Ordering::Greater, (true, false) => Ordering::Less, (false, false) => self.cmp_abs(o), (true, true) => o.cmp_abs(self) }
    }
    pub fn text(&self) -> String { format!("{}{}.{}", if self.neg { "-" } else { "" }, if self.int.is_empty() { "0" } else { &self.int }, if self.frac.is_empty() { "0" } else { &self.frac }) }
}
pub fn int_dec(s: &str) -> Dec { parse_dec(s, false).unwrap() }
pub fn xsd_float_lexical(s: &str) -> bool {
    if matches!(s, "INF" | "-INF" | "+INF" | "NaN") { return true; }
    let (mant, exp) = match s.find(['e', 'E']) { Some(p) => (&s[..p], Some(&s[p + 1..])), None => (s, None) };
    if parse_dec(mant, true).is_none() { return false; }
    match exp { None => true, Some(e) => { let e = e.strip_prefix(['+', '-']).unwrap_or(e); !e.is_empty() && all_digits(e) } }
}
#[derive(Clone, Debug)]
pub enum OV { Dec(Dec), Dbl(f64), Flt(f32), Str(String), Bool(bool), Date { zoned: bool, secs: i64, frac: String }, Other }
pub fn xsd_datetime(s: &str) -> Option<OV> {
    let (neg, r) = if let Some(r) = s.strip_prefix('-') { (true, r) } else { (false, s) };
    let tpos = r.find('T')?;
    let (date, rest) = (&r[..tpos], &r[tpos + 1..]);
    let dp: Vec<&str> = date.split('-').collect();
    if dp.len() != 3 || dp[0].len() < 4 || dp[1].len() != 2 || dp[2].len() != 2 || !dp.iter().all(|p| all_digits(p)) { return None; }
    if dp[0].len() > 4 && dp[0].starts_with('0') { return None; }
    let y: i64 = dp[0].parse().ok()?; let y = if neg { -y } else { y };
    if y == 0 { return None; } // 0000 is not a year in XSD 1.0: leave it unconstrained
    let m: i64 = dp[1].parse().ok()?; let d: i64 = dp[2].parse().ok()?;
    let (time, tz) = if let Some(t) = rest.strip_suffix('Z') { (t, Some(0i64)) }
        else if rest.len() > 6 && matches!(rest.as_bytes()[rest.len() - 6], b'+' | b'-') && rest.as_bytes()[rest.len() - 3] == b':' {
            let o = &rest[rest.len() - 6..]; if !all_digits(&o[1..3]) || !all_digits(&o[4..6]) { return None; }
            let (hh, mm): (i64, i64) = (o[1..3].parse().ok()?, o[4..6].parse().ok()?);
            if mm > 59 || hh > 14 || (hh == 14 && mm != 0) { return None; }
            (&rest[..rest.len() - 6], Some(if o.starts_with('-') { -1 } else { 1 } * (hh * 3600 + mm * 60)))
        } else { (rest, None) };
    let tb = time.as_bytes();
    if tb.len() < 8 || tb[2] != b':' || tb[5] != b':' || !all_digits(&time[0..2]) || !all_digits(&time[3..5]) || !all_digits(&time[6..8]) { return None; }
    let frac = if tb.len() > 8 { if tb[8] != b'.' || tb.len() == 9 || !all_digits(&time[9..]) { return None; } time[9..].trim_end_matches('0').to_string() } else { String::new() };
    let (h, mi, sec): (i64, i64, i64) = (time[0..2].parse().ok()?, time[3..5].parse().ok()?, time[6..8].parse().ok()?);
    if m < 1 || m > 12 || d < 1 || d > days_in_month(y, m) || mi > 59 || sec > 59 { return None; }
    if h > 24 || (h == 24 && (mi != 0 || sec != 0 || !frac.is_empty())) { return None; }
    let secs = days_from_civil(y, m, d) * 86400 + h * 3600 + mi * 60 + sec - tz.unwrap_or(0);
    Some(OV::Date { zoned: tz.is_some(), secs, frac })
}
pub fn in_range(d: &Dec, lo: Option<&str>, hi: Option<&str>) -> bool {
    lo.map_or(true, |l| d.cmp(&int_dec(l)) != Ordering::Less) && hi.map_or(true, |h| d.cmp(&int_dec(h)) != Ordering::Greater)
}
pub fn oracle_value(t: &ST) -> OV {
    let SimpleTerm::LiteralDatatype(lex, dt) = t else { return OV::Other };
    let Some(local) = dt.as_str().strip_prefix(XSD) else { return OV::Other };
    let int = |lo: Option<&str>, hi: Option<&str>| match parse_dec(lex, false) { Some(d) if in_range(&d, lo, hi) => OV::Dec(d), _ => OV::Other };
    match local {
        "integer" => int(None, None),
        "decimal" => parse_dec(lex, true).map_or(OV::Other, OV::Dec),
        "double" => if xsd_float_lexical(lex) { lex.parse::<f64>().map_or(OV::Other, OV::Dbl) } else { OV::Other },
        "float" => if xsd_float_lexical(lex) { lex.parse::<f32>().map_or(OV::Other, OV::Flt) } else { OV::Other },
        "string" => OV::Str(lex.to_string()),
        "boolean" => match &lex[..] { "true" | "1" => OV::Bool(true), "false" | "0" => OV::Bool(false), _ => OV::Other },
        "dateTime" => xsd_datetime(lex).unwrap_or(OV::Other),
        "long" => int(Some("-9223372036854775808"), Some("9223372036854775807")),
        "int" => int(Some("-2147483648"), Some("2147483647")),
        "short" => int(Some("-32768"), Some("32767")),
        "byte" => int(Some("-128"), Some("127")),
        "unsignedLong" => int(Some("0"), Some("18446744073709551615")),
        "unsignedInt" => int(Some("0"), Some("4294967295")),
        "unsignedShort" => int(Some("0"), Some("65535")),
        "unsignedByte" => int(Some("0"), Some("255")),
        "nonNegativeInteger" => int(Some("0"), None),
        "positiveInteger" => int(Some("1"), None),
        "nonPositiveInteger" => int(None, Some("0")),
        "negativeInteger" => int(None, Some("-1")),
        _ => OV::Other,
    }
}
/// the comparison underlying '<' '>' (None: the operators raise a type error, or NaN is involved)
pub fn oracle_cmp_values(a: &OV, b: &OV) -> Option<Ordering> {
    use OV::*;
    let to64 = |v: &OV| match v { Dec(d) => d.text().parse::<f64>().ok(), Dbl(f) => Some(*f), Flt(f) => Some(*f as f64), _ => None };
    let to32 = |v: &OV| match v { Dec(d) => d.text().parse::<f32>().ok(), Flt(f) => Some(*f), _ => None };
    match (a, b) {
        (Dec(x), Dec(y)) => Some(x.cmp(y)),
        (Dbl(_), Dec(_) | Dbl(_) | Flt(_)) | (Dec(_) | Flt(_), Dbl(_)) => to64(a)?.partial_cmp(&to64(b)?),
        (Flt(_), Dec(_) | Flt(_)) | (Dec(_), Flt(_)) => to32(a)?.partial_cmp(&to32(b)?),
        (Str(x), Str(y)) => Some(x.as_str().cmp(y.as_str())),
        (Bool(x), Bool(y)) => Some(x.cmp(y)),
        (Date { zoned: z1, secs: s1, frac: f1 }, Date { zoned: z2, secs: s2, frac: f2 }) => {
            let key = |s: i64, f: &str| (s, format!("{f:0<40}"));
            if z1 == z2 { Some(key(*s1, f1).cmp(&key(*s2, f2))) }
            else {
                // XML Schema part 2, 3.2.7.4: compare the zoned one with the other at +14:00 and -14:00
                let (zs, zf, ns, nf, flip) = if *z1 { (*s1, f1, *s2, f2, false) } else { (*s2, f2, *s1, f1, true) };
                let r = if key(zs, zf) < key(ns - 50400, nf) { Some(Ordering::Less) } else if key(zs, zf) > key(ns + 50400, nf) { Some(Ordering::Greater) } else { None };
                r.map(|o| if flip { o.reverse() } else { o })
            }
        }
        _ => None,
    }
}

// ---------------------------------------------------------------- independent oracle: ties (values that are exactly equal)
/// RDF term equality (language tags compare case-insensitively)
pub fn same_term(a: &ST, b: &ST) -> bool {
    match (a, b) {
        (SimpleTerm::Iri(x), SimpleTerm::Iri(y)) => x.as_str() == y.as_str(),
        (SimpleTerm::BlankNode(x), SimpleTerm::BlankNode(y)) => x.as_str() == y.as_str(),
        (SimpleTerm::Variable(x), SimpleTerm::Variable(y)) => x.as_str() == y.as_str(),
        (SimpleTerm::LiteralDatatype(l1, d1), SimpleTerm::LiteralDatatype(l2, d2)) => l1[..] == l2[..] && d1.as_str() == d2.as_str(),
        (SimpleTerm::LiteralLanguage(l1, t1), SimpleTerm::LiteralLanguage(l2, t2)) => l1[..] == l2[..] && t1.as_str().eq_ignore_ascii_case(t2.as_str()),
        (SimpleTerm::Triple(x), SimpleTerm::Triple(y)) => (0..3).all(|i| same_term(&x[i], &y[i])),
        _ => false,
    }
}
/// the exact mathematical value of a number (no rounding: a finite binary float is a decimal)
#[derive(Clone, Debug)]
pub enum Exact { NegInf, Fin(Dec), PosInf }
pub fn exact_of_f64(f: f64) -> Option<Exact> {
    if f.is_nan() { None } else if f.is_infinite() { Some(if f < 0.0 { Exact::NegInf } else { Exact::PosInf }) }
    else { parse_dec(&format!("{f:.1100}"), true).map(Exact::Fin) } // 1074 fractional digits are enough for every f64
}
pub fn exact_value(v: &OV) -> Option<Exact> {
    match v { OV::Dec(d) => Some(Exact::Fin(d.clone())), OV::Dbl(f) => exact_of_f64(*f), OV::Flt(f) => exact_of_f64(*f as f64), _ => None }
}
pub fn exact_cmp(a: &Exact, b: &Exact) -> Ordering {
    let rk = |e: &Exact| match e { Exact::NegInf => 0u8, Exact::Fin(_) => 1, Exact::PosInf => 2 };
    match (a, b) { (Exact::Fin(x), Exact::Fin(y)) => x.cmp(y), _ => rk(a).cmp(&rk(b)) }
}
/// two keys that ORDER BY must consider tied, so that the NEXT key decides: the same term, or two
/// literals whose values are equal for SPARQL without any rounding (1 / 1.0 / 1e0 / "01"^^xsd:integer,
/// one instant written in two time zones, true / "1"^^xsd:boolean). Values that are only equal
/// after promotion (2^53+1 and 2^53 as a double), a dateTime with and one without time zone, NaNs and
/// literals without a value are NOT ties for this oracle (no opinion).
pub fn exact_tie(a: &ST, b: &ST) -> bool {
    if same_term(a, b) { return true; }
    match (oracle_value(a), oracle_value(b)) {
        (OV::Bool(x), OV::Bool(y)) => x == y,
        (OV::Date { zoned: z1, secs: s1, frac: f1 }, OV::Date { zoned: z2, secs: s2, frac: f2 }) => z1 == z2 && s1 == s2 && f1 == f2,
        (x, y) => match (exact_value(&x), exact_value(&y)) { (Some(p), Some(q)) => exact_cmp(&p, &q) == Ordering::Equal, _ => false },
    }
}
/// a strict order between two literals that '<' (with its promotions) or the exact values impose
pub fn strict_order(a: &ST, b: &ST) -> Option<Ordering> {
    oracle_cmp_values(&oracle_value(a), &oracle_value(b)).filter(|o| *o != Ordering::Equal)
}
}
use ora::{OV, days_from_civil, exact_tie, oracle_cmp_values, oracle_value, same_term, strict_order};

// ---------------------------------------------------------------- the value seen by the implementation, as a Coq term
fn coq_z(s: &str) -> String { let s = s.trim_start_matches('+'); if let Some(r) = s.strip_prefix('-') { format!("(-{r})%Z") } else { format!("({s})%Z") } }
fn coq_f64(f: f64) -> String {
    if f.is_nan() { return "FNaN".into(); }
    if f.is_infinite() { return format!("(FInf {})", coq_bool(f < 0.0)); }
    let b = f.to_bits(); let neg = b >> 63 == 1; let e = ((b >> 52) & 0x7ff) as i64; let fr = b & ((1u64 << 52) - 1);
    let (m, ex) = if e == 0 { (fr, -1074) } else { (fr + (1u64 << 52), e - 1075) };
    format!("(FFin {} {m} ({ex})%Z)", coq_bool(neg))
}
fn coq_f32(f: f32) -> String {
    if f.is_nan() { return "FNaN".into(); }
    if f.is_infinite() { return format!("(FInf {})", coq_bool(f < 0.0)); }
    let b = f.to_bits(); let neg = b >> 31 == 1; let e = ((b >> 23) & 0xff) as i64; let fr = (b & ((1u32 << 23) - 1)) as u64;
    let (m, ex) = if e == 0 { (fr, -149) } else { (fr + (1u64 << 23), e - 150) };
    format!("(FFin {} {m} ({ex})%Z)", coq_bool(neg))
}
/// chrono's Debug of NaiveDateTime / DateTime<FixedOffset>: [+-]Y..-MM-DDTHH:MM:SS[.f+][+-HH:MM[:SS]]
fn coq_datetime(s: &str, zoned: bool) -> Option<String> {
    let tpos = s.find('T')?;
    let (date, rest) = (&s[..tpos], &s[tpos + 1..]);
    let (neg, date) = if let Some(r) = date.strip_prefix('-') { (true, r) } else { (false, date.trim_start_matches('+')) };
    let mut it = date.rsplitn(3, '-');
    let d: i64 = it.next()?.parse().ok()?; let m: i64 = it.next()?.parse().ok()?; let y: i64 = it.next()?.parse().ok()?;
    let y = if neg { -y } else { y };
    let (time, off) = if zoned { let p = rest[8..].find(['+', '-'])? + 8; (&rest[..p], &rest[p..]) } else { (rest, "") };
    let (h, mi, sec): (i64, i64, i64) = (time[0..2].parse().ok()?, time[3..5].parse().ok()?, time[6..8].parse().ok()?);
    let nanos: u64 = if time.len() > 9 { let f = &time[9..]; format!("{f:0<9}")[..9].parse().ok()? } else { 0 };
    let mut secs = days_from_civil(y, m, d) * 86400 + h * 3600 + mi * 60 + sec;
    if zoned {
        let sg = if off.starts_with('-') { -1 } else { 1 };
        let parts: Vec<i64> = off[1..].split(':').map(|p| p.parse().unwrap_or(0)).collect();
        secs -= sg * (parts[0] * 3600 + parts.get(1).copied().unwrap_or(0) * 60 + parts.get(2).copied().unwrap_or(0));
    }
    Some(format!("({} {} {nanos})", if zoned { "Timezoned" } else { "Naive" }, coq_z(&secs.to_string())))
}
fn inner<'a>(s: &'a str, pre: &str) -> Option<&'a str> { s.strip_prefix(pre).and_then(|r| r.strip_suffix(')')) }
/// Coq `option value` from the Debug rendering of `ResultTerm::value()`
fn coq_value(t: &ST) -> Result<String, String> {
    let at: ArcTerm = t.into_term();
    let rt = ResultTerm::from(at);
    let dbg = format!("{:?}", rt.value());
    coq_value_dbg(t, &dbg)
}
/// the same from a Debug rendering obtained elsewhere (the value cached in a ResultTerm returned by
/// the engine: a key computed by BIND keeps its representation, e.g. a BigInt that fits in an isize)
fn coq_value_dbg(t: &ST, dbg: &str) -> Result<String, String> {
    let bad = || format!("unexpected Debug rendering {dbg:?}");
    if dbg == "None" { return Ok("None".into()); }
    let v = inner(dbg, "Some(").ok_or_else(bad)?;
    let body = if let Some(n) = inner(v, "Number(") {
        let num = if let Some(i) = inner(n, "NativeInt(") { format!("(NativeInt {})", coq_z(i)) }
        else if let Some(i) = inner(n, "BigInt(") { format!("(BigInt {})", coq_z(i)) }
        else if let Some(d) = inner(n, "Decimal(BigDecimal(").and_then(|r| r.strip_suffix(')')) {
            // sign=Plus, scale=2, digits=[250]   (digits: little-endian base 2^64)
            let mut sign = ""; let mut scale = ""; let mut digits = "";
            for part in d.splitn(3, ", ") { if let Some(r) = part.strip_prefix("sign=") { sign = r } else if let Some(r) = part.strip_prefix("scale=") { scale = r } else if let Some(r) = part.strip_prefix("digits=") { digits = r } }
            let limbs: Vec<&str> = digits.trim_start_matches('[').trim_end_matches(']').split(", ").filter(|s| !s.is_empty()).collect();
            let mut mag = "0".to_string();
            for l in limbs.iter().rev() { mag = format!("({l} + 18446744073709551616 * {mag})"); }
            let mag = if sign == "Minus" { format!("(- {mag})") } else { mag };
            format!("(Decimal ({mag})%Z {})", coq_z(scale))
        }
        else if let Some(f) = inner(n, "Float(") { format!("(Float {})", coq_f32(f.parse::<f32>().map_err(|_| bad())?)) }
        else if let Some(f) = inner(n, "Double(") { format!("(Double {})", coq_f64(f.parse::<f64>().map_err(|_| bad())?)) }
        else { return Err(bad()) };
        format!("(VNum {num})")
    } else if v.starts_with("String(") {
        match t.language_tag() { Some(tag) => format!("(VStr {} (Some {}))", coq_str(&t.lexical_form().unwrap()), coq_str(tag.as_str())), None => format!("(VStr {} None)", coq_str(&t.lexical_form().unwrap())) }
    } else if let Some(b) = inner(v, "Boolean(") {
        match b { "Some(true)" => "(VBool (Some true))".into(), "Some(false)" => "(VBool (Some false))".into(), "None" => "(VBool None)".to_string(), _ => return Err(bad()) }
    } else if let Some(d) = inner(v, "DateTime(") {
        if d == "None" { "(VDate None)".to_string() }
        else if let Some(n) = inner(d, "Some(Naive(").and_then(|r| r.strip_suffix(')')) { format!("(VDate (Some {}))", coq_datetime(n, false).ok_or_else(bad)?) }
        else if let Some(n) = inner(d, "Some(Timezoned(").and_then(|r| r.strip_suffix(')')) { format!("(VDate (Some {}))", coq_datetime(n, true).ok_or_else(bad)?) }
        else { return Err(bad()) }
    } else { return Err(bad()) };
    Ok(format!("(Some {body})"))
}

fn rank_of(t: Option<&ST>) -> u8 {
    match t { None => 0, Some(t) => match t.kind() { TermKind::BlankNode => 1, TermKind::Iri => 2, TermKind::Literal => 3, TermKind::Triple => 4, TermKind::Variable => 5 } }
}

// ---------------------------------------------------------------- running the implementation
struct Pool { terms: Vec<ST>, ov: Vec<OV>, names: Vec<String>, nsweep: usize }
type Key = Option<usize>;
fn key_name(p: &Pool, k: Key) -> String { match k { Some(i) => p.names[i].clone(), None => "UNBOUND".into() } }

/// the solutions (position of the row in `rows`) in the order produced by the query; `flip` puts
/// the branch producing unbound keys first in each UNION (to control the unsorted sequence)
fn run(p: &Pool, rows: &[Vec<Key>], descs: Option<&[bool]>, flip: bool) -> Result<Vec<(usize, Vec<Option<String>>)>, String> { run_x(p, rows, descs, flip, false) }
/// `expr`: order by the expressions (?xk * 1) instead of the variables
fn run_x(p: &Pool, rows: &[Vec<Key>], descs: Option<&[bool]>, flip: bool, expr: bool) -> Result<Vec<(usize, Vec<Option<String>>)>, String> {
    let nk = rows[0].len();
    let mut ds: Vec<([ST; 3], Option<ST>)> = vec![];
    for (i, r) in rows.iter().enumerate() {
        for (k, key) in r.iter().enumerate() {
            match key {
                Some(pi) => ds.push(([iri(&format!("x:s{i}")), iri(&format!("x:k{k}")), p.terms[*pi].clone()], None)),
                None => ds.push(([iri(&format!("x:s{i}")), iri(&format!("x:u{k}")), x("0", "integer")], None)),
            }
        }
    }
    let mut q = String::from("SELECT ?s");
    for k in 0..nk { q.push_str(&format!(" ?x{k}")); }
    q.push_str(" {");
    // no Join in sophia_sparql: one UNION branch (a single BGP) per set of unbound keys
    let masks: Vec<usize> = if flip { (0..1usize << nk).rev().collect() } else { (0..1usize << nk).collect() };
    for (bi, mask) in masks.iter().enumerate() {
        if bi > 0 { q.push_str(" UNION"); }
        q.push_str(" {");
        for k in 0..nk { q.push_str(&if mask >> k & 1 == 1 { format!(" ?s <x:u{k}> ?z{k} .") } else { format!(" ?s <x:k{k}> ?x{k} .") }); }
        q.push_str(" }");
    }
    q.push_str(" }");
    if let Some(d) = descs {
        q.push_str(" ORDER BY");
        for (k, desc) in d.iter().enumerate() { let e = if expr { format!("(?x{k} * 1)") } else { format!("?x{k}") }; q.push_str(&if *desc { format!(" DESC({e})") } else { format!(" {e}") }); }
    }
    let res = std::panic::catch_unwind(std::panic::AssertUnwindSafe(|| -> Result<Vec<(usize, Vec<Option<String>>)>, String> {
        let w = SparqlWrapper(&ds);
        let pq = SparqlQuery::parse(&q).map_err(|e| format!("parse error {e:?} in {q}"))?;
        let b = w.query(&pq).map_err(|e| format!("query error {e:?} in {q}"))?.into_bindings();
        let mut out = vec![];
        for row in b {
            let row = row.map_err(|e| format!("row error {e:?}"))?;
            let s = row[0].as_ref().ok_or("unbound ?s")?.iri().ok_or("?s not an IRI")?.as_str().strip_prefix("x:s").ok_or("?s")?.parse::<usize>().map_err(|_| "?s")?;
            out.push((s, row[1..].iter().map(|t| t.as_ref().map(|t| format!("{t}"))).collect()));
        }
        Ok(out)
    }));
    match res { Ok(r) => r, Err(_) => Err(format!("PANIC while evaluating {q}")) }
}

/// oracle (i)-(iii) on one ordered result; returns a description of the first violation
fn numeric_dt(t: &ST) -> bool {
    const N: [&str; 16] = ["integer", "decimal", "float", "double", "long", "int", "short", "byte", "unsignedLong", "unsignedInt", "unsignedShort", "unsignedByte", "nonNegativeInteger", "positiveInteger", "nonPositiveInteger", "negativeInteger"];
    match t { SimpleTerm::LiteralDatatype(_, dt) => dt.as_str().strip_prefix(XSD).map_or(false, |l| N.contains(&l)), _ => false }
}
fn check_output(p: &Pool, rows: &[Vec<Key>], descs: &[bool], unsorted: &[(usize, Vec<Option<String>>)], sorted: &[(usize, Vec<Option<String>>)]) -> Option<String> { check_output_x(p, rows, descs, unsorted, sorted, false) }
/// `expr`: the keys are (?xk * 1): a key that is certainly not a number is an error, hence unbound
fn check_output_x(p: &Pool, rows: &[Vec<Key>], descs: &[bool], unsorted: &[(usize, Vec<Option<String>>)], sorted: &[(usize, Vec<Option<String>>)], expr: bool) -> Option<String> {
    let mut a: Vec<_> = unsorted.to_vec(); let mut b: Vec<_> = sorted.to_vec(); a.sort(); b.sort();
    let mut seen: Vec<usize> = a.iter().map(|r| r.0).collect(); seen.dedup();
    if a != b || seen.len() != rows.len() { return Some(format!("(i) the ordered result is not a permutation of the {} unordered solutions: unordered {:?}, ordered {:?}", rows.len(), unsorted, sorted)); }
    for i in 0..sorted.len() {
        for j in i + 1..sorted.len() {
            let (e, l) = (&rows[sorted[i].0], &rows[sorted[j].0]);
            for k in 0..descs.len() {
                if e[k] == l[k] { continue; }
                let (te, tl) = (e[k].map(|i| &p.terms[i]), l[k].map(|i| &p.terms[i]));
                let (re, rl) = (rank_of(te), rank_of(tl));
                if expr {
                    // 0: certainly an error (unbound key), 1: a valid XSD number, 2: no opinion
                    let cls = |k: Key| match k { None => 0, Some(i) => if !numeric_dt(&p.terms[i]) { 0 } else if matches!(p.ov[i], OV::Dec(_) | OV::Dbl(_) | OV::Flt(_)) { 1 } else { 2 } };
                    let exp = match (cls(e[k]), cls(l[k])) {
                        (0, 0) => continue,
                        (0, 1) => Some(Ordering::Less), (1, 0) => Some(Ordering::Greater),
                        (1, 1) => oracle_cmp_values(&p.ov[e[k].unwrap()], &p.ov[l[k].unwrap()]).filter(|o| *o != Ordering::Equal),
                        _ => None,
                    }.map(|o| if descs[k] { o.reverse() } else { o });
                    if exp == Some(Ordering::Greater) {
                        return Some(format!("(ii)/(iii) on the expression key ({} * 1) {}: {} is output (position {i}) before {} (position {j}) although it must come after it; whole output on that key: [{}]",
                            "?x", if descs[k] { "DESC" } else { "ASC" }, key_name(p, e[k]), key_name(p, l[k]), sorted.iter().map(|r| key_name(p, rows[r.0][k])).collect::<Vec<_>>().join(", ")));
                    }
                    break;
                }
                // (v) two different terms with exactly equal values are tied on this key: the next key decides
                if re == 3 && rl == 3 && exact_tie(te.unwrap(), tl.unwrap()) { continue; }
                let (exp, why) = if re != rl { (Some(Ord::cmp(&re, &rl)), "(iii) kind rank") }
                    else if re == 3 { (oracle_cmp_values(&p.ov[e[k].unwrap()], &p.ov[l[k].unwrap()]).filter(|o| *o != Ordering::Equal), "(ii) operator '<'") }
                    else { (None, "") };
                let exp = exp.map(|o| if descs[k] { o.reverse() } else { o });
                if exp == Some(Ordering::Greater) {
                    return Some(format!("{why}: with key {k} {}, {} is output (position {i}) before {} (position {j}) although it must come after it; whole output on that key: [{}]",
                        if descs[k] { "DESC" } else { "ASC" }, key_name(p, e[k]), key_name(p, l[k]), sorted.iter().map(|r| key_name(p, rows[r.0][k])).collect::<Vec<_>>().join(", ")));
                }
                break; // the first key on which the two solutions differ decides (as far as the oracle can tell)
            }
        }
    }
    None
}

/// the comparator observed on (k1, k2) by sorting the two-element multiset in both arrangements:
/// 0 Less, 1 Equal (input order kept both times), 2 Greater, 3 inconsistent
fn observe_pair(p: &Pool, k1: Key, k2: Key) -> Result<(u8, String), String> {
    if k1 == k2 { return Ok((1, "same key".into())); }
    let rows_a = vec![vec![k1], vec![k2]]; let rows_b = vec![vec![k2], vec![k1]];
    let (ua, sa) = (run(p, &rows_a, None, false)?, run(p, &rows_a, Some(&[false]), false)?);
    let (ub, sb) = (run(p, &rows_b, None, true)?, run(p, &rows_b, Some(&[false]), true)?);
    if ua.len() != 2 || ub.len() != 2 || sa.len() != 2 || sb.len() != 2 { return Err(format!("expected 2 solutions, got {ua:?} {sa:?} {ub:?} {sb:?}")); }
    // express every sequence with 0 = k1, 1 = k2
    let seq_a = |v: &[(usize, Vec<Option<String>>)]| [v[0].0, v[1].0];
    let seq_b = |v: &[(usize, Vec<Option<String>>)]| [1 - v[0].0, 1 - v[1].0];
    let (ia, oa, ib, ob) = (seq_a(&ua), seq_a(&sa), seq_b(&ub), seq_b(&sb));
    if ia == ib { return Err(format!("could not present {} and {} to the sort in both arrangements", key_name(p, k1), key_name(p, k2))); }
    // a stable-for-two sort swaps iff second < first
    let first_less_than_second_in = |inp: [usize; 2], out: [usize; 2]| inp != out; // true: input[1] < input[0]
    let (x_in_a, x_in_b) = (first_less_than_second_in(ia, oa), first_less_than_second_in(ib, ob));
    // in the arrangement whose input is [k1, k2] a swap means k2 < k1; in the other one it means k1 < k2
    let (k2_lt_k1, k1_lt_k2) = if ia == [0, 1] { (x_in_a, x_in_b) } else { (x_in_b, x_in_a) };
    let code = match (k1_lt_k2, k2_lt_k1) { (true, false) => 0, (false, false) => 1, (false, true) => 2, (true, true) => 3 };
    Ok((code, format!("inputs {ia:?}/{ib:?} outputs {oa:?}/{ob:?}")))
}

// ================================================================ end-to-end queries: computed keys, ties, windows
// A case is a small dataset of solutions (operands ?a ?b ?c, optionally in named graphs) and a list of
// ORDER BY criteria that are EXPRESSIONS over the operands.  The key of every solution is observed through
// BIND in an unsorted query (term + the value cached by the engine), the sorted query is run through the
// public entry points, and
//   - the oracle checks on the observed TERMS: permutation, kind ranks, '<' re-implemented from the lexical
//     forms, exact ties broken by the next key, and agreement with the engine's own operator '<' evaluated
//     pairwise by BIND (and FILTER) in a cross-product query;
//   - the Coq model sorts the observed items (rows_ok), evaluates '<' on them, conversions included (lt_table_engine_ok, Engine.v), checks LIMIT /
//     OFFSET windows and DISTINCT outputs (window_ok / sorted_ok) and, for ?a OP ?b on integers, the value and
//     representation computed by the engine (int_arith_ok).
const OPV: [&str; 3] = ["a", "b", "c"];
const XI: &str = "<http://www.w3.org/2001/XMLSchema#integer>";
#[derive(Clone, Debug)]
struct KeySpec { expr: String, desc: bool, form: u8 } // form 0: ORDER BY (expr); 1: BIND(expr AS ?kI) in the group; 2: SELECT (expr AS ?kI)
#[derive(Clone, Debug)]
struct QCase {
    ops: Vec<Vec<Option<ST>>>, // per solution: the operands (only the last one may be unbound)
    nops: usize,
    keys: Vec<KeySpec>,
    graph: bool,               // every solution lives in a named graph and is matched by GRAPH ?g { .. }
    graph_const: bool,         // ... by GRAPH <x:g1> { .. }: only the solutions of that graph remain
    filter: Option<String>,
    flip: bool,                // order of the UNION branches (bound / unbound last operand)
    store: u8,                 // 0 Vec of quads, 1 LightDataset, 2 FastDataset
    entry: u8,                 // 0 SparqlQuery::parse + query(&q), 1 prepare_query + query(&q), 2 query(&str)
    slice: Option<(usize, Option<usize>)>,
    distinct: bool,
    arith: Option<&'static str>, // key 0 is exactly (?a OP ?b) / (- ?a): compared with the model's integer arithmetic
    label: String,
    projv: Vec<usize>,         // the operands that the SELECT clause projects next to ?s (the others are only seen by the criteria)
    star: bool,                // SELECT * (no key of form 2 then)
}
#[derive(Clone, Debug)]
struct KeyObs { term: Option<ST>, dbg: String }
impl KeyObs {
    fn coq(&self) -> Result<String, String> { match &self.term { None => Ok("None".into()), Some(t) => Ok(format!("(Some (mkItem {} {}))", coq_term_c(t), coq_value_dbg(t, &self.dbg)?)) } }
    fn show(&self) -> String { match &self.term { None => "UNBOUND".into(), Some(t) => { let v = self.dbg.strip_prefix("Some(").and_then(|r| r.strip_suffix(')')).unwrap_or(&self.dbg); format!("{} [{}]", show(t), if v.len() > 60 { &v[..60] } else { v }) } } }
    fn tag(&self) -> String {
        match &self.term { None => "unbound".into(), Some(t) => match t.kind() {
            TermKind::Literal => { let d = self.dbg.as_str();
                if d == "None" { "lit:no-value".into() } else if d.contains("NaN") { "num:nan".into() } else if d.contains("Float(") { "num:float".into() } else if d.contains("Double(") { "num:double".into() }
                else if d.contains("Decimal(") { "num:decimal".into() } else if d.contains("NativeInt(") { "num:integer".into() } else if d.contains("BigInt(") { "num:bigint".into() }
                else if d.contains("String(") { if t.language_tag().is_some() { "str:lang".into() } else { "str:simple".into() } }
                else if d.contains("Boolean(Some") { "bool".into() } else if d.contains("Naive(") { "date:naive".into() } else if d.contains("Timezoned(") { "date:zoned".into() } else { "lit:ill-formed".into() } }
            k => format!("{k:?}") } }
    }
}
/// XSD datatypes that the case files name `xd_<local>` (defined once in their header): the Coq image of a
/// literal is then its lexical form only (parsing long lists of code points dominates the Coq time)
const XD: [&str; 23] = ["integer", "decimal", "double", "float", "string", "boolean", "dateTime", "long", "int", "short", "byte", "unsignedLong", "unsignedInt", "unsignedShort",
    "unsignedByte", "nonNegativeInteger", "positiveInteger", "nonPositiveInteger", "negativeInteger", "gYear", "date", "duration", "hexBinary"];
fn xd_header() -> String { XD.iter().map(|l| format!("Definition xd_{l} : str := xsd_ns ++ {}.\n", coq_str(l))).collect() }
/// the same Coq term as `coq_term` (Common/Term.v), with the XSD datatype IRIs abbreviated
fn coq_term_c(t: &ST) -> String {
    match t {
        SimpleTerm::LiteralDatatype(l, dt) => match dt.as_str().strip_prefix(XSD).filter(|l| XD.contains(l)) { Some(local) => format!("(LitDt {} xd_{local})", coq_str(l)), None => coq_term(t) },
        SimpleTerm::Triple(spo) => format!("(Triple {} {} {})", coq_term_c(&spo[0]), coq_term_c(&spo[1]), coq_term_c(&spo[2])),
        _ => coq_term(t),
    }
}
fn to_st<T: Term>(t: T) -> ST {
    match t.kind() {
        TermKind::Iri => iri(t.iri().unwrap().as_str()),
        TermKind::BlankNode => bnode(t.bnode_id().unwrap().as_str()),
        TermKind::Variable => var(t.variable().unwrap().as_str()),
        TermKind::Literal => match t.language_tag() { Some(tag) => lit_lang(&t.lexical_form().unwrap(), tag.as_str()), None => lit_dt(&t.lexical_form().unwrap(), t.datatype().unwrap().as_str()) },
        TermKind::Triple => { let [s, p, o] = t.triple().unwrap(); triple(to_st(s), to_st(p), to_st(o)) }
    }
}
/// append `sfx` to every variable of a SPARQL fragment (none of our constants contains a '?')
fn rename_vars(e: &str, sfx: &str) -> String {
    let mut out = String::new(); let cs: Vec<char> = e.chars().collect(); let mut i = 0;
    while i < cs.len() {
        out.push(cs[i]);
        if cs[i] == '?' { let mut j = i + 1; while j < cs.len() && (cs[j].is_ascii_alphanumeric() || cs[j] == '_') { out.push(cs[j]); j += 1; } if j > i + 1 { out.push_str(sfx); } i = j; } else { i += 1; }
    }
    out
}
type QRows = Vec<Vec<Option<(ST, String)>>>; // per result row and column: the term and the Debug rendering of its cached value
fn exec_on<D: Dataset>(d: &D, entry: u8, q: &str) -> Result<QRows, String> where D::Error: std::fmt::Debug { exec_on_vars(d, entry, q).map(|x| x.1) }
/// the same with the names of the columns (Bindings::variables)
fn exec_on_vars<D: Dataset>(d: &D, entry: u8, q: &str) -> Result<(Vec<String>, QRows), String> where D::Error: std::fmt::Debug {
    let w = SparqlWrapper(d);
    let res = match entry {
        0 => { let pq = SparqlQuery::parse(q).map_err(|e| format!("parse error {e:?} in {q}"))?; w.query(&pq) }
        1 => { let pq = w.prepare_query(q).map_err(|e| format!("prepare_query error {e:?} in {q}"))?; w.query(&pq) }
        _ => w.query(q),
    };
    let b = res.map_err(|e| format!("query error {e:?} in {q}"))?.into_bindings();
    let vars: Vec<String> = b.variables().iter().map(|v| v.to_string()).collect();
    let mut out = vec![];
    for row in b {
        let row = row.map_err(|e| format!("row error {e:?} in {q}"))?;
        out.push(row.iter().map(|t| t.as_ref().map(|t| (to_st(t.inner()), format!("{:?}", t.value())))).collect());
    }
    Ok((vars, out))
}
impl QCase {
    fn n(&self) -> usize { self.ops.len() }
    fn any_unbound(&self) -> bool { self.ops.iter().any(|r| r.iter().any(|o| o.is_none())) }
    fn quads(&self) -> Vec<([ST; 3], Option<ST>)> {
        let mut ds = vec![];
        for (i, r) in self.ops.iter().enumerate() {
            let g = if self.graph { Some(iri(&format!("x:g{}", i % 3))) } else { None };
            for (k, o) in r.iter().enumerate() {
                match o { Some(t) => ds.push(([iri(&format!("x:s{i}")), iri(&format!("x:o{}", OPV[k])), t.clone()], g.clone())),
                          None => ds.push(([iri(&format!("x:s{i}")), iri(&format!("x:n{}", OPV[k])), x("0", "integer")], g.clone())) }
            }
        }
        ds
    }
    fn bgp(&self, with_last: bool, sfx: &str) -> String {
        let mut s = String::new();
        for k in 0..self.nops { let v = OPV[k]; s.push_str(&if k == self.nops - 1 && !with_last { format!(" ?s{sfx} <x:n{v}> ?zz{sfx} .") } else { format!(" ?s{sfx} <x:o{v}> ?{v}{sfx} .") }); }
        s
    }
    fn body(&self) -> String {
        let b = if self.any_unbound() { let (p, q) = (format!("{{{} }}", self.bgp(true, "")), format!("{{{} }}", self.bgp(false, ""))); if self.flip { format!(" {q} UNION {p}") } else { format!(" {p} UNION {q}") } } else { self.bgp(true, "") };
        if self.graph_const { format!(" GRAPH <x:g1> {{{b} }}") } else if self.graph { format!(" GRAPH ?g {{{b} }}") } else { b }
    }
    fn filter_txt(&self) -> String { self.filter.as_ref().map_or(String::new(), |f| format!(" FILTER({f})")) }
    /// the unsorted query that exposes every key through BIND
    fn obs_query(&self) -> String {
        let mut q = String::from("SELECT ?s"); for i in 0..self.keys.len() { q.push_str(&format!(" ?k{i}")); }
        q.push_str(&format!(" {{{}", self.body()));
        for (i, k) in self.keys.iter().enumerate() { q.push_str(&format!(" BIND({} AS ?k{i})", k.expr)); }
        q.push_str(&self.filter_txt()); q.push_str(" }"); q
    }
    /// the query under test; `windowed`: with its LIMIT / OFFSET; `distinct`: SELECT DISTINCT of the keys only
    fn sorted_query(&self, windowed: bool, distinct: bool) -> String {
        let star = self.star && !distinct;
        let mut q = String::from(if distinct { "SELECT DISTINCT" } else if star { "SELECT *" } else { "SELECT ?s" });
        if !distinct && !star { for k in &self.projv { q.push_str(&format!(" ?{}", OPV[*k])); } }
        if !star { for (i, k) in self.keys.iter().enumerate() { match k.form { 2 => q.push_str(&format!(" ({} AS ?k{i})", k.expr)), 1 => q.push_str(&format!(" ?k{i}")), _ => {} } } }
        q.push_str(&format!(" {{{}", self.body()));
        for (i, k) in self.keys.iter().enumerate() { if k.form == 1 { q.push_str(&format!(" BIND({} AS ?k{i})", k.expr)); } }
        q.push_str(&self.filter_txt()); q.push_str(" } ORDER BY");
        for (i, k) in self.keys.iter().enumerate() { let e = if k.form == 0 { format!("({})", k.expr) } else { format!("?k{i}") }; q.push_str(&if k.desc { format!(" DESC({e})") } else if i % 2 == 1 { format!(" ASC({e})") } else { format!(" {e}") }); }
        if windowed { if let Some((start, len)) = self.slice { if let Some(l) = len { q.push_str(&format!(" LIMIT {l}")); } if start > 0 || len.is_none() { q.push_str(&format!(" OFFSET {start}")); } } }
        q
    }
    /// every ordered pair of solutions in one BGP; ?lt<k> is the engine's answer to key_k(first) < key_k(second)
    fn pairs_query(&self, filter_key: Option<usize>) -> String {
        let mut q = String::from("SELECT ?s_1 ?s_2"); for i in 0..self.keys.len() { q.push_str(&format!(" ?lt{i}")); }
        q.push_str(&format!(" {{{}{}", self.bgp(true, "_1"), self.bgp(true, "_2")));
        for sfx in ["_1", "_2"] { for (i, k) in self.keys.iter().enumerate() { q.push_str(&format!(" BIND({} AS ?k{i}{sfx})", rename_vars(&k.expr, sfx))); } }
        for i in 0..self.keys.len() { q.push_str(&format!(" BIND(?k{i}_1 < ?k{i}_2 AS ?lt{i})")); }
        if let Some(k) = filter_key { q.push_str(&format!(" FILTER(?k{k}_1 < ?k{k}_2)")); }
        q.push_str(" }"); q
    }
    fn exec(&self, q: &str) -> Result<QRows, String> { self.exec_vars(q).map(|x| x.1) }
    fn exec_vars(&self, q: &str) -> Result<(Vec<String>, QRows), String> {
        let quads = self.quads(); let (store, entry) = (self.store, self.entry);
        let res = std::panic::catch_unwind(std::panic::AssertUnwindSafe(|| -> Result<(Vec<String>, QRows), String> {
            match store {
                0 => exec_on_vars(&quads, entry, q),
                1 => { let mut d = sophia_inmem::dataset::LightDataset::new(); for (spo, g) in &quads { d.insert(&spo[0], &spo[1], &spo[2], g.as_ref()).map_err(|e| format!("insert: {e:?}"))?; } exec_on_vars(&d, entry, q) }
                _ => { let mut d = sophia_inmem::dataset::FastDataset::new(); for (spo, g) in &quads { d.insert(&spo[0], &spo[1], &spo[2], g.as_ref()).map_err(|e| format!("insert: {e:?}"))?; } exec_on_vars(&d, entry, q) }
            }
        }));
        match res { Ok(r) => r, Err(_) => Err(format!("PANIC while evaluating {q}")) }
    }
    fn describe(&self) -> String {
        let rows: Vec<String> = self.ops.iter().enumerate().map(|(i, r)| format!("s{i}{}: {}", if self.graph { format!(" in <x:g{}>", i % 3) } else { String::new() },
            r.iter().enumerate().map(|(k, o)| format!("?{}={}", OPV[k], o.as_ref().map_or("UNBOUND".into(), show))).collect::<Vec<_>>().join(" "))).collect();
        format!("{} | data [{}] | store {} | entry {}", self.sorted_query(true, self.distinct).replace(XSD, "xsd:"), rows.join("; "), ["Vec of quads", "LightDataset", "FastDataset"][self.store as usize], ["SparqlQuery::parse + query", "prepare_query + query", "query(&str)"][self.entry as usize])
    }
}
fn sid(c: &Option<(ST, String)>) -> Result<usize, String> {
    let (t, _) = c.as_ref().ok_or("unbound ?s")?;
    t.iri().ok_or("?s is not an IRI")?.as_str().strip_prefix("x:s").ok_or("?s")?.parse::<usize>().map_err(|_| "?s".to_string())
}
/// oracle on one sorted sequence of observed keys (terms): first violation, as text
fn check_sorted_obs(keys: &[&Vec<KeyObs>], descs: &[bool], names: &[String], lt: Option<&Vec<Vec<Vec<u8>>>>, ids: &[usize]) -> Option<String> {
    let whole = |k: usize| keys.iter().map(|r| r[k].show()).collect::<Vec<_>>().join(", ");
    for i in 0..keys.len() { for j in i + 1..keys.len() {
        let (e, l) = (keys[i], keys[j]);
        for k in 0..descs.len() {
            let (te, tl) = (e[k].term.as_ref(), l[k].term.as_ref());
            let (re, rl) = (rank_of(te), rank_of(tl));
            let dirn = if descs[k] { "DESC" } else { "ASC" };
            // the engine's own '<' on this key (cross-product query)
            if let Some(lt) = lt {
                let (a, b) = (ids[i], ids[j]);
                let wrong = if descs[k] { lt[k][a][b] == 1 } else { lt[k][b][a] == 1 };
                if wrong { return Some(format!("(vi) operator '<' of the engine: on key {k} ({dirn}) {} of {} is output (position {i}) before {} of {} (position {j}) although the engine itself evaluates {} < {} to true{}; whole output on that key: [{}]",
                    e[k].show(), names[i], l[k].show(), names[j], if descs[k] { e[k].show() } else { l[k].show() }, if descs[k] { l[k].show() } else { e[k].show() }, if k > 0 { " and all the earlier keys of the two solutions are tied" } else { "" }, whole(k))); }
            }
            if re == 0 && rl == 0 { continue; }
            if re != rl {
                let o = Ord::cmp(&re, &rl); let o = if descs[k] { o.reverse() } else { o };
                if o == Ordering::Greater { return Some(format!("(iii) kind rank: on key {k} ({dirn}) {} of {} is output (position {i}) before {} of {} (position {j}) although it must come after it; whole output on that key: [{}]", e[k].show(), names[i], l[k].show(), names[j], whole(k))); }
                break;
            }
            let (te, tl) = (te.unwrap(), tl.unwrap());
            if exact_tie(te, tl) { continue; } // (v) tied: the next key decides
            if re == 3 {
                if let Some(o) = strict_order(te, tl) {
                    let o = if descs[k] { o.reverse() } else { o };
                    if o == Ordering::Greater { return Some(format!("(ii) operator '<'{}: on key {k} ({dirn}) {} of {} is output (position {i}) before {} of {} (position {j}) although it must come after it; whole output on that key: [{}]",
                        if k > 0 { " on a later key, the earlier keys of the two solutions being tied (v)" } else { "" }, e[k].show(), names[i], l[k].show(), names[j], whole(k))); }
                }
            }
            break; // the first key on which the two solutions are not tied decides (as far as the oracle can tell)
        }
    } }
    None
}
struct QOut { text: String, desc: String, failure: Option<String>, body: Option<String>, tags: Vec<String>, bumps: Vec<String> }
fn run_qcase(c: &QCase, verbose: bool) -> QOut {
    let text = c.describe();
    let mut bumps = vec![format!("q:{}", c.label), format!("q:store{}", c.store), format!("q:entry{}", c.entry), format!("q:{}keys", c.keys.len())];
    for k in &c.keys { bumps.push(format!("q:keyform{}{}", k.form, if k.desc { ":desc" } else { "" })); }
    let fail = |f: String, bumps: Vec<String>| QOut { text: text.clone(), desc: f.clone(), failure: Some(if f.starts_with("PANIC") { format!("sorting panicked: {f}") } else { f }), body: None, tags: vec![], bumps };
    let nk = c.keys.len();
    let descs: Vec<bool> = c.keys.iter().map(|k| k.desc).collect();
    // ---- the keys, observed through BIND in the unsorted query
    let oq = c.obs_query();
    let obs_rows = match c.exec(&oq) { Ok(r) => r, Err(e) => return fail(e, bumps) };
    let mut order: Vec<usize> = vec![]; let mut obs: Vec<Option<Vec<KeyObs>>> = vec![None; c.n()];
    for r in &obs_rows {
        let s = match sid(&r[0]) { Ok(s) if s < c.n() && obs[s].is_none() => s, _ => return fail(format!("(i) the unsorted query {oq} returned an unexpected or repeated solution {:?}", r[0]), bumps) };
        obs[s] = Some(r[1..].iter().map(|x| match x { Some((t, d)) => KeyObs { term: Some(t.clone()), dbg: d.clone() }, None => KeyObs { term: None, dbg: "None".into() } }).collect());
        order.push(s);
    }
    if c.filter.is_none() && !c.graph_const && order.len() != c.n() { return fail(format!("(i) the unsorted query {oq} returned {} of the {} solutions", order.len(), c.n()), bumps); }
    if c.graph_const && c.filter.is_none() { let mut got = order.clone(); got.sort(); let want: Vec<usize> = (0..c.n()).filter(|i| i % 3 == 1).collect(); if got != want { return fail(format!("(i) the unsorted query {oq} returned the solutions {got:?}, those of the graph <x:g1> are {want:?}"), bumps); } }
    let pos_of = |s: usize| order.iter().position(|x| *x == s);
    let names: Vec<String> = (0..c.n()).map(|i| format!("s{i}")).collect();
    // ---- the engine's '<' on every ordered pair of solutions (one BGP: no UNION, no GRAPH)
    let mut lt: Option<Vec<Vec<Vec<u8>>>> = None;
    if !c.any_unbound() && !c.graph && c.n() <= 8 {
        let pq = c.pairs_query(None);
        let rows = match c.exec(&pq) { Ok(r) => r, Err(e) => return fail(e, bumps) };
        if rows.len() != c.n() * c.n() { return fail(format!("the cross-product query {pq} returned {} rows instead of {}", rows.len(), c.n() * c.n()), bumps); }
        let mut m = vec![vec![vec![2u8; c.n()]; c.n()]; nk];
        for r in &rows {
            let (Ok(s1), Ok(s2)) = (sid(&r[0]), sid(&r[1])) else { return fail(format!("unexpected row in {pq}"), bumps) };
            for k in 0..nk { m[k][s1][s2] = match &r[2 + k] { None => 2, Some((t, _)) => match &t.lexical_form().unwrap()[..] { "true" => 1, "false" => 0, _ => return fail(format!("{pq}: '<' returned {}", show(t)), bumps) } }; }
        }
        // the same operator in a FILTER keeps exactly the pairs for which BIND produced true
        let fk = (c.n() + nk) % nk;
        let fq = c.pairs_query(Some(fk));
        let frows = match c.exec(&fq) { Ok(r) => r, Err(e) => return fail(e, bumps) };
        let mut kept: Vec<(usize, usize)> = vec![]; for r in &frows { if let (Ok(a), Ok(b)) = (sid(&r[0]), sid(&r[1])) { kept.push((a, b)); } }
        kept.sort();
        let mut want: Vec<(usize, usize)> = vec![]; for a in 0..c.n() { for b in 0..c.n() { if m[fk][a][b] == 1 { want.push((a, b)); } } }
        if kept != want { return fail(format!("(vi) FILTER(key{fk} < key{fk}) keeps the pairs {kept:?} but BIND(key{fk} < key{fk}) is true on {want:?} in {fq}"), bumps); }
        for k in 0..nk { for a in 0..c.n() { for b in 0..c.n() { bumps.push(format!("q:lt:{}", ["false", "true", "error"][m[k][a][b] as usize])); } } }
        lt = Some(m);
    }
    // ---- the sorted query (without its window)
    let sq = c.sorted_query(false, false);
    let (svars, srows) = match c.exec_vars(&sq) { Ok(r) => r, Err(e) => return fail(e, bumps) };
    let col = |name: &str| svars.iter().position(|v| v == name);
    let Some(scol) = col("s") else { return fail(format!("(i) the result of {sq} has no column ?s (columns {svars:?})"), bumps) };
    if srows.iter().any(|r| r.len() != svars.len()) { return fail(format!("(i) a row of the result of {sq} has not the {} columns {svars:?}", svars.len()), bumps); }
    let mut out: Vec<usize> = vec![];
    for r in &srows { match sid(&r[scol]) { Ok(s) if s < c.n() => out.push(s), _ => return fail(format!("(i) unexpected solution {:?} in the result of {sq}", r[scol]), bumps) } }
    let mut failure: Option<String> = None;
    // the columns are those of the SELECT clause, in its order
    if !c.star {
        let mut want: Vec<String> = vec!["s".into()]; for k in &c.projv { want.push(OPV[*k].to_string()); } for (i, k) in c.keys.iter().enumerate() { if k.form != 0 { want.push(format!("k{i}")); } }
        if svars != want { failure = Some(format!("(i) the result of {sq} has the columns {svars:?} instead of {want:?}")); }
    }
    // the projected operands of every ordered solution are those of that solution (a solution is moved, never altered)
    if failure.is_none() {
        let shown: Vec<usize> = if c.star { (0..c.nops).collect() } else { c.projv.clone() };
        'rows: for (ri, r) in srows.iter().enumerate() { for k in &shown {
            let Some(ci) = col(OPV[*k]) else { failure = Some(format!("(i) the result of {sq} has no column ?{} (columns {svars:?})", OPV[*k])); break 'rows };
            let (seen, want) = (r[ci].as_ref().map(|x| &x.0), c.ops[out[ri]][*k].as_ref());
            let same = match (seen, want) { (None, None) => true, (Some(a), Some(b)) => same_term(a, b), _ => false };
            if !same { failure = Some(format!("(i) the ordered result binds ?{} of s{} to {} but that solution has {} (the ordered result is not a permutation of the unordered solutions)", OPV[*k], out[ri], seen.map_or("UNBOUND".into(), show), want.map_or("UNBOUND".into(), show))); break 'rows }
        } }
        if !shown.is_empty() { bumps.push(format!("q:projected-operands:{}", if c.star { "star".to_string() } else { shown.len().to_string() })); }
    }
    { let (mut a, mut b) = (order.clone(), out.clone()); a.sort(); b.sort(); if a != b { failure = Some(format!("(i) the ordered result {out:?} is not a permutation of the unordered solutions {order:?}")); } }
    if failure.is_none() {
        let keys: Vec<&Vec<KeyObs>> = out.iter().map(|s| obs[*s].as_ref().unwrap()).collect();
        let nm: Vec<String> = out.iter().map(|s| names[*s].clone()).collect();
        failure = check_sorted_obs(&keys, &descs, &nm, lt.as_ref(), &out);
    }
    // the variables of form 1 / 2 keys, as returned by the sorted query, are the observed keys
    if failure.is_none() {
        let cols: Vec<usize> = (0..nk).filter(|i| c.keys[*i].form != 0).collect();
        for (ri, r) in srows.iter().enumerate() { for ki in cols.iter() {
            let Some(ci) = col(&format!("k{ki}")) else { failure = Some(format!("(i) the result of {sq} has no column ?k{ki} (columns {svars:?})")); break };
            let seen = r.get(ci).cloned().flatten(); let want = &obs[out[ri]].as_ref().unwrap()[*ki];
            let same = match (&seen, &want.term) { (None, None) => true, (Some((t, d)), Some(w)) => same_term(t, w) && *d == want.dbg, _ => false };
            if !same { failure = Some(format!("the sorted query binds ?k{ki} of s{} to {:?} but the unsorted query bound it to {}", out[ri], seen.map(|(t, d)| format!("{} [{d}]", show(&t))), want.show())); }
        } }
    }
    let coq_rows = |seq: &[usize]| -> Result<String, String> { let mut v = vec![]; for s in seq { let mut ks = vec![]; for k in obs[*s].as_ref().unwrap() { ks.push(k.coq()?); } v.push(coq_list(ks)); } Ok(coq_list(v)) };
    let mut parts: Vec<String> = vec![];
    let out_pos: Vec<usize> = out.iter().filter_map(|s| pos_of(*s)).collect();
    parts.push(format!("rows_ok {} rows {}", coq_list(descs.iter().map(|d| coq_bool(*d).to_string())), coq_list(out_pos.iter().map(|x| x.to_string()))));
    if let Some(m) = &lt { for k in 0..nk { parts.push(format!("lt_table_engine_ok rows {k} {}", coq_list(order.iter().map(|a| coq_list(order.iter().map(|b| m[k][*a][*b].to_string())))))); } }
    // ---- integer arithmetic of key 0 against the model
    if let Some(op) = c.arith {
        let mut es = vec![];
        for s in &order {
            let item = |o: &Option<ST>| -> Result<String, String> { match o { Some(t) => Ok(format!("(Some (mkItem {} {}))", coq_term_c(t), coq_value(t)?)), None => Ok("None".into()) } };
            match (item(&c.ops[*s][0]), item(c.ops[*s].get(1).unwrap_or(&None)), obs[*s].as_ref().unwrap()[0].coq()) { (Ok(a), Ok(b), Ok(k)) => es.push(format!("({a}, {b}, {k})")), (Err(e), _, _) | (_, Err(e), _) | (_, _, Err(e)) => return fail(e, bumps) }
        }
        parts.push(format!("int_arith_ok {op} {}", coq_list(es)));
    }
    let mut desc = format!("keys observed: [{}]; output order {:?}", order.iter().map(|s| format!("s{s}: {}", obs[*s].as_ref().unwrap().iter().map(|k| k.show()).collect::<Vec<_>>().join(" & "))).collect::<Vec<_>>().join("; "), out);
    // ---- LIMIT / OFFSET above ORDER BY: exactly the window of the full result (sorting is reproducible)
    if let Some((start, len)) = c.slice {
        let wq = c.sorted_query(true, false);
        let (wvars, wrows) = match c.exec_vars(&wq) { Ok(r) => r, Err(e) => return fail(e, bumps) };
        let Some(wcol) = wvars.iter().position(|v| v == "s") else { return fail(format!("(i) the result of {wq} has no column ?s (columns {wvars:?})"), bumps) };
        let mut w: Vec<usize> = vec![]; for r in &wrows { match r.get(wcol).ok_or("short row".to_string()).and_then(sid) { Ok(s) if s < c.n() => w.push(s), _ => return fail(format!("unexpected solution in the result of {wq}"), bumps) } }
        let want: Vec<usize> = out.iter().skip(start).take(len.unwrap_or(usize::MAX)).copied().collect();
        if failure.is_none() && w != want { failure = Some(format!("(vii) LIMIT/OFFSET: {wq} returns the solutions {w:?} but the window of the complete ordered result {out:?} is {want:?}")); }
        parts.push(format!("window_ok {} rows {} {start} {} {}", coq_list(descs.iter().map(|d| coq_bool(*d).to_string())), coq_list(out_pos.iter().map(|x| x.to_string())), len.map_or("None".to_string(), |l| format!("(Some {l})")), coq_list(w.iter().filter_map(|s| pos_of(*s)).map(|x| x.to_string()))));
        desc.push_str(&format!("; window {w:?}")); bumps.push("q:window".into());
    }
    // ---- SELECT DISTINCT of the keys above ORDER BY: the ordered keys without their repetitions, still sorted
    if c.distinct {
        let dq = c.sorted_query(false, true);
        let drows = match c.exec(&dq) { Ok(r) => r, Err(e) => return fail(e, bumps) };
        let mut want: Vec<&Vec<KeyObs>> = vec![];
        for s in &out { let k = obs[*s].as_ref().unwrap(); if !want.iter().any(|w| w.iter().zip(k.iter()).all(|(p, q)| match (&p.term, &q.term) { (None, None) => true, (Some(p), Some(q)) => same_term(p, q), _ => false })) { want.push(k); } }
        let got: Vec<Vec<KeyObs>> = drows.iter().map(|r| r.iter().map(|x| match x { Some((t, d)) => KeyObs { term: Some(t.clone()), dbg: d.clone() }, None => KeyObs { term: None, dbg: "None".into() } }).collect()).collect();
        let same = got.len() == want.len() && got.iter().zip(want.iter()).all(|(g, w)| g.len() == w.len() && g.iter().zip(w.iter()).all(|(p, q)| match (&p.term, &q.term) { (None, None) => true, (Some(p), Some(q)) => same_term(p, q), _ => false }));
        if failure.is_none() && !same { failure = Some(format!("(viii) DISTINCT: {dq} returns [{}] but the ordered keys without repetitions are [{}]", got.iter().map(|g| g.iter().map(|k| k.show()).collect::<Vec<_>>().join(" & ")).collect::<Vec<_>>().join("; "), want.iter().map(|g| g.iter().map(|k| k.show()).collect::<Vec<_>>().join(" & ")).collect::<Vec<_>>().join("; "))); }
        let mut rs = vec![]; for g in &got { let mut ks = vec![]; for k in g { match k.coq() { Ok(x) => ks.push(x), Err(e) => return fail(e, bumps) } } rs.push(coq_list(ks)); }
        parts.push(format!("sorted_ok {} {}", coq_list(descs.iter().map(|d| coq_bool(*d).to_string())), coq_list(rs)));
        bumps.push("q:distinct".into());
    }
    let body = match coq_rows(&order) { Ok(rows) => Some(format!("(let rows := {rows} in {})", parts.join(" && "))), Err(e) => return fail(e, bumps) };
    let mut tags: Vec<String> = order.iter().flat_map(|s| obs[*s].as_ref().unwrap().iter().map(|k| k.tag())).collect(); tags.sort(); tags.dedup();
    if verbose { println!("  unsorted query: {oq}\n  sorted query:   {sq}"); if lt.is_some() { println!("  pairs query:    {}", c.pairs_query(None)); } }
    QOut { text, desc, failure, body, tags, bumps }
}

// ---------------------------------------------------------------- generators of end-to-end cases
fn int_lit(v: i128, r: &mut Rng) -> ST {
    // the same value under several integer datatypes (the engine parses all of them to NativeInt / BigInt)
    let fits64 = v >= i64::MIN as i128 && v <= i64::MAX as i128;
    let dt = match r.below(6) { 0 if fits64 => "long", 1 if v >= 0 => "nonNegativeInteger", 2 if v > 0 => "positiveInteger", 1 | 2 if v < 0 => "negativeInteger", 3 if v >= 0 && v <= u64::MAX as i128 => "unsignedLong", _ => "integer" };
    let lex = match r.below(8) { 0 if v >= 0 => format!("+{v}"), 1 if v >= 0 => format!("0{v}"), _ => v.to_string() };
    x(&lex, dt)
}
const HUGE: [i128; 12] = [1i128 << 63, (1i128 << 63) + 1, (1i128 << 63) + 9, -(1i128 << 63) - 1, -(1i128 << 63) - 6, (1i128 << 64) - 1, 1i128 << 64, -(1i128 << 64),
    1_000_000_000_000_000_000_000_000_000_000, -1_000_000_000_000_000_000_000_000_000_000, (1i128 << 63) - 1, -(1i128 << 63)];
struct Gen<'a> { pool: &'a Pool, fams: &'a [Vec<usize>], classes: &'a [(String, Vec<usize>)], np: usize }
impl Gen<'_> {
    fn class(&self, fam: &str) -> &[usize] { self.classes.iter().find(|c| c.0 == fam).map(|c| &c.1[..]).unwrap_or(&[]) }
    fn pick_class(&self, r: &mut Rng, fams: &[&str]) -> ST { let f = *r.pick(fams); let c = self.class(f); if c.is_empty() { self.pool.terms[r.below(self.np)].clone() } else { self.pool.terms[*r.pick(c)].clone() } }
    fn any(&self, r: &mut Rng) -> ST { self.pool.terms[r.below(self.np)].clone() }
    fn small_int(&self, r: &mut Rng) -> ST { int_lit(r.below(21) as i128 - 10, r) }
    fn num_expr(&self, r: &mut Rng, nops: usize, depth: usize) -> String {
        let v = |r: &mut Rng| format!("?{}", OPV[r.below(nops)]);
        let atom = |r: &mut Rng| if r.chance(3, 4) { v(r) } else { r.ps(&["0", "1", "-1", "2", "9223372036854775807", "-9223372036854775808", "9223372036854775808", "0.5", "1.0", "1e0", "\"2\"^^<http://www.w3.org/2001/XMLSchema#float>", "\"x\""]).to_string() };
        if depth == 0 { return atom(r); }
        match r.below(12) {
            0 | 1 => format!("({} + {})", self.num_expr(r, nops, depth - 1), self.num_expr(r, nops, depth - 1)),
            2 | 3 => format!("({} - {})", self.num_expr(r, nops, depth - 1), self.num_expr(r, nops, depth - 1)),
            4 | 5 => format!("({} * {})", self.num_expr(r, nops, depth - 1), self.num_expr(r, nops, depth - 1)),
            6 => format!("({} / {})", self.num_expr(r, nops, depth - 1), self.num_expr(r, nops, depth - 1)),
            7 => format!("(- {})", self.num_expr(r, nops, depth - 1)),
            8 => format!("(+ {})", self.num_expr(r, nops, depth - 1)),
            9 => format!("{}({})", r.ps(&["ABS", "CEIL", "FLOOR", "ROUND"]), self.num_expr(r, nops, depth - 1)),
            10 => format!("({} * 1)", v(r)),
            _ => atom(r),
        }
    }
    fn any_expr(&self, r: &mut Rng, nops: usize, graph: bool) -> String {
        let v = |r: &mut Rng| if graph && r.chance(1, 6) { "?g".to_string() } else { format!("?{}", OPV[r.below(nops)]) };
        let last = format!("?{}", OPV[nops - 1]);
        match r.below(36) {
            0..=3 => v(r),
            4 => format!("STR({})", v(r)), 5 => format!("CONCAT(STR({}), STR({}))", v(r), v(r)), 6 => format!("UCASE({})", v(r)), 7 => format!("LCASE(STR({}))", v(r)),
            8 => format!("LANG({})", v(r)), 9 => format!("STRLEN(STR({}))", v(r)), 10 => format!("SUBSTR(STR({}), 2)", v(r)), 11 => format!("DATATYPE({})", v(r)),
            12 => format!("({} {} {})", v(r), r.ps(&["<", "<=", ">", ">=", "=", "!="]), v(r)), 13 => format!("(! {})", v(r)), 14 => format!("BOUND({last})"),
            15 => format!("({} IN ({}, 1, \"a\"))", v(r), v(r)), 16 => format!("sameTerm({}, {})", v(r), v(r)), 17 => format!("{}({})", r.ps(&["isNumeric", "isLiteral", "isIRI", "isBlank"]), v(r)),
            18 => format!("(({} < {}) || ({} > {}))", v(r), v(r), v(r), v(r)), 19 => format!("({} && {})", v(r), v(r)), 20 => "EXISTS { ?s <x:oc> ?zz9 }".to_string(),
            21 => { let (p, q) = (v(r), v(r)); format!("IF({p} < {q}, {p}, {q})") } 22 => format!("COALESCE({last}, {})", v(r)), 23 => format!("COALESCE({}, {})", self.num_expr(r, nops, 1), v(r)),
            24 => { let p = v(r); format!("IF(isNumeric({p}), {p} * 1, {p})") } 25 => format!("{}({})", r.ps(&["YEAR", "MONTH", "DAY", "HOURS", "MINUTES", "SECONDS"]), v(r)),
            26 => format!("TRIPLE(<x:t>, <x:p>, {})", v(r)), 27 => r.ps(&["<x:const>", "\"a\"@en", "1", "true", "?never"]).to_string(), 28 => format!("IRI(CONCAT(\"x:\", STR({})))", v(r)),
            29 => format!("IF(BOUND({last}), {last}, {})", v(r)), 30 => format!("STRAFTER(STR({}), \"-\")", v(r)),
            31 => format!("IRI({})", v(r)), 32 => format!("{}({})", r.ps(&["STRLEN", "UCASE", "STR", "LANG"]), self.num_expr(r, nops, 1)),
            _ => self.num_expr(r, nops, 2),
        }
    }
    fn forms(&self, r: &mut Rng, keys: &mut [KeySpec]) { for k in keys.iter_mut() { k.form = match r.below(5) { 0 | 1 => 0, 2 | 3 => 1, _ => 2 }; k.desc = r.chance(2, 5); } }
    fn case(&self, r: &mut Rng, sub: usize) -> QCase {
        let key = |e: String| KeySpec { expr: e, desc: false, form: 0 };
        let mut c = QCase { ops: vec![], nops: 2, keys: vec![], graph: false, graph_const: false, filter: None, flip: r.chance(1, 2), store: r.below(3) as u8, entry: r.below(3) as u8, slice: None, distinct: false, arith: None, label: String::new(), projv: vec![], star: false };
        let n = if r.chance(1, 12) { r.range(12, 45) } else { r.range(2, 8) };
        match sub {
            // ---- equal values written differently on the earlier key(s), a later key must break the tie
            0 => {
                c.label = "ties".into();
                let three = r.chance(1, 3); c.nops = if three { 3 } else { 2 };
                let f1 = r.pick(self.fams).clone(); let f2 = if r.chance(1, 2) { r.pick(self.fams).clone() } else { f1.clone() };
                let tie = |r: &mut Rng, f: &Vec<usize>| self.pool.terms[*r.pick(f)].clone();
                let tb: Vec<ST> = match r.below(4) { 0 => (0..n).map(|i| x(&i.to_string(), "integer")).collect(), 1 => (0..n).map(|i| x(&format!("{}", (b'a' + i as u8) as char), "string")).collect(),
                    2 => (0..n).map(|i| x(&format!("{}.5", 2 * i), if i % 2 == 0 { "decimal" } else { "double" })).collect(), _ => (0..n).map(|i| x(&format!("2024-{:02}-{:02}T00:00:00Z", 1 + i / 28, 1 + i % 28), "dateTime")).collect() };
                let mut perm: Vec<usize> = (0..n).collect(); for i in (1..n).rev() { perm.swap(i, r.below(i + 1)); }
                for i in 0..n {
                    let a = if r.chance(5, 6) { tie(r, &f1) } else { tie(r, &f2) };
                    let b = tb[perm[i]].clone();
                    c.ops.push(if three { vec![Some(a), Some(tie(r, &f2)), Some(b)] } else { vec![Some(a), Some(b)] });
                }
                let wrap = |r: &mut Rng, v: &str| match r.below(6) { 0 => format!("({v} * 1)"), 1 => format!("COALESCE({v}, 0)"), _ => v.to_string() };
                c.keys = (0..c.nops).map(|k| key(if k + 1 < c.nops { wrap(r, &format!("?{}", OPV[k])) } else { format!("?{}", OPV[k]) })).collect();
                self.forms(r, &mut c.keys);
            }
            // ---- integers that leave and re-enter the isize range
            1 => {
                c.label = "arith-directed".into();
                let shape = r.below(9);
                c.nops = if shape == 6 { 3 } else { 2 };
                let (expr, op): (&str, Option<&'static str>) = match shape { 0 | 1 => ("(?a + ?b)", Some("OAdd")), 2 | 3 => ("(?a - ?b)", Some("OSub")), 4 => ("(?a * ?b)", Some("OMul")), 5 => ("(- (- ?a))", None), 6 => ("((?a + ?b) + ?c)", None), 8 => ("(ABS(?a) - ABS(?b))", None), _ => ("(- ?a)", Some("ONeg")) };
                c.arith = op;
                for _ in 0..n {
                    let h = *r.pick(&HUGE) + if r.chance(1, 3) { r.below(7) as i128 - 3 } else { 0 };
                    let d = r.below(25) as i128 - 12;
                    let (a, b, cc): (i128, i128, i128) = match (shape, r.below(6)) {
                        (0 | 1, 0 | 1) => (h, d - h, 0), (0 | 1, 2) => (d - h, h, 0), (2 | 3, 0 | 1) => (h, h - d, 0), (2 | 3, 2) => (d + h, h, 0),
                        (4, 0) => (h, 0, 0), (4, 1) => (0, h, 0), (4, 2) => (1i128 << 32, if r.chance(1, 2) { 1i128 << 31 } else { -(1i128 << 31) }, 0), (4, 3) => (3037000500, 3037000500 - r.below(2) as i128, 0),
                        (4, _) => (r.below(9) as i128 - 4, r.below(9) as i128 - 4, 0),
                        (5 | 7, 0 | 1) => (h, 0, 0), (5 | 7, _) => (d, 0, 0),
                        (8, 0 | 1) => (h, if r.chance(1, 2) { h - d } else { d - h }, 0), (8, 2) => (-(1i128 << 63), (1i128 << 63) - d.abs(), 0),
                        (6, 0 | 1) => (h, d, -h), (6, 2) => (h, -h, d), (6, 3) => ((1i128 << 63) - 1, d.abs() + 1, -((1i128 << 63) - 1)),
                        (_, 3) => (h, d, 0), (_, 4) => (d, r.below(25) as i128 - 12, r.below(5) as i128), _ => (d, 0, r.below(5) as i128),
                    };
                    let mut row = vec![Some(int_lit(a, r)), Some(int_lit(b, r))]; if c.nops == 3 { row.push(Some(int_lit(cc, r))); }
                    if r.chance(1, 10) { let k = r.below(c.nops); row[k] = Some(self.pick_class(r, &["num"])); }
                    c.ops.push(row);
                }
                c.keys.push(key(expr.to_string()));
                if r.chance(1, 2) { c.keys.push(key(if r.chance(1, 2) { "?b".into() } else { "STR(?a)".into() })); }
                self.forms(r, &mut c.keys);
            }
            // ---- random arithmetic over numbers of every type
            2 => {
                c.label = "arith-random".into();
                c.nops = r.range(2, 3);
                for _ in 0..n { c.ops.push((0..c.nops).map(|_| Some(match r.below(10) { 0..=4 => self.pick_class(r, &["num"]), 5 | 6 => self.small_int(r), 7 => int_lit(*r.pick(&HUGE), r), 8 => self.pick_class(r, &["num", "lit", "str"]), _ => self.any(r) })).collect()); }
                for _ in 0..r.range(1, 2) { let d = r.range(1, 2); c.keys.push(key(self.num_expr(r, c.nops, d))); }
                self.forms(r, &mut c.keys);
                // a key computed from an earlier BIND-ed key
                if c.keys[0].form == 1 && r.chance(1, 3) { let e = r.ps(&["(?k0 + 1)", "(- ?k0)", "(?k0 - ?k0)", "(?k0 * 1)", "ABS(?k0)"]).to_string(); c.keys.push(KeySpec { expr: e, desc: r.chance(1, 2), form: r.below(3) as u8 }); }
            }
            // ---- expressions of every kind over terms of every kind, several keys
            3 => {
                c.label = "expr-any".into();
                c.nops = r.range(2, 3); c.graph = r.chance(1, 6);
                let focus: Vec<&str> = match r.below(5) { 0 => vec!["num"], 1 => vec!["str", "lit"], 2 => vec!["date"], 3 => vec!["bool", "num", "str"], _ => vec![] };
                let unb = r.chance(1, 3);
                for _ in 0..n { let mut row: Vec<Option<ST>> = (0..c.nops).map(|_| Some(if focus.is_empty() || r.chance(1, 4) { self.any(r) } else { self.pick_class(r, &focus) })).collect(); if unb && r.chance(1, 3) { row[c.nops - 1] = None; } c.ops.push(row); }
                // dateTime operands: one time in two the first key is a date part (YEAR .. SECONDS: integers and decimals)
                if focus == ["date"] && r.chance(1, 2) { c.keys.push(key(format!("{}(?{})", r.ps(&["YEAR", "MONTH", "DAY", "HOURS", "MINUTES", "SECONDS"]), OPV[r.below(c.nops)]))); }
                for _ in 0..r.range(1, 3) { c.keys.push(key(self.any_expr(r, c.nops, c.graph))); }
                self.forms(r, &mut c.keys);
            }
            // ---- criteria over variables that the SELECT clause does not (or only partly) project, sensitive to WHETHER the last
            //      operand is bound (it is unbound in about half of the solutions): BOUND, IF / COALESCE / EXISTS / functions over it
            5 => {
                c.label = "unprojected".into();
                c.nops = r.range(2, 3); c.graph = r.chance(1, 8);
                let n = n.max(3);
                let last = format!("?{}", OPV[c.nops - 1]);
                let few: Vec<ST> = (0..3).map(|_| if r.chance(1, 2) { self.pick_class(r, &["num", "str", "date", "bool"]) } else { self.any(r) }).collect();
                for i in 0..n {
                    let mut row: Vec<Option<ST>> = (0..c.nops).map(|_| Some(match r.below(4) { 0 | 1 => r.pick(&few).clone(), 2 => self.pick_class(r, &["num", "str", "date", "bool"]), _ => self.any(r) })).collect();
                    if i == 0 || (i != 1 && r.chance(1, 2)) { row[c.nops - 1] = None; }
                    c.ops.push(row);
                }
                let nb = c.nops - 1;
                let v = |r: &mut Rng| format!("?{}", OPV[r.below(nb)]);
                let k0 = match r.below(18) {
                    0 | 1 => format!("BOUND({last})"), 2 => format!("(! BOUND({last}))"), 3 => format!("IF(BOUND({last}), 1, 0)"), 4 => format!("IF(BOUND({last}), {}, {})", v(r), v(r)),
                    5 => format!("COALESCE({last}, {})", r.ps(&["0", "\"\"", "<x:none>", "true"])), 6 => format!("COALESCE({last}, {})", v(r)), 7 => last.clone(), 8 => format!("STR({last})"),
                    9 => format!("isLiteral({last})"), 10 => format!("sameTerm({last}, {last})"), 11 => format!("(BOUND({last}) && BOUND({}))", v(r)), 12 => format!("(BOUND({last}) || ({} < {}))", v(r), v(r)),
                    13 => format!("COALESCE(IF(BOUND({last}), ?never, {}), {last})", v(r)), 14 => format!("EXISTS {{ ?s <x:o{}> ?zz9 }}", OPV[c.nops - 1]), 15 => format!("(! (! BOUND({last})))"),
                    16 => format!("IF(BOUND({last}), STR({last}), {})", v(r)), _ => format!("(BOUND({last}) IN (true))"),
                };
                c.keys.push(key(k0));
                for _ in 0..r.below(3) { c.keys.push(key(if r.chance(1, 2) { v(r) } else { self.any_expr(r, c.nops, c.graph) })); }
                if r.chance(1, 4) { let at = r.below(c.keys.len()); c.keys.swap(0, at); }
                for k in c.keys.iter_mut() { k.form = match r.below(5) { 0..=2 => 0, 3 => 1, _ => 2 }; k.desc = r.chance(2, 5); }
            }
            // ---- values that '<' orders although they are as close as their value space allows, shuffled, with a second key that
            //      orders the solutions the other way round (any two of them wrongly tied on the first key are then output in the wrong order)
            6 => {
                c.label = "near-ties".into();
                c.nops = 2;
                let m = n.clamp(3, 9);
                let mut cluster: Vec<ST> = vec![]; // strictly increasing for '<'
                match r.below(8) {
                    // dateTimes of one second or so: steps from one nanosecond to one second, one instant per member, written in various time zones
                    0..=2 => {
                        let zoned = r.chance(2, 3);
                        let (mm, ss) = (r.below(29) as i64, r.below(60) as i64);
                        let (day, month) = (1 + r.below(28), 1 + r.below(12));
                        let year = *r.pick(&[2024i64, 1969, 1970, 1, 9999, 1582]);
                        let mut nanos: i64 = if r.chance(1, 2) { r.below(1000) as i64 * 1_000_000 } else { r.below(1_000_000_000) as i64 };
                        let steps: Vec<i64> = match r.below(3) { 0 => vec![1, 2, 7, 10, 99, 100, 1000], 1 => vec![1000, 10_000, 100_000, 250_000, 999_999, 1_000_000, 1_000_001], _ => vec![1, 1000, 400_000, 600_000, 1_000_000, 20_000_000, 1_000_000_000] };
                        for _ in 0..m {
                            let (sec_of_day, ns) = (43200 + mm * 60 + ss + nanos / 1_000_000_000, nanos % 1_000_000_000);
                            let off: Option<i64> = if zoned { Some(*r.pick(&[0i64, 0, 7200, -18000, 19800, -12600, 41400, -41400, 3600])) } else { None };
                            let loc = sec_of_day + off.unwrap_or(0);
                            let mut frac = format!("{ns:09}"); while frac.ends_with('0') { frac.pop(); }
                            if frac.len() < 9 && r.chance(1, 3) { for _ in 0..r.range(1, 9 - frac.len()) { frac.push('0'); } }
                            let tz = match off { None => String::new(), Some(0) if r.chance(1, 2) => "Z".into(), Some(o) => format!("{}{:02}:{:02}", if o < 0 { '-' } else { '+' }, o.abs() / 3600, o.abs() % 3600 / 60) };
                            cluster.push(x(&format!("{year:04}-{month:02}-{day:02}T{:02}:{:02}:{:02}{}{frac}{tz}", loc / 3600, loc % 3600 / 60, loc % 60, if frac.is_empty() { "" } else { "." }), "dateTime"));
                            nanos += *r.pick(&steps);
                        }
                    }
                    // neighbouring doubles / floats
                    3 => { let mut f: f64 = *r.pick(&[1.0f64, 0.1, -2.5, 1e300, 5e-324, 123456.789, 9007199254740992.0, -1e-7, 4294967296.0]); if r.chance(1, 3) { f = conv_random_f64(r); }
                           for _ in 0..m { cluster.push(x(&format!("{f:e}"), "double")); for _ in 0..r.range(1, 2) { f = f.next_up(); } } }
                    4 => { let mut f: f32 = *r.pick(&[1.0f32, 0.1, -2.5, 1e30, 1e-45, 16777216.0, -1e-7]); if r.chance(1, 3) { f = conv_random_f32(r); }
                           for _ in 0..m { cluster.push(x(&format!("{f:e}"), "float")); for _ in 0..r.range(1, 2) { f = f.next_up(); } } }
                    // decimals that differ in their last digits only (beyond the precision of a double)
                    5 => { let ni = r.range(1, 12); let nf = r.range(17, 30); let d = conv_random_digits(r, ni + nf); let neg = r.chance(1, 3);
                           let mut k = r.below(100); let mut v = vec![];
                           for _ in 0..m { v.push(x(&format!("{}{}.{}{k:04}", if neg { "-" } else { "" }, &d[..ni], &d[ni..]), "decimal")); k += *r.pick(&[1usize, 1, 2, 10, 100]); }
                           if neg { v.reverse(); } cluster = v; }
                    // consecutive integers beyond (or across the ends of) the isize range
                    6 => { let mut h = *r.pick(&HUGE) - r.below(4) as i128; for _ in 0..m { cluster.push(int_lit(h, r)); h += r.range(1, 2) as i128; } }
                    // strings with a common prefix (code point order: U+FFFD < U+10000, unlike UTF-16 order)
                    _ => { let pre: String = (0..r.below(10)).map(|_| *r.pick(&['a', 'B', '0', ' ', '\u{e9}', '\u{10000}', '-'])).collect();
                           let sfx = ["", "0", "00", "A", "a", "a0", "\u{e9}", "\u{fffd}", "\u{10000}", "\u{10000}0"];
                           let mut at = 0; for _ in 0..m { if at >= sfx.len() { break; } cluster.push(x(&format!("{pre}{}", sfx[at]), "string")); at += r.range(1, 2); } }
                }
                let m = cluster.len();
                let mut perm: Vec<usize> = (0..m).collect(); for i in (1..m).rev() { perm.swap(i, r.below(i + 1)); }
                let tb: Vec<ST> = match r.below(3) { 0 => (0..m).map(|i| x(&(m - i).to_string(), "integer")).collect(), 1 => (0..m).map(|i| x(&format!("{}", (b'a' + (m - i) as u8) as char), "string")).collect(),
                    _ => (0..m).map(|i| x(&format!("2024-01-{:02}T00:00:00Z", 1 + m - i), "dateTime")).collect() };
                for i in 0..m { c.ops.push(vec![Some(cluster[perm[i]].clone()), Some(tb[perm[i]].clone())]); }
                let ka = match r.below(8) { 0 => "COALESCE(?a, 0)".to_string(), 1 => "IF(BOUND(?a), ?a, ?b)".to_string(), _ => "?a".to_string() };
                c.keys.push(key(ka)); if r.chance(4, 5) { c.keys.push(key("?b".into())); }
                self.forms(r, &mut c.keys);
                let d = c.keys[0].desc; for k in c.keys.iter_mut() { k.desc = d; }
            }
            // ---- plain keys of every kind, few distinct values on the earlier keys, unbound operands, named graphs
            _ => {
                c.label = "plain".into();
                c.nops = r.range(2, 3); c.graph = r.chance(1, 4); c.graph_const = c.graph && r.chance(1, 3);
                let few: Vec<ST> = (0..3).map(|_| if r.chance(1, 2) { let f = r.pick(self.fams).clone(); self.pool.terms[*r.pick(&f)].clone() } else { self.any(r) }).collect();
                let unb = r.chance(1, 2);
                for _ in 0..n { let mut row: Vec<Option<ST>> = (0..c.nops).map(|k| Some(if k == 0 { r.pick(&few).clone() } else if r.chance(1, 2) { self.pick_class(r, &["num", "date", "bool"]) } else { self.any(r) })).collect(); if unb && r.chance(1, 3) { row[c.nops - 1] = None; } c.ops.push(row); }
                c.keys = (0..c.nops).map(|k| key(format!("?{}", OPV[k]))).collect();
                if c.graph && !c.graph_const && r.chance(1, 2) { let at = r.below(c.keys.len() + 1); c.keys.insert(at, key("?g".into())); }
                self.forms(r, &mut c.keys);
            }
        }
        // the keys that are also selected must not clash with a BIND of the same name in the group: forms are exclusive per key (fine)
        if r.chance(1, 5) { c.filter = Some(match r.below(5) { 0 => "?a < ?b".to_string(), 1 => format!("BOUND(?{})", OPV[c.nops - 1]), 2 => "!(?a = ?b)".to_string(), 3 => "isLiteral(?a) || isIRI(?a)".to_string(), _ => "?a >= 0 || ?a < 0".to_string() }); }
        if r.chance(1, 4) { let start = r.below(c.ops.len() + 2); let len = if r.chance(1, 4) { None } else { Some(r.below(c.ops.len() + 1)) }; c.slice = Some((start, len)); }
        if r.chance(1, 6) { c.distinct = true; for k in c.keys.iter_mut() { if k.form == 0 { k.form = 1 + (k.expr.len() % 2) as u8; } } }
        c
    }
    /// a SELECT clause that projects some of the operands, or SELECT * (directed stream only)
    fn projection(&self, r: &mut Rng, c: &mut QCase) {
        for k in 0..c.nops { if r.chance(1, 3) { c.projv.push(k); } }
        if r.chance(1, 8) { c.star = true; c.projv.clear(); for k in c.keys.iter_mut() { if k.form == 2 { k.form = 1; } } }
    }
}

// ================================================================ ORDER BY in its evaluation context (kinds c:*)
// ORDER BY at every place the algebra allows it: at the top level, in a sub-select, in a sub-select under
// GRAPH <g> { } and GRAPH ?g { }, nested up to three SELECTs deep, over a dataset whose named graphs differ from
// the default graph, with sort keys whose VALUE depends on where they are evaluated: EXISTS / NOT EXISTS over a
// triple pattern of the active graph, of a constant graph, of GRAPH ?x with ?x bound or not, BOUND(), IF and
// COALESCE over such tests, variables bound by GRAPH ?g (unbound inside the sub-select, bound outside).
// The oracle below evaluates the query as SPARQL 1.1 section 18 prescribes (each key in the active graph of the
// SELECT it belongs to, EXISTS by substitution, 18.6) with its own term order (15.1: unbound < IRI < literal,
// IRIs by code points, '<' on the values); the generator makes every ORDER BY free of ties (last resort: ?s and
// the graph variable as final keys), so that the expected solutions of every LIMIT / OFFSET window of a
// sub-select are determined: the window is what makes the inner order visible from outside.
// The result is compared as a sequence when the outermost SELECT is ordered, as a multiset otherwise.
// The Coq model (C14/Context.v) evaluates the same algebra with the model's comparator and is given the output.
#[derive(Clone, Debug)] enum CNode { V(String), C(ST) }
#[derive(Clone, Debug)] enum CGs { Active, Const(usize), Var(String) }
#[derive(Clone, Debug)] struct CTp { s: CNode, p: &'static str, o: CNode }
#[derive(Clone, Debug)] enum CE { Var(String), Const(ST), Exists(bool, CGs, CTp), Bound(String), Not(Box<CE>), Coalesce(Box<CE>, Box<CE>), If(Box<CE>, Box<CE>, Box<CE>) }
#[derive(Clone, Debug)] enum CGraph { Const(usize), Var(String) }
#[derive(Clone, Debug)] enum CPat { Base { link: bool, unb: bool, flip: bool }, Graph(CGraph, Box<CPat>), Sub(Box<CSel>) }
#[derive(Clone, Debug)] struct CSel { proj: Vec<String>, selx: Vec<(CE, String)>, pat: CPat, order: Vec<(CE, bool)>, slice: Option<(usize, Option<usize>)> }
type CQuad = ([ST; 3], Option<ST>);
type CSol = Vec<(String, ST)>;
#[derive(Debug)] enum CErr { Tie(usize), Undet(usize, usize) }
const CVARS: [&str; 20] = ["s", "v", "h", "zz", "g", "g2", "g3", "w", "u", "e", "k0", "k1", "k2", "k3", "k4", "k5", "k6", "k7", "k8", "k9"];
fn cvar_id(v: &str) -> usize { CVARS.iter().position(|x| *x == v).expect("variable of a context case") }
fn cgname(k: usize) -> ST { iri(&format!("x:g{k}")) }
fn cpred(p: &str) -> ST { iri(&format!("x:{p}")) }
fn cbool(b: bool) -> ST { x(if b { "true" } else { "false" }, "boolean") }
fn cget<'a>(b: &'a CSol, v: &str) -> Option<&'a ST> { b.iter().find(|p| p.0 == v).map(|p| &p.1) }
fn cterm_txt(t: &ST) -> String {
    match t { SimpleTerm::Iri(i) => format!("<{}>", i.as_str()), SimpleTerm::LiteralDatatype(l, d) => format!("\"{}\"^^<{}>", l, d.as_str()), _ => panic!("term of a context case") }
}
fn cnode_txt(n: &CNode) -> String { match n { CNode::V(v) => format!("?{v}"), CNode::C(t) => cterm_txt(t) } }
fn ctp_txt(tp: &CTp) -> String { format!("{} <x:{}> {}", cnode_txt(&tp.s), tp.p, cnode_txt(&tp.o)) }
fn ce_txt(e: &CE) -> String {
    match e {
        CE::Var(v) => format!("?{v}"), CE::Const(t) => cterm_txt(t), CE::Bound(v) => format!("BOUND(?{v})"), CE::Not(a) => format!("(! {})", ce_txt(a)),
        CE::Exists(neg, gs, tp) => { let inner = match gs { CGs::Active => ctp_txt(tp), CGs::Const(k) => format!("GRAPH <x:g{k}> {{ {} }}", ctp_txt(tp)), CGs::Var(v) => format!("GRAPH ?{v} {{ {} }}", ctp_txt(tp)) }; format!("{}EXISTS {{ {inner} }}", if *neg { "NOT " } else { "" }) }
        CE::Coalesce(a, b) => format!("COALESCE({}, {})", ce_txt(a), ce_txt(b)), CE::If(c, t, f) => format!("IF({}, {}, {})", ce_txt(c), ce_txt(t), ce_txt(f)),
    }
}
fn ce_has_exists(e: &CE) -> bool { match e { CE::Exists(..) => true, CE::Not(a) => ce_has_exists(a), CE::Coalesce(a, b) => ce_has_exists(a) || ce_has_exists(b), CE::If(a, b, c) => ce_has_exists(a) || ce_has_exists(b) || ce_has_exists(c), _ => false } }
fn cbase_tps(link: bool, alt: bool) -> Vec<CTp> {
    let mut v = vec![if alt { CTp { s: CNode::V("s".into()), p: "n", o: CNode::V("zz".into()) } } else { CTp { s: CNode::V("s".into()), p: "v", o: CNode::V("v".into()) } }];
    if link { v.push(CTp { s: CNode::V("s".into()), p: "in", o: CNode::V("h".into()) }); }
    v
}
fn cpat_txt(p: &CPat) -> String {
    match p {
        CPat::Base { link, unb, flip } => {
            let bgp = |alt: bool| cbase_tps(*link, alt).iter().map(|t| format!(" {} .", ctp_txt(t))).collect::<String>();
            if *unb { let (a, b) = (format!("{{{} }}", bgp(false)), format!("{{{} }}", bgp(true))); if *flip { format!(" {b} UNION {a}") } else { format!(" {a} UNION {b}") } } else { bgp(false) }
        }
        CPat::Graph(CGraph::Const(k), inner) => format!(" GRAPH <x:g{k}> {{{} }}", cpat_txt(inner)),
        CPat::Graph(CGraph::Var(v), inner) => format!(" GRAPH ?{v} {{{} }}", cpat_txt(inner)),
        CPat::Sub(sel) => format!(" {{ {} }}", csel_txt(sel)),
    }
}
fn csel_columns(sel: &CSel) -> Vec<String> { sel.proj.iter().cloned().chain(sel.selx.iter().map(|x| x.1.clone())).collect() }
fn csel_txt(sel: &CSel) -> String { csel_txt_from(sel, None) }
fn csel_txt_from(sel: &CSel, from: Option<usize>) -> String {
    let mut q = String::from("SELECT");
    for v in &sel.proj { q.push_str(&format!(" ?{v}")); }
    for (e, v) in &sel.selx { q.push_str(&format!(" ({} AS ?{v})", ce_txt(e))); }
    // a sub-select directly inside the braces of the WHERE clause needs no braces of its own
    let body = match &sel.pat { CPat::Sub(inner) => format!(" {{ {} }}", csel_txt(inner)), p => cpat_txt(p) };
    if let Some(k) = from { q.push_str(&format!(" FROM <x:g{k}>")); }
    q.push_str(&format!(" {{{body} }}"));
    if !sel.order.is_empty() { q.push_str(" ORDER BY"); for (e, desc) in &sel.order { q.push_str(&if *desc { format!(" DESC({})", ce_txt(e)) } else { format!(" ({})", ce_txt(e)) }); } }
    if let Some((start, len)) = sel.slice { if let Some(l) = len { q.push_str(&format!(" LIMIT {l}")); } if start > 0 || len.is_none() { q.push_str(&format!(" OFFSET {start}")); } }
    q
}
/// the variables that a pattern can bind
fn cpat_vars(p: &CPat) -> Vec<String> {
    match p {
        CPat::Base { link, unb, .. } => { let mut v = vec!["s".to_string(), "v".to_string()]; if *link { v.push("h".into()); } if *unb { v.push("zz".into()); } v }
        CPat::Graph(CGraph::Const(_), inner) => cpat_vars(inner),
        CPat::Graph(CGraph::Var(g), inner) => { let mut v = cpat_vars(inner); if !v.contains(g) { v.push(g.clone()); } v }
        CPat::Sub(sel) => csel_columns(sel),
    }
}
/// the graph variables that the GRAPH clauses of this SELECT's own pattern bind (not those of its sub-select)
fn cpat_graph_vars(p: &CPat) -> Vec<String> { match p { CPat::Graph(CGraph::Var(g), inner) => { let mut v = cpat_graph_vars(inner); v.push(g.clone()); v } CPat::Graph(_, inner) => cpat_graph_vars(inner), _ => vec![] } }
fn csel_at(sel: &mut CSel, depth: usize) -> &mut CSel {
    if depth == 0 { return sel; }
    fn sub(p: &mut CPat) -> &mut CSel { match p { CPat::Sub(s) => &mut **s, CPat::Graph(_, inner) => sub(inner), CPat::Base { .. } => panic!("no SELECT at that depth") } }
    csel_at(sub(&mut sel.pat), depth - 1)
}

// ---------------------------------------------------------------- the oracle: SPARQL 1.1 section 18 on this fragment
/// 15.1 on two keys; None: SPARQL does not decide (the generator then replaces the key)
fn c_cmp_key(a: Option<&ST>, b: Option<&ST>) -> Option<Ordering> {
    let (ra, rb) = (rank_of(a), rank_of(b));
    if ra != rb { return Some(Ord::cmp(&ra, &rb)); }
    match (a, b) {
        (None, None) => Some(Ordering::Equal),
        (Some(SimpleTerm::Iri(p)), Some(SimpleTerm::Iri(q))) => Some(Ord::cmp(p.as_str(), q.as_str())), // "pairs of IRIs are ordered by comparing them as simple literals"
        (Some(p), Some(q)) => if exact_tie(p, q) { Some(Ordering::Equal) } else if ra == 3 { strict_order(p, q) } else { None },
        _ => None,
    }
}
/// Err(k): key k is the first one on which the two solutions differ and SPARQL does not order them
fn c_cmp_rows(a: &[Option<ST>], b: &[Option<ST>], order: &[(CE, bool)]) -> Result<Ordering, usize> {
    for k in 0..order.len() { match c_cmp_key(a[k].as_ref(), b[k].as_ref()) { None => return Err(k), Some(Ordering::Equal) => {} Some(o) => return Ok(if order[k].1 { o.reverse() } else { o }) } }
    Ok(Ordering::Equal)
}
/// `wrong_ctx`: NOT the semantics, a measuring device: sort keys evaluated against the default graph whatever the active graph is
struct COracle<'a> { quads: &'a [CQuad], wrong_ctx: bool, max_sorted: std::cell::Cell<usize>, sorts_in_named: std::cell::Cell<usize> }
impl COracle<'_> {
    fn is_named(&self, g: &ST) -> bool { self.quads.iter().any(|q| q.1.as_ref().map_or(false, |n| same_term(n, g))) }
    fn names(&self) -> Vec<ST> { let mut v: Vec<ST> = vec![]; for q in self.quads { if let Some(g) = &q.1 { if !v.iter().any(|x| same_term(x, g)) { v.push(g.clone()); } } } v }
    fn in_graph(qg: &Option<ST>, active: &Option<ST>) -> bool { match (qg, active) { (None, None) => true, (Some(a), Some(b)) => same_term(a, b), _ => false } }
    /// the extensions of `b` that match the triple pattern in the graph `active`
    fn match_tp(&self, tp: &CTp, b: &CSol, active: &Option<ST>) -> Vec<CSol> {
        fn bind(n: &CNode, t: &ST, b: &mut CSol) -> bool { match n { CNode::C(c) => same_term(c, t), CNode::V(v) => match cget(b, v) { Some(x) => same_term(x, t), None => { b.push((v.clone(), t.clone())); true } } } }
        let p = cpred(tp.p); let mut out = vec![];
        for q in self.quads { if !Self::in_graph(&q.1, active) || !same_term(&q.0[1], &p) { continue; } let mut nb = b.clone(); if bind(&tp.s, &q.0[0], &mut nb) && bind(&tp.o, &q.0[2], &mut nb) { out.push(nb); } }
        out
    }
    fn exists(&self, gs: &CGs, tp: &CTp, b: &CSol, active: &Option<ST>) -> bool {
        match gs {
            CGs::Active => !self.match_tp(tp, b, active).is_empty(),
            CGs::Const(k) => { let g = cgname(*k); self.is_named(&g) && !self.match_tp(tp, b, &Some(g)).is_empty() }
            CGs::Var(v) => match cget(b, v) {
                Some(g) => self.is_named(g) && !self.match_tp(tp, b, &Some(g.clone())).is_empty(),
                None => self.names().into_iter().any(|g| !self.match_tp(tp, b, &Some(g)).is_empty()),
            },
        }
    }
    fn ebv(t: &ST) -> Option<bool> { match oracle_value(t) { OV::Bool(b) => Some(b), _ => None } } // conditions are booleans in this fragment
    fn eval(&self, e: &CE, b: &CSol, active: &Option<ST>) -> Option<ST> {
        match e {
            CE::Var(v) => cget(b, v).cloned(), CE::Const(t) => Some(t.clone()), CE::Bound(v) => Some(cbool(cget(b, v).is_some())),
            CE::Exists(neg, gs, tp) => Some(cbool(self.exists(gs, tp, b, active) != *neg)),
            CE::Not(a) => Some(cbool(!Self::ebv(&self.eval(a, b, active)?)?)),
            CE::Coalesce(p, q) => self.eval(p, b, active).or_else(|| self.eval(q, b, active)),
            CE::If(c, t, f) => if Self::ebv(&self.eval(c, b, active)?)? { self.eval(t, b, active) } else { self.eval(f, b, active) },
        }
    }
    fn base(&self, link: bool, unb: bool, active: &Option<ST>) -> Vec<CSol> {
        let mut out = vec![];
        for alt in [false, true] { if alt && !unb { continue; } let mut cur: Vec<CSol> = vec![vec![]]; for tp in cbase_tps(link, alt) { cur = cur.iter().flat_map(|b| self.match_tp(&tp, b, active)).collect(); } out.extend(cur); }
        out
    }
    fn eval_pat(&self, p: &CPat, active: &Option<ST>, depth: usize) -> Result<Vec<CSol>, CErr> {
        match p {
            CPat::Base { link, unb, .. } => Ok(self.base(*link, *unb, active)),
            CPat::Graph(CGraph::Const(k), inner) => { let g = cgname(*k); if self.is_named(&g) { self.eval_pat(inner, &Some(g), depth) } else { Ok(vec![]) } }
            CPat::Graph(CGraph::Var(v), inner) => {
                let mut out = vec![];
                for g in self.names() { for mut b in self.eval_pat(inner, &Some(g.clone()), depth)? { match cget(&b, v) { Some(t) => if same_term(t, &g) { out.push(b) }, None => { b.push((v.clone(), g.clone())); out.push(b) } } } }
                Ok(out)
            }
            CPat::Sub(sel) => self.eval_sel(sel, active, depth + 1),
        }
    }
    /// 18.2.4 / 18.2.5: pattern, SELECT expressions, ORDER BY, projection, LIMIT / OFFSET
    fn eval_sel(&self, sel: &CSel, active: &Option<ST>, depth: usize) -> Result<Vec<CSol>, CErr> {
        let mut rows = self.eval_pat(&sel.pat, active, depth)?;
        for (e, v) in &sel.selx { for b in rows.iter_mut() { if let Some(t) = self.eval(e, b, active) { b.push((v.clone(), t)); } } }
        if !sel.order.is_empty() {
            let key_graph = if self.wrong_ctx { &None } else { active };
            let keys: Vec<Vec<Option<ST>>> = rows.iter().map(|b| sel.order.iter().map(|(e, _)| self.eval(e, b, key_graph)).collect()).collect();
            for i in 0..rows.len() { for j in i + 1..rows.len() { match c_cmp_rows(&keys[i], &keys[j], &sel.order) { Err(k) => return Err(CErr::Undet(depth, k)), Ok(Ordering::Equal) => return Err(CErr::Tie(depth)), Ok(_) => {} } } }
            let mut idx: Vec<usize> = (0..rows.len()).collect();
            idx.sort_by(|p, q| c_cmp_rows(&keys[*p], &keys[*q], &sel.order).unwrap());
            rows = idx.into_iter().map(|i| rows[i].clone()).collect();
            self.max_sorted.set(self.max_sorted.get().max(rows.len()));
            if active.is_some() && rows.len() >= 2 { self.sorts_in_named.set(self.sorts_in_named.get() + 1); }
        }
        let cols = csel_columns(sel);
        for b in rows.iter_mut() { b.retain(|p| cols.contains(&p.0)); }
        if let Some((start, len)) = sel.slice { rows = rows.into_iter().skip(start).take(len.unwrap_or(usize::MAX)).collect(); }
        Ok(rows)
    }
}

// ---------------------------------------------------------------- the Coq image of a context case (C14/Context.v)
fn c_item(t: &ST) -> Result<String, String> { Ok(format!("(mkItem {} {})", coq_term_c(t), coq_value(t)?)) }
fn c_node_coq(n: &CNode) -> String { match n { CNode::V(v) => format!("(NV {})", cvar_id(v)), CNode::C(t) => format!("(NC {})", coq_term_c(t)) } }
fn c_tp_coq(tp: &CTp) -> String { format!("(mkTP {} (NC {}) {})", c_node_coq(&tp.s), coq_term_c(&cpred(tp.p)), c_node_coq(&tp.o)) }
fn c_expr_coq(e: &CE) -> Result<String, String> {
    Ok(match e {
        CE::Var(v) => format!("(EVar {})", cvar_id(v)), CE::Const(t) => format!("(EConst {})", c_item(t)?), CE::Bound(v) => format!("(EBound {})", cvar_id(v)), CE::Not(a) => format!("(ENot {})", c_expr_coq(a)?),
        CE::Exists(neg, gs, tp) => { let g = match gs { CGs::Active => "GActive".to_string(), CGs::Const(k) => format!("(GConst {})", coq_term_c(&cgname(*k))), CGs::Var(v) => format!("(GVar {})", cvar_id(v)) }; let ex = format!("(EExists {g} {})", c_tp_coq(tp)); if *neg { format!("(ENot {ex})") } else { ex } }
        CE::Coalesce(a, b) => format!("(ECoalesce {} {})", c_expr_coq(a)?, c_expr_coq(b)?), CE::If(c, t, f) => format!("(EIf {} {} {})", c_expr_coq(c)?, c_expr_coq(t)?, c_expr_coq(f)?),
    })
}
fn c_pat_coq(p: &CPat) -> Result<String, String> {
    Ok(match p {
        CPat::Base { link, unb, flip } => { let bgp = |alt: bool| format!("(CBgp {})", coq_list(cbase_tps(*link, alt).iter().map(c_tp_coq))); if *unb { if *flip { format!("(CUnion {} {})", bgp(true), bgp(false)) } else { format!("(CUnion {} {})", bgp(false), bgp(true)) } } else { bgp(false) } }
        CPat::Graph(CGraph::Const(k), inner) => format!("(CGraphC {} {})", coq_term_c(&cgname(*k)), c_pat_coq(inner)?),
        CPat::Graph(CGraph::Var(v), inner) => format!("(CGraphV {} {})", cvar_id(v), c_pat_coq(inner)?),
        CPat::Sub(sel) => c_sel_coq(sel)?,
    })
}
/// the algebra that spargebra builds: Slice(Project(OrderBy(Extend*(pattern))))
fn c_sel_coq(sel: &CSel) -> Result<String, String> {
    let mut q = c_pat_coq(&sel.pat)?;
    for (e, v) in &sel.selx { q = format!("(CExtend {} {} {q})", cvar_id(v), c_expr_coq(e)?); }
    if !sel.order.is_empty() { let mut ks = vec![]; for (e, d) in &sel.order { ks.push(format!("({}, {})", c_expr_coq(e)?, coq_bool(*d))); } q = format!("(COrder {} {q})", coq_list(ks)); }
    q = format!("(CProject {} {q})", coq_list(csel_columns(sel).iter().map(|v| cvar_id(v).to_string())));
    if let Some((start, len)) = sel.slice { q = format!("(CSlice {start} {} {q})", len.map_or("None".to_string(), |l| format!("(Some {l})"))); }
    Ok(q)
}

// ---------------------------------------------------------------- generator of context cases
struct CCase { quads: Vec<CQuad>, top: CSel, from: Option<usize>, store: u8, entry: u8, shape: String }
impl CCase {
    /// FROM <x:gk>: that graph is the default graph of the query (no GRAPH clause is generated then: sophia keeps all the named graphs)
    fn start(&self) -> Option<ST> { self.from.map(cgname) }
    fn query(&self) -> String { csel_txt_from(&self.top, self.from) }
}
fn ce_no_graph(e: &mut CE) { match e { CE::Exists(_, gs, _) => *gs = CGs::Active, CE::Not(a) => ce_no_graph(a), CE::Coalesce(a, b) => { ce_no_graph(a); ce_no_graph(b) } CE::If(a, b, c) => { ce_no_graph(a); ce_no_graph(b); ce_no_graph(c) } _ => {} } }
fn c_gen_tp(r: &mut Rng, gs: &CGs) -> CTp {
    let v = |n: &str| CNode::V(n.to_string());
    let mut tp = match r.below(11) {
        0..=3 => CTp { s: v("s"), p: "flag", o: CNode::C(iri("x:yes")) },
        4 => CTp { s: v("s"), p: "w", o: v("v") }, 5 => CTp { s: v("e"), p: "w", o: v("v") }, 6 => CTp { s: v("s"), p: "v", o: v("e") }, 7 => CTp { s: v("s"), p: "v", o: v("v") },
        8 => CTp { s: v("s"), p: "in", o: v(r.ps(&["g", "h", "g2", "e"])) }, 9 => CTp { s: v("s"), p: "w", o: v("e") },
        _ => CTp { s: v("e"), p: "flag", o: CNode::C(iri("x:yes")) },
    };
    // the variable of GRAPH ?x { .. } does not occur inside its braces (it would be a join with the graph name)
    if let (CGs::Var(g), CNode::V(o)) = (gs, &tp.o) { if g == o { tp.o = v("e"); } }
    tp
}
fn c_gen_bool(r: &mut Rng, d: usize) -> CE {
    match r.below(9) {
        5 => CE::Bound(r.ps(&["v", "zz", "g", "h", "u", "g2", "k0", "k3"]).to_string()),
        6 if d > 0 => CE::Not(Box::new(c_gen_bool(r, d - 1))),
        7 if d > 0 => CE::If(Box::new(c_gen_bool(r, d - 1)), Box::new(c_gen_bool(r, d - 1)), Box::new(c_gen_bool(r, d - 1))),
        _ => { let gs = match r.below(10) { 0..=5 => CGs::Active, 6 | 7 => CGs::Const(r.below(4)), _ => CGs::Var(r.ps(&["g", "h", "g2", "u"]).to_string()) }; let tp = c_gen_tp(r, &gs); CE::Exists(r.chance(1, 3), gs, tp) }
    }
}
fn c_gen_num(r: &mut Rng, d: usize) -> CE {
    let var = |n: &str| Box::new(CE::Var(n.to_string()));
    let int = |r: &mut Rng| CE::Const(x(&(r.below(9) as i64 - 2).to_string(), "integer"));
    match r.below(9) {
        0 | 1 => CE::Var("v".into()), 2 => int(r), 3 => CE::Var(r.ps(&["s", "g", "h", "zz", "u", "v", "g2"]).to_string()),
        4 if d > 0 => CE::If(Box::new(c_gen_bool(r, 1)), Box::new(c_gen_num(r, d - 1)), Box::new(c_gen_num(r, d - 1))),
        5 => CE::Coalesce(Box::new(CE::If(Box::new(c_gen_bool(r, 1)), var("v"), var("u"))), Box::new(int(r))),
        6 if d > 0 => CE::Coalesce(var(r.ps(&["zz", "h", "v", "u", "g"])), Box::new(c_gen_num(r, d - 1))),
        7 if d > 0 => CE::Coalesce(Box::new(CE::If(Box::new(c_gen_bool(r, 0)), Box::new(c_gen_num(r, d - 1)), var("u"))), Box::new(c_gen_num(r, d - 1))),
        _ => CE::If(Box::new(c_gen_bool(r, 0)), var("v"), Box::new(int(r))),
    }
}
/// a key whose value depends on WHETHER a variable of the pattern is bound (?v and ?zz are bound by one UNION branch each, ?h by the link)
fn c_gen_boundness(r: &mut Rng) -> CE {
    let x = r.ps(&["v", "zz", "v", "zz", "h", "g", "u"]).to_string();
    let var = |n: &str| Box::new(CE::Var(n.to_string()));
    let int = |r: &mut Rng| Box::new(CE::Const(x_int(r.below(9) as i64 - 2)));
    let bound = |x: &str| Box::new(CE::Bound(x.to_string()));
    match r.below(10) {
        0 | 1 => CE::Bound(x), 2 => CE::Not(bound(&x)), 3 => CE::If(bound(&x), int(r), int(r)), 4 => CE::If(bound(&x), var(r.ps(&["v", "s", "zz"])), var("s")),
        5 => CE::Coalesce(var(&x), int(r)), 6 => CE::If(Box::new(CE::Not(bound(&x))), var("s"), int(r)), 7 => CE::Coalesce(Box::new(CE::If(bound(&x), var("u"), int(r))), var("v")),
        8 => CE::Not(Box::new(CE::Not(bound(&x)))), _ => CE::If(bound(&x), Box::new(c_gen_bool(r, 0)), Box::new(CE::Bound("s".into()))),
    }
}
fn x_int(i: i64) -> ST { x(&i.to_string(), "integer") }
fn c_gen_case(r: &mut Rng) -> CCase { c_gen_case_x(r, false) }
/// `directed`: the UNION with unbound values three times in four, SELECT clauses that project only part of the variables at every level
/// (the outermost one included), one SELECT only half of the time, and a first key that depends on whether a variable is bound
fn c_gen_case_x(r: &mut Rng, directed: bool) -> CCase {
    // ---- the dataset: a default graph and up to three named graphs that tell different stories about the same subjects
    let n = r.range(3, 7); let unb = if directed { r.chance(3, 4) } else { r.chance(1, 4) }; let link = r.chance(1, 5);
    let val = |r: &mut Rng| -> ST { let i = r.below(9) as i64 - 2; match r.below(16) { 0 => x(&format!("{i}.0"), "decimal"), 1 if i >= 0 => x(&format!("0{i}"), "integer"), 2 => iri(&format!("x:i{}", r.below(4))), _ => x(&i.to_string(), "integer") } };
    let mut quads: Vec<CQuad> = vec![];
    let ng = r.range(1, 3);
    for g in std::iter::once(None).chain((0..ng).map(Some)) {
        let gn = g.map(cgname); let present = r.range(3, 5);
        for i in 0..n {
            let s = iri(&format!("x:s{i}"));
            if r.chance(present, 5) { if unb && r.chance(1, 4) { quads.push(([s.clone(), cpred("n"), x("0", "integer")], gn.clone())); } else { quads.push(([s.clone(), cpred("v"), val(r)], gn.clone())); } }
            if r.chance(1, 2) { quads.push(([s.clone(), cpred("flag"), iri("x:yes")], gn.clone())); }
            if r.chance(1, 2) { quads.push(([s.clone(), cpred("w"), val(r)], gn.clone())); }
            if r.chance(if link { 5 } else { 1 }, 6) { quads.push(([s.clone(), cpred("in"), cgname(r.below(4))], gn.clone())); }
        }
    }
    // ---- the chain of SELECTs, innermost first
    // (FROM <g> would be one more way to choose the active graph of the outermost SELECT, but sophia_sparql answers
    // NotImplemented("FROM NAMED") to every query that has a FROM clause)
    let from: Option<usize> = None;
    let depth = if directed { match r.below(10) { 0..=4 => 1, 5..=8 => 2, _ => 3 } } else { match r.below(10) { 0 => 1, 1..=6 => 2, _ => 3 } };
    let gvars = ["g", "g2", "g3"]; let mut next_gvar = 0;
    let mut wrap = |r: &mut Rng, p: CPat, force: bool| -> (CPat, String) {
        match if from.is_some() { 8 } else { r.below(if force { 6 } else { 9 }) } {
            0..=2 => (CPat::Graph(CGraph::Const(if r.chance(1, 10) { 3 } else { r.below(ng) }), Box::new(p)), "G".into()),
            3..=5 => { let g = gvars[next_gvar]; next_gvar += 1; (CPat::Graph(CGraph::Var(g.into()), Box::new(p)), "V".into()) }
            _ => (p, "".into()),
        }
    };
    let mut shape = String::new();
    let base = CPat::Base { link, unb, flip: r.chance(1, 2) };
    let (mut pat, w) = if r.chance(1, 3) { wrap(r, base, true) } else { (base, String::new()) };
    shape.push_str(&format!("B{}", w.to_lowercase()));
    let mut sel: Option<CSel> = None;
    for level in (0..depth).rev() {
        // level depth-1 is the innermost SELECT, level 0 the outermost one
        if let Some(inner) = sel.take() { let (p, w) = wrap(r, CPat::Sub(Box::new(inner)), false); pat = p; shape.push_str(&w); }
        let innermost = level == depth - 1;
        let avail = cpat_vars(&pat);
        let mut proj: Vec<String> = vec!["s".into()];
        for v in &avail { if v != "s" && (if directed { r.chance(1, 2) } else { level == 0 || r.chance(3, 4) }) { proj.push(v.clone()); } }
        let ordered = innermost || r.chance(1, 2);
        let mut s = CSel { proj, selx: vec![], pat: pat.clone(), order: vec![], slice: None };
        if ordered {
            for i in 0..r.range(1, 3) {
                // the first key is, one time in two, a test on the active graph (possibly wrapped): the keys that follow break its ties
                let e = if directed && i == 0 && r.chance(2, 3) { c_gen_boundness(r) }
                    else if i == 0 && r.chance(1, 2) { let t = CE::Exists(r.chance(1, 3), CGs::Active, c_gen_tp(r, &CGs::Active)); match r.below(6) { 0 => CE::If(Box::new(t), Box::new(CE::Var("v".into())), Box::new(CE::Var("u".into()))), 1 => CE::Coalesce(Box::new(CE::If(Box::new(t), Box::new(CE::Var("v".into())), Box::new(CE::Var("u".into())))), Box::new(CE::Const(x("1", "integer")))), _ => t } }
                    else if r.chance(1, 2) { c_gen_bool(r, 1) } else { c_gen_num(r, 1) };
                let mut e = e; if from.is_some() { ce_no_graph(&mut e); }
                let desc = r.chance(2, 5);
                if r.chance(1, 10) { let k = format!("k{}", level * 3 + i); s.selx.push((e, k.clone())); s.order.push((CE::Var(k), desc)); } else { s.order.push((e, desc)); }
            }
            if r.chance(if level == 0 { 1 } else { 5 }, 6) { s.slice = Some((r.below(3), if r.chance(1, 8) { None } else { Some(r.range(1, 3)) })); }
        }
        shape.push_str(if ordered { if s.slice.is_some() { "Sw" } else { "So" } } else { "Su" });
        sel = Some(s);
    }
    let mut top = sel.unwrap();
    // ---- make every ORDER BY decisive: a key on which SPARQL has no opinion is replaced, complete ties get final keys
    for _ in 0..12 {
        let o = COracle { quads: &quads, wrong_ctx: false, max_sorted: Default::default(), sorts_in_named: Default::default() };
        match o.eval_sel(&top, &from.map(cgname), 0) {
            Ok(_) => break,
            Err(CErr::Undet(d, k)) => { csel_at(&mut top, d).order[k].0 = CE::Var("s".into()); }
            Err(CErr::Tie(d)) => {
                let s = csel_at(&mut top, d);
                let mut extra: Vec<String> = vec!["s".into()]; extra.extend(cpat_graph_vars(&s.pat));
                let have = |s: &CSel, v: &str| s.order.iter().any(|(e, _)| matches!(e, CE::Var(x) if x == v));
                let mut added = false;
                for v in extra { if !have(s, &v) { let desc = r.chance(1, 3); s.order.push((CE::Var(v), desc)); added = true; } }
                if !added { s.order.clear(); s.slice = None; } // cannot happen: (?s, graph variables) identify a solution
            }
        }
    }
    if from.is_some() { shape.push_str("+FROM"); }
    if directed { shape.push_str("+part-proj"); }
    CCase { quads, top, from, store: r.below(3) as u8, entry: r.below(3) as u8, shape }
}
fn exec_store(quads: &[CQuad], store: u8, entry: u8, q: &str) -> Result<QRows, String> {
    let res = std::panic::catch_unwind(std::panic::AssertUnwindSafe(|| -> Result<QRows, String> {
        match store {
            0 => { let v: Vec<CQuad> = quads.to_vec(); exec_on(&v, entry, q) }
            1 => { let mut d = sophia_inmem::dataset::LightDataset::new(); for (spo, g) in quads { d.insert(&spo[0], &spo[1], &spo[2], g.as_ref()).map_err(|e| format!("insert: {e:?}"))?; } exec_on(&d, entry, q) }
            _ => { let mut d = sophia_inmem::dataset::FastDataset::new(); for (spo, g) in quads { d.insert(&spo[0], &spo[1], &spo[2], g.as_ref()).map_err(|e| format!("insert: {e:?}"))?; } exec_on(&d, entry, q) }
        }
    }));
    match res { Ok(r) => r, Err(_) => Err(format!("PANIC while evaluating {q}")) }
}
fn c_describe(c: &CCase) -> String {
    let mut gs: Vec<Option<ST>> = vec![None]; for q in &c.quads { if !gs.iter().any(|g| match (g, &q.1) { (None, None) => true, (Some(a), Some(b)) => same_term(a, b), _ => false }) { gs.push(q.1.clone()); } }
    let data: Vec<String> = gs.iter().map(|g| format!("{}: {{ {} }}", g.as_ref().map_or("default graph".to_string(), show),
        c.quads.iter().filter(|q| match (g, &q.1) { (None, None) => true, (Some(a), Some(b)) => same_term(a, b), _ => false }).map(|q| format!("{} {} {}", show(&q.0[0]), show(&q.0[1]), show(&q.0[2]))).collect::<Vec<_>>().join(" . "))).collect();
    format!("{} | data {} | store {} | entry {}", c.query().replace(XSD, "xsd:"), data.join("; "), ["Vec of quads", "LightDataset", "FastDataset"][c.store as usize], ["SparqlQuery::parse + query", "prepare_query + query", "query(&str)"][c.entry as usize])
}
fn run_ccase(c: &CCase, verbose: bool) -> QOut {
    let text = c_describe(c);
    let q = c.query();
    let cols = csel_columns(&c.top);
    let mut bumps = vec![format!("c:shape:{}", c.shape), format!("c:store{}", c.store), format!("c:entry{}", c.entry)];
    let fail = |f: String, bumps: Vec<String>| QOut { text: text.clone(), desc: f.clone(), failure: Some(if f.starts_with("PANIC") { format!("sorting panicked: {f}") } else { f }), body: None, tags: vec![], bumps };
    // ---- what SPARQL prescribes
    let o = COracle { quads: &c.quads, wrong_ctx: false, max_sorted: Default::default(), sorts_in_named: Default::default() };
    let want = match o.eval_sel(&c.top, &c.start(), 0) { Ok(r) => r, Err(e) => return fail(format!("internal: the generated case is not decisive ({e:?})"), bumps) };
    let row_txt = |r: &Vec<Option<ST>>| cols.iter().zip(r.iter()).map(|(v, t)| format!("?{v}={}", t.as_ref().map_or("UNBOUND".into(), show))).collect::<Vec<_>>().join(" ");
    let want_rows: Vec<Vec<Option<ST>>> = want.iter().map(|b| cols.iter().map(|v| cget(b, v).cloned()).collect()).collect();
    // a measure of the case: would the answer change if the keys were evaluated against the default graph?
    let w = COracle { quads: &c.quads, wrong_ctx: true, max_sorted: Default::default(), sorts_in_named: Default::default() };
    let ordered = !c.top.order.is_empty();
    let canon = |rows: &Vec<Vec<Option<ST>>>| -> Vec<String> { let mut v: Vec<String> = rows.iter().map(&row_txt).collect(); if !ordered { v.sort(); } v };
    let sensitive = match w.eval_sel(&c.top, &c.start(), 0) { Ok(r) => { let rr: Vec<Vec<Option<ST>>> = r.iter().map(|b| cols.iter().map(|v| cget(b, v).cloned()).collect()).collect(); canon(&rr) != canon(&want_rows) } Err(_) => true };
    if sensitive { bumps.push("c:answer-depends-on-the-active-graph-of-a-key".into()); }
    if o.sorts_in_named.get() > 0 { bumps.push("c:sorts-2+-solutions-in-a-named-graph".into()); }
    fn walk(s: &CSel, d: usize, bumps: &mut Vec<String>) {
        for e in s.order.iter().map(|x| &x.0).chain(s.selx.iter().map(|x| &x.0)) { fn kinds(e: &CE, out: &mut Vec<&'static str>) { match e { CE::Var(_) => out.push("var"), CE::Const(_) => out.push("const"), CE::Bound(_) => out.push("bound"), CE::Not(a) => { out.push("not"); kinds(a, out) } CE::Exists(neg, gs, _) => out.push(match (neg, gs) { (false, CGs::Active) => "exists-active", (true, CGs::Active) => "not-exists-active", (_, CGs::Const(_)) => "exists-graph-const", (_, CGs::Var(_)) => "exists-graph-var" }), CE::Coalesce(a, b) => { out.push("coalesce"); kinds(a, out); kinds(b, out) } CE::If(a, b, c) => { out.push("if"); kinds(a, out); kinds(b, out); kinds(c, out) } } }
            let mut k = vec![]; kinds(e, &mut k); k.sort(); k.dedup(); for x in k { bumps.push(format!("c:key:{x}")); } }
        if !s.selx.is_empty() { bumps.push("c:key-through-select-expression".into()); }
        if s.slice.is_some() && d > 0 { bumps.push("c:window-in-sub-select".into()); }
        fn sub(p: &CPat) -> Option<&CSel> { match p { CPat::Sub(s) => Some(s), CPat::Graph(_, i) => sub(i), _ => None } }
        if let Some(i) = sub(&s.pat) { walk(i, d + 1, bumps); }
    }
    walk(&c.top, 0, &mut bumps);
    // ---- what the implementation answers
    let got = match exec_store(&c.quads, c.store, c.entry, &q) { Ok(r) => r, Err(e) => return fail(e, bumps) };
    let got_rows: Vec<Vec<Option<ST>>> = got.iter().map(|r| r.iter().map(|x| x.as_ref().map(|p| p.0.clone())).collect()).collect();
    let mut failure = None;
    if got_rows.iter().any(|r| r.len() != cols.len()) { failure = Some(format!("the result has not the {} columns of the SELECT clause", cols.len())); }
    else if canon(&got_rows) != canon(&want_rows) {
        failure = Some(format!("(ix) ORDER BY in its evaluation context: the query returns {} [{}] but with every sort key evaluated where SPARQL evaluates it (the active graph of the SELECT that the ORDER BY belongs to; 18.6 for EXISTS) the {} are [{}]",
            if ordered { "the sequence" } else { "the solutions" }, got_rows.iter().map(&row_txt).collect::<Vec<_>>().join("; "), if ordered { "ordered solutions" } else { "solutions (in any order)" }, want_rows.iter().map(&row_txt).collect::<Vec<_>>().join("; ")));
    }
    // ---- the Coq image
    let body = (|| -> Result<String, String> {
        let mut qs = vec![]; for (spo, g) in &c.quads { qs.push(format!("mkQ {} {} {} {}", g.as_ref().map_or("None".to_string(), |g| format!("(Some {})", coq_term_c(g))), coq_term_c(&spo[0]), coq_term_c(&spo[1]), c_item(&spo[2])?)); }
        let mut rows = vec![]; for r in &got { let mut cells = vec![]; for x in r { cells.push(match x { Some((t, d)) => KeyObs { term: Some(t.clone()), dbg: d.clone() }.coq()?, None => "None".to_string() }); } rows.push(coq_list(cells)); }
        Ok(format!("ctx_ok_at {} {} {} {} {}", match c.start() { Some(g) => format!("[Some {}]", coq_term_c(&g)), None => "default_matcher".to_string() }, coq_list(qs), c_sel_coq(&c.top)?, coq_list(cols.iter().map(|v| cvar_id(v).to_string())), coq_list(rows)))
    })();
    let body = match body { Ok(b) => Some(b), Err(e) => return fail(e, bumps) };
    let desc = format!("returned [{}]", got_rows.iter().map(&row_txt).collect::<Vec<_>>().join("; "));
    let mut tags = vec![]; if o.max_sorted.get() >= 2 { tags.push("c:sorted-2+".to_string()); tags.push(format!("c:{}", c.shape)); }
    if verbose { println!("  query: {q}"); }
    QOut { text, desc, failure, body, tags, bumps }
}

// ================================================================ conversions integer/decimal -> f64 / f32 (kind v:*)
// The operator '<' promotes an integer or decimal operand with SparqlNumber::coerce_to_double / coerce_to_float.
// A case = up to 4 numeric literals; the engine computes  ?v * 1e0  and  ?v * "1"^^xsd:float  (the promotion followed
// by an exact product) where ?v is the literal itself or a value computed from it (quotient, product: BigInt values
// inside the isize range, decimals with a negative scale).  Coq: Engine.v (what the library routines do) and
// Rounding.v (round-to-nearest-even) on the same numbers.  Oracle (x): the promotion never crosses a float: no
// number of the target format lies between the exact value and its image (weakly on the side of the exact value),
// which is what makes ORDER BY (exact values) and '<' (promoted values) agree.
mod dstr {
    //! non-negative decimal strings "int.frac" (exact arithmetic on digits)
    pub fn split(s: &str) -> (Vec<u8>, Vec<u8>) {
        let (i, f) = s.split_once('.').unwrap_or((s, ""));
        (i.bytes().map(|b| b - b'0').collect(), f.bytes().map(|b| b - b'0').collect())
    }
    pub fn join(i: &[u8], f: &[u8]) -> String {
        let i: String = i.iter().skip_while(|d| **d == 0).map(|d| (d + b'0') as char).collect();
        let mut f: Vec<u8> = f.to_vec(); while f.last() == Some(&0) { f.pop(); }
        let f: String = f.iter().map(|d| (d + b'0') as char).collect();
        format!("{}{}{}", if i.is_empty() { "0" } else { &i }, if f.is_empty() { "" } else { "." }, f)
    }
    /// exact decimal expansion of |f| (finite)
    pub fn exact(f: f64) -> String { let (i, fr) = split(&format!("{:.1100}", f.abs())); join(&i, &fr) }
    pub fn add(a: &str, b: &str) -> String {
        let ((ai, mut af), (bi, mut bf)) = (split(a), split(b));
        let nf = af.len().max(bf.len()); af.resize(nf, 0); bf.resize(nf, 0);
        let ni = ai.len().max(bi.len()) + 1;
        let pad = |v: Vec<u8>| { let mut p = vec![0u8; ni - v.len()]; p.extend(v); p };
        let (mut x, y): (Vec<u8>, Vec<u8>) = ([pad(ai), af].concat(), [pad(bi), bf].concat());
        let mut c = 0;
        for k in (0..x.len()).rev() { let s = x[k] + y[k] + c; x[k] = s % 10; c = s / 10; }
        join(&x[..ni], &x[ni..])
    }
    pub fn half(a: &str) -> String {
        let (i, f) = split(a); let ni = i.len();
        let mut x: Vec<u8> = [i, f, vec![0]].concat();
        let mut r = 0;
        for d in x.iter_mut() { let v = r * 10 + *d; *d = v / 2; r = v % 2; }
        join(&x[..ni], &x[ni..])
    }
    /// a - 10^-(depth) where depth >= number of fraction digits of a, a > 0
    pub fn minus_unit(a: &str, depth: usize) -> String {
        let (i, mut f) = split(a); let ni = i.len(); f.resize(depth.max(f.len()), 0);
        let mut x: Vec<u8> = [i, f].concat();
        for k in (0..x.len()).rev() { if x[k] > 0 { x[k] -= 1; break; } else { x[k] = 9; } }
        join(&x[..ni], &x[ni..])
    }
    /// a + 10^-(depth)
    pub fn plus_unit(a: &str, depth: usize) -> String {
        let (_, f) = split(a); let depth = depth.max(f.len() + 1);
        add(a, &format!("0.{}1", "0".repeat(depth - 1)))
    }
    pub fn frac_len(a: &str) -> usize { a.split_once('.').map_or(0, |p| p.1.len()) }
    pub fn pow2(k: i32) -> String { if k <= 1023 { exact(2f64.powi(k)) } else { let h = pow2(k - 1); add(&h, &h) } }
}
const CONV_BASE: usize = 500_000_000;
const XFLOAT: &str = "\"1\"^^<http://www.w3.org/2001/XMLSchema#float>";
struct ConvCase { family: &'static str, form: u8, inputs: Vec<(String, &'static str)> }
fn conv_form_expr(form: u8) -> &'static str { match form { 0 => "?x", 1 => "(?x / 7)", 2 => "(?x * 1)", 3 => "(?x / 1000)", _ => "(?x * 1000000000000000000000000000000)" } }
fn conv_random_digits(r: &mut Rng, n: usize) -> String { let mut s = String::new(); for k in 0..n { let d = if k == 0 { 1 + r.below(9) } else { r.below(10) }; s.push((b'0' + d as u8) as char); } s }
fn conv_random_f64(r: &mut Rng) -> f64 {
    // a positive finite double: exponents near 0, the whole range, or the subnormals
    let e: u64 = match r.below(6) { 0 => 0, 1 => r.below(2047) as u64, 2 => 1 + r.below(3) as u64, 3 => 2044 + r.below(3) as u64, _ => 1023 - 60 + r.below(160) as u64 };
    let fr = match r.below(4) { 0 => 0, 1 => (1u64 << 52) - 1, 2 => r.next() & ((1u64 << 52) - 1) & !((1u64 << 29) - 1), _ => r.next() & ((1u64 << 52) - 1) };
    let f = f64::from_bits((e.min(2046) << 52) | fr);
    if f == 0.0 { f64::from_bits(1) } else { f }
}
fn conv_random_f32(r: &mut Rng) -> f32 {
    let e: u32 = match r.below(5) { 0 => 0, 1 => r.below(255) as u32, 2 => 252 + r.below(3) as u32, _ => 127 - 30 + r.below(70) as u32 };
    let fr = match r.below(3) { 0 => 0, 1 => (1u32 << 23) - 1, _ => (r.next() as u32) & ((1u32 << 23) - 1) };
    let f = f32::from_bits((e.min(254) << 23) | fr);
    if f == 0.0 { f32::from_bits(1) } else { f }
}
/// x, or x moved by a decimal unit far beyond its last digit (0, 3, 30 or 60 places deeper)
fn conv_perturb(r: &mut Rng, x: &str) -> String {
    let depth = dstr::frac_len(x) + [1, 3, 30, 60][r.below(4)];
    match r.below(3) { 0 => x.to_string(), 1 => dstr::plus_unit(x, depth), _ => dstr::minus_unit(x, depth) }
}
/// inputs on which the library routines used before the repairs (BigDecimal::to_f64 / to_f32, BigInt::to_f64) went wrong:
/// 10^100 + 1.5 and 10^45 + 1.5 (inexact power of ten; the first one crossed the double nearest to 10^100), 1 + 2^-53 + 10^-90
/// (digits cut off before rounding), 1.0000000596046448 (f32 through f64), 2^128 + 2^75 + 2 and 2^130 + 2^77 + 2^5 (sticky bit)
fn conv_regressions(k: usize) -> ConvCase {
    let w: Vec<(String, &'static str)> = vec![
        (format!("1{}1.5", "0".repeat(99)), "decimal"), (format!("1{}1.5", "0".repeat(44)), "decimal"),
        ("1.000000000000000111022302462515654042363166809082031250000000000000000000000000000000000001".into(), "decimal"), ("1.0000000596046448".into(), "decimal"),
        ("340282366920938501241196484123539832834".into(), "integer"), ("1361129467683754004969225881555719684128".into(), "integer"),
        ("-340282366920938501241196484123539832834".into(), "integer"), (format!("-1{}1.5", "0".repeat(99)), "decimal")];
    ConvCase { family: "regression", form: 0, inputs: w[4 * (k % 2)..4 * (k % 2) + 4].to_vec() }
}
fn conv_gen(r: &mut Rng, k: usize) -> ConvCase {
    if k < 2 { return conv_regressions(k); }
    let mut inputs: Vec<(String, &'static str)> = vec![];
    let mut form = 0u8;
    let nosign = |s: String| s; // the signs are drawn at the end
    let as_dec = |s: String| if s.contains('.') { s } else { format!("{s}.0") };
    let fam = r.below(14);
    let family = match fam {
        0 => { for _ in 0..4 { // isize: around the points where f64 / f32 start to round
                   let a = 24 + r.below(39) as i32; let b = a - [53, 24, 54, 25][r.below(4)]; let d = r.below(5) as i128 - 2;
                   let v: i128 = if r.chance(1, 5) { (r.next() as i64) as i128 } else { ((1i128 << a) + if b >= 0 { 1i128 << b } else { 0 } + d).min(i64::MAX as i128) };
                   inputs.push((nosign(v.to_string()), "integer")); } "isize" }
        1 => { for _ in 0..4 { let a = 63 + r.below(70) as i32; let b = a - [53, 24, 54, 25][r.below(4)];
                   let mut v = dstr::add(&dstr::pow2(a), &dstr::pow2(b));
                   match r.below(3) { 0 => {} 1 => v = dstr::add(&v, &r.range(1, 3).to_string()), _ => v = dstr::minus_unit(&v, 0) }
                   inputs.push((nosign(v), "integer")); } "bigint-halfway" }
        2 => { for _ in 0..4 { // three limbs or more, one more bit somewhere below the half-way bit
                   let a = 128 + r.below(300) as i32; let b = a - [53, 24][r.below(2)]; let c = r.below((b - 1) as usize) as i32;
                   let v = dstr::add(&dstr::add(&dstr::pow2(a), &dstr::pow2(b)), &dstr::pow2(c));
                   inputs.push((nosign(v), "integer")); } "bigint-sticky" }
        3 => { for _ in 0..4 { let n = [20, 25, 39, 40, 80, 200, 308, 309, 310, 330][r.below(10)]; inputs.push((nosign(conv_random_digits(r, n)), "integer")); } "bigint-random" }
        4 => { for _ in 0..4 { // the overflow thresholds MAX + ulp/2 of both formats
                   let t = if r.chance(1, 2) { dstr::add(&dstr::exact(f64::MAX), &dstr::pow2(970)) } else { dstr::add(&dstr::exact(f32::MAX as f64), &dstr::pow2(103)) };
                   let t = match r.below(4) { 0 => t, 1 => dstr::minus_unit(&t, 0), 2 => dstr::add(&t, "1"), _ => dstr::minus_unit(&t, 1) };
                   if r.chance(1, 2) && !t.contains('.') { inputs.push((nosign(t), "integer")); } else { let t = conv_perturb(r, &t); inputs.push((nosign(as_dec(t)), "decimal")); } } "overflow-threshold" }
        5 => { for _ in 0..4 { let n = r.range(1, 40); let sc = r.below(31); let d = conv_random_digits(r, n + sc);
                   inputs.push((nosign(format!("{}.{}", &d[..n], &d[n..])), "decimal")); } "decimal-random" }
        6 => { for _ in 0..4 { let d = conv_random_f64(r); let m = dstr::half(&dstr::add(&dstr::exact(d), &dstr::exact(d.next_up().min(f64::MAX))));
                   inputs.push((nosign(as_dec(conv_perturb(r, &m))), "decimal")); } "f64-halfway" }
        7 => { for _ in 0..4 { let d = conv_random_f32(r); let m = dstr::half(&dstr::add(&dstr::exact(d as f64), &dstr::exact(d.next_up().min(f32::MAX) as f64)));
                   // also: above the f32 half-way point by less than half an ulp of f64 (double rounding)
                   let m = if r.chance(1, 3) { let u = dstr::exact((m.parse::<f64>().unwrap()).next_up()); dstr::half(&dstr::add(&m, &dstr::half(&dstr::add(&m, &u)))) } else { m };
                   inputs.push((nosign(as_dec(conv_perturb(r, &m))), "decimal")); } "f32-halfway" }
        8 => { for _ in 0..4 { // gradual underflow: (k + 1/2) ulps of the least exponent, tiny numbers
                   let u = if r.chance(1, 2) { dstr::pow2(-1074) } else { dstr::exact(f32::from_bits(1) as f64) };
                   let mut m = dstr::half(&u); for _ in 0..r.below(4) { m = dstr::add(&m, &u); }
                   let m = match r.below(5) { 0 => format!("0.{}1", "0".repeat(r.range(320, 420))), 1 => dstr::half(&dstr::half(&u)), _ => conv_perturb(r, &m) };
                   inputs.push((nosign(as_dec(m)), "decimal")); } "underflow" }
        9 => { for _ in 0..4 { // long integer part, short fraction
                   let i = match r.below(4) { 0 => format!("1{}1", "0".repeat(r.range(40, 130))), 1 => { let n = r.range(40, 140); conv_random_digits(r, n) }
                                              2 => dstr::exact(conv_random_f64(r).max(1e40)), _ => { let k = r.range(40, 130); let d = conv_random_digits(r, 17); format!("{d}{}{}", "0".repeat(k), r.below(3)) } };
                   let i = i.split('.').next().unwrap().to_string();
                   inputs.push((nosign(format!("{i}.{}", ["0", "5", "00", "50", "25", "999"][r.below(6)])), "decimal")); } "long-integer-part" }
        10 => { for _ in 0..4 { // numbers of the formats written as decimals, with superfluous zeros
                   let x = if r.chance(1, 2) { dstr::exact(conv_random_f64(r)) } else { dstr::exact(conv_random_f32(r) as f64) };
                   let x = as_dec(x); inputs.push((nosign(format!("{x}{}", "0".repeat([0, 0, 1, 7, 40][r.below(5)]))), "decimal")); } "format-number" }
        11 => { for _ in 0..4 { let n = r.range(45, 130); let d = conv_random_digits(r, n); let p = r.below(n + 1);
                   let x = if p == 0 { format!("0.{}{d}", "0".repeat(r.below(25))) } else { format!("{}.{}", &d[..p], if p == n { "0" } else { &d[p..] }) };
                   inputs.push((nosign(x), "decimal")); } "decimal-many-digits" }
        12 => { form = 1 + r.below(4) as u8; // computed operands
                for _ in 0..4 { match r.below(3) {
                    0 => { let n = r.range(1, 19); inputs.push((conv_random_digits(r, n), "integer")) }
                    1 => { let n = [20, 40, 90, 130, 200][r.below(5)]; inputs.push((conv_random_digits(r, n), "integer")) }
                    _ => { let n = r.range(1, 60); let sc = r.range(1, 20); let d = conv_random_digits(r, n + sc); inputs.push((nosign(format!("{}.{}", &d[..n], &d[n..])), "decimal")) } } } "computed" }
        _ => { for l in ["0", "-0", "1", "-1", "0.0", "-0.0", "0.1", "9007199254740993", "16777217", "9223372036854775807", "-9223372036854775808", "9223372036854775808", "18446744073709551616", "0.5", "0.30000000000000004", "123456789.000"] {
                   if inputs.len() < 4 && r.chance(1, 3) { inputs.push((l.to_string(), if l.contains('.') { "decimal" } else { "integer" })); } }
               if inputs.is_empty() { inputs.push(("1".into(), "integer")); } "small" }
    };
    if fam != 13 { for inp in inputs.iter_mut() { if r.chance(1, 4) && !inp.0.starts_with('-') && inp.0.bytes().any(|b| b != b'0' && b != b'.') { inp.0 = format!("-{}", inp.0); } } }
    ConvCase { family, form, inputs }
}
struct ConvObs { lex: String, dt: &'static str, v: ST, vdbg: String, d: f64, f: f32 }
fn conv_run(c: &ConvCase) -> Result<Vec<Result<ConvObs, String>>, String> {
    let mut ds: Vec<([ST; 3], Option<ST>)> = vec![];
    for (i, (l, dt)) in c.inputs.iter().enumerate() { ds.push(([iri(&format!("x:s{i}")), iri("x:p"), x(l, dt)], None)); }
    let q = format!("SELECT ?s ?v ?d ?f {{ ?s <x:p> ?x BIND({} AS ?v) BIND(?v * 1e0 AS ?d) BIND(?v * {XFLOAT} AS ?f) }}", conv_form_expr(c.form));
    let rows = match std::panic::catch_unwind(std::panic::AssertUnwindSafe(|| exec_on(&ds, 0, &q))) { Ok(r) => r?, Err(_) => return Err(format!("PANIC while evaluating {q}")) };
    let mut out: Vec<Result<ConvObs, String>> = c.inputs.iter().map(|(l, _)| Err(format!("no solution for {l}"))).collect();
    for row in rows {
        let Some((s, _)) = &row[0] else { continue };
        let Some(i) = s.iri().and_then(|i| i.as_str().strip_prefix("x:s").and_then(|n| n.parse::<usize>().ok())) else { continue };
        let (l, dt) = &c.inputs[i];
        out[i] = (|| {
            let (v, vdbg) = row[1].clone().ok_or(format!("{} is an error on {l}", conv_form_expr(c.form)))?;
            let (d, _) = row[2].clone().ok_or(format!("?v * 1e0 is an error on {l}"))?;
            let (f, _) = row[3].clone().ok_or(format!("?v * 1 (float) is an error on {l}"))?;
            let dl = d.lexical_form().ok_or("?d not a literal")?; let fl = f.lexical_form().ok_or("?f not a literal")?;
            if d.datatype().map(|x| x.as_str().to_string()) != Some(format!("{XSD}double")) || f.datatype().map(|x| x.as_str().to_string()) != Some(format!("{XSD}float")) { return Err(format!("unexpected datatypes of the products on {l}")); }
            Ok(ConvObs { lex: l.clone(), dt, v, vdbg, d: dl.parse::<f64>().map_err(|_| format!("lexical form {dl:?} of ?d"))?, f: fl.parse::<f32>().map_err(|_| format!("lexical form {fl:?} of ?f"))? })
        })();
    }
    Ok(out)
}
/// oracle (x): Some(description) if a number of the format lies between the exact value and its image
fn conv_crossing<F: Copy + std::fmt::LowerExp>(xv: &ora::Dec, r: F, to64: impl Fn(F) -> f64, up: impl Fn(F) -> F, down: impl Fn(F) -> F, fmt: &str) -> Option<String> {
    let r64 = to64(r);
    if r64.is_nan() { return Some(format!("the {fmt} image is NaN")); }
    let xe = ora::Exact::Fin(xv.clone());
    let cmp = |f: F| ora::exact_cmp(&ora::exact_of_f64(to64(f)).unwrap(), &xe);
    match cmp(r) {
        Ordering::Equal => None,
        Ordering::Greater => { let p = down(r); if cmp(p) != Ordering::Less { Some(format!("the {fmt} image {r:e} is above the {fmt} number {p:e}, which is not below the exact value")) } else { None } }
        Ordering::Less => { let s = up(r); if cmp(s) != Ordering::Greater { Some(format!("the {fmt} image {r:e} is below the {fmt} number {s:e}, which is not above the exact value")) } else { None } }
    }
}
/// the engine's own '<' and ORDER BY on the number and the double that its image crossed
fn conv_consequence(lex: &str, dt: &str, other: f64) -> String {
    let ds: Vec<([ST; 3], Option<ST>)> = vec![([iri("x:s0"), iri("x:p"), x(lex, dt)], None), ([iri("x:s1"), iri("x:p"), x(&format!("{other:e}"), "double")], None)];
    let lt = |a: usize, b: usize| exec_on(&ds, 0, &format!("SELECT ?r {{ <x:s{a}> <x:p> ?a . <x:s{b}> <x:p> ?b BIND(?a < ?b AS ?r) }}")).ok().and_then(|r| r.first().and_then(|row| row[0].clone()).map(|t| t.0.lexical_form().map(|l| l.to_string()).unwrap_or_default())).unwrap_or("error".into());
    let order = exec_on(&ds, 0, "SELECT ?s { ?s <x:p> ?x } ORDER BY ?x").map(|r| r.iter().map(|row| row[0].as_ref().map(|t| if t.0.iri().map(|i| i.as_str() == "x:s0").unwrap_or(false) { "the number" } else { "the double" }).unwrap_or("?")).collect::<Vec<_>>().join(", then ")).unwrap_or_else(|e| e);
    format!("engine: (number < double) = {}, (double < number) = {}; ORDER BY puts {order}", lt(0, 1), lt(1, 0))
}
struct ConvOut { text: String, desc: String, failure: Option<String>, body: Option<String>, bumps: Vec<String>, nontrivial: bool }
fn run_conv_case(c: &ConvCase) -> ConvOut {
    let shorten = |l: &str| if l.len() > 70 { format!("{}..{} ({} chars)", &l[..30], &l[l.len() - 24..], l.len()) } else { l.to_string() };
    let text = format!("conversions [{}] of {} for {}", c.family, conv_form_expr(c.form), c.inputs.iter().map(|(l, dt)| format!("\"{l}\"^^xsd:{dt}")).collect::<Vec<_>>().join(", "));
    let mut o = ConvOut { text, desc: String::new(), failure: None, body: None, bumps: vec![format!("v:family:{}", c.family)], nontrivial: false };
    let obs = match conv_run(c) { Ok(o) => o, Err(e) => { o.failure = Some(e); return o } };
    let mut bodies = vec![]; let mut descs = vec![];
    for ob in obs {
        let ob = match ob { Ok(ob) => ob, Err(e) => { if c.form == 0 { o.failure.get_or_insert(e); } else { o.bumps.push("v:operand-error".into()); } continue } };
        // the operand of the promotion: the value that the engine computed (Coq), its lexical form (oracle)
        let vlex = ob.v.lexical_form().map(|l| l.to_string()).unwrap_or_default();
        let num = match coq_value_dbg(&ob.v, &ob.vdbg) { Ok(v) => match v.strip_prefix("(Some (VNum ").and_then(|r| r.strip_suffix("))")) { Some(n) => n.to_string(), None => { o.failure.get_or_insert(format!("operand {vlex} is not a number: {}", ob.vdbg)); continue } }, Err(e) => { o.failure.get_or_insert(e); continue } };
        if num.starts_with("(Float") || num.starts_with("(Double") { o.bumps.push("v:operand-float".into()); continue; }
        let Some(xv) = ora::parse_dec(&vlex, true) else { o.failure.get_or_insert(format!("lexical form {vlex:?} of the operand")); continue };
        let (r64, r32): (f64, f32) = if xv.is_zero() { (0.0, 0.0) } else { (xv.text().parse().unwrap(), xv.text().parse().unwrap()) };
        let variant = if num.starts_with("(NativeInt") { "native" } else if num.starts_with("(BigInt") { "bigint" } else { "decimal" };
        o.bumps.push(format!("v:operand:{variant}"));
        let (a64, a32) = (ob.d.to_bits() == r64.to_bits(), ob.f.to_bits() == r32.to_bits());
        o.bumps.push(format!("v:f64:{}", if a64 { "correctly-rounded" } else { "not-correctly-rounded" }));
        o.bumps.push(format!("v:f32:{}", if a32 { "correctly-rounded" } else { "not-correctly-rounded" }));
        if ob.d.is_infinite() { o.bumps.push("v:f64:overflow".into()); } else if ob.d != 0.0 && ob.d.abs() < f64::MIN_POSITIVE { o.bumps.push("v:f64:subnormal".into()); } else if ob.d == 0.0 && !xv.is_zero() { o.bumps.push("v:f64:underflow-to-zero".into()); }
        if ora::exact_cmp(&ora::exact_of_f64(ob.d).unwrap(), &ora::Exact::Fin(xv.clone())) == Ordering::Equal { o.bumps.push("v:f64:exact".into()); }
        if variant != "native" || !a64 || !a32 { o.nontrivial = true; }
        if variant == "native" && (!a64 || !a32) { o.failure.get_or_insert(format!("`isize as` float is not correctly rounded on {vlex}: {:e} / {:e}", ob.d, ob.f)); }
        let c64 = conv_crossing(&xv, ob.d, |f| f, f64::next_up, f64::next_down, "f64");
        let c32 = conv_crossing(&xv, ob.f, |f| f as f64, f32::next_up, f32::next_down, "f32");
        if let Some(why) = c64.clone().or(c32.clone()) {
            o.bumps.push("v:crossing".into());
            let cons = if c64.is_some() && c.form == 0 && !ob.d.is_nan() { let other = if ob.d > r64 { ob.d.next_down() } else { ob.d.next_up() }; format!("; consequence with \"{other:e}\"^^xsd:double: {}", conv_consequence(&ob.lex, ob.dt, other)) } else { String::new() };
            o.failure.get_or_insert(format!("conversion crosses a float: {} of \"{}\"^^xsd:{} promotes the exact value {} to f64 {:e} (correctly rounded: {:e}) and f32 {:e} (correctly rounded: {:e}): {why}{cons}", conv_form_expr(c.form), ob.lex, ob.dt, shorten(&vlex), ob.d, r64, ob.f, r32));
        }
        descs.push(format!("{} -> {:e}{} / {:e}{}", shorten(&vlex), ob.d, if a64 { "" } else { " (!)" }, ob.f, if a32 { "" } else { " (!)" }));
        bodies.push(format!("conv_case_ok {num} {} {} {} {}", coq_f64(ob.d), coq_f32(ob.f), coq_f64(r64), coq_f32(r32)));
    }
    o.desc = descs.join("; ");
    if !bodies.is_empty() { o.body = Some(bodies.join("\n  && ")); }
    o
}

/// ids of the directed stream (one case for every six random ones): k % 6 = 0, 1: criteria over unprojected variables that are sensitive to
/// boundness (q:unprojected); 2, 3: values as close as '<' can tell apart (q:near-ties); 4: context case with partial projections and boundness
/// keys; 5: one of the five random kinds of end-to-end case; all the end-to-end ones with a SELECT clause that projects some operands or *
const DIRECTED_BASE: usize = 400_000_000;
const TRIPLE_BASE: usize = 1_000_000_000;
const PAIR_BASE: usize = 3_000_000_000;
fn coq_key(k: Key) -> String { match k { Some(i) => format!("(Some p{i})"), None => "None".into() } }

fn main() {
    let a = parse_args();
    std::panic::set_hook(Box::new(|_| {}));
    let mut sum = Summary::default();
    sum.rule = "pool of RDF terms (all numeric XSD types incl. derived integers, NaN, +-INF, -0.0, 2^53+-1, 2^24+1, huge/tiny decimals and doubles, ill-typed and Rust-only lexical forms, plain/tagged strings, unknown datatypes, booleans, dateTimes with/without zone, IRIs, blank nodes, triple terms) + unbound; \
case = either an ordered pair of keys (comparator observed by sorting the two-element multiset in both arrangements with real ORDER BY queries) or a dataset of 2..8 (sometimes 24..60) solutions with 1 or 2 keys and random ASC/DESC; \
non-trivial = the keys of the case span at least two value classes (kind / numeric type / NaN / ill-typed / string / boolean / dateTime zone-ness) ; distinct = distinct (keys, directions); \
additionally every run sorts all 2-element multisets of the swept pool and checks the observed comparator on all triples (oracle iv); \
end-to-end cases (kinds q:*): 2..8 (sometimes 12..45) solutions with operands ?a ?b ?c (pool terms, integers around the ends of the isize range, cancelling sums/differences/products, an unbound last operand, named graphs), 1..4 criteria that are expressions (arithmetic of depth <= 2, string/boolean/conditional/date functions, plain variables, keys computed from an earlier BIND-ed key) given directly in ORDER BY, through BIND or through a SELECT expression, ASC/DESC mixes, over a Vec of quads / LightDataset / FastDataset, through SparqlQuery::parse / prepare_query / query(&str), optionally with FILTER, LIMIT/OFFSET, DISTINCT; the keys are observed through BIND; \
oracle on them: permutation, kind ranks, '<' from the lexical forms, (v) exactly equal values written differently are tied and the next key decides, (vi) the engine's own '<' (BIND and FILTER over all ordered pairs) never contradicts the output, (vii) a window is the window of the complete result, (viii) DISTINCT keeps the order; \
context cases (kinds c:*): 3..7 subjects described differently by a default graph and 1..3 named graphs (values, flags, links to graph names, unbound values), a chain of 1..3 SELECTs nested directly or through GRAPH <g> / GRAPH ?g (shape string: B base pattern, g/v a GRAPH around it, G/V a GRAPH around a sub-select, So ordered, Sw ordered with LIMIT/OFFSET, Su unordered), 1..3 keys per ORDER BY among EXISTS / NOT EXISTS over a triple pattern of the active graph, of GRAPH <g>, of GRAPH ?x (bound or not), BOUND, '!', IF, COALESCE, variables (graph variables included) and constants, directly or through a SELECT expression; every ORDER BY is made free of ties (final keys ?s and the graph variables if needed); \
oracle on them: (ix) the result equals the SPARQL 1.1 section 18 evaluation in which each key is evaluated in the active graph of its SELECT (sequence if the outermost SELECT is ordered, multiset otherwise); non-trivial = some ORDER BY of the case sorts at least two solutions; \
conversion cases (kinds v:*, one for every five other cases; the first two are the inputs on which the library routines used before the repairs went wrong): up to 4 xsd:integer / xsd:decimal literals (isize and beyond, 3+ limbs, up to 330 digits, decimals with up to 1100 fraction digits: exactly half-way between two neighbouring doubles / floats and one decimal unit 1..60 places deeper above or below, half-way points of f32 approached within half an ulp of f64, the overflow thresholds MAX + ulp/2, (k + 1/2) ulps of the least exponent, long integer parts with a short fraction, numbers of the formats written as decimals) or values computed from them (quotients, products), promoted by the engine through ?v * 1e0 and ?v * 1 (as an xsd:float); \
oracle on them: (x) the promotion never crosses a float (no f64 / f32 number lies between the exact value and its image, weakly on the side of the exact value) and `isize as` float is correctly rounded; non-trivial = an operand beyond isize or an image that is not the correctly rounded one; \
directed stream (one case for every six random ones, ids from 400000000, same oracles and Coq checkers): q:unprojected = criteria that depend on whether the last operand (unbound in about half of the solutions, not or only sometimes projected) is bound: BOUND, !, IF, COALESCE, EXISTS, IN, STR, isLiteral, sameTerm over it, mixed with other keys; q:near-ties = 3..9 values that '<' orders but that are as close as their value space allows (dateTimes 1 ns .. 1 s apart in years 1 .. 9999 written in several time zones with up to 9 fraction digits, neighbouring doubles / floats, decimals differing after 17..30 fraction digits, consecutive integers across the ends of the isize range, strings with a common prefix incl. U+FFFD / U+10000), shuffled, with a second key in the opposite order; context cases with SELECT clauses that keep part of the variables at every level and a first key that depends on the boundness of a variable (shape suffix +part-proj); every end-to-end case of the stream projects ?s, some operands or * and the projected operands of each ordered solution must be those of that solution".into();
    let mut terms = pool_terms();
    let nsweep = terms.len();
    terms.extend(extra_terms());
    let pool = Pool { ov: terms.iter().map(oracle_value).collect(), names: terms.iter().map(show).collect(), terms, nsweep };
    let np_all = pool.terms.len();
    let np = nsweep; // the exhaustive sweep (oracle iv) and its replay stay on the first `nsweep` terms
    // header: the pool as Coq items (term + the value the implementation parsed)
    let mut header = String::from("From Sophia.C14 Require Import Model Context Rounding Engine.\n");
    header.push_str(&xd_header());
    let mut class_tag: Vec<String> = vec![];
    for (i, t) in pool.terms.iter().enumerate() {
        let v = match coq_value(t) { Ok(v) => v, Err(e) => { eprintln!("c14: {e} for {}", pool.names[i]); std::process::exit(2) } };
        let dbg = { let at: ArcTerm = t.into_term(); format!("{:?}", ResultTerm::from(at).value()) };
        let tag = match t.kind() {
            TermKind::Literal => {
                let d = dbg.as_str();
                if d == "None" { "lit:no-value".to_string() } else if d.contains("NaN") { "num:nan".into() } else if d.contains("Float(") { "num:float".into() } else if d.contains("Double(") { "num:double".into() }
                else if d.contains("Decimal(") { "num:decimal".into() } else if d.contains("Int(") { "num:integer".into() } else if d.contains("String(") { if t.language_tag().is_some() { "str:lang".into() } else { "str:simple".into() } }
                else if d.contains("Boolean(Some") { "bool".into() } else if d.contains("Naive(") { "date:naive".into() } else if d.contains("Timezoned(") { "date:zoned".into() } else { "lit:ill-formed".into() }
            }
            k => format!("{k:?}"),
        };
        class_tag.push(tag);
        header.push_str(&format!("Definition p{i} : item := mkItem {} {}.\n", coq_term_c(t), v));
    }
    let tag_of = |k: Key| match k { Some(i) => class_tag[i].clone(), None => "unbound".into() };

    // ---------- oracle (iv): exhaustive sweep of the pool (seed independent)
    if a.only.is_none() {
        let n = np + 1; // index np stands for unbound
        let keyof = |i: usize| if i == np { None } else { Some(i) };
        let mut m = vec![vec![1u8; n]; n];
        let mut shown = 0;
        let mut bad_pairs = 0u64;
        for i in 0..n { for j in i + 1..n {
            match observe_pair(&pool, keyof(i), keyof(j)) {
                Ok((c, how)) => {
                    m[i][j] = c; m[j][i] = match c { 0 => 2, 2 => 0, c => c };
                    if c == 3 { bad_pairs += 1; if shown < 5 { shown += 1; sum.oracle_failures.push(((PAIR_BASE + i * 1000 + j).to_string(), format!("(iv) antisymmetry: sorting {{{}, {}}} reverses the pair whatever the input order ({how})", key_name(&pool, keyof(i)), key_name(&pool, keyof(j))))); } }
                }
                Err(e) => { sum.oracle_failures.push(((PAIR_BASE + i * 1000 + j).to_string(), e)); }
            }
        } }
        let le = |c: u8| c == 0 || c == 1;
        let (mut bad_triples, mut shown) = (0u64, 0);
        for i in 0..n { for j in 0..n { if j == i || !le(m[i][j]) { continue; } for k in 0..n {
            if k == i || k == j || !le(m[j][k]) { continue; }
            if !le(m[i][k]) {
                bad_triples += 1;
                // show witnesses from different class combinations first
                if shown < 12 && (shown < 4 || bad_triples % 997 == 0) { shown += 1;
                    let rel = |c: u8| if c == 0 { "<" } else { "~" };
                    sum.oracle_failures.push(((TRIPLE_BASE + (i * 1000 + j) * 1000 + k).to_string(), format!("(iv) transitivity: ORDER BY puts {a} {r1} {b} and {b} {r2} {c} but {c} < {a}  ('<' strictly before, '~' no preference; each pair observed by sorting the 2-element dataset in both input orders)",
                        a = key_name(&pool, keyof(i)), b = key_name(&pool, keyof(j)), c = key_name(&pool, keyof(k)), r1 = rel(m[i][j]), r2 = rel(m[j][k]))));
                }
            }
        } } }
        sum.extra.push(("sweep_pairs".into(), (n * (n - 1) / 2).to_string()));
        sum.extra.push(("sweep_inconsistent_pairs".into(), bad_pairs.to_string()));
        sum.extra.push(("sweep_intransitive_triples".into(), bad_triples.to_string()));
        sum.bump_by("sweep:pairs", (n * (n - 1) / 2) as u64);
        sum.bump_by("sweep:intransitive-triples", bad_triples);
        println!("c14: pool of {np} terms; sweep: {} pairs, {bad_pairs} inconsistent, {bad_triples} intransitive triples", n * (n - 1) / 2);
    }

    // ---------- replay of a sweep finding (ids above TRIPLE_BASE / PAIR_BASE)
    if let Some(id) = a.only.filter(|id| *id >= TRIPLE_BASE) {
        let keyof = |i: usize| if i == np { None } else { Some(i) };
        let ids: Vec<usize> = if id >= PAIR_BASE { let r = id - PAIR_BASE; vec![r / 1000, r % 1000] } else { let r = id - TRIPLE_BASE; vec![r / 1_000_000, r / 1000 % 1000, r % 1000] };
        if ids.iter().any(|i| *i > np) { eprintln!("c14: no such sweep case"); std::process::exit(2) }
        let mut obs = vec![];
        for (x, y) in if ids.len() == 2 { vec![(0, 1)] } else { vec![(0, 1), (1, 2), (0, 2)] } {
            let r = observe_pair(&pool, keyof(ids[x]), keyof(ids[y]));
            println!("CASE {id}: sorting {{{}, {}}} in both input orders => {}", key_name(&pool, keyof(ids[x])), key_name(&pool, keyof(ids[y])),
                match &r { Ok((c, how)) => format!("{} ({how})", ["first before second", "no preference", "second before first", "INCONSISTENT"][*c as usize]), Err(e) => e.clone() });
            obs.push(r.map(|r| r.0).unwrap_or(3));
        }
        let le = |c: u8| c == 0 || c == 1;
        let bad = obs.contains(&3) || (obs.len() == 3 && le(obs[0]) && le(obs[1]) && !le(obs[2]));
        println!("  oracle (iv): {}", if bad { "VIOLATED (the observed comparator is not a total preorder on these keys)" } else { "ok" });
        println!("c14: 1 cases, 1 distinct non-trivial, {} oracle failures", bad as u8);
        return;
    }

    // ---------- random cases
    let base = Rng::new(a.seed);
    let mut cases = vec![]; let mut seen = std::collections::HashSet::new();
    let range: Vec<usize> = match a.only { Some(i) if i < CONV_BASE => vec![i], Some(_) => vec![], None => (0..a.n).chain(DIRECTED_BASE..DIRECTED_BASE + a.n / 6).collect() };
    // indices by class, to draw related terms together
    let mut classes: Vec<(String, Vec<usize>)> = vec![];
    for (i, t) in class_tag.iter().enumerate() { let fam = t.split(':').next().unwrap().to_string(); match classes.iter_mut().find(|c| c.0 == fam) { Some(c) => c.1.push(i), None => classes.push((fam, vec![i])) } }
    // families of pool terms whose values are exactly equal although the terms differ (oracle (v))
    let mut fams: Vec<Vec<usize>> = vec![];
    { let mut done = vec![false; np_all];
      for i in 0..np_all { if done[i] || pool.terms[i].kind() != TermKind::Literal { continue; }
        let mut f = vec![i];
        for j in i + 1..np_all { if !done[j] && pool.terms[j].kind() == TermKind::Literal && !same_term(&pool.terms[i], &pool.terms[j]) && exact_tie(&pool.terms[i], &pool.terms[j]) { f.push(j); done[j] = true; } }
        if f.len() >= 2 { fams.push(f); } } }
    sum.extra.push(("tie_families".into(), fams.len().to_string()));
    let mut q_samples = 0; let mut c_samples = 0;
    for idx in range {
        let mut r = base.fork(idx as u64);
        let draw = |r: &mut Rng, focus: &Option<Vec<usize>>| -> Key {
            if r.chance(1, 14) { return None; }
            match focus { Some(f) if r.chance(3, 4) => Some(*r.pick(f)), _ => Some(r.below(np_all)) }
        };
        // half of the cases concentrate on one or two families (numbers, dates, ...) so that
        // value comparisons and fallbacks meet; the others draw from the whole pool
        let focus: Option<Vec<usize>> = if r.chance(1, 2) { let mut f = r.pick(&classes).1.clone(); if r.chance(1, 2) { f.extend(r.pick(&classes).1.iter().copied()); } Some(f) } else { None };
        // kinds 0..19: keys that are pool terms (pairs, rows); kinds 20..: end-to-end queries with computed keys
        let kind = r.below(48);
        let directed: Option<usize> = if idx >= DIRECTED_BASE { Some(idx - DIRECTED_BASE) } else { None };
        let kind = match directed { Some(k) => if k % 6 == 4 { 40 } else { 20 }, None => kind };
        let (text, body, desc_txt, failure, keys_flat): (String, Option<String>, String, Option<String>, Vec<Key>);
        if kind >= 40 {
            // ORDER BY in its evaluation context
            let c = if directed.is_some() { c_gen_case_x(&mut r, true) } else { c_gen_case(&mut r) };
            if a.only.is_some() { println!("CASE {idx}: {}", c_describe(&c)); }
            let o = run_ccase(&c, a.only.is_some());
            for b in &o.bumps { sum.bump(b); }
            if let Some(f) = &o.failure { sum.oracle_failures.push((idx.to_string(), format!("query {} : {f}  [case: {}]", c.query().replace(XSD, "xsd:"), o.text))); }
            if a.only.is_some() { println!("  => {}\n  oracle: {}\n  coq: {}", o.desc, o.failure.clone().unwrap_or("ok".into()), o.body.clone().unwrap_or("-".into())); }
            let nontrivial = !o.tags.is_empty();
            if seen.insert(o.text.clone()) && nontrivial { sum.distinct_nontrivial += 1; }
            if c_samples < 3 && nontrivial && o.failure.is_none() && o.text.len() + o.desc.len() < 1800 && o.bumps.iter().any(|b| b.starts_with("c:answer-depends")) { c_samples += 1; sum.samples.push(format!("case {idx}: {} => {}", o.text, o.desc)); }
            sum.evaluations += 1;
            if let Some(b) = o.body { cases.push((idx, b)); }
            continue;
        }
        if kind >= 20 {
            let sub = match directed { Some(k) => match k % 6 { 0 | 1 => 5, 2 | 3 => 6, _ => (k / 6) % 5 }, None => match kind { 20..=24 => 0, 25..=28 => 1, 29..=31 => 2, 32..=35 => 3, _ => 4 } };
            let g = Gen { pool: &pool, fams: &fams, classes: &classes, np: np_all };
            let mut c = g.case(&mut r, sub);
            if directed.is_some() { g.projection(&mut r, &mut c); }
            if a.only.is_some() { println!("CASE {idx}: {}", c.describe()); }
            let o = run_qcase(&c, a.only.is_some());
            for b in &o.bumps { sum.bump(b); }
            if let Some(f) = &o.failure { sum.oracle_failures.push((idx.to_string(), format!("query {} : {f}  [case: {}]", c.sorted_query(true, c.distinct).replace(XSD, "xsd:"), o.text))); }
            if a.only.is_some() { println!("  => {}\n  oracle: {}\n  coq: {}", o.desc, o.failure.clone().unwrap_or("ok".into()), o.body.clone().unwrap_or("-".into())); }
            let nontrivial = o.tags.len() >= 2 || (c.keys.len() >= 2 && c.n() >= 2);
            if seen.insert(o.text.clone()) && nontrivial { sum.distinct_nontrivial += 1; }
            for t in &o.tags { sum.bump(&format!("has:{t}")); }
            if q_samples < 4 && nontrivial && o.failure.is_none() && o.text.len() + o.desc.len() < 1500 && sum.samples.len() < 10 { q_samples += 1; sum.samples.push(format!("case {idx}: {} => {}", o.text, o.desc)); }
            sum.evaluations += 1;
            if let Some(b) = o.body { cases.push((idx, b)); }
            continue;
        }
        if kind < 7 {
            let (k1, k2) = (draw(&mut r, &focus), draw(&mut r, &focus));
            text = format!("pair {} | {}", key_name(&pool, k1), key_name(&pool, k2));
            keys_flat = vec![k1, k2];
            match observe_pair(&pool, k1, k2) {
                Ok((code, how)) => {
                    desc_txt = format!("observed {} ({how})", ["Less", "Equal", "Greater", "INCONSISTENT"][code as usize]);
                    // oracle (ii)/(iii) on the pair through a plain ascending sort
                    let rows = vec![vec![k1], vec![k2]];
                    failure = if code == 3 { Some(format!("(iv) antisymmetry: sorting {{{}, {}}} reverses the pair whatever the input order", key_name(&pool, k1), key_name(&pool, k2))) }
                        else { match (run(&pool, &rows, None, false), run(&pool, &rows, Some(&[false]), false)) { (Ok(u), Ok(s)) => check_output(&pool, &rows, &[false], &u, &s), (Err(e), _) | (_, Err(e)) => Some(e) } };
                    body = Some(format!("pair_ok {} {} {code}", coq_key(k1), coq_key(k2)));
                    sum.bump(&format!("pair:{}", ["less", "equal", "greater", "inconsistent"][code as usize]));
                }
                Err(e) => { desc_txt = e.clone(); failure = Some(e); body = None; }
            }
        } else {
            let expr = kind == 17 || kind == 18;
            let n = if kind == 19 { r.range(24, 60) } else { r.range(2, 8) };
            let nk = if kind == 19 || expr { 1 } else { r.range(1, 2) };
            let descs: Vec<bool> = (0..nk).map(|_| r.chance(1, 3)).collect();
            // with two keys, the first one is drawn from few values so that ties happen
            // (one time in three: different spellings of ONE value, so that the second key has to break the tie)
            let few: Vec<Key> = if nk == 2 && r.chance(1, 3) { let f = r.pick(&fams); (0..3).map(|_| Some(*r.pick(f))).collect() } else { (0..3).map(|_| draw(&mut r, &focus)).collect() };
            let rows: Vec<Vec<Key>> = (0..n).map(|_| (0..nk).map(|k| if nk == 2 && k == 0 { *r.pick(&few) } else { draw(&mut r, &focus) }).collect()).collect();
            let flip = r.chance(1, 2);
            text = format!("rows [{}] order {}{}{}", rows.iter().map(|row| row.iter().map(|k| key_name(&pool, *k)).collect::<Vec<_>>().join(" & ")).collect::<Vec<_>>().join("; "),
                descs.iter().map(|d| if *d { "DESC" } else { "ASC" }).collect::<Vec<_>>().join(","), if flip { " (unbound first in input)" } else { "" }, if expr { " by the expression (?x0 * 1)" } else { "" });
            keys_flat = rows.iter().flatten().copied().collect();
            match (run(&pool, &rows, None, flip), run_x(&pool, &rows, Some(&descs), flip, expr)) {
                (Ok(u), Ok(s)) => {
                    failure = check_output_x(&pool, &rows, &descs, &u, &s, expr);
                    desc_txt = format!("output order (row numbers) {:?}", s.iter().map(|x| x.0).collect::<Vec<_>>());
                    body = Some(format!("{} {} {} {}", if expr { "expr_rows_ok" } else { "rows_ok" }, coq_list(descs.iter().map(|d| coq_bool(*d).to_string())),
                        coq_list(rows.iter().map(|row| coq_list(row.iter().map(|k| coq_key(*k))))), coq_list(s.iter().map(|x| x.0.to_string()))));
                    sum.bump(&format!("rows:{}key{}{}", nk, if n > 8 { ":large" } else { "" }, if expr { ":expression" } else { "" }));
                }
                (Err(e), _) | (_, Err(e)) => { desc_txt = e.clone(); failure = Some(if e.starts_with("PANIC") { format!("sorting panicked: {e}") } else { e }); body = None; }
            }
        }
        if let Some(f) = &failure { sum.oracle_failures.push((idx.to_string(), format!("{f}  [case: {text}]"))); }
        if a.only.is_some() { println!("CASE {idx}: {text}\n  => {desc_txt}\n  oracle: {}\n  coq: {}", failure.clone().unwrap_or("ok".into()), body.clone().unwrap_or("-".into())); }
        let mut tags: Vec<String> = keys_flat.iter().map(|k| tag_of(*k)).collect(); tags.sort(); tags.dedup();
        let nontrivial = tags.len() >= 2;
        if seen.insert(text.clone()) && nontrivial { sum.distinct_nontrivial += 1; }
        for t in &tags { sum.bump(&format!("has:{t}")); }
        if sum.samples.len() < 6 && nontrivial && text.len() < 400 { sum.samples.push(format!("case {idx}: {text} => {desc_txt}")); }
        sum.evaluations += 1;
        if let Some(b) = body { cases.push((idx, b)); }
    }
    // ---------- conversions integer/decimal -> f64 / f32 (ids from CONV_BASE)
    let conv_range: Vec<usize> = match a.only { Some(i) if i >= CONV_BASE && i < TRIPLE_BASE => vec![i - CONV_BASE], Some(_) => vec![], None => (0..a.n / 5).collect() };
    let mut v_samples = 0;
    for k in conv_range {
        let idx = CONV_BASE + k;
        let mut r = base.fork(idx as u64);
        let c = conv_gen(&mut r, k);
        let o = run_conv_case(&c);
        for b in &o.bumps { sum.bump(b); }
        if let Some(f) = &o.failure { sum.oracle_failures.push((idx.to_string(), if f.starts_with("conversion crosses a float") { f.clone() } else { format!("{f}  [case: {}]", o.text) })); }
        if a.only.is_some() { println!("CASE {idx}: {}\n  => {}\n  oracle: {}\n  coq: {}", o.text, o.desc, o.failure.clone().unwrap_or("ok".into()), o.body.clone().unwrap_or("-".into())); }
        if seen.insert(o.text.clone()) && o.nontrivial { sum.distinct_nontrivial += 1; }
        if v_samples < 3 && o.nontrivial && o.failure.is_none() && o.text.len() + o.desc.len() < 900 { v_samples += 1; sum.samples.push(format!("case {idx}: {} => {}", o.text, o.desc)); }
        sum.evaluations += 1;
        if let Some(b) = o.body { cases.push((idx, b)); }
    }
    if a.only.is_none() {
        sum.shards = write_shards(&a.out, &header, &cases, a.shards);
        sum.extra.push(("coq_cases".into(), cases.len().to_string()));
        sum.extra.push(("pool_size".into(), np_all.to_string()));
        sum.extra.push(("swept_pool_size".into(), np.to_string()));
        std::fs::write(format!("{}/summary.json", a.out), sum.to_json()).unwrap();
    }
    println!("c14: {} cases, {} distinct non-trivial, {} oracle failures", sum.evaluations, sum.distinct_nontrivial, sum.oracle_failures.len());
}
