#!/bin/bash
# Stages a version of coq/_CoqProject that lists only .v files that are tracked or staged (other people's
# work-in-progress files listed in the working copy would break a build of the committed tree); the working
# copy itself is left as it is.
cd /verif/coq || exit 2
cp _CoqProject /tmp/_CoqProject.full
python3 - <<'E'
import subprocess
keep=[]
tracked=set(subprocess.run(["git","ls-files","--cached","."],capture_output=True,text=True).stdout.split())
for l in open("_CoqProject"):
    s=l.strip()
    if s.endswith(".v") and not s.startswith("-") and s not in tracked and not s.startswith("gen/"):
        continue
    keep.append(l)
open("_CoqProject","w").write("".join(keep))
E
git add _CoqProject
cp /tmp/_CoqProject.full _CoqProject
git diff --cached --stat _CoqProject | tail -1
