(* C13/ExprProofs.v -- the implementation model of the expression layer (ExprImpl.v, with the
   proposed repairs) computes what SPARQL 1.1 section 17 (ExprModel.v) prescribes. *)
From Coq Require Import String Ascii.
From Sophia.C13 Require Import ExprImpl.

(* ------------------------------------------------------------------------------------ *)
(* 1. lexical forms: the Rust parsers agree with the XSD mappings on the XSD lexical spaces *)
(* ------------------------------------------------------------------------------------ *)
Lemma eqs_true a b : eqs a b = true -> a = L b.
Proof. unfold eqs. apply str_eqb_eq. Qed.

Lemma all_digits_no_us s : all_digits s = true -> biguint_digits 0 s = digits_val 0 s.
Proof.
  generalize 0%Z as acc. induction s as [|ch r IH]; intros acc H; simpl in *; [reflexivity|].
  apply andb_true_iff in H as [H1 H2]. rewrite H1.
  assert (is_us ch = false) as ->.
  { unfold is_us, is_digit in *. apply andb_true_iff in H1 as [A B]. apply N.leb_le in A, B.
    apply N.eqb_neq. lia. }
  apply IH, H2.
Qed.
Lemma digits_val_all_digits s : forall acc z, digits_val acc s = Some z -> all_digits s = true.
Proof.
  induction s as [|ch r IH]; intros acc z H; simpl in *; [reflexivity|].
  destruct (is_digit ch); [|discriminate]. simpl. eapply IH, H.
Qed.
Lemma all_digits_val s : all_digits s = true -> forall acc, exists z, digits_val acc s = Some z.
Proof.
  induction s as [|ch r IH]; intros H acc; simpl in *; [eauto|].
  apply andb_true_iff in H as [H1 H2]. rewrite H1. apply IH, H2.
Qed.
Lemma digit_not_sign ch : is_digit ch = true -> is_minus ch = false /\ is_plus ch = false /\ is_us ch = false.
Proof.
  unfold is_digit, is_minus, is_plus, is_us. intros H. apply andb_true_iff in H as [A B].
  apply N.leb_le in A, B. repeat split; apply N.eqb_neq; lia.
Qed.

(* the shape of a string in the lexical space of xsd:integer *)
Lemma int_syntax_spec s : int_syntax s = true <-> exists z, xsd_integer s = Some z.
Proof.
  unfold int_syntax, xsd_integer. destruct (strip_sign s) as [neg r]. split.
  - intros H. apply andb_true_iff in H as [H1 H2]. destruct r; [discriminate|].
    destruct (all_digits_val _ H2 0%Z) as [z Hz]. rewrite Hz. simpl. eauto.
  - intros [z H]. destruct r; [discriminate|]. cbn [is_nil negb andb].
    destruct (digits_val 0 (n :: r)) eqn:E; [|discriminate]. eapply digits_val_all_digits, E.
Qed.

(* iN::from_str on the lexical space and outside *)
Lemma rust_prim_signed lo hi s :
  rust_prim true lo hi s =
  match xsd_integer s with
  | Some z => if ((lo <=? z) && (z <=? hi))%Z then Some z else None
  | None => None
  end.
Proof.
  unfold rust_prim, xsd_integer, strip_sign. destruct s as [|ch r]; [reflexivity|].
  destruct (is_plus ch) eqn:Ep.
  - assert (is_minus ch = false) as ->.
    { unfold is_plus, is_minus in *. apply N.eqb_eq in Ep. subst. reflexivity. }
    destruct r; [reflexivity|]. destruct (digits_val 0 (n :: r)); reflexivity.
  - destruct (is_minus ch); cbn [andb].
    + destruct r; [reflexivity|]. destruct (digits_val 0 (n :: r)); reflexivity.
    + destruct (digits_val 0 (ch :: r)); reflexivity.
Qed.

(* BigInt::from_str on the lexical space *)
Lemma rust_bigint_valid s z : xsd_integer s = Some z -> rust_bigint s = Some z.
Proof.
  unfold xsd_integer, strip_sign, rust_bigint. destruct s as [|ch r]; [discriminate|].
  destruct (is_minus ch) eqn:Em.
  - destruct r as [|c' r']; [discriminate|]. intros H.
    destruct (digits_val 0 (c' :: r')) as [m|] eqn:E; [|discriminate]. injection H as <-.
    pose proof (digits_val_all_digits _ _ _ E) as A.
    assert (D : is_digit c' = true) by (simpl in A; apply andb_true_iff in A; tauto).
    destruct (digit_not_sign _ D) as (_ & P & U). rewrite P.
    unfold rust_biguint. rewrite P, U. rewrite all_digits_no_us by exact A. rewrite E. reflexivity.
  - destruct (is_plus ch) eqn:Ep.
    + destruct r as [|c' r']; [discriminate|]. intros H.
      destruct (digits_val 0 (c' :: r')) as [m|] eqn:E; [|discriminate]. injection H as <-.
      pose proof (digits_val_all_digits _ _ _ E) as A.
      assert (D : is_digit c' = true) by (simpl in A; apply andb_true_iff in A; tauto).
      destruct (digit_not_sign _ D) as (_ & P & U).
      unfold rust_biguint. rewrite Ep, P, U. rewrite all_digits_no_us by exact A. rewrite E. reflexivity.
    + intros H. destruct (digits_val 0 (ch :: r)) as [m|] eqn:E; [|discriminate]. injection H as <-.
      pose proof (digits_val_all_digits _ _ _ E) as A.
      assert (D : is_digit ch = true) by (simpl in A; apply andb_true_iff in A; tauto).
      destruct (digit_not_sign _ D) as (_ & _ & U).
      unfold rust_biguint. rewrite Ep, U. rewrite all_digits_no_us by exact A. rewrite E. reflexivity.
Qed.

(* ---- split_first ---- *)
Lemma split_first_none p s a : split_first p s = (a, None) -> s = a /\ forallb (fun ch => negb (p ch)) s = true.
Proof.
  revert a. induction s as [|ch r IH]; intros a H; simpl in *.
  - injection H as <-. auto.
  - destruct (p ch) eqn:E; [discriminate|]. destruct (split_first p r) as [x y].
    injection H as <- ->. destruct (IH x eq_refl) as [-> F]. simpl. auto.
Qed.
Lemma split_first_some p s a b : split_first p s = (a, Some b) ->
  exists ch, p ch = true /\ s = a ++ ch :: b /\ forallb (fun ch => negb (p ch)) a = true.
Proof.
  revert a. induction s as [|ch r IH]; intros a H; simpl in *; [discriminate|].
  destruct (p ch) eqn:E.
  - injection H as <- <-. exists ch. auto.
  - destruct (split_first p r) as [x y]. injection H as <- ->.
    destruct (IH x eq_refl) as (c' & P & -> & F). exists c'. simpl. rewrite E. auto.
Qed.
Lemma split_first_app p a rest : forallb (fun ch => negb (p ch)) a = true ->
  split_first p (a ++ rest) = let '(x, y) := split_first p rest in (a ++ x, y).
Proof.
  induction a as [|ch r IH]; intros H; simpl in *.
  - destruct (split_first p rest); reflexivity.
  - apply andb_true_iff in H as [H1 H2]. apply negb_true_iff in H1. rewrite H1.
    rewrite IH by exact H2. destruct (split_first p rest); reflexivity.
Qed.
Lemma forallb_impl {A} (p q : A -> bool) l : (forall x, p x = true -> q x = true) ->
  forallb p l = true -> forallb q l = true.
Proof. intros I. induction l; simpl; auto. intros H. apply andb_true_iff in H as [H1 H2]. rewrite I; auto. Qed.
Lemma digit_not_e_dot ch : is_digit ch = true -> is_e ch = false /\ is_dot ch = false.
Proof.
  unfold is_digit, is_e, is_dot. intros H. apply andb_true_iff in H as [A B]. apply N.leb_le in A, B.
  split; [apply orb_false_iff; split|]; apply N.eqb_neq; lia.
Qed.
Lemma filter_all {A} (p : A -> bool) l : forallb p l = true -> filter p l = l.
Proof. induction l; simpl; auto. intros H. apply andb_true_iff in H as [-> H2]. f_equal; auto. Qed.

(* xsd:integer on sign ++ digits *)
Lemma xsd_integer_signed neg (sg : str) ds m :
  (sg = [] /\ neg = false \/ sg = [45%N] /\ neg = true \/ sg = [43%N] /\ neg = false) ->
  ds <> [] -> digits_val 0 ds = Some m -> xsd_integer (sg ++ ds) = Some (sgn neg m).
Proof.
  intros S NE E. unfold xsd_integer, strip_sign.
  destruct S as [[-> ->]|[[-> ->]|[-> ->]]]; simpl.
  - destruct ds as [|d0 ds']; [congruence|].
    pose proof (digits_val_all_digits _ _ _ E) as A.
    assert (D : is_digit d0 = true) by (simpl in A; apply andb_true_iff in A; tauto).
    destruct (digit_not_sign _ D) as (M & P & _). rewrite M, P. rewrite E. reflexivity.
  - destruct ds; [congruence|]. rewrite E. reflexivity.
  - destruct ds; [congruence|]. rewrite E. reflexivity.
Qed.
Lemma strip_sign_shape s neg r : strip_sign s = (neg, r) ->
  exists sg, s = sg ++ r /\
    (sg = [] /\ neg = false \/ sg = [45%N] /\ neg = true \/ sg = [43%N] /\ neg = false) /\
    forallb (fun ch => negb (is_e ch) && negb (is_dot ch)) sg = true.
Proof.
  unfold strip_sign. destruct s as [|ch t].
  - intros H; injection H as <- <-. exists []. auto.
  - destruct (is_minus ch) eqn:M.
    + intros H; injection H as <- <-. apply N.eqb_eq in M. subst. exists [45%N]. auto 6.
    + destruct (is_plus ch) eqn:Pl.
      * intros H; injection H as <- <-. apply N.eqb_eq in Pl. subst. exists [43%N]. auto 6.
      * intros H; injection H as <- <-. exists []. auto.
Qed.

(* BigDecimal::from_str on the lexical space of xsd:decimal *)
Lemma rust_bigdecimal_valid s : dec_syntax s = true ->
  option_map dec_of_big (rust_bigdecimal s) = xsd_decimal s.
Proof.
  unfold dec_syntax, xsd_decimal. destruct (strip_sign s) as [neg r] eqn:SS.
  destruct (split_first is_dot r) as [i fo] eqn:SD.
  set (f := match fo with Some f => f | None => [] end).
  intros H. rewrite H.
  apply andb_true_iff in H as [H NE]. apply andb_true_iff in H as [Ai Af].
  destruct (strip_sign_shape _ _ _ SS) as (sg & -> & Sg & Fsg).
  assert (Aif : all_digits (i ++ f) = true).
  { unfold all_digits in *. rewrite forallb_app, Ai, Af. reflexivity. }
  destruct (all_digits_val _ Aif 0%Z) as [m Em].
  rewrite Em. cbn [option_map].
  assert (NEif : i ++ f <> []).
  { destruct i; [|discriminate]. destruct f; [discriminate|discriminate]. }
  assert (Ne : forall l, all_digits l = true -> forallb (fun ch => negb (is_e ch)) l = true).
  { intros l. apply forallb_impl. intros x D. destruct (digit_not_e_dot _ D) as [-> _]. reflexivity. }
  assert (Fsg_e : forallb (fun ch => negb (is_e ch)) sg = true).
  { revert Fsg. apply forallb_impl. intros x Hx. apply andb_true_iff in Hx. tauto. }
  assert (Fsg_d : forallb (fun ch => negb (is_dot ch)) sg = true).
  { revert Fsg. apply forallb_impl. intros x Hx. apply andb_true_iff in Hx. tauto. }
  assert (R : r = i ++ match fo with Some f => 46%N :: f | None => [] end).
  { destruct fo as [f'|].
    - destruct (split_first_some _ _ _ _ SD) as (ch & P & -> & _). apply N.eqb_eq in P. subst. reflexivity.
    - destruct (split_first_none _ _ _ SD) as [-> _]. rewrite app_nil_r. reflexivity. }
  assert (SE : split_first is_e (sg ++ r) = (sg ++ r, None)).
  { rewrite <- (app_nil_r (sg ++ r)) at 1. rewrite split_first_app; [simpl; rewrite app_nil_r; reflexivity|].
    rewrite forallb_app, Fsg_e. simpl. rewrite R, forallb_app, (Ne _ Ai). simpl.
    destruct fo as [f'|]; [|reflexivity]. simpl. apply (Ne f'). exact Af. }
  assert (SD' : split_first is_dot (sg ++ r) = (sg ++ i, fo)).
  { rewrite split_first_app by exact Fsg_d. rewrite SD. reflexivity. }
  assert (NEs : sg ++ r <> []).
  { intros E0. apply app_eq_nil in E0 as [_ ->]. symmetry in R. apply app_eq_nil in R as [-> R].
    destruct fo; [discriminate|]. apply NEif. reflexivity. }
  unfold rust_bigdecimal. rewrite SE. cbn [is_some negb orb].
  assert (ML : forall (A : Type) (l : str) (u v : A), l <> [] -> match l with [] => u | _ :: _ => v end = v)
    by (intros A [|] u v; congruence).
  rewrite ML by exact NEs.
  rewrite SD'.
  destruct fo as [[|t0 trail]|]; subst f; cbv iota beta; rewrite orb_true_r.
  - rewrite app_nil_r in *.
    rewrite (rust_bigint_valid _ _ (xsd_integer_signed neg sg i m Sg NEif Em)). reflexivity.
  - rewrite <- app_assoc.
    rewrite (rust_bigint_valid _ _ (xsd_integer_signed neg sg (i ++ t0 :: trail) m Sg NEif Em)).
    cbn [option_map dec_of_big]. rewrite Z.sub_0_r.
    assert (FU : filter (fun ch => negb (is_us ch)) (t0 :: trail) = t0 :: trail).
    { apply filter_all. revert Af. apply forallb_impl. intros x D.
      destruct (digit_not_sign _ D) as (_ & _ & ->). reflexivity. }
    rewrite FU. rewrite (proj2 (Z.leb_le 0 _) (Nat2Z.is_nonneg _)).
    rewrite <- nat_N_Z, N2Z.id. reflexivity.
  - rewrite app_nil_r in *. subst r.
    rewrite (rust_bigint_valid _ _ (xsd_integer_signed neg sg i m Sg NEif Em)). reflexivity.
Qed.

Lemma xsd_decimal_syntax s : dec_syntax s = false -> xsd_decimal s = None.
Proof.
  unfold dec_syntax, xsd_decimal. destruct (strip_sign s) as [neg r].
  destruct (split_first is_dot r) as [i fo]. intros ->. reflexivity.
Qed.

(* zero with a minus sign *)
Lemma digits_val_mono s : forall acc m, (0 <= acc)%Z -> digits_val acc s = Some m ->
  (acc <= m)%Z /\ (m = 0%Z -> acc = 0%Z /\ forallb (fun ch => ch =? 48) s = true).
Proof.
  induction s as [|ch r IH]; intros acc m A H; simpl in *.
  - injection H as <-. split; [lia|auto].
  - destruct (is_digit ch) eqn:D; [|discriminate].
    unfold is_digit in D. apply andb_true_iff in D as [D1 D2]. apply N.leb_le in D1, D2.
    assert (0 <= dval ch)%Z by (unfold dval; lia).
    assert (A' : (0 <= 10 * acc + dval ch)%Z) by lia.
    destruct (IH _ _ A' H) as [L Z0]. split; [lia|].
    intros ->. destruct (Z0 eq_refl) as [E F]. split; [lia|].
    rewrite F, andb_true_r. apply N.eqb_eq. unfold dval in *. lia.
Qed.
Lemma digits_val_zeros s : s <> [] -> forallb (fun ch => ch =? 48) s = true -> digits_val 0 s = Some 0%Z.
Proof.
  intros _. induction s as [|ch r IH]; simpl; [reflexivity|]. intros H.
  apply andb_true_iff in H as [H1 H2]. apply N.eqb_eq in H1. subst. simpl. auto.
Qed.

Section Lex.
Variable X : xlib.
Notation c := cfg_fixed.

Lemma unsigned_spec hi lex :
  rust_prim false 0 hi (unsigned_lexical c lex) =
  match xsd_integer lex with
  | Some z => if ((0 <=? z) && (z <=? hi))%Z then Some z else None
  | None => None
  end.
Proof.
  unfold unsigned_lexical, xsd_integer, strip_sign, rust_prim. cbn [fix_unsigned c].
  destruct lex as [|ch d]; [reflexivity|].
  destruct (is_minus ch) eqn:M.
  - assert (Pl : is_plus ch = false).
    { unfold is_plus, is_minus in *. apply N.eqb_eq in M. subst. reflexivity. }
    cbn [andb]. destruct (negb (is_nil d) && forallb (fun ch0 => ch0 =? 48) d) eqn:G.
    + apply andb_true_iff in G as [G1 G2]. destruct d as [|d0 d']; [discriminate|].
      assert (D0 : d0 = 48%N) by (simpl in G2; apply andb_true_iff in G2 as [G2 _]; apply N.eqb_eq in G2; exact G2).
      subst d0. cbn [is_plus is_minus N.eqb Pos.eqb andb].
      rewrite (digits_val_zeros (48%N :: d') ltac:(discriminate) G2). simpl.
      destruct (0 <=? hi)%Z; reflexivity.
    + rewrite Pl, M. cbn [andb].
      assert (ND : is_digit ch = false).
      { unfold is_minus, is_digit in *. apply N.eqb_eq in M. subst. reflexivity. }
      cbn [digits_val]. rewrite ND.
      destruct d as [|d0 d']; [reflexivity|].
      destruct (digits_val 0 (d0 :: d')) as [m|] eqn:E; [|reflexivity]. cbn [option_map sgn].
      destruct (digits_val_mono _ _ _ (Z.le_refl 0) E) as [L Z0].
      destruct (Z.eq_dec m 0) as [->|NZ].
      * destruct (Z0 eq_refl) as [_ F]. rewrite F in G. discriminate.
      * replace (0 <=? - m)%Z with false by (symmetry; apply Z.leb_gt; lia). reflexivity.
  - cbn [andb]. rewrite ?M. cbn [andb]. destruct (is_plus ch).
    + destruct d; [reflexivity|]. destruct (digits_val 0 (n :: d)); reflexivity.
    + destruct (digits_val 0 (ch :: d)); reflexivity.
Qed.
End Lex.

(* ------------------------------------------------------------------------------------ *)
(* 2. values: what the implementation reads from a term is the class the specification assigns *)
(* ------------------------------------------------------------------------------------ *)
Arguments SNum {X}. Arguments SStr {X}. Arguments SBool {X}. Arguments SDT {X}.
Arguments VTerm {X}. Arguments VVal {X}.
Arguments XI {X}. Arguments XD {X}. Arguments XF {X}. Arguments XDb {X}.
Arguments KNum {X}. Arguments KBadNum {X}. Arguments KStr {X}. Arguments KLang {X}. Arguments KBool {X}.
Arguments KBadBool {X}. Arguments KDT {X}. Arguments KBadDT {X}. Arguments KOtherLit {X}.
Arguments KIri {X}. Arguments KBlank {X}. Arguments KOther {X}.
Arguments ST {X}. Arguments SN {X}. Arguments SB {X}.

Section Corr.
Variable X : xlib.
(* what is assumed of the abstract float library: with repair C13e-6, Rust's parser guarded by
   the XSD syntax check IS the XSD lexical mapping *)
Hypothesis H_flt : forall s, (if float_syntax s then f_rust X s else None) = f_lex X s.
Hypothesis H_dbl : forall s, (if float_syntax s then d_rust X s else None) = d_lex X s.
Notation c := cfg_fixed.
Notation inum := (inum X).

Definition den (n : inum) : xnum X :=
  match n with
  | NativeInt _ z | BigInt _ z => XI z
  | Decimal _ d => XD d
  | Float _ f => XF f
  | Double _ d => XDb d
  end.

Lemma den_num_of_int z : den (num_of_int X z) = XI z.
Proof. unfold num_of_int. destruct (in_isize z); reflexivity. Qed.

Lemma try_parse_integer_spec lex :
  option_map den (try_parse_integer X c lex) = option_map (XI) (xsd_integer lex).
Proof.
  unfold try_parse_integer. rewrite rust_prim_signed. cbn [fix_lex c andb].
  destruct (xsd_integer lex) as [z|] eqn:E.
  - destruct ((isize_min <=? z)%Z && (z <=? isize_max)%Z); [reflexivity|].
    assert (S : int_syntax lex = true) by (apply int_syntax_spec; eauto).
    rewrite S. cbn [negb]. rewrite (rust_bigint_valid _ _ E). reflexivity.
  - destruct (int_syntax lex) eqn:S; [|reflexivity].
    apply int_syntax_spec in S as [z S]. congruence.
Qed.
Lemma try_parse_integer_int lex n : try_parse_integer X c lex = Some n -> den n = XI (int_of X n).
Proof.
  unfold try_parse_integer. destruct (rust_prim true isize_min isize_max lex).
  - intros H; injection H as <-. reflexivity.
  - destruct (fix_lex c && negb (int_syntax lex)); [discriminate|].
    destruct (rust_bigint lex); [|discriminate]. intros H; injection H as <-. reflexivity.
Qed.
Lemma check_spec p lo hi lex :
  (forall z, p z = in_range lo hi z) ->
  option_map den (check X p (try_parse_integer X c lex)) =
  match xsd_integer lex with
  | Some z => if in_range lo hi z then Some (XI z) else None
  | None => None
  end.
Proof.
  intros P. pose proof (try_parse_integer_spec lex) as S. unfold check.
  destruct (try_parse_integer X c lex) as [n|] eqn:E.
  - pose proof (try_parse_integer_int _ _ E) as I. cbn [option_map] in S. rewrite I in S.
    destruct (xsd_integer lex) as [z|]; [|discriminate]. injection S as S. rewrite P, S.
    destruct (in_range lo hi z); [cbn [option_map]; rewrite I, S|]; reflexivity.
  - destruct (xsd_integer lex); [discriminate|reflexivity].
Qed.
Lemma prim_spec lo hi lex :
  option_map den (try_parse_prim X true lo hi lex) =
  match xsd_integer lex with
  | Some z => if in_range (Some lo) (Some hi) z then Some (XI z) else None
  | None => None
  end.
Proof.
  unfold try_parse_prim. rewrite rust_prim_signed. unfold in_range.
  destruct (xsd_integer lex) as [z|]; [|reflexivity].
  destruct ((lo <=? z)%Z && (z <=? hi)%Z); [cbn [option_map]; rewrite den_num_of_int|]; reflexivity.
Qed.
Lemma unsigned_spec' hi lex :
  option_map den (try_parse_unsigned X c hi lex) =
  match xsd_integer lex with
  | Some z => if in_range (Some 0%Z) (Some hi) z then Some (XI z) else None
  | None => None
  end.
Proof.
  unfold try_parse_unsigned. rewrite unsigned_spec. unfold in_range.
  destruct (xsd_integer lex) as [z|]; [|reflexivity].
  destruct ((0 <=? z)%Z && (z <=? hi)%Z); [cbn [option_map]; rewrite den_num_of_int|]; reflexivity.
Qed.

(* the class of a term, read off the implementation's value *)
Definition vclass (v : option (sval X)) (t : term) : tclass X :=
  match v with
  | Some (SNum n) => KNum (den n)
  | Some (SStr l None) => KStr l
  | Some (SStr l (Some tg)) => KLang l tg
  | Some (SBool (Some b)) => KBool b
  | Some (SBool None) => KBadBool
  | Some (SDT (Some d)) => KDT d
  | Some (SDT None) => KBadDT
  | None =>
      match t with
      | Iri i => KIri i
      | Bnode _ => KBlank
      | LitDt lex dt =>
          match strip_pre xsd_ns dt with
          | Some n => if is_some (numtype_of n) then KBadNum else KOtherLit
          | None => KOtherLit
          end
      | _ => KOther
      end
  end.

Lemma num_case (o : option (xnum X)) (v : option inum) (v' : option (sval X)) lex dt n :
  v' = option_map SNum v ->
  strip_pre xsd_ns dt = Some n -> is_some (numtype_of n) = true ->
  option_map den v = o ->
  match o with Some k => KNum k | None => KBadNum end = vclass v' (LitDt lex dt).
Proof.
  intros -> SP NT <-. destruct v; cbn [option_map vclass]; [reflexivity|]. rewrite SP, NT. reflexivity.
Qed.

Theorem classify_try_from_term t : classify X t = vclass (try_from_term X c t) t.
Proof.
  destruct t as [i|b|lex dt|lex tag|s p o|v]; try reflexivity.
  unfold classify, try_from_term. destruct (strip_pre xsd_ns dt) as [n|] eqn:SP.
  2:{ cbn [vclass]. rewrite SP. reflexivity. }
  unfold numtype_of.
  Ltac numeric SP v :=
    eapply (num_case _ v); [ | exact SP | unfold numtype_of; repeat match goal with E : eqs _ _ = _ |- _ => rewrite E end; reflexivity |].
  destruct (eqs n "integer") eqn:E1.
  { numeric SP (try_parse_integer X c lex); [reflexivity|]. apply try_parse_integer_spec. }
  destruct (eqs n "decimal") eqn:E2.
  { numeric SP (if dec_syntax lex then option_map (fun p => Decimal (FL X) (dec_of_big p)) (rust_bigdecimal lex) else None).
    - cbn [fix_lex c andb]. unfold decimal_lexical. destruct (dec_syntax lex); cbn [negb]; [|reflexivity].
      destruct (rust_bigdecimal lex); reflexivity.
    - cbn [l2v_num]. destruct (dec_syntax lex) eqn:S.
      + rewrite <- (rust_bigdecimal_valid _ S). destruct (rust_bigdecimal lex); reflexivity.
      + rewrite (xsd_decimal_syntax _ S). reflexivity. }
  destruct (eqs n "float") eqn:E3.
  { numeric SP (if float_syntax lex then option_map (Float (FL X)) (f_rust X lex) else None).
    - cbn [fix_lex c andb]. unfold float_lexical. destruct (float_syntax lex); cbn [negb]; [|reflexivity].
      destruct (f_rust X lex); reflexivity.
    - cbn [l2v_num]. rewrite <- H_flt. destruct (float_syntax lex); [destruct (f_rust X lex)|]; reflexivity. }
  destruct (eqs n "double") eqn:E4.
  { numeric SP (if float_syntax lex then option_map (Double (FL X)) (d_rust X lex) else None).
    - cbn [fix_lex c andb]. unfold float_lexical. destruct (float_syntax lex); cbn [negb]; [|reflexivity].
      destruct (d_rust X lex); reflexivity.
    - cbn [l2v_num]. rewrite <- H_dbl. destruct (float_syntax lex); [destruct (d_rust X lex)|]; reflexivity. }
  destruct (eqs n "nonPositiveInteger") eqn:E5.
  { numeric SP (check X (fun z => negb (0 <? z)%Z) (try_parse_integer X c lex)); [reflexivity|]. cbn [l2v_num]. apply check_spec. intros z. unfold in_range. cbn [andb].
    rewrite Z.leb_antisym. reflexivity. }
  destruct (eqs n "negativeInteger") eqn:E6.
  { numeric SP (check X (fun z => (z <? 0)%Z) (try_parse_integer X c lex)); [reflexivity|]. cbn [l2v_num]. apply check_spec. intros z. unfold in_range. cbn [andb].
    destruct (Z.ltb_spec z 0), (Z.leb_spec z (-1)); try reflexivity; lia. }
  destruct (eqs n "long") eqn:E7. { numeric SP (try_parse_prim X true (- 2 ^ 63)%Z (2 ^ 63 - 1)%Z lex); [reflexivity|]. apply prim_spec. }
  destruct (eqs n "int") eqn:E8. { numeric SP (try_parse_prim X true (- 2 ^ 31)%Z (2 ^ 31 - 1)%Z lex); [reflexivity|]. apply prim_spec. }
  destruct (eqs n "short") eqn:E9. { numeric SP (try_parse_prim X true (- 2 ^ 15)%Z (2 ^ 15 - 1)%Z lex); [reflexivity|]. apply prim_spec. }
  destruct (eqs n "byte") eqn:E10. { numeric SP (try_parse_prim X true (-128)%Z 127%Z lex); [reflexivity|]. apply prim_spec. }
  destruct (eqs n "nonNegativeInteger") eqn:E11.
  { numeric SP (check X (fun z => negb (z <? 0)%Z) (try_parse_integer X c lex)); [reflexivity|]. cbn [l2v_num]. apply check_spec. intros z. unfold in_range.
    rewrite andb_true_r, Z.leb_antisym. reflexivity. }
  destruct (eqs n "unsignedLong") eqn:E12. { numeric SP (try_parse_unsigned X c (2 ^ 64 - 1)%Z lex); [reflexivity|]. apply unsigned_spec'. }
  destruct (eqs n "unsignedInt") eqn:E13. { numeric SP (try_parse_unsigned X c (2 ^ 32 - 1)%Z lex); [reflexivity|]. apply unsigned_spec'. }
  destruct (eqs n "unsignedShort") eqn:E14. { numeric SP (try_parse_unsigned X c (2 ^ 16 - 1)%Z lex); [reflexivity|]. apply unsigned_spec'. }
  destruct (eqs n "unsignedByte") eqn:E15. { numeric SP (try_parse_unsigned X c 255%Z lex); [reflexivity|]. apply unsigned_spec'. }
  destruct (eqs n "positiveInteger") eqn:E16.
  { numeric SP (check X (fun z => (0 <? z)%Z) (try_parse_integer X c lex)); [reflexivity|]. cbn [l2v_num]. apply check_spec. intros z. unfold in_range.
    rewrite andb_true_r. destruct (Z.ltb_spec 0 z), (Z.leb_spec 1 z); try reflexivity; lia. }
  destruct (eqs n "string") eqn:E17; [reflexivity|].
  destruct (eqs n "boolean") eqn:E18.
  { unfold xsd_boolean. destruct (str_eqb lex l_true || str_eqb lex [49%N]); [reflexivity|].
    destruct (str_eqb lex l_false || str_eqb lex [48%N]); reflexivity. }
  destruct (eqs n "dateTime") eqn:E19.
  { destruct (dt_lex X lex); reflexivity. }
  cbn [vclass]. rewrite SP. unfold numtype_of.
  rewrite E1, E2, E3, E4, E5, E6, E7, E8, E9, E10, E11, E12, E13, E14, E15, E16. reflexivity.
Qed.
End Corr.

(* ------------------------------------------------------------------------------------ *)
(* 3. the numeric tower *)
(* ------------------------------------------------------------------------------------ *)
Section Tower.
Variable X : xlib.
Notation den := (den X).
Notation FLX := (FL X).

Lemma checked_val z : match checked z with Some v => v = z | None => True end.
Proof. unfold checked. destruct (in_isize z); auto. Qed.

Lemma add_den a b : option_map den (add FLX a b) = x_add X (den a) (den b).
Proof.
  destruct a, b; try reflexivity. unfold add. cbn. unfold checked. destruct (in_isize (z + z0)); reflexivity.
Qed.
Lemma sub_den a b : option_map den (sub FLX a b) = x_sub X (den a) (den b).
Proof.
  destruct a, b; try reflexivity. unfold sub. cbn. unfold checked. destruct (in_isize (z - z0)); reflexivity.
Qed.
Lemma mul_den a b : option_map den (mul FLX a b) = x_mul X (den a) (den b).
Proof.
  destruct a, b; try reflexivity. unfold mul. cbn. unfold checked. destruct (in_isize (z * z0)); reflexivity.
Qed.
Lemma div_den a b : option_map den (div FLX a b) = x_div X (den a) (den b).
Proof.
  destruct a, b; try reflexivity; unfold div; cbn;
    try (destruct (z0 =? 0)%Z; reflexivity); try (destruct (dis_zero d0); reflexivity);
    try (destruct (dis_zero d); reflexivity);
    try (destruct (dis_zero (dec_of_int z)); reflexivity).
Qed.
Lemma neg_den a : option_map den (neg FLX a) = Some (x_neg X (den a)).
Proof. destruct a; try reflexivity. cbn. unfold checked. destruct (in_isize (- z)); reflexivity. Qed.
Lemma cmp_den a b : num_cmp FLX a b = x_cmp X (den a) (den b).
Proof. destruct a, b; reflexivity. Qed.
Lemma truthy_den a : num_truthy X cfg_fixed a = negb (x_zero_or_nan X (den a)).
Proof. destruct a; try reflexivity; cbn; rewrite negb_orb; reflexivity. Qed.
End Tower.

(* ------------------------------------------------------------------------------------ *)
(* 4. results: implementation = specification *)
(* ------------------------------------------------------------------------------------ *)
(* induction on expressions, through the argument lists of IN and COALESCE *)
Section ExprInd.
Variable Q : expr -> Prop.
Hypothesis HConst : forall t, Q (EConst t).
Hypothesis HVar : forall v, Q (EVar v).
Hypothesis HBound : forall v, Q (EBound v).
Hypothesis HOr : forall a b, Q a -> Q b -> Q (EOr a b).
Hypothesis HAnd : forall a b, Q a -> Q b -> Q (EAnd a b).
Hypothesis HNot : forall a, Q a -> Q (ENot a).
Hypothesis HEq : forall a b, Q a -> Q b -> Q (EEq a b).
Hypothesis HSame : forall a b, Q a -> Q b -> Q (ESameTerm a b).
Hypothesis HGt : forall a b, Q a -> Q b -> Q (EGt a b).
Hypothesis HGe : forall a b, Q a -> Q b -> Q (EGe a b).
Hypothesis HLt : forall a b, Q a -> Q b -> Q (ELt a b).
Hypothesis HLe : forall a b, Q a -> Q b -> Q (ELe a b).
Hypothesis HIn : forall a l, Q a -> Forall Q l -> Q (EIn a l).
Hypothesis HAdd : forall a b, Q a -> Q b -> Q (EAdd a b).
Hypothesis HSub : forall a b, Q a -> Q b -> Q (ESub a b).
Hypothesis HMul : forall a b, Q a -> Q b -> Q (EMul a b).
Hypothesis HDiv : forall a b, Q a -> Q b -> Q (EDiv a b).
Hypothesis HPlus : forall a, Q a -> Q (EPlus a).
Hypothesis HMinus : forall a, Q a -> Q (EMinus a).
Hypothesis HIf : forall a b d, Q a -> Q b -> Q d -> Q (EIf a b d).
Hypothesis HCoalesce : forall l, Forall Q l -> Q (ECoalesce l).
Hypothesis HFn : forall f a, Q a -> Q (EFn f a).
Fixpoint expr_ind_nested (e : expr) : Q e :=
  let go := fix go (l : list expr) : Forall Q l :=
    match l with [] => Forall_nil Q | x :: r => Forall_cons x (expr_ind_nested x) (go r) end in
  match e with
  | EConst t => HConst t | EVar v => HVar v | EBound v => HBound v
  | EOr a b => HOr a b (expr_ind_nested a) (expr_ind_nested b)
  | EAnd a b => HAnd a b (expr_ind_nested a) (expr_ind_nested b)
  | ENot a => HNot a (expr_ind_nested a)
  | EEq a b => HEq a b (expr_ind_nested a) (expr_ind_nested b)
  | ESameTerm a b => HSame a b (expr_ind_nested a) (expr_ind_nested b)
  | EGt a b => HGt a b (expr_ind_nested a) (expr_ind_nested b)
  | EGe a b => HGe a b (expr_ind_nested a) (expr_ind_nested b)
  | ELt a b => HLt a b (expr_ind_nested a) (expr_ind_nested b)
  | ELe a b => HLe a b (expr_ind_nested a) (expr_ind_nested b)
  | EIn a l => HIn a l (expr_ind_nested a) (go l)
  | EAdd a b => HAdd a b (expr_ind_nested a) (expr_ind_nested b)
  | ESub a b => HSub a b (expr_ind_nested a) (expr_ind_nested b)
  | EMul a b => HMul a b (expr_ind_nested a) (expr_ind_nested b)
  | EDiv a b => HDiv a b (expr_ind_nested a) (expr_ind_nested b)
  | EPlus a => HPlus a (expr_ind_nested a)
  | EMinus a => HMinus a (expr_ind_nested a)
  | EIf a b d => HIf a b d (expr_ind_nested a) (expr_ind_nested b) (expr_ind_nested d)
  | ECoalesce l => HCoalesce l (go l)
  | EFn f a => HFn f a (expr_ind_nested a)
  end.
End ExprInd.

Section Main.
Variable X : xlib.
Hypothesis H_flt : forall s, (if float_syntax s then f_rust X s else None) = f_lex X s.
Hypothesis H_dbl : forall s, (if float_syntax s then d_rust X s else None) = d_lex X s.
Notation c := cfg_fixed.
Notation P := (P_sophia X c).
Notation D := sophia_dialect.

(* how an EvalResult denotes a result of the specification *)
Inductive rel : cval X -> sres X -> Prop :=
| rel_term t : rel (VTerm t) (ST t)
| rel_str s : rel (VVal (SStr s None)) (ST (LitDt s xsd_string_iri))
| rel_num n : rel (VVal (SNum n)) (SN (den X n))
| rel_bool b : rel (VVal (SBool (Some b))) (SB b).
Definition orel (a : option (cval X)) (b : option (sres X)) : Prop :=
  match a, b with Some x, Some y => rel x y | None, None => True | _, _ => False end.

Lemma rel_as_term a s : rel a s -> as_term X c a = s_term X P s.
Proof. intros [t|s0|n|b]; try reflexivity. destruct n; reflexivity. Qed.
Lemma rel_class a s : rel a s -> s_class X s = vclass X (as_value X c a) (as_term X c a).
Proof.
  intros []; try reflexivity. cbn [s_class as_value as_term]. apply classify_try_from_term; assumption.
Qed.

Lemma no_value_vclass t : no_value X (vclass X None t) = true.
Proof.
  destruct t; try reflexivity. cbn [vclass]. destruct (strip_pre xsd_ns dt); [|reflexivity].
  destruct (is_some (numtype_of s)); reflexivity.
Qed.
Lemma vclass_none_lit t : is_lit t = true ->
  vclass X None t = KBadNum \/ vclass X None t = KOtherLit \/ exists l tg, t = LitLang l tg.
Proof.
  destruct t; try discriminate; intros _; [|eauto]. cbn [vclass]. destruct (strip_pre xsd_ns dt); [|auto].
  destruct (is_some (numtype_of s)); auto.
Qed.

(* effective boolean value *)
Lemma rel_ebv a s : rel a s -> c_truthy X c a = ebv X s.
Proof.
  intros R. unfold ebv. rewrite (rel_class _ _ R). unfold c_truthy.
  destruct (as_value X c a) as [[n|l [tg|]|[b|]|[d|]]|] eqn:V; cbn [vclass sval_truthy]; try reflexivity.
  - rewrite truthy_den. reflexivity.
  - cbn [fix_ebv_illnum c]. destruct R as [t|s|n|b]; try discriminate. cbn [as_term as_value] in *.
    destruct t; try reflexivity. cbn [vclass is_ill_formed_number].
    destruct (strip_pre xsd_ns dt) as [nm|]; [|reflexivity]. rewrite V. cbn [is_some negb]. rewrite andb_true_r.
    destruct (is_some (numtype_of nm)); reflexivity.
Qed.

(* `=` *)
Lemma rel_eq a x b y : rel a x -> rel b y -> c_eq X c a b = s_eq X P D x y.
Proof.
  intros Ra Rb. unfold s_eq. rewrite (rel_class _ _ Ra), (rel_class _ _ Rb).
  rewrite <- (rel_as_term _ _ Ra), <- (rel_as_term _ _ Rb).
  unfold c_eq. cbn [fix_eq_ill c x_lang_eq D].
  fold (term_eq_fallback (as_term X c a) (as_term X c b)).
  change (rdfterm_equal (as_term X c a) (as_term X c b)) with (term_eq_fallback (as_term X c a) (as_term X c b)).
  destruct (as_value X c a) as [va|]; destruct (as_value X c b) as [vb|].
  all: repeat (match goal with |- context [vclass X None ?t] =>
                 let NV := fresh "NV" in pose proof (no_value_vclass t) as NV;
                 destruct (vclass X None t); try discriminate NV; clear NV end).
  all: try (destruct va as [n|l [tg|]|[p|]|[d|]]); try (destruct vb as [n'|l' [tg'|]|[p'|]|[d'|]]).
  all: cbn [vclass sval_eq fix_eq_ill c]; try reflexivity.
  all: try (unfold num_eq; rewrite cmp_den; match goal with |- context [x_cmp X ?u ?v] => destruct (x_cmp X u v) as [[]|]; reflexivity end).
  all: try (match goal with |- context [dt_cmp X ?u ?v] => destruct (dt_cmp X u v); reflexivity end).
Qed.

(* < <= > >= *)
Lemma rel_rel pred a x b y : rel a x -> rel b y -> c_compare X c pred a b = s_rel X P D pred x y.
Proof.
  intros Ra Rb. unfold s_rel. rewrite (rel_class _ _ Ra), (rel_class _ _ Rb).
  rewrite <- (rel_as_term _ _ Ra), <- (rel_as_term _ _ Rb).
  unfold c_compare, c_cmp, as_number. cbn [fix_nan_cmp c x_lang_cmp x_same_lit_cmp D andb].
  destruct (as_value X c a) as [va|]; destruct (as_value X c b) as [vb|].
  all: repeat (match goal with |- context [vclass X None ?t] =>
                 let NV := fresh "NV" in pose proof (no_value_vclass t) as NV;
                 destruct (vclass X None t); try discriminate NV; clear NV end).
  all: try (destruct va as [n|l [tg|]|[p|]|[d|]]); try (destruct vb as [n'|l' [tg'|]|[p'|]|[d'|]]).
  all: cbn [vclass sval_cmp no_value orb andb option_map]; try reflexivity.
  all: try (rewrite cmp_den; reflexivity).
  all: try (match goal with |- context [if ?g then _ else _] => destruct g; reflexivity end).
Qed.

Lemma rel_num_of a x : rel a x -> s_num X x = option_map (den X) (as_number X c a).
Proof.
  intros R. unfold s_num, as_number. rewrite (rel_class _ _ R).
  destruct (as_value X c a) as [[n|l [tg|]|[p|]|[d|]]|]; try reflexivity.
  pose proof (no_value_vclass (as_term X c a)) as NV.
  destruct (vclass X None (as_term X c a)); try discriminate NV; reflexivity.
Qed.
Lemma lexical_form_P n : lexical_form X c (SNum n) = P (den X n).
Proof. destruct n; reflexivity. Qed.
Lemma datatype_P n : value_datatype X (SNum n) = xnum_dt X (den X n).
Proof. destruct n; reflexivity. Qed.

(* functions on RDF terms *)
Lemma rel_fn1 f a x : rel a x -> orel (call_fn1 X c f a) (s_fn1 X P f x).
Proof.
  intros R. pose proof (rel_class _ _ R) as CL. pose proof (rel_as_term _ _ R) as TM.
  destruct f; unfold call_fn1, s_fn1; cbv zeta; rewrite <- ?TM.
  - (* STR *) destruct R as [t|s|n|b]; cbn [as_term value_to_term].
    + destruct t; cbn [orel]; try constructor; exact I.
    + constructor.
    + destruct n; constructor.
    + constructor.
  - (* LANG *) destruct (as_term X c a); cbn [orel]; try exact I; constructor.
  - (* DATATYPE *) destruct (as_term X c a); cbn [orel]; try exact I; constructor.
  - (* isIRI *) destruct R as [t|s|n|b]; cbn [as_term value_to_term orel]; try (destruct n); try constructor.
  - destruct R as [t|s|n|b]; cbn [as_term value_to_term orel]; try (destruct n); try constructor.
  - destruct R as [t|s|n|b]; cbn [as_term value_to_term orel]; try (destruct n); try constructor.
  - (* isNumeric *) cbn [orel]. rewrite CL.
    destruct (as_value X c a) as [[n|l [tg|]|[p|]|[d|]]|]; [cbn [vclass]; constructor ..|].
    pose proof (no_value_vclass (as_term X c a)) as NV.
    destruct (vclass X None (as_term X c a)); try discriminate NV; constructor.
Qed.

Lemma orel_truthy a x : orel a x -> truthy_of X c a = bind x (ebv X).
Proof. destruct a, x; cbn [orel]; try tauto. intros R. apply rel_ebv, R. Qed.
Lemma orel_arith iop sop a x b y :
  (forall n m, option_map (den X) (iop n m) = sop (den X n) (den X m)) ->
  orel a x -> orel b y -> orel (arith_arm X c iop a b) (s_arith X sop x y).
Proof.
  intros OP. destruct a as [a|], x as [x|]; cbn [orel]; try tauto; intros Ra;
  destruct b as [b|], y as [y|]; cbn [orel]; try tauto; intros Rb; cbn [arith_arm s_arith]; try exact I.
  rewrite (rel_num_of _ _ Ra), (rel_num_of _ _ Rb).
  destruct (as_number X c a) as [n|], (as_number X c b) as [m|]; cbn [option_map orel]; try exact I.
  specialize (OP n m). destruct (iop n m), (sop (den X n) (den X m)); cbn [option_map] in *; try discriminate; try exact I.
  injection OP as <-. constructor.
Qed.
Lemma orel_cmp pred a x b y : orel a x -> orel b y -> orel (cmp_arm X c pred a b) (s_rel2 X P D pred x y).
Proof.
  destruct a as [a|], x as [x|]; cbn [orel]; try tauto; intros Ra;
  destruct b as [b|], y as [y|]; cbn [orel]; try tauto; intros Rb; cbn [cmp_arm s_rel2]; try exact I.
  rewrite (rel_rel pred _ _ _ _ Ra Rb). destruct (s_rel X P D pred x y); cbn [option_map orel]; [constructor|exact I].
Qed.
Lemma in_find_spec a x l l' : rel a x -> Forall2 orel l l' ->
  in_find X c a l = in_first_error X P D x l'.
Proof.
  intros R F. induction F as [|r r' l l' H F IH]; [reflexivity|]. cbn [in_find in_first_error].
  assert (E : bind r (c_eq X c a) = bind r' (s_eq X P D x)).
  { destruct r, r'; cbn [orel bind] in *; try tauto. apply rel_eq; assumption. }
  rewrite E. destruct (bind r' (s_eq X P D x)) as [[|]|]; auto.
Qed.
Lemma first_some_rel l l' : Forall2 orel l l' -> orel (first_some l) (first_some l').
Proof.
  induction 1 as [|r r' l l' H F IH]; [exact I|]. destruct r, r'; cbn [orel first_some] in *; tauto.
Qed.

(* MAIN: for every expression and every solution, the implementation (with the repairs)
   computes the result SPARQL 1.1 section 17 prescribes *)
Theorem eval_correct e mu : orel (i_eval X c e mu) (s_eval X P D e mu).
Proof.
  induction e using expr_ind_nested; cbn [i_eval s_eval].
  - constructor.
  - destruct (lookup v mu); cbn [option_map orel]; [constructor|exact I].
  - constructor.
  - rewrite (orel_truthy _ _ IHe1), (orel_truthy _ _ IHe2).
    destruct (bind (s_eval X P D e1 mu) (ebv X)) as [[|]|], (bind (s_eval X P D e2 mu) (ebv X)) as [[|]|];
      cbn [or3 option_map orel orb]; try constructor.
  - rewrite (orel_truthy _ _ IHe1), (orel_truthy _ _ IHe2).
    destruct (bind (s_eval X P D e1 mu) (ebv X)) as [[|]|], (bind (s_eval X P D e2 mu) (ebv X)) as [[|]|];
      cbn [and3 option_map orel andb]; try constructor.
  - rewrite (orel_truthy _ _ IHe). destruct (bind (s_eval X P D e mu) (ebv X)); cbn [option_map orel]; [constructor|exact I].
  - destruct (i_eval X c e1 mu) as [a|], (s_eval X P D e1 mu) as [x|]; cbn [orel] in IHe1; try tauto;
    destruct (i_eval X c e2 mu) as [b|], (s_eval X P D e2 mu) as [y|]; cbn [orel] in IHe2; try tauto; try exact I.
    rewrite (rel_eq _ _ _ _ IHe1 IHe2). destruct (s_eq X P D x y); cbn [option_map orel]; [constructor|exact I].
  - destruct (i_eval X c e1 mu) as [a|], (s_eval X P D e1 mu) as [x|]; cbn [orel] in IHe1; try tauto;
    destruct (i_eval X c e2 mu) as [b|], (s_eval X P D e2 mu) as [y|]; cbn [orel] in IHe2; try tauto; try exact I.
    cbn [orel]. unfold into_term. rewrite (rel_as_term _ _ IHe1), (rel_as_term _ _ IHe2). constructor.
  - apply orel_cmp; assumption.
  - apply orel_cmp; assumption.
  - apply orel_cmp; assumption.
  - apply orel_cmp; assumption.
  - destruct (i_eval X c e mu) as [a|], (s_eval X P D e mu) as [x|]; cbn [orel] in IHe; try tauto; try exact I.
    unfold s_in. cbn [x_in_first_error D].
    rewrite (in_find_spec a x _ (map (fun e0 => s_eval X P D e0 mu) l) IHe).
    + destruct (in_first_error X P D x _); cbn [option_map orel]; [constructor|exact I].
    + induction H; cbn [map]; constructor; auto.
  - apply orel_arith; [apply add_den|assumption..].
  - apply orel_arith; [apply sub_den|assumption..].
  - apply orel_arith; [apply mul_den|assumption..].
  - apply orel_arith; [apply div_den|assumption..].
  - destruct (i_eval X c e mu) as [a|], (s_eval X P D e mu) as [x|]; cbn [orel] in IHe; try tauto; try exact I.
    cbn [bind]. rewrite (rel_num_of _ _ IHe). destruct (as_number X c a); cbn [option_map orel]; [constructor|exact I].
  - destruct (i_eval X c e mu) as [a|], (s_eval X P D e mu) as [x|]; cbn [orel] in IHe; try tauto; try exact I.
    cbn [bind]. rewrite (rel_num_of _ _ IHe). destruct (as_number X c a) as [n|]; cbn [option_map bind orel]; [|exact I].
    pose proof (neg_den X n) as N. destruct (neg (FL X) n); cbn [option_map] in *; [|discriminate].
    injection N as <-. constructor.
  - pose proof (orel_truthy _ _ IHe1) as T. unfold truthy_of in T.
    destruct (i_eval X c e1 mu) as [a|]; cbn [bind] in T.
    + rewrite T. destruct (bind (s_eval X P D e1 mu) (ebv X)) as [[|]|]; cbn [fix_if c]; auto. exact I.
    + rewrite <- T. exact I.
  - apply first_some_rel. induction H; cbn [map]; constructor; auto.
  - destruct (i_eval X c e mu) as [a|], (s_eval X P D e mu) as [x|]; cbn [orel] in IHe; try tauto; try exact I.
    cbn [bind]. apply rel_fn1, IHe.
Qed.
End Main.

(* ------------------------------------------------------------------------------------ *)
(* 5. FILTER and BIND; the dialect *)
(* ------------------------------------------------------------------------------------ *)
Section Corollaries.
Variable X : xlib.
Hypothesis H_flt : forall s, (if float_syntax s then f_rust X s else None) = f_lex X s.
Hypothesis H_dbl : forall s, (if float_syntax s then d_rust X s else None) = d_lex X s.
Notation c := cfg_fixed.
Notation P := (P_sophia X c).
Notation D := sophia_dialect.

(* FILTER keeps exactly the solutions the specification keeps *)
Theorem filter_correct e mu : i_filter X c e mu = s_filter X P D e mu.
Proof.
  unfold i_filter, s_filter. pose proof (eval_correct X H_flt H_dbl e mu) as R.
  destruct (i_eval X c e mu) as [a|], (s_eval X P D e mu) as [x|]; cbn [orel bind] in *; try tauto.
  rewrite (rel_ebv X H_flt H_dbl _ _ R). reflexivity.
Qed.
(* BIND binds exactly the term the specification binds, and leaves the variable unbound
   exactly when the specification raises an error *)
Theorem bind_correct e mu : i_bind X c e mu = s_bind X P D e mu.
Proof.
  unfold i_bind, s_bind. pose proof (eval_correct X H_flt H_dbl e mu) as R.
  destruct (i_eval X c e mu) as [a|], (s_eval X P D e mu) as [x|]; cbn [orel option_map] in *; try tauto.
  unfold into_term. rewrite (rel_as_term X _ _ R). reflexivity.
Qed.
(* the same, as statements about the algebra of Model.v: the engine's expression library and the
   specification's are interchangeable in FILTER and Extend *)
Theorem filter_keep_correct (e : expr) mu :
  filter_keep (L_impl X c) e mu = filter_keep (L_spec X c D) e mu.
Proof.
  pose proof (filter_correct e mu) as F. unfold i_filter, s_filter in F.
  unfold filter_keep. cbn [eval_expr is_truthy L_impl L_spec].
  destruct (i_eval X c e mu), (s_eval X P D e mu); cbn [bind] in F; exact F.
Qed.
Theorem extend_mu_correct v (e : expr) mu :
  extend_mu (L_impl X c) v e mu = extend_mu (L_spec X c D) v e mu.
Proof.
  unfold extend_mu. cbn [eval_expr Model.into_term L_impl L_spec].
  pose proof (bind_correct e mu) as B. unfold i_bind, s_bind in B.
  destruct (i_eval X c e mu), (s_eval X P D e mu); cbn [option_map] in B; try discriminate; [|reflexivity].
  injection B as ->. reflexivity.
Qed.

(* ---- the dialect ---- *)
Variable Pr : xnum X -> str.
Lemma klang_term a s t : s_class X a = KLang s t -> s_term X Pr a = LitLang s t.
Proof.
  destruct a as [u| |]; cbn [s_class s_term]; try discriminate.
  destruct u; unfold classify; try discriminate.
  - repeat match goal with |- context [match ?u with _ => _ end] => destruct u end. all: try discriminate.
  - intros H; injection H as -> ->. reflexivity.
Qed.
(* the switches x_lang_eq, x_lang_cmp, x_same_lit_cmp are operator extensions in the sense of
   17.3.1: they only replace a type error of the bare operator table by a value *)
Theorem s_eq_extension D' a b r : s_eq X Pr strict a b = Some r -> s_eq X Pr D' a b = Some r.
Proof.
  unfold s_eq. destruct (s_class X a) eqn:Ca, (s_class X b) eqn:Cb; auto. cbn [x_lang_eq strict].
  destruct (x_lang_eq D'); auto.
  rewrite (klang_term _ _ _ Ca), (klang_term _ _ _ Cb). unfold rdfterm_equal. cbn [term_eqb is_lit andb].
  rewrite andb_comm. match goal with |- (if ?e then _ else _) = _ -> _ => destruct e end; [auto|intros; discriminate].
Qed.
Theorem s_rel_extension D' pred a b r : s_rel X Pr strict pred a b = Some r -> s_rel X Pr D' pred a b = Some r.
Proof.
  unfold s_rel. destruct (s_class X a), (s_class X b); cbn [x_lang_cmp x_same_lit_cmp strict andb]; auto; intros; discriminate.
Qed.
(* x_in_first_error is NOT an extension: it replaces values by errors.  What holds: whenever
   sophia's IN answers, the answer is the specification's *)
Theorem in_first_error_sound D' x rs b :
  in_first_error X Pr D' x rs = Some b -> in_strict X Pr D' x rs = Some b.
Proof.
  induction rs as [|r rs IH]; cbn [in_first_error in_strict fold_right]; [auto|].
  fold (in_strict X Pr D' x rs).
  destruct (bind r (s_eq X Pr D' x)) as [[|]|]; intros H.
  - injection H as <-. destruct (in_strict X Pr D' x rs) as [[|]|]; reflexivity.
  - rewrite (IH H). reflexivity.
  - discriminate.
Qed.
End Corollaries.

From Sophia.C13 Require Import ExprConcrete.
(* ------------------------------------------------------------------------------------ *)
(* 6. the code before the repairs, and the two differences that are not repaired:
      concrete witnesses (all replayed on the engine by harness/src/bin/c13e.rs) *)
(* ------------------------------------------------------------------------------------ *)
Definition lit (l d : string) : expr := EConst (LitDt (L l) (xsd d)).
Definition tlit (l d : string) : term := LitDt (L l) (xsd d).
Definition spec_bind (cf : cfg) := s_bind XC (P_sophia XC cf) extensions_only.
Definition spec_filter (cf : cfg) := s_filter XC (P_sophia XC cf) extensions_only.
Definition is_bad_num {X} (k : tclass X) : bool := match k with KBadNum => true | _ => false end.
Definition one := lit "1" "integer". Definition two := lit "2" "integer". Definition zero := lit "0" "integer".

(* C13e-1 *)
Definition w_if := EIf (EConst (Iri (L "tag:x"))) one two.
Example if_refuted : i_bind XC cfg_head w_if [] = Some (tlit "2" "integer") /\ spec_bind cfg_head w_if [] = None.
Proof. vm_compute. auto. Qed.
Example if_fixed : i_bind XC cfg_fixed w_if [] = None.
Proof. vm_compute. reflexivity. Qed.
(* C13e-2 *)
Definition w_eq_ill := ENot (EEq (lit "foo" "boolean") (lit "true" "boolean")).
Example eq_ill_refuted : i_filter XC cfg_head w_eq_ill [] = true /\ spec_filter cfg_head w_eq_ill [] = false.
Proof. vm_compute. auto. Qed.
Example eq_ill_refuted2 :
  i_bind XC cfg_head (EEq (lit "foo" "dateTime") (lit "bar" "dateTime")) [] = Some (tlit "true" "boolean")
  /\ spec_bind cfg_head (EEq (lit "foo" "dateTime") (lit "bar" "dateTime")) [] = None.
Proof. vm_compute. auto. Qed.
Example eq_ill_fixed : i_filter XC cfg_fixed w_eq_ill [] = false.
Proof. vm_compute. reflexivity. Qed.
(* C13e-3 *)
Definition w_nan := ENot (lit "NaN" "float").
Example nan_truthy_refuted : i_filter XC cfg_head w_nan [] = false /\ spec_filter cfg_head w_nan [] = true.
Proof. vm_compute. auto. Qed.
Example nan_truthy_fixed : i_filter XC cfg_fixed w_nan [] = true.
Proof. vm_compute. reflexivity. Qed.
(* C13e-4 *)
Definition w_illnum := ENot (lit "abc" "integer").
Example ebv_illnum_refuted : i_filter XC cfg_head w_illnum [] = false /\ spec_filter cfg_head w_illnum [] = true.
Proof. vm_compute. auto. Qed.
Example ebv_illnum_fixed : i_filter XC cfg_fixed w_illnum [] = true.
Proof. vm_compute. reflexivity. Qed.
(* C13e-5 *)
Definition w_nan_cmp := ENot (ELt (lit "NaN" "double") one).
Example nan_cmp_refuted : i_filter XC cfg_head w_nan_cmp [] = false /\ spec_filter cfg_head w_nan_cmp [] = true.
Proof. vm_compute. auto. Qed.
Example nan_cmp_fixed : i_filter XC cfg_fixed w_nan_cmp [] = true.
Proof. vm_compute. reflexivity. Qed.
(* C13e-6 *)
Definition w_lex1 := EAdd (lit "1_0" "integer") zero.
Definition w_lex2 := EAdd (lit ".-5" "decimal") zero.
Definition w_lex3 := EEq (lit "inf" "double") (lit "INF" "double").
Example lex_refuted :
  i_bind XC cfg_head w_lex1 [] = Some (tlit "10" "integer") /\ spec_bind cfg_head w_lex1 [] = None /\
  i_bind XC cfg_head w_lex2 [] = Some (tlit "-0.05" "decimal") /\ spec_bind cfg_head w_lex2 [] = None /\
  i_filter XC cfg_head w_lex3 [] = true /\ spec_filter cfg_head w_lex3 [] = false.
Proof. vm_compute. auto 7. Qed.
Example lex_fixed : i_bind XC cfg_fixed w_lex1 [] = None /\ i_bind XC cfg_fixed w_lex2 [] = None /\ i_filter XC cfg_fixed w_lex3 [] = false.
Proof. vm_compute. auto. Qed.
(* C13e-7: the literal written for 0.0000001 * 1.0 is not an xsd:decimal *)
Definition w_dec := EMul (lit "0.0000001" "decimal") (lit "1.0" "decimal").
Example dec_print_refuted :
  i_bind XC cfg_head w_dec [] = Some (tlit "1E-7" "decimal") /\ is_bad_num (classify XC (tlit "1E-7" "decimal")) = true.
Proof. vm_compute. auto. Qed.
Example dec_print_fixed :
  i_bind XC cfg_fixed w_dec [] = Some (tlit "0.0000001" "decimal")
  /\ xsd_decimal (L "0.0000001") = Some (1%Z, 7%N).
Proof. vm_compute. auto. Qed.
(* C13e-8 *)
Example dt_year0_refuted : year_of_capture0 (L "99999999999") = Panic.
Proof. vm_compute. reflexivity. Qed.
Example dt_year_fixed : year_of_capture (L "99999999999") = Val None.
Proof. vm_compute. reflexivity. Qed.
(* C13e-9 *)
Definition w_unsigned := EAdd (lit "-0" "unsignedByte") one.
Example unsigned_refuted : i_bind XC cfg_head w_unsigned [] = None /\ spec_bind cfg_head w_unsigned [] = Some (tlit "1" "integer").
Proof. vm_compute. auto. Qed.
Example unsigned_fixed : i_bind XC cfg_fixed w_unsigned [] = Some (tlit "1" "integer").
Proof. vm_compute. reflexivity. Qed.

(* NOT repaired (the crate's test "in with error" expects it): 2 IN (1/0, 2) *)
Definition w_in := EIn two [EDiv one zero; two].
Example in_refuted : i_bind XC cfg_fixed w_in [] = None /\ spec_bind cfg_fixed w_in [] = Some (tlit "true" "boolean").
Proof. vm_compute. auto. Qed.
(* NOT repaired (two tests expect "inf"): the literal written for 1e0 / 0e0 is not an xsd:double *)
Definition w_inf := EDiv (lit "1e0" "double") (lit "0e0" "double").
Example inf_output_refuted :
  i_bind XC cfg_fixed w_inf [] = Some (tlit "inf" "double")
  /\ is_bad_num (classify XC (tlit "inf" "double")) = true
  /\ d_lex XC (d_print XC (SpecFloat.S754_infinity false)) = None.
Proof. vm_compute. auto. Qed.
(* the float library of ExprConcrete.v satisfies the two hypotheses of the theorems on a sample
   of lexical forms (they are the definition of sf_xsd / sf_rust: same reader, different guard) *)
Example hyp_sample :
  forallb (fun s => match (if float_syntax s then d_rust XC s else None), d_lex XC s with
                    | Some a, Some b => sf_eqb a b | None, None => true | _, _ => false end)
          [L "1e0"; L "inf"; L "INF"; L "-INF"; L "+INF"; L "NaN"; L "nan"; L ".5"; L "5."; L "."; L "1e"; L "1E+2"; L "-0"; L "Infinity"; L ""; L "+.e1"] = true.
Proof. vm_compute. reflexivity. Qed.

(* ------------------------------------------------------------------------------------ *)
(* 7. the literals written for computed integers and booleans are well-typed and denote
      the computed value (for decimals, floats and doubles see the Examples above) *)
(* ------------------------------------------------------------------------------------ *)
Lemma digits_val_app s1 : forall s2 a,
  digits_val a (s1 ++ s2) = match digits_val a s1 with Some v => digits_val v s2 | None => None end.
Proof.
  induction s1 as [|ch r IH]; intros s2 a; simpl; [reflexivity|].
  destruct (is_digit ch); [apply IH|reflexivity].
Qed.
Lemma nat_digits_acc fuel : forall n acc, nat_digits fuel n acc = nat_digits fuel n [] ++ acc.
Proof.
  induction fuel as [|f IH]; intros n acc; cbn [nat_digits]; [reflexivity|].
  destruct (n / 10 =? 0)%Z; [reflexivity|].
  rewrite IH. rewrite (IH _ [_]). rewrite <- app_assoc. reflexivity.
Qed.
Lemma nat_digits_val fuel : forall n, (0 <= n < 2 ^ Z.of_nat fuel)%Z -> (1 <= fuel)%nat ->
  digits_val 0 (nat_digits fuel n []) = Some n /\ nat_digits fuel n [] <> [].
Proof.
  induction fuel as [|f IH]; intros n B F; [lia|]. cbn [nat_digits].
  assert (Dg : is_digit (48 + Z.to_N (n mod 10)) = true /\ dval (48 + Z.to_N (n mod 10)) = (n mod 10)%Z).
  { pose proof (Z.mod_pos_bound n 10 ltac:(lia)) as M. unfold is_digit, dval. split.
    - apply andb_true_iff. split; apply N.leb_le; lia.
    - lia. }
  destruct Dg as [Dg Dv].
  destruct (Z.eqb_spec (n / 10) 0) as [E|E].
  - split; [|discriminate]. cbn [digits_val]. rewrite Dg, Dv. f_equal.
    pose proof (Z.div_mod n 10 ltac:(lia)). lia.
  - rewrite nat_digits_acc. split.
    + assert (10 <= n)%Z.
      { destruct (Z_lt_le_dec n 10); [|assumption]. exfalso. apply E. apply Z.div_small. lia. }
      assert (Bf : (0 <= n / 10 < 2 ^ Z.of_nat f)%Z).
      { split; [apply Z.div_pos; lia|]. apply Z.div_lt_upper_bound; [lia|].
        rewrite Nat2Z.inj_succ, Z.pow_succ_r in B by lia. lia. }
      assert (Ff : (1 <= f)%nat).
      { destruct f; [|lia]. simpl in B. lia. }
      destruct (IH _ Bf Ff) as [V _]. rewrite digits_val_app, V. cbn [digits_val]. rewrite Dg, Dv. f_equal.
      pose proof (Z.div_mod n 10 ltac:(lia)). lia.
    + intros C. apply app_eq_nil in C as [_ C]. discriminate.
Qed.
Lemma nat_str_val n : (0 <= n)%Z -> digits_val 0 (nat_str n) = Some n /\ nat_str n <> [].
Proof.
  intros N0. unfold nat_str. apply nat_digits_val; [|lia].
  split; [assumption|]. rewrite Nat2Z.inj_succ, Z2Nat.id by apply Z.log2_nonneg.
  destruct (Z.eq_dec n 0) as [->|NZ]; [reflexivity|]. apply Z.log2_spec. lia.
Qed.
(* Display of an integer is in the lexical space of xsd:integer and reads back to the integer *)
Theorem int_print_valid z : xsd_integer (z_to_str z) = Some z.
Proof.
  unfold z_to_str. destruct (Z.ltb_spec z 0) as [Ng|Ps].
  - unfold xsd_integer, strip_sign. cbn [is_minus N.eqb Pos.eqb].
    destruct (nat_str_val (- z) ltac:(lia)) as [V NE].
    destruct (nat_str (- z)) as [|d0 r]; [congruence|]. rewrite V. cbn [option_map sgn]. f_equal. lia.
  - destruct (nat_str_val z Ps) as [V NE].
    apply (xsd_integer_signed false [] (nat_str z) z); auto.
Qed.

Section Valid.
Variable X : xlib.
Notation c := cfg_fixed.
(* BIND of a computed integer / boolean: a well-typed literal denoting exactly that value *)
Theorem computed_int_valid z : classify X (s_term X (P_sophia X c) (SN (XI z))) = KNum (XI z).
Proof.
  cbn [s_term xnum_dt P_sophia]. unfold classify.
  change (strip_pre xsd_ns xsd_integer_iri) with (Some (L "integer")). cbv iota beta.
  change (numtype_of (L "integer")) with (Some TInteger). cbv iota beta.
  cbn [l2v_num]. rewrite int_print_valid. reflexivity.
Qed.
Theorem computed_bool_valid b : classify X (s_term X (P_sophia X c) (SB b)) = KBool b.
Proof. destruct b; reflexivity. Qed.
End Valid.

(* ------------------------------------------------------------------------------------ *)
(* 8. without IN, sophia's dialect is the operator table plus 17.3.1 extensions only *)
(* ------------------------------------------------------------------------------------ *)
Fixpoint no_in (e : expr) : bool :=
  match e with
  | EConst _ | EVar _ | EBound _ => true
  | EIn _ _ => false
  | ENot a | EPlus a | EMinus a | EFn _ a => no_in a
  | EOr a b | EAnd a b | EEq a b | ESameTerm a b | EGt a b | EGe a b | ELt a b | ELe a b
  | EAdd a b | ESub a b | EMul a b | EDiv a b => no_in a && no_in b
  | EIf a b d => no_in a && no_in b && no_in d
  | ECoalesce l => forallb no_in l
  end.
Section NoIn.
Variable X : xlib.
Variable Pr : xnum X -> str.
Lemma no_in_dialect e mu : no_in e = true ->
  s_eval X Pr sophia_dialect e mu = s_eval X Pr extensions_only e mu.
Proof.
  induction e using expr_ind_nested; cbn [no_in s_eval]; intros N;
    repeat match goal with H : _ && _ = true |- _ => apply andb_true_iff in H as [? ?] end;
    try discriminate;
    repeat match goal with IH : no_in ?a = true -> _, H : no_in ?a = true |- _ => rewrite (IH H); clear IH end;
    try reflexivity.
  f_equal. induction H; cbn [map forallb] in *; [reflexivity|].
  apply andb_true_iff in N as [N1 N2]. rewrite (H N1), (IHForall N2). reflexivity.
Qed.
End NoIn.
Section NoInCorrect.
Variable X : xlib.
Hypothesis H_flt : forall s, (if float_syntax s then f_rust X s else None) = f_lex X s.
Hypothesis H_dbl : forall s, (if float_syntax s then d_rust X s else None) = d_lex X s.
Theorem eval_correct_no_in e mu : no_in e = true ->
  orel X (i_eval X cfg_fixed e mu) (s_eval X (P_sophia X cfg_fixed) extensions_only e mu).
Proof. intros N. rewrite <- (no_in_dialect X _ e mu N). apply eval_correct; assumption. Qed.
End NoInCorrect.

(* ------------------------------------------------------------------------------------ *)
(* 9. the library used to run the model against the engine satisfies the two hypotheses *)
(* ------------------------------------------------------------------------------------ *)
Lemma split_first_e_sign sg r :
  (sg = [] \/ sg = [45%N] \/ sg = [43%N]) ->
  split_first is_e (sg ++ r) = let '(m, eo) := split_first is_e r in (sg ++ m, eo).
Proof. intros [-> | [-> | ->]]; simpl; destruct (split_first is_e r); reflexivity. Qed.

Lemma strip_sign_app s neg r sg : strip_sign s = (neg, r) -> s = sg ++ r ->
  (sg = [] /\ neg = false \/ sg = [45%N] /\ neg = true \/ sg = [43%N] /\ neg = false) ->
  forall m eo, split_first is_e r = (m, eo) -> strip_sign (sg ++ m) = (neg, m).
Proof.
  intros SS -> [[-> ->] | [[-> ->] | [-> ->]]] m eo SE; try reflexivity.
  cbn [app] in *. unfold strip_sign in *. destruct r as [|ch r']; cbn [split_first] in SE.
  - injection SE as <- <-. reflexivity.
  - destruct (is_e ch) eqn:E.
    + injection SE as <- <-. reflexivity.
    + destruct (split_first is_e r') as [x y]. injection SE as <- <-.
      destruct (is_minus ch); [discriminate SS|]. destruct (is_plus ch); [|reflexivity].
      exfalso. injection SS as H. apply (f_equal (@length N)) in H. simpl in H. lia.
Qed.

Section Fmt.
Variable prec emax : Z.
Lemma number_syntax s :
  let '(m, eo) := split_first is_e s in
  (dec_syntax m && match eo with None => true | Some ex => int_syntax ex end) = is_some (parse_number s).
Proof.
  unfold parse_number, dec_syntax.
  destruct (strip_sign s) as [neg r] eqn:SS.
  destruct (strip_sign_shape _ _ _ SS) as (sg & E & Sg & _). subst s.
  rewrite split_first_e_sign by (destruct Sg as [[-> _] | [[-> _] | [-> _]]]; auto).
  destruct (split_first is_e r) as [m eo] eqn:SE.
  rewrite (strip_sign_app _ _ _ _ SS eq_refl Sg _ _ SE).
  destruct (split_first is_dot m) as [i fo].
  set (f := match fo with Some f => f | None => [] end).
  destruct (all_digits i && all_digits f && negb (is_nil i && is_nil f)) eqn:G; [|reflexivity].
  apply andb_true_iff in G as [G _]. apply andb_true_iff in G as [Ai Af].
  assert (Aif : all_digits (i ++ f) = true) by (unfold all_digits in *; rewrite forallb_app, Ai, Af; reflexivity).
  destruct (all_digits_val _ Aif 0%Z) as [v ->]. cbn [andb].
  destruct eo as [ex|]; [|reflexivity].
  destruct (xsd_integer ex) as [z|] eqn:X.
  - rewrite (proj2 (int_syntax_spec ex)) by eauto. reflexivity.
  - destruct (int_syntax ex) eqn:S; [|reflexivity]. apply int_syntax_spec in S as [z S]. congruence.
Qed.

Lemma parse_number_head s t : parse_number s = Some t ->
  exists ch r', snd (strip_sign s) = ch :: r' /\ (is_digit ch = true \/ is_dot ch = true).
Proof.
  unfold parse_number. destruct (strip_sign s) as [neg r]. cbn [snd].
  destruct (split_first is_e r) as [m eo] eqn:SE. destruct (split_first is_dot m) as [i fo] eqn:SD.
  set (f := match fo with Some f => f | None => [] end).
  destruct (all_digits i && all_digits f && negb (is_nil i && is_nil f)) eqn:G; [|discriminate].
  intros _. apply andb_true_iff in G as [G NE]. apply andb_true_iff in G as [Ai Af].
  assert (Hm : exists ch m', m = ch :: m' /\ (is_digit ch = true \/ is_dot ch = true)).
  { destruct fo as [f'|].
    - destruct (split_first_some _ _ _ _ SD) as (ch & P & -> & _). destruct i as [|i0 i'].
      + exists ch, f'. auto.
      + exists i0, (i' ++ ch :: f'). split; [reflexivity|]. left. simpl in Ai. apply andb_true_iff in Ai. tauto.
    - destruct (split_first_none _ _ _ SD) as [-> _]. destruct i as [|i0 i']; [discriminate|].
      exists i0, i'. split; [reflexivity|]. left. simpl in Ai. apply andb_true_iff in Ai. tauto. }
  destruct Hm as (ch & m' & -> & Hch).
  destruct eo as [ex|].
  - destruct (split_first_some _ _ _ _ SE) as (ce & _ & -> & _). exists ch, (m' ++ ce :: ex). auto.
  - destruct (split_first_none _ _ _ SE) as [-> _]. exists ch, m'. auto.
Qed.

Lemma hyp_holds s : (if float_syntax s then sf_rust prec emax s else None) = sf_xsd prec emax s.
Proof.
  unfold float_syntax, sf_xsd.
  destruct (eqs s "INF") eqn:E1. { apply eqs_true in E1. subst. reflexivity. }
  destruct (eqs s "+INF") eqn:E2. { apply eqs_true in E2. subst. reflexivity. }
  destruct (eqs s "-INF") eqn:E3. { apply eqs_true in E3. subst. reflexivity. }
  destruct (eqs s "NaN") eqn:E4. { apply eqs_true in E4. subst. reflexivity. }
  cbn [orb]. pose proof (number_syntax s) as NS. destruct (split_first is_e s) as [m eo]. rewrite NS.
  unfold sf_number. destruct (parse_number s) as [t|] eqn:PN; cbn [is_some option_map]; [|reflexivity].
  unfold sf_rust. destruct (parse_number_head _ _ PN) as (ch & r' & Hr & Hch).
  destruct (strip_sign s) as [neg r]. cbn [snd] in Hr. subst r.
  assert (NL : is_alpha ch = false /\ lower1 ch = ch).
  { unfold is_alpha, lower1, is_digit, is_dot in *. destruct Hch as [D|D].
    - apply andb_true_iff in D as [A B]. apply N.leb_le in A, B. split.
      + apply orb_false_iff. split; apply andb_false_iff; left; apply N.leb_gt; lia.
      + replace ((65 <=? ch) && (ch <=? 90)) with false; [reflexivity|].
        symmetry. apply andb_false_iff. left. apply N.leb_gt. lia.
    - apply N.eqb_eq in D. subst. split; reflexivity. }
  destruct NL as [NA LW].
  assert (F : forall nm, (nm = "inf" \/ nm = "infinity" \/ nm = "nan")%string -> eqs (lower (ch :: r')) nm = false).
  { intros nm Hn. unfold eqs. cbn [lower map]. rewrite LW.
    unfold is_alpha in NA. apply orb_false_iff in NA as [_ NA].
    assert (ch <> 105%N /\ ch <> 110%N).
    { split; intros ->; discriminate NA. }
    destruct Hn as [-> | [-> | ->]]; cbn [L str_eqb N_of_ascii]; apply andb_false_iff; left; apply N.eqb_neq; cbn; tauto. }
  rewrite (F "inf"%string), (F "infinity"%string), (F "nan"%string) by auto. cbn [orb]. unfold sf_number. rewrite PN. reflexivity.
Qed.
End Fmt.

Theorem XC_float_lib_ok :
  (forall s, (if float_syntax s then f_rust XC s else None) = f_lex XC s) /\
  (forall s, (if float_syntax s then d_rust XC s else None) = d_lex XC s).
Proof. split; intros s; apply hyp_holds. Qed.
(* hence, for the very model that is compared with the engine on every generated case: *)
Theorem eval_correct_XC e mu :
  orel XC (i_eval XC cfg_fixed e mu) (s_eval XC (P_sophia XC cfg_fixed) sophia_dialect e mu).
Proof. apply eval_correct; apply XC_float_lib_ok. Qed.
Theorem filter_correct_XC e mu :
  i_filter XC cfg_fixed e mu = s_filter XC (P_sophia XC cfg_fixed) sophia_dialect e mu.
Proof. apply filter_correct; apply XC_float_lib_ok. Qed.
Theorem bind_correct_XC e mu :
  i_bind XC cfg_fixed e mu = s_bind XC (P_sophia XC cfg_fixed) sophia_dialect e mu.
Proof. apply bind_correct; apply XC_float_lib_ok. Qed.

(* ------------------------------------------------------------------------------------ *)
(* 10. decimals: the literal written for a computed decimal (after repair C13e-7) is in the
       lexical space of xsd:decimal and denotes the value *)
(* ------------------------------------------------------------------------------------ *)
Definition dnormal (d : dec) : Prop :=
  (snd d = 0%N \/ (fst d mod 10 <> 0)%Z) /\ (fst d = 0%Z -> snd d = 0%N).

Lemma dnorm_fuel_normal fuel : forall m s, (m <> 0)%Z -> (N.to_nat s <= fuel)%nat ->
  dnormal (dnorm_fuel fuel m s) /\ (fst (dnorm_fuel fuel m s) <> 0)%Z.
Proof.
  induction fuel as [|f IH]; intros m s NZ F; cbn [dnorm_fuel].
  - assert (s = 0%N) by lia. subst. split; [split; cbn; auto; intros; congruence|exact NZ].
  - destruct (N.eqb_spec s 0) as [->|S0]; [split; [split; cbn; auto; intros; congruence|exact NZ]|].
    destruct (Z.eqb_spec (m mod 10) 0) as [M|M].
    + apply IH; [|lia]. intros Q. apply NZ. pose proof (Z.div_mod m 10 ltac:(lia)). lia.
    + split; [split; cbn; auto; intros; congruence|exact NZ].
Qed.
Lemma dnorm_normal d : dnormal (dnorm d).
Proof.
  unfold dnorm. destruct (Z.eqb_spec (fst d) 0) as [E|NE].
  - split; cbn; auto.
  - apply dnorm_fuel_normal; [exact NE|lia].
Qed.
Lemma dnorm_of_normal d : dnormal d -> dnorm d = d.
Proof.
  destruct d as [m s]. intros [[S|M] Z0]; cbn [fst snd] in *; unfold dnorm; cbn [fst snd].
  - subst s. destruct (m =? 0)%Z eqn:E; [apply Z.eqb_eq in E; subst; reflexivity|reflexivity].
  - destruct (Z.eqb_spec m 0) as [->|NE]; [exfalso; apply M; reflexivity|].
    destruct (N.to_nat s) eqn:Ns; cbn [dnorm_fuel]; [reflexivity|].
    destruct (s =? 0)%N; [reflexivity|]. destruct (Z.eqb_spec (m mod 10) 0); [contradiction|reflexivity].
Qed.
Lemma dnorm_idem d : dnorm (dnorm d) = dnorm d.
Proof. apply dnorm_of_normal, dnorm_normal. Qed.

Lemma digits_val_zeros_pre k : forall s a, digits_val a (repeat 48%N k ++ s) = digits_val (a * 10 ^ Z.of_nat k) s.
Proof.
  induction k as [|k IH]; intros s a.
  - simpl. f_equal. lia.
  - cbn [repeat app digits_val]. change (is_digit 48) with true. cbv iota.
    rewrite IH. f_equal. change (dval 48) with 0%Z. rewrite Nat2Z.inj_succ, Z.pow_succ_r by lia. lia.
Qed.
Lemma nat_str_digits n : (0 <= n)%Z -> all_digits (nat_str n) = true.
Proof. intros H. destruct (nat_str_val n H) as [V _]. eapply digits_val_all_digits, V. Qed.
Lemma all_digits_firstn k s : all_digits s = true -> all_digits (firstn k s) = true.
Proof.
  revert s. induction k; intros [|ch r] H; simpl in *; auto.
  apply andb_true_iff in H as [-> H]. simpl. auto.
Qed.
Lemma all_digits_skipn k s : all_digits s = true -> all_digits (skipn k s) = true.
Proof.
  revert s. induction k; intros [|ch r] H; simpl in *; auto.
  apply andb_true_iff in H as [_ H]. auto.
Qed.
Lemma all_digits_no_dot s : all_digits s = true -> forallb (fun ch => negb (is_dot ch)) s = true.
Proof. apply forallb_impl. intros x D. destruct (digit_not_e_dot _ D) as [_ ->]. reflexivity. Qed.

(* reading sign ++ i ++ "." ++ f *)
Lemma xsd_decimal_parts (neg : bool) i f v :
  all_digits i = true -> all_digits f = true -> i ++ f <> [] ->
  digits_val 0 (i ++ f) = Some v ->
  (i <> [] \/ neg = true) ->
  xsd_decimal ((if neg then [45%N] else []) ++ i ++ 46%N :: f) = Some (dnorm (sgn neg v, N.of_nat (length f))).
Proof.
  intros Ai Af NE V Hd. unfold xsd_decimal.
  assert (SS : strip_sign ((if neg then [45%N] else []) ++ i ++ 46%N :: f) = (neg, i ++ 46%N :: f)).
  { destruct neg; [reflexivity|]. cbn [app]. destruct Hd as [Hd|Hd]; [|discriminate].
    destruct i as [|i0 i']; [congruence|]. unfold strip_sign. cbn [app].
    simpl in Ai. apply andb_true_iff in Ai as [D _]. destruct (digit_not_sign _ D) as (-> & -> & _). reflexivity. }
  rewrite SS. rewrite split_first_app by (apply all_digits_no_dot, Ai). cbn [split_first is_dot N.eqb Pos.eqb]. rewrite app_nil_r.
  rewrite Ai, Af. cbn [andb].
  assert (NN : negb (is_nil i && is_nil f) = true).
  { destruct i; [|reflexivity]. destruct f; [exfalso; apply NE; reflexivity|reflexivity]. }
  rewrite NN, V. reflexivity.
Qed.

Lemma digits_val_zero a : digits_val a [48%N] = Some (10 * a)%Z.
Proof. cbn [digits_val]. change (is_digit 48) with true. cbv iota. change (dval 48) with 0%Z. f_equal. lia. Qed.
Lemma dnorm_shift m : dnorm ((m * 10)%Z, 1%N) = (m, 0%N).
Proof.
  unfold dnorm. cbn [fst snd]. destruct (Z.eqb_spec (m * 10) 0) as [E|E].
  - assert (m = 0%Z) by lia. subst. reflexivity.
  - change (N.to_nat 1) with 1%nat. cbn [dnorm_fuel N.eqb]. rewrite Z.mod_mul by lia. cbn [Z.eqb].
    rewrite Z.div_mul by lia. reflexivity.
Qed.
Theorem dec_print_valid d : xsd_decimal (dec2string true d) = Some (dnorm d).
Proof.
  unfold dec2string. pose proof (dnorm_normal d) as NM. pose proof (dnorm_idem d) as ID.
  destruct (dnorm d) as [m s]. destruct NM as [N1 N2]. cbn [fst snd] in *.
  destruct (N.eqb_spec s 0) as [->|S0].
  - (* "{}.0" *)
    unfold z_to_str. destruct (Z.ltb_spec m 0) as [Ng|Ps].
    + destruct (nat_str_val (- m) ltac:(lia)) as [V NE].
      change (45%N :: nat_str (- m)) with ([45%N] ++ nat_str (- m)). rewrite <- app_assoc.
      rewrite (xsd_decimal_parts true (nat_str (- m)) [48%N] (10 * - m)).
      * cbn [sgn length N.of_nat Pos.of_succ_nat]. replace (- (10 * - m))%Z with (m * 10)%Z by lia. rewrite dnorm_shift. reflexivity.
      * apply nat_str_digits. lia.
      * reflexivity.
      * intros C. apply app_eq_nil in C as [_ C]. discriminate.
      * rewrite digits_val_app, V. apply digits_val_zero.
      * auto.
    + destruct (nat_str_val m Ps) as [V NE].
      change (nat_str m ++ [46%N; 48%N]) with ([] ++ nat_str m ++ 46%N :: [48%N]).
      rewrite (xsd_decimal_parts false (nat_str m) [48%N] (10 * m)).
      * cbn [sgn length N.of_nat Pos.of_succ_nat]. replace (10 * m)%Z with (m * 10)%Z by lia. rewrite dnorm_shift. reflexivity.
      * apply nat_str_digits. lia.
      * reflexivity.
      * intros C. apply app_eq_nil in C as [_ C]. discriminate.
      * rewrite digits_val_app, V. apply digits_val_zero.
      * auto.
  - (* positive scale: plain notation *)
    cbn [negb andb]. unfold dec_plain.
    assert (MZ : m <> 0%Z) by (intros ->; apply S0; auto).
    destruct (nat_str_val (Z.abs m) (Z.abs_nonneg m)) as [V NE].
    pose proof (nat_str_digits (Z.abs m) (Z.abs_nonneg m)) as AD.
    set (ds := nat_str (Z.abs m)) in *. set (L := N.of_nat (length ds)).
    assert (SG : sgn (m <? 0)%Z (Z.abs m) = m).
    { unfold sgn. destruct (Z.ltb_spec m 0); lia. }
    replace (if (m <? 0)%Z then [45%N] else []) with (if (m <? 0)%Z then [45%N] else @nil N) by reflexivity.
    destruct (N.ltb_spec s L) as [Lt|Ge].
    + set (k := N.to_nat (L - s)).
      assert (Kpos : (0 < k)%nat) by (unfold k; lia).
      assert (Klen : (k <= length ds)%nat) by (unfold k, L in *; lia).
      change ([46%N] ++ skipn k ds) with (46%N :: skipn k ds).
      rewrite (xsd_decimal_parts (m <? 0)%Z (firstn k ds) (skipn k ds) (Z.abs m)).
      * rewrite SG, skipn_length. replace (N.of_nat (length ds - k)) with s by (unfold k, L in *; lia).
        rewrite ID. reflexivity.
      * apply all_digits_firstn, AD.
      * apply all_digits_skipn, AD.
      * rewrite firstn_skipn. exact NE.
      * rewrite firstn_skipn. exact V.
      * left. destruct ds; [congruence|]. destruct k; [lia|discriminate].
    + set (k := N.to_nat (s - L)).
      change ([48%N; 46%N] ++ repeat 48%N k ++ ds) with ([48%N] ++ 46%N :: (repeat 48%N k ++ ds)).
      rewrite (xsd_decimal_parts (m <? 0)%Z [48%N] (repeat 48%N k ++ ds) (Z.abs m)).
      * rewrite SG, app_length, repeat_length. replace (N.of_nat (k + length ds)) with s by (unfold k, L in *; lia).
        rewrite ID. reflexivity.
      * reflexivity.
      * unfold all_digits. rewrite forallb_app. apply andb_true_iff. split; [|exact AD].
        clear. induction k; simpl; auto.
      * discriminate.
      * change ([48%N] ++ repeat 48%N k ++ ds) with (repeat 48%N (S k) ++ ds).
        rewrite digits_val_zeros_pre. exact V.
      * left. discriminate.
Qed.

Section ValidDec.
Variable X : xlib.
(* BIND of a computed decimal: a well-typed literal denoting exactly that value *)
Theorem computed_dec_valid d :
  classify X (s_term X (P_sophia X cfg_fixed) (SN (XD d))) = KNum (XD (dnorm d)).
Proof.
  cbn [s_term xnum_dt P_sophia fix_dec_print cfg_fixed]. unfold classify.
  change (strip_pre xsd_ns xsd_decimal_iri) with (Some (L "decimal")). cbv iota beta.
  change (numtype_of (L "decimal")) with (Some TDecimal). cbv iota beta.
  cbn [l2v_num]. rewrite dec_print_valid. reflexivity.
Qed.
(* the decimals the operators produce are normalised, so [dnorm] above is the identity on them *)
Lemma dadd_normal a b : dnorm (dadd a b) = dadd a b.
Proof. unfold dadd. destruct (dalign a b) as [[x y] sc]. apply dnorm_idem. Qed.
Lemma dsub_normal a b : dnorm (dsub a b) = dsub a b.
Proof. unfold dsub. destruct (dalign a b) as [[x y] sc]. apply dnorm_idem. Qed.
Lemma dmul_normal a b : dnorm (dmul a b) = dmul a b.
Proof. apply dnorm_idem. Qed.
End ValidDec.
