(* C13/ExprImpl.v -- the IMPLEMENTATION side of the expression layer, definitions only:
   sparql/src/value.rs (SparqlValue), value/_number.rs (NumModel.v instantiated with the exact
   decimals of ExprModel.v), expression.rs (EvalResult, ArcExpression::eval), function.rs
   (call_function for STR LANG DATATYPE isIRI isBlank isLiteral isNumeric), stash.rs
   (value_to_term), function by function.
   [cfg] records which proposed repairs are applied: build/proposed/C13e-1 .. C13e-7.diff. *)
From Coq Require Import String Ascii.
From Sophia.C13 Require Export ExprModel.

Record cfg := mkCfg {
  fix_if : bool;          (* C13e-1: IF with a condition that has no EBV is an error *)
  fix_eq_ill : bool;      (* C13e-2: `=` does not compare ill-formed booleans / dateTimes by "value" *)
  fix_nan_truthy : bool;  (* C13e-3: the EBV of an xsd:float NaN is false *)
  fix_ebv_illnum : bool;  (* C13e-4: the EBV of an ill-formed numeric literal is false *)
  fix_nan_cmp : bool;     (* C13e-5: < <= > >= with a NaN operand are false, not errors *)
  fix_lex : bool;         (* C13e-6: lexical forms outside the XSD lexical spaces are rejected *)
  fix_dec_print : bool;   (* C13e-7: decimals are never written in scientific notation *)
  fix_unsigned : bool     (* C13e-9: "-0" is accepted for the unsigned integer datatypes *)
}.
(* C13e-8 (XsdDateTime::new panics on a year beyond i32) is not a switch: the model has no
   panics; see dt_year0_refuted in ExprProofs.v *)
Definition cfg_head : cfg := mkCfg false false false false false false false false.
Definition cfg_fixed : cfg := mkCfg true true true true true true true true.

Section Impl.
Variable X : xlib.
Variable c : cfg.

(* SparqlNumber over BigDecimal (by value), f32, f64 *)
Definition FL : floatlib :=
  mkF dec (flt X) (dbl X) dec_of_int dadd dsub dmul (x_ddiv X) dneg dabs dis_zero dcmp
      (f_of_Z X) (f_of_dec X) (f_of_dbl X) (f_add X) (f_sub X) (f_mul X) (f_div X) (f_neg X)
      (f_abs X) (f_cmp X)
      (d_of_Z X) (d_of_dec X) (d_of_flt X) (d_add X) (d_sub X) (d_mul X) (d_div X) (d_neg X)
      (d_abs X) (d_cmp X).
Definition inum := num FL.

(* SparqlValue *)
Inductive sval :=
| SNum (n : inum)
| SStr (lex : str) (tag : option str)
| SBool (b : option bool)
| SDT (d : option (dtv X)).
(* EvalResult; a ResultTerm's cached value is try_from_term of its term *)
Inductive cval := VTerm (t : term) | VVal (v : sval).

(* ---------- value/_number.rs: parsing ---------- *)
(* impl_sparqlnumber_integer_from!: NativeInt if the value fits an isize, else BigInt *)
Definition num_of_int (z : Z) : inum := if in_isize z then NativeInt FL z else BigInt FL z.
(* SparqlNumber::try_parse_integer *)
Definition try_parse_integer (lex : str) : option inum :=
  match rust_prim true isize_min isize_max lex with          (* lex.parse::<isize>() *)
  | Some z => Some (NativeInt FL z)
  | None =>
      if fix_lex c && negb (int_syntax lex) then None         (* C13e-6 *)
      else option_map (BigInt FL) (rust_bigint lex)          (* lex.parse::<BigInt>() *)
  end.
(* SparqlNumber::try_parse::<iN / uN> *)
Definition try_parse_prim (signed : bool) (lo hi : Z) (lex : str) : option inum :=
  option_map num_of_int (rust_prim signed lo hi lex).
(* SparqlNumber::check with is_positive / is_negative (integers only here) *)
Definition int_of (n : inum) : Z := match n with NativeInt _ z | BigInt _ z => z | _ => 0%Z end.
Definition check (p : Z -> bool) (n : option inum) : option inum :=
  match n with Some n => if p (int_of n) then Some n else None | None => None end.
(* C13e-6: is_decimal_lexical, is_float_lexical *)
Definition decimal_lexical (lex : str) : bool := dec_syntax lex.
Definition float_lexical (lex : str) : bool := float_syntax lex.
(* C13e-9: unsigned_lexical *)
Definition unsigned_lexical (lex : str) : str :=
  if fix_unsigned c then
    match lex with
    | ch :: d => if is_minus ch && negb (is_nil d) && forallb (fun ch => ch =? 48) d then d else lex
    | [] => lex
    end
  else lex.
Definition try_parse_unsigned (hi : Z) (lex : str) : option inum :=
  option_map num_of_int (rust_prim false 0 hi (unsigned_lexical lex)).

(* ---------- value.rs: SparqlValue::try_from_literal / try_from_term ----------
   (the arms of the Rust match are disjoint string patterns: their order is immaterial; the
   numeric ones come first here, in the order of ExprModel.numtype_of) *)
Definition try_from_term (t : term) : option sval :=
  match t with
  | LitLang lex tag => Some (SStr lex (Some tag))
  | LitDt lex dt =>
      match strip_pre xsd_ns dt with
      | None => None
      | Some n =>
          if eqs n "integer" then option_map SNum (try_parse_integer lex)
          else if eqs n "decimal" then
            if fix_lex c && negb (decimal_lexical lex) then None
            else option_map (fun p => SNum (Decimal FL (dec_of_big p))) (rust_bigdecimal lex)
          else if eqs n "float" then
            if fix_lex c && negb (float_lexical lex) then None
            else option_map (fun f => SNum (Float FL f)) (f_rust X lex)
          else if eqs n "double" then
            if fix_lex c && negb (float_lexical lex) then None
            else option_map (fun d => SNum (Double FL d)) (d_rust X lex)
          else if eqs n "nonPositiveInteger" then
            option_map SNum (check (fun z => negb (0 <? z)%Z) (try_parse_integer lex))
          else if eqs n "negativeInteger" then
            option_map SNum (check (fun z => (z <? 0)%Z) (try_parse_integer lex))
          else if eqs n "long" then option_map SNum (try_parse_prim true (- 2 ^ 63) (2 ^ 63 - 1) lex)
          else if eqs n "int" then option_map SNum (try_parse_prim true (- 2 ^ 31) (2 ^ 31 - 1) lex)
          else if eqs n "short" then option_map SNum (try_parse_prim true (- 2 ^ 15) (2 ^ 15 - 1) lex)
          else if eqs n "byte" then option_map SNum (try_parse_prim true (-128) 127 lex)
          else if eqs n "nonNegativeInteger" then
            option_map SNum (check (fun z => negb (z <? 0)%Z) (try_parse_integer lex))
          else if eqs n "unsignedLong" then option_map SNum (try_parse_unsigned (2 ^ 64 - 1) lex)
          else if eqs n "unsignedInt" then option_map SNum (try_parse_unsigned (2 ^ 32 - 1) lex)
          else if eqs n "unsignedShort" then option_map SNum (try_parse_unsigned (2 ^ 16 - 1) lex)
          else if eqs n "unsignedByte" then option_map SNum (try_parse_unsigned (255) lex)
          else if eqs n "positiveInteger" then
            option_map SNum (check (fun z => (0 <? z)%Z) (try_parse_integer lex))
          else if eqs n "string" then Some (SStr lex None)
          else if eqs n "boolean" then
            Some (SBool (if str_eqb lex l_true || str_eqb lex [49] then Some true
                         else if str_eqb lex l_false || str_eqb lex [48] then Some false
                         else None))
          else if eqs n "dateTime" then Some (SDT (dt_lex X lex))
          else None
      end
  | _ => None
  end.
(* C13e-4: SparqlValue::is_ill_formed_number *)
Definition is_ill_formed_number (t : term) : bool :=
  match t with
  | LitDt lex dt =>
      match strip_pre xsd_ns dt with
      | Some n => is_some (numtype_of n) && negb (is_some (try_from_term t))
      | None => false
      end
  | _ => false
  end.

(* ---------- value.rs: lexical_form, datatype; stash.rs: value_to_term ---------- *)
Definition lexical_form (v : sval) : str :=
  match v with
  | SNum (NativeInt _ z) | SNum (BigInt _ z) => z_to_str z
  | SNum (Decimal _ d) => dec2string (fix_dec_print c) d
  | SNum (Float _ f) => f_print X f
  | SNum (Double _ d) => d_print X d
  | SBool (Some b) => if b then l_true else l_false
  | SDT (Some d) => dt_print X d
  | SBool None | SDT None => l_illformed
  | SStr lex _ => lex
  end.
Definition value_datatype (v : sval) : str :=
  match v with
  | SNum (NativeInt _ _) | SNum (BigInt _ _) => xsd_integer_iri
  | SNum (Decimal _ _) => xsd_decimal_iri
  | SNum (Float _ _) => xsd_float_iri
  | SNum (Double _ _) => xsd_double_iri
  | SBool _ => xsd_boolean_iri
  | SDT _ => xsd_dateTime_iri
  | SStr _ None => xsd_string_iri
  | SStr _ (Some _) => rdf_langString
  end.
Definition value_to_term (v : sval) : term :=
  match v with
  | SStr lex (Some tag) => LitLang lex tag
  | _ => LitDt (lexical_form v) (value_datatype v)
  end.

(* ---------- expression.rs: EvalResult ---------- *)
Definition as_term (v : cval) : term := match v with VTerm t => t | VVal s => value_to_term s end.
Definition into_term := as_term.
Definition as_value (v : cval) : option sval :=
  match v with VTerm t => try_from_term t | VVal s => Some s end.
Definition as_number (v : cval) : option inum :=
  match as_value v with Some (SNum n) => Some n | _ => None end.
(* SparqlNumber::is_truthy *)
Definition num_truthy (n : inum) : bool :=
  match n with
  | NativeInt _ z | BigInt _ z => negb (z =? 0)%Z
  | Decimal _ d => negb (dis_zero d)
  | Double _ d => negb (d_is_zero X d) && negb (d_is_nan X d)
  | Float _ f => negb (f_is_zero X f) && (if fix_nan_truthy c then negb (f_is_nan X f) else true)
  end.
(* SparqlValue::is_truthy *)
Definition sval_truthy (v : sval) : option bool :=
  match v with
  | SNum n => Some (num_truthy n)
  | SStr lex _ => Some (negb (is_nil lex))
  | SBool o => Some (match o with Some b => b | None => false end)
  | SDT _ => None
  end.
(* EvalResult::is_truthy *)
Definition c_truthy (v : cval) : option bool :=
  match as_value v with
  | Some s => sval_truthy s
  | None =>
      if fix_ebv_illnum c then
        match v with
        | VTerm t => if is_ill_formed_number t then Some false else None
        | VVal _ => None
        end
      else None
  end.
(* SparqlValue::sparql_eq; Option<XsdDateTime>: PartialOrd puts None before every Some *)
Definition sval_eq (a b : sval) : option bool :=
  match a, b with
  | SNum x, SNum y => Some (num_eq FL x y)
  | SStr s1 None, SStr s2 None => Some (str_eqb s1 s2)
  | SStr s1 (Some t1), SStr s2 (Some t2) => Some (str_eqb_ci t1 t2 && str_eqb s1 s2)
  | SBool b1, SBool b2 =>
      if fix_eq_ill c then
        match b1, b2 with Some x, Some y => Some (Bool.eqb x y) | _, _ => None end
      else Some (opt_eqb Bool.eqb b1 b2)
  | SDT d1, SDT d2 =>
      match d1, d2 with
      | Some x, Some y => option_map p_eq (dt_cmp X x y)
      | None, None => if fix_eq_ill c then None else Some true
      | _, _ => if fix_eq_ill c then None else Some false
      end
  | _, _ => None
  end.
(* SparqlValue::partial_cmp; LanguageTag::cmp compares the lower-cased tags *)
Definition sval_cmp (a b : sval) : option comparison :=
  match a, b with
  | SNum x, SNum y => num_cmp FL x y
  | SStr s1 None, SStr s2 None => Some (str_cmp s1 s2)
  | SStr s1 (Some t1), SStr s2 (Some t2) =>
      Some (then_cmp (str_cmp (lower t1) (lower t2)) (str_cmp s1 s2))
  | SBool (Some b1), SBool (Some b2) => Some (cmp_bool b1 b2)
  | SDT (Some d1), SDT (Some d2) => dt_cmp X d1 d2
  | _, _ => None
  end.
(* the term-based branch of EvalResult::sparql_eq *)
Definition term_eq_fallback (s o : term) : option bool :=
  if term_eqb s o then Some true else if is_lit s && is_lit o then None else Some false.
(* EvalResult::sparql_eq *)
Definition c_eq (a b : cval) : option bool :=
  match as_value a, as_value b with
  | Some x, Some y =>
      if fix_eq_ill c then
        match sval_eq x y with
        | Some r => Some r
        | None => term_eq_fallback (as_term a) (as_term b)
        end
      else sval_eq x y
  | _, _ => term_eq_fallback (as_term a) (as_term b)
  end.
(* EvalResult::sparql_cmp *)
Definition c_cmp (a b : cval) : option comparison :=
  match as_value a, as_value b with
  | Some x, Some y => sval_cmp x y
  | _, _ =>
      let s := as_term a in let o := as_term b in
      if is_lit s && is_lit o && term_eqb s o then Some Eq else None
  end.
(* the four comparison arms of eval: sparql_cmp(..).map(pred); C13e-5: sparql_compare *)
Definition c_compare (pred : comparison -> bool) (a b : cval) : option bool :=
  if fix_nan_cmp c then
    match as_number a, as_number b with
    | Some x, Some y => Some (match num_cmp FL x y with Some o => pred o | None => false end)
    | _, _ => option_map pred (c_cmp a b)
    end
  else option_map pred (c_cmp a b).

(* ---------- function.rs: call_function ---------- *)
Definition vbool (b : bool) : cval := VVal (SBool (Some b)).
Definition vstr (s : str) : cval := VVal (SStr s None).
Definition call_fn1 (f : fn1) (arg : cval) : option cval :=
  match f with
  | FStr =>
      match arg with
      | VTerm (Iri i) => Some (vstr i)                                  (* as_iri -> str_iri *)
      | _ => match as_term arg with                                     (* as_literal -> str_literal *)
             | LitDt lex _ | LitLang lex _ => Some (vstr lex)
             | _ => None
             end
      end
  | FLang =>
      match as_term arg with
      | LitDt _ _ => Some (vstr [])
      | LitLang _ tag => Some (vstr tag)
      | _ => None
      end
  | FDatatype =>
      match as_term arg with
      | LitDt _ dt => Some (VTerm (Iri dt))
      | LitLang _ _ => Some (VTerm (Iri rdf_langString))
      | _ => None
      end
  | FIsIri => Some (vbool (match arg with VTerm (Iri _) => true | _ => false end))
  | FIsBlank => Some (vbool (match arg with VTerm (Bnode _) => true | _ => false end))
  | FIsLiteral => Some (vbool (match arg with VTerm t => is_lit t | VVal _ => true end))
  | FIsNumeric => Some (vbool (match as_value arg with Some (SNum _) => true | _ => false end))
  end.

(* ---------- expression.rs: ArcExpression::eval ---------- *)
Definition truthy_of (r : option cval) : option bool := bind r c_truthy.
Definition cmp_arm (pred : comparison -> bool) (a b : option cval) : option cval :=
  match a, b with Some x, Some y => option_map vbool (c_compare pred x y) | _, _ => None end.
Definition arith_arm (op : inum -> inum -> option inum) (a b : option cval) : option cval :=
  match a, b with
  | Some x, Some y =>
      match as_number x, as_number y with
      | Some n, Some m => option_map (fun r => VVal (SNum r)) (op n m)
      | _, _ => None
      end
  | _, _ => None
  end.
(* rhs.iter().map(|o| o.eval().and_then(|o| lhs.sparql_eq(&o))).find(|r| r != &Some(false))
      .unwrap_or(Some(false)) *)
Fixpoint in_find (x : cval) (rs : list (option cval)) : option bool :=
  match rs with
  | [] => Some false
  | r :: rs' => match bind r (c_eq x) with
                | Some false => in_find x rs'
                | o => o
                end
  end.

Fixpoint i_eval (e : expr) (mu : amap) : option cval :=
  match e with
  | EConst t => Some (VTerm t)
  | EVar v => option_map VTerm (lookup v mu)
  | EBound v => Some (vbool (is_some (lookup v mu)))
  | EOr a b =>
      match truthy_of (i_eval a mu), truthy_of (i_eval b mu) with
      | Some p, Some q => Some (vbool (p || q))
      | Some true, None | None, Some true => Some (vbool true)
      | _, _ => None
      end
  | EAnd a b =>
      match truthy_of (i_eval a mu), truthy_of (i_eval b mu) with
      | Some p, Some q => Some (vbool (p && q))
      | Some false, None | None, Some false => Some (vbool false)
      | _, _ => None
      end
  | ENot a => option_map (fun b => vbool (negb b)) (truthy_of (i_eval a mu))
  | EEq a b =>
      match i_eval a mu, i_eval b mu with
      | Some x, Some y => option_map vbool (c_eq x y)
      | _, _ => None
      end
  | ESameTerm a b =>
      match i_eval a mu, i_eval b mu with
      | Some x, Some y => Some (vbool (term_eqb (into_term x) (into_term y)))
      | _, _ => None
      end
  | EGt a b => cmp_arm p_gt (i_eval a mu) (i_eval b mu)
  | EGe a b => cmp_arm p_ge (i_eval a mu) (i_eval b mu)
  | ELt a b => cmp_arm p_lt (i_eval a mu) (i_eval b mu)
  | ELe a b => cmp_arm p_le (i_eval a mu) (i_eval b mu)
  | EIn a l =>
      match i_eval a mu with
      | Some x => option_map vbool (in_find x (map (fun e => i_eval e mu) l))
      | None => None
      end
  | EAdd a b => arith_arm (add FL) (i_eval a mu) (i_eval b mu)
  | ESub a b => arith_arm (sub FL) (i_eval a mu) (i_eval b mu)
  | EMul a b => arith_arm (mul FL) (i_eval a mu) (i_eval b mu)
  | EDiv a b => arith_arm (div FL) (i_eval a mu) (i_eval b mu)
  | EPlus a => option_map (fun n => VVal (SNum n)) (bind (i_eval a mu) as_number)
  | EMinus a =>
      option_map (fun n => VVal (SNum n)) (bind (bind (i_eval a mu) as_number) (neg FL))
  | EIf cnd t e =>
      match i_eval cnd mu with
      | None => None
      | Some v =>
          match c_truthy v with
          | Some true => i_eval t mu
          | Some false => i_eval e mu
          | None => if fix_if c then None else i_eval e mu       (* .unwrap_or(false) / C13e-1 *)
          end
      end
  | ECoalesce l => first_some (map (fun e => i_eval e mu) l)
  | EFn f a => bind (i_eval a mu) (call_fn1 f)
  end.

(* exec.rs, as in Model.v: FILTER and BIND *)
Definition i_filter (e : expr) (mu : amap) : bool :=
  match bind (i_eval e mu) c_truthy with Some true => true | _ => false end.
Definition i_bind (e : expr) (mu : amap) : option term := option_map into_term (i_eval e mu).

(* the lexical forms the implementation writes, as a printer for the specification *)
Definition P_sophia (n : xnum X) : str :=
  match n with
  | XI _ z => z_to_str z
  | XD _ d => dec2string (fix_dec_print c) d
  | XF _ f => f_print X f
  | XDb _ d => d_print X d
  end.

(* the two expression libraries for Model.v's algebra *)
Definition L_impl : exprlib :=
  mkL expr cval i_eval c_truthy into_term unit (fun _ rows => rows).
Definition L_spec (D : dialect) : exprlib :=
  mkL expr (sres X) (s_eval X P_sophia D) (ebv X) (s_term X P_sophia) unit (fun _ rows => rows).

(* ---------- checkers for the generated cases ---------- *)
(* what the engine did with BIND(e AS ?r) and FILTER(e) under the solution mu *)
Definition expr_ok (e : expr) (mu : amap) (bound : option term) (kept : bool) : bool :=
  oteq (i_bind e mu) bound && Bool.eqb (i_filter e mu) kept.
End Impl.
