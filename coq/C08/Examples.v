(* C08/Examples.v -- concrete strings for the token rules and validators. *)
From Sophia.Common Require Import Prelude.
From Sophia.C08 Require Import Regex Tokens.
From Sophia.gen Require Import LabelSrc.

(* the W3C grammar allows consecutive dots inside a label, the validator (and Rio) do not:
   the inclusion is strict, witnessed by "a..b" *)
Example w3c_label_strictly_larger :
  matchb w3c_bnode_label [97; 46; 46; 98] = true /\ matchb bnode_id_regex [97; 46; 46; 98] = false.
Proof. split; vm_compute; reflexivity. Qed.
Example labels_nonvacuous :
  matchb rio_bnode_label [49; 97; 46; 183; 233] = true /\ matchb rio_langtag [101; 110; 45; 85; 83] = true
  /\ matchb sparql_varname [95; 120; 768] = true.
Proof. repeat split; vm_compute; reflexivity. Qed.
