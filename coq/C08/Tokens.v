(* C08/Tokens.v -- the token languages accepted by the parsing back-ends for blank node labels,
   language tags and variable names, transcribed BY HAND from rio_turtle 0.8.6 (shared.rs:
   parse_blank_node_label, parse_langtag; gtriple/gtrig: variable names) and from the W3C
   grammars they implement.  Third-party code: modelled by what it accepts. *)
From Sophia.Common Require Import Prelude.
From Sophia.C08 Require Import Regex.

(* PN_CHARS_BASE without the ASCII letters *)
Definition base_nonascii : cclass :=
  [(192, 214); (216, 246); (248, 767); (880, 893); (895, 8191); (8204, 8205); (8304, 8591);
   (11264, 12271); (12289, 55295); (63744, 64975); (65008, 65533); (65536, 983039)].
Definition letters : cclass := [(65, 90); (97, 122)].
Definition digits : cclass := [(48, 57)].
(* is_possible_pn_chars_u_*: PN_CHARS_BASE | '_'   (Rio leaves ':' out) *)
Definition pn_chars_u : cclass := letters ++ [(95, 95)] ++ base_nonascii.
(* is_possible_pn_chars_*: PN_CHARS_U | '-' | [0-9] | #xB7 | [#x300-#x36F] | [#x203F-#x2040] *)
Definition pn_chars : cclass := pn_chars_u ++ [(45, 45)] ++ digits ++ [(183, 183); (768, 879); (8255, 8256)].

(* parse_blank_node_label: (PN_CHARS_U | [0-9]) then, repeatedly, a PN_CHARS character, or a '.'
   provided the next character is again a PN_CHARS character.  (If a '.' is followed by a non-ASCII
   character that is not PN_CHARS, Rio has already pushed the '.', returns the label and fails on
   that character, which cannot start any token: the statement is an error and no term escapes.) *)
Definition rio_bnode_label : rex cclass :=
  Cat (Lf (pn_chars_u ++ digits)) (Star (Alt (Lf pn_chars) (Cat (Lf [(46, 46)]) (Lf pn_chars)))).

(* W3C BLANK_NODE_LABEL (N-Triples/Turtle, without the leading "_:"):
   (PN_CHARS_U | [0-9]) ((PN_CHARS | '.')* PN_CHARS)?   with ':' in PN_CHARS_U for N-Triples *)
Definition w3c_bnode_label : rex cclass :=
  Cat (Lf (pn_chars_u ++ digits))
      (opt (Cat (Star (Alt (Lf pn_chars) (Lf [(46, 46)]))) (Lf pn_chars))).

(* parse_langtag: [a-zA-Z]+ ('-' [a-zA-Z0-9]+)* *)
Definition rio_langtag : rex cclass :=
  Cat (plus (Lf letters)) (Star (Cat (Lf [(45, 45)]) (plus (Lf (digits ++ letters))))).

(* SPARQL VARNAME: (PN_CHARS_U | [0-9]) (PN_CHARS_U | [0-9] | #xB7 | [#x300-#x36F] | [#x203F-#x2040])* *)
Definition sparql_varname : rex cclass :=
  Cat (Lf (pn_chars_u ++ digits))
      (Star (Lf (pn_chars_u ++ digits ++ [(183, 183); (768, 879); (8255, 8256)]))).
