(* C15/Properties.v -- pinned statements of property C15. *)
From Sophia.C15 Require Import Model Proofs.

(* refinement of the adapter stack (any depth) to "filter_map, stop at the first fault" *)
Check (try_for_each_spec : forall St src chain (f : sink St) st,
  try_for_each St src chain f st = spec St src chain f st).
Check (wrap_through : forall St chain (f : sink St) x st,
  wrap St chain f x st = match through chain x with Some y => f y st | None => (st, None) end).
(* step-wise driving = whole-stream driving *)
Check (stepwise_is_try_for_each : forall St src chain (f : sink St) st fuel,
  (length src < fuel)%nat -> stepwise St fuel src chain f st = try_for_each St src chain f st).
Check (try_for_some_pulls_one : forall St src chain (f : sink St) st,
  let '(rest, _, o) := try_for_some St src chain f st in
  match src with [] => rest = [] /\ o = Done | _ :: tl => rest = tl end).
(* source fault in any step (after that step's own items), any chain, any consumer state *)
Check (source_fault_prefix : forall chain fault steps last e post st,
  not_reached fault (length (st ++ fm chain (items_of steps ++ last))) ->
  try_for_each _ (clean steps ++ (last, Some e) :: post) chain (rec_sink fault) st
  = (post, st ++ fm chain (items_of steps ++ last), SourceError e)).
(* sink fault at any position inside any step *)
Check (sink_fault_prefix : forall chain steps pre x y rest_of_batch oe post j e st,
  through chain x = Some y ->
  length (st ++ fm chain (items_of steps ++ pre)) = j ->
  try_for_each _ (clean steps ++ (pre ++ x :: rest_of_batch, oe) :: post) chain (rec_sink (Some (j, e))) st
  = (post, st ++ fm chain (items_of steps ++ pre) ++ [y], SinkError e)).
(* no fault *)
Check (no_fault_all : forall chain fault steps st,
  not_reached fault (length (st ++ fm chain (items_of steps))) ->
  try_for_each _ (clean steps) chain (rec_sink fault) st = ([], st ++ fm chain (items_of steps), Done)).
(* the iterator-backed source (one item per step) *)
Check (iterator_source_fault : forall chain fault pre e post st,
  not_reached fault (length (st ++ fm chain pre)) ->
  try_for_each _ (of_results (map inl pre ++ inr e :: post)) chain (rec_sink fault) st
  = (of_results post, st ++ fm chain pre, SourceError e)).
(* what the chain computes *)
Check (fm_nil : forall l, fm [] l = l).
Check (fm_filter : forall p c l, fm (AFilter p :: c) l = fm c (filter p l)).
Check (fm_map : forall m c l, fm (AMap m :: c) l = fm c (map m l)).
(* MapSource / FilterMapSource turned back into iterators lose, duplicate and reorder nothing *)
Check (drain_all : forall chain fuel src buf,
  (length (buf ++ all_out chain src) < fuel)%nat ->
  drain fuel chain (src, buf) = buf ++ all_out chain src).
(* insert_all returns the number of effective changes *)
Check (insert_all_count : forall chain steps s c, NoDup s ->
  let '(rest, (s', c'), o) := try_for_each _ (clean steps) chain (insert_sink None 0) (s, c) in
  o = Done /\ rest = [] /\ NoDup s'
  /\ (c' - c = length s' - length s)%nat /\ (c <= c')%nat
  /\ (forall x, In x s' <-> In x s \/ In x (fm chain (items_of steps)))).

(* non-vacuity: a depth-3 chain, a source fault in the middle, a sink fault on the second item,
   a parser-like step delivering two items and then failing, drained through an iterator *)
Example ex_source_fault :
  run_rec (of_results [inl 1; inl 2; inl 4; inr 7; inl 6]) [DFilterEven; DMapSucc; DFilterMapLtSucc 5] None
  = ([4], KSource 7, 4).
Proof. vm_compute. reflexivity. Qed.
Example ex_sink_fault :
  run_rec (of_results [inl 2; inl 3; inl 4; inl 6; inr 9]) [DFilterEven; DMapSucc] (Some (1%nat, 5))
  = ([3; 5], KSink 5, 3).
Proof. vm_compute. reflexivity. Qed.
Example ex_batch_iter :
  drain 10 (map adapter_of [DMapSucc]) ([([1], None); ([2; 3], Some 9); ([4], None)], [])
  = [inl 2; inl 3; inl 4; inr 9; inl 5].
Proof. vm_compute. reflexivity. Qed.

Print Assumptions try_for_each_spec.
Print Assumptions wrap_through.
Print Assumptions stepwise_is_try_for_each.
Print Assumptions try_for_some_pulls_one.
Print Assumptions source_fault_prefix.
Print Assumptions sink_fault_prefix.
Print Assumptions no_fault_all.
Print Assumptions iterator_source_fault.
Print Assumptions fm_nil.
Print Assumptions fm_filter.
Print Assumptions fm_map.
Print Assumptions drain_all.
Print Assumptions insert_all_count.
