(* C06/Model.v -- W3C RDF Dataset Canonicalization (RDFC-1.0, https://www.w3.org/TR/rdf-canon/),
   sections 4.4 (canonicalization algorithm), 4.5 (issue identifier), 4.6 (hash first degree
   quads), 4.7 (hash related blank node), 4.8 (hash n-degree quads) and the canonical N-Quads form,
   transcribed from the text of the Recommendation, independently of the implementation model
   C05/Model.v (only the data types term/quad, the decimal printer, the generic insertion sort and
   the hash parameter are shared).  The specification leaves three orders open; they are
   arguments here:
     [perms]      the order in which "each permutation p of blank node list" is visited (4.8, 5.4),
     [node_order] the order of "each key n in the blank node to quads map" (4.4, step 3), which is
                  also the order of every identifier list,
     ties of "code point ordered by the hash in result" (4.4, step 5.3) keep list order.
   Definitions only. *)
From Sophia.C05 Require Export Model.

(* ---------- canonical N-Quads ---------- *)
(* characters that MUST be written with ECHAR, and the characters that MUST be written as
   \uXXXX (upper-case HEX): U+0000-U+0007, U+000B, U+000E-U+001F, U+007F *)
Definition echar_table : list (N * str) :=
  [ (8, [92;98]);      (* BS  \b *)
    (9, [92;116]);     (* HT  \t *)
    (10, [92;110]);    (* LF  \n *)
    (12, [92;102]);    (* FF  \f *)
    (13, [92;114]);    (* CR  \r *)
    (34, [92;34]);     (* "   \" *)
    (92, [92;92]) ].   (* \   \\ *)
Definition uchar_list : list N :=
  [0;1;2;3;4;5;6;7; 11; 14;15;16;17;18;19;20;21;22;23;24;25;26;27;28;29;30;31; 127].
Definition hex_digit (d : N) : N := nth (N.to_nat d) [48;49;50;51;52;53;54;55;56;57;65;66;67;68;69;70] 63.
Definition uchar4 (c : N) : str :=
  [92;117; hex_digit (c / 4096); hex_digit ((c / 256) mod 16); hex_digit ((c / 16) mod 16);
   hex_digit (c mod 16)].
Fixpoint assoc_N {V} (t : list (N * V)) (c : N) : option V :=
  match t with [] => None | (k, v) :: r => if k =? c then Some v else assoc_N r c end.
Definition cnq_char (c : N) : str :=
  match assoc_N echar_table c with
  | Some e => e
  | None => if existsb (N.eqb c) uchar_list then uchar4 c else [c]
  end.
Definition cnq_string (s : str) : str := flat_map cnq_char s.

(* a term of an RDF dataset in canonical form, WITHOUT the separating space; blank nodes are
   written through [bl] (their label, or the a/z placeholders of 4.6) *)
Definition cnq_term (bl : str -> str) (t : term) : str :=
  match t with
  | Iri i => [60] ++ i ++ [62]
  | Bnode b => [95;58] ++ bl b
  | LitLang l tag => [34] ++ cnq_string l ++ [34] ++ [64] ++ tag
  | LitDt l dt =>
      [34] ++ cnq_string l ++ [34]
      ++ (if str_eqb dt xsd_string then [] else [94;94] ++ [60] ++ dt ++ [62])
  | _ => []     (* not an RDF term of RDFC-1.0: rejected before *)
  end.
(* subject SP predicate SP object SP [graph SP] "." LF *)
Definition cnq_quad (bl : str -> str) (q : quad) : str :=
  let '(s, p, o, g) := q in
  cnq_term bl s ++ [32] ++ cnq_term bl p ++ [32] ++ cnq_term bl o ++ [32]
  ++ match g with Some gn => cnq_term bl gn ++ [32] | None => [] end ++ [46;10].

(* ---------- 4.5 identifier issuer ---------- *)
Record sp_issuer := mkIss {
  si_prefix : str;
  si_counter : N;
  si_issued : list (str * str)       (* issued identifiers map, ordered by insertion *)
}.
Fixpoint sp_lookup (m : list (str * str)) (k : str) : option str :=
  match m with
  | [] => None
  | (a, b) :: r => if str_eqb a k then Some b else sp_lookup r k
  end.
Definition sp_has (i : sp_issuer) (k : str) : bool :=
  match sp_lookup (si_issued i) k with Some _ => true | None => false end.
(* Issue Identifier: (issuer after, issued identifier) *)
Definition sp_issue (i : sp_issuer) (existing : str) : sp_issuer * str :=
  match sp_lookup (si_issued i) existing with
  | Some id => (i, id)
  | None =>
      let id := si_prefix i ++ dec (si_counter i) in
      (mkIss (si_prefix i) (si_counter i + 1) (si_issued i ++ [(existing, id)]), id)
  end.

(* ---------- blank nodes of a quad; the blank node to quads map as a function ---------- *)
Definition sp_label (t : term) : list str := match t with Bnode b => [b] | _ => [] end.
(* subject, object, graph name (a predicate is never a blank node) *)
Definition sp_positions (q : quad) : list (N * term) :=
  let '(s, _, o, g) := q in
  [(115, s); (111, o)] ++ match g with Some gn => [(103, gn)] | None => [] end.
Definition sp_mentions (b : str) (q : quad) : bool :=
  existsb (fun pt => existsb (str_eqb b) (sp_label (snd pt))) (sp_positions q).
(* 4.4 step 2: every quad referenced once from the entry of each blank node it mentions *)
Definition sp_quads_of (d : list quad) (b : str) : list quad := filter (sp_mentions b) d.
Fixpoint sp_dedup (l : list str) : list str :=
  match l with
  | [] => []
  | x :: r => x :: filter (fun y => negb (str_eqb x y)) (sp_dedup r)
  end.
(* keys of the blank node to quads map, in order of first occurrence *)
Definition sp_nodes (d : list quad) : list str :=
  sp_dedup (flat_map (fun q => flat_map (fun pt => sp_label (snd pt)) (sp_positions q)) d).

(* a map from hashes to lists, "code point ordered by hash": distinct keys in code point order,
   each with its values in insertion order *)
Definition sp_group (entries : list (str * str)) : list (str * list str) :=
  map (fun k => (k, map snd (filter (fun e => str_eqb (fst e) k) entries)))
      (sort_by str_leb (sp_dedup (map fst entries))).

Definition is_rdf_term (t : term) : bool :=
  match t with Triple _ _ _ | Var _ => false | _ => true end.
Definition sp_supported (q : quad) : bool :=
  let '(s, p, o, g) := q in
  match p with Iri _ => true | _ => false end
  && is_rdf_term s && is_rdf_term o && match g with Some gn => is_rdf_term gn | None => true end.

Inductive sp_result (A : Type) := SpOk (a : A) | SpUnsupported | SpFuel.
Arguments SpOk {A} a.
Arguments SpUnsupported {A}.
Arguments SpFuel {A}.

Section Spec.
Variable H : str -> str.
Variable perms : list str -> list (list str).
Variable node_order : list str -> list str.
(* [true] = the algorithm of the Recommendation; [false] = the same without step 5.2.1 of 4.4
   (used to state what is proved about the implementation, which has no such step) *)
Variable step_5_2_1 : bool.
Variable d : list quad.                 (* the input dataset *)

(* ---------- 4.6 Hash First Degree Quads ---------- *)
Definition sp_h1 (reference : str) : str :=
  let nquads :=
    map (cnq_quad (fun b => if str_eqb b reference then [97] else [122])) (sp_quads_of d reference) in
  H (concat (sort_by str_leb nquads)).

(* ---------- 4.7 Hash Related Blank Node ---------- *)
Definition sp_pred (q : quad) : str := match q with (_, Iri p, _, _) => p | _ => [] end.
Definition sp_hash_related (canon : sp_issuer) (related : str) (q : quad) (issuer : sp_issuer)
           (position : N) : str :=
  let input1 := [position] in
  let input2 := if position =? 103 then input1 else input1 ++ [60] ++ sp_pred q ++ [62] in
  let input3 :=
    match sp_lookup (si_issued canon) related with
    | Some c => input2 ++ [95;58] ++ c
    | None =>
        match sp_lookup (si_issued issuer) related with
        | Some t => input2 ++ [95;58] ++ t
        | None => input2 ++ sp_h1 related
        end
    end in
  H input3.

(* the specification's rule for abandoning a permutation (5.4.4.3 and 5.4.5.5) *)
Definition sp_skip (chosen path : str) : bool :=
  negb (is_nil chosen) && (length chosen <=? length path)%nat
  && match str_cmp path chosen with Gt => true | _ => false end.

(* 5.4.4; None = skip to the next permutation *)
Fixpoint sp_5_4_4 (canon : sp_issuer) (chosen : str) (issuer_copy : sp_issuer) (path : str)
         (recursion_list : list str) (p : list str) : option (sp_issuer * str * list str) :=
  match p with
  | [] => Some (issuer_copy, path, recursion_list)
  | related :: p' =>
      let '(issuer_copy', path', recursion_list') :=
        match sp_lookup (si_issued canon) related with
        | Some c => (issuer_copy, path ++ [95;58] ++ c, recursion_list)
        | None =>
            let rl := if sp_has issuer_copy related then recursion_list
                      else recursion_list ++ [related] in
            let (ic, id) := sp_issue issuer_copy related in
            (ic, path ++ [95;58] ++ id, rl)
        end in
      if sp_skip chosen path' then None
      else sp_5_4_4 canon chosen issuer_copy' path' recursion_list' p'
  end.

Section NDegree.
(* the recursive execution of this algorithm: identifier, issuer |-> (hash, issuer) *)
Variable recur : str -> sp_issuer -> sp_result (str * sp_issuer).
Variable canon : sp_issuer.

(* 5.4.5 *)
Fixpoint sp_5_4_5 (chosen : str) (issuer_copy : sp_issuer) (path : str) (rl : list str)
  : sp_result (option (sp_issuer * str)) :=
  match rl with
  | [] => SpOk (Some (issuer_copy, path))
  | related :: rl' =>
      match recur related issuer_copy with
      | SpOk (h, result_issuer) =>
          let (_, id) := sp_issue issuer_copy related in
          let path' := path ++ [95;58] ++ id ++ [60] ++ h ++ [62] in
          if sp_skip chosen path' then SpOk None
          else sp_5_4_5 chosen result_issuer path' rl'
      | SpUnsupported => SpUnsupported
      | SpFuel => SpFuel
      end
  end.

(* 5.4: all permutations; state = (chosen path, chosen issuer) *)
Fixpoint sp_5_4 (issuer : sp_issuer) (chosen : str) (chosen_issuer : option sp_issuer)
         (ps : list (list str)) : sp_result (str * option sp_issuer) :=
  match ps with
  | [] => SpOk (chosen, chosen_issuer)
  | p :: ps' =>
      match sp_5_4_4 canon chosen issuer [] [] p with
      | None => sp_5_4 issuer chosen chosen_issuer ps'
      | Some (issuer_copy, path, rl) =>
          match sp_5_4_5 chosen issuer_copy path rl with
          | SpOk None => sp_5_4 issuer chosen chosen_issuer ps'
          | SpOk (Some (issuer_copy', path')) =>
              if is_nil chosen || str_ltb path' chosen
              then sp_5_4 issuer path' (Some issuer_copy') ps'
              else sp_5_4 issuer chosen chosen_issuer ps'
          | SpUnsupported => SpUnsupported
          | SpFuel => SpFuel
          end
      end
  end.

(* 5: each related hash, code point ordered; the issuer is replaced by reference (5.6) *)
Fixpoint sp_5 (issuer : sp_issuer) (data : str) (hn : list (str * list str))
  : sp_result (str * sp_issuer) :=
  match hn with
  | [] => SpOk (data, issuer)
  | (related_hash, blank_node_list) :: hn' =>
      match sp_5_4 issuer [] None (perms blank_node_list) with
      | SpOk (chosen, chosen_issuer) =>
          sp_5 (match chosen_issuer with Some i => i | None => issuer end)
               (data ++ related_hash ++ chosen) hn'
      | SpUnsupported => SpUnsupported
      | SpFuel => SpFuel
      end
  end.

(* 4.8 steps 1-3 *)
Definition sp_hn (identifier : str) (issuer : sp_issuer) : list (str * list str) :=
  sp_group
    (flat_map (fun q =>
       flat_map (fun pt =>
         flat_map (fun b =>
           if str_eqb b identifier then []
           else [(sp_hash_related canon b q issuer (fst pt), b)]) (sp_label (snd pt)))
         (sp_positions q))
       (sp_quads_of d identifier)).

Definition sp_n_degree_body (identifier : str) (issuer : sp_issuer)
  : sp_result (str * sp_issuer) :=
  match sp_5 issuer [] (sp_hn identifier issuer) with
  | SpOk (data, issuer') => SpOk (H data, issuer')
  | SpUnsupported => SpUnsupported
  | SpFuel => SpFuel
  end.
End NDegree.

Fixpoint sp_n_degree (fuel : nat) (canon : sp_issuer) (identifier : str) (issuer : sp_issuer)
  : sp_result (str * sp_issuer) :=
  match fuel with
  | O => SpFuel
  | S f => sp_n_degree_body (sp_n_degree f canon) canon identifier issuer
  end.

(* ---------- 4.4 canonicalization algorithm ---------- *)
Definition sp_issue_ (i : sp_issuer) (e : str) : sp_issuer := fst (sp_issue i e).
(* step 4 *)
Fixpoint sp_step4 (h2b : list (str * list str)) (canon : sp_issuer)
  : list (str * list str) * sp_issuer :=
  match h2b with
  | [] => ([], canon)
  | (h, ids) :: r =>
      match ids with
      | [single] => sp_step4 r (sp_issue_ canon single)
      | _ => let (m, c) := sp_step4 r canon in ((h, ids) :: m, c)
      end
  end.
(* step 5.2 *)
Fixpoint sp_step5_2 (fuel : nat) (canon : sp_issuer) (ids : list str)
  : sp_result (list (str * sp_issuer)) :=
  match ids with
  | [] => SpOk []
  | n :: ids' =>
      if step_5_2_1 && sp_has canon n then sp_step5_2 fuel canon ids'      (* 5.2.1 *)
      else
        let temporary := sp_issue_ (mkIss [98] 0 []) n in                  (* 5.2.2, 5.2.3 *)
        match sp_n_degree fuel canon n temporary with                      (* 5.2.4 *)
        | SpOk r =>
            match sp_step5_2 fuel canon ids' with
            | SpOk l => SpOk (r :: l)
            | SpUnsupported => SpUnsupported
            | SpFuel => SpFuel
            end
        | SpUnsupported => SpUnsupported
        | SpFuel => SpFuel
        end
  end.
(* step 5.3 *)
Definition sp_step5_3 (canon : sp_issuer) (hash_path_list : list (str * sp_issuer)) : sp_issuer :=
  fold_left (fun c result => fold_left sp_issue_ (map fst (si_issued (snd result))) c)
            (sort_by (fun a b => str_leb (fst a) (fst b)) hash_path_list) canon.
Fixpoint sp_step5 (fuel : nat) (canon : sp_issuer) (h2b : list (str * list str))
  : sp_result sp_issuer :=
  match h2b with
  | [] => SpOk canon
  | (_, ids) :: r =>
      match sp_step5_2 fuel canon ids with
      | SpOk hash_path_list => sp_step5 fuel (sp_step5_3 canon hash_path_list) r
      | SpUnsupported => SpUnsupported
      | SpFuel => SpFuel
      end
  end.

(* the serialized canonical form and the issued identifiers map *)
Definition spec_model (fuel : nat) : sp_result (str * list (str * str)) :=
  if negb (forallb sp_supported d) then SpUnsupported
  else
    let nodes := node_order (sp_nodes d) in
    let h2b := sp_group (map (fun n => (sp_h1 n, n)) nodes) in             (* step 3 *)
    let (h2b', canon) := sp_step4 h2b (mkIss s_c14n 0 []) in               (* step 4 *)
    match sp_step5 fuel canon h2b' with                                    (* step 5 *)
    | SpOk canon' =>
        let relabel := fun b => match sp_lookup (si_issued canon') b with Some c => c | None => [] end in
        SpOk (concat (sort_by str_leb (map (cnq_quad relabel) d)), si_issued canon')
    | SpUnsupported => SpUnsupported
    | SpFuel => SpFuel
    end.
End Spec.

(* the implementation's choices for the open orders *)
Definition label_order (l : list str) : list str := sort_by str_leb l.

(* ---------- harness-facing: implementation = model of the implementation = specification ---------- *)
Definition three_ok (repaired : bool) (tbl : list (str * str)) (df1000 plimit : N) (d : list quad)
           (code : N) (bytes : str) (idmap : list (str * str)) : bool :=
  impl_ok repaired tbl df1000 plimit d code bytes idmap
  && match spec_model (tbl_H tbl) heap_perms label_order true d (fuel_for d) with
     | SpOk (b, i) =>
         if code =? 0 then str_eqb b bytes && list_eqb pair_eqb (sort_by pair_leb i) idmap
         else (code =? 3) || (code =? 4)       (* only a configured limit may stand in the way *)
     | SpUnsupported =>
         (code =? 1) || (code =? 2)
         (* generalized RDF (a literal as predicate) is outside RDFC-1.0 and outside the property:
            only the model of the implementation is compared there *)
         || existsb (fun q => match q_pred q with Iri _ | Bnode _ => false | _ => true end) d
     | SpFuel => false
     end.
