(* C05/Bijection.v -- the identifier map of RDFC-1.0 (relabel_with / normalize_with of Model.v)
   is a bijection between the blank node labels of the dataset and c14n0 .. c14n(n-1).
   Stdlib only, closed under the global context. *)
From Sophia.C05 Require Import Model.
From Sophia.C05 Require Import Heap.
From Coq Require Import Permutation.

(* ================= A. decimal rendering is injective ================= *)
Fixpoint val (l : str) : N :=
  match l with [] => 0 | c :: r => (c - 48) + 10 * val r end.

Lemma rdigits_S f n :
  rdigits (S f) n = (48 + n mod 10) :: (if n <? 10 then [] else rdigits f (n / 10)).
Proof. reflexivity. Qed.

Lemma val_rdigits : forall f n, n < 2 ^ N.of_nat f -> val (rdigits (S f) n) = n.
Proof.
  induction f as [|f IH]; intros n Hn.
  - change (N.of_nat 0) with 0 in Hn. rewrite N.pow_0_r in Hn.
    assert (n = 0) by lia. subst. reflexivity.
  - rewrite Nat2N.inj_succ, N.pow_succ_r' in Hn.
    remember (2 ^ N.of_nat f) as P eqn:EP. clear EP.
    rewrite rdigits_S. destruct (N.ltb_spec n 10) as [L|L].
    + cbn [val]. rewrite N.mod_small by lia. lia.
    + cbn [val]. rewrite IH.
      * pose proof (N.div_mod n 10 ltac:(lia)) as D.
        remember (n / 10) as q eqn:Eq. remember (n mod 10) as r eqn:Er. clear Eq Er. lia.
      * apply N.div_lt_upper_bound; lia.
Qed.

Lemma val_dec n : val (rev (dec n)) = n.
Proof.
  unfold dec. rewrite rev_involutive. apply val_rdigits.
  rewrite N2Nat.id. apply N.size_gt.
Qed.

Theorem dec_inj : forall a b : N, dec a = dec b -> a = b.
Proof. intros a b E. rewrite <- (val_dec a), <- (val_dec b), E. reflexivity. Qed.

Lemma pfx_dec_inj (pfx : str) a b : pfx ++ dec a = pfx ++ dec b -> a = b.
Proof. intros E. apply app_inv_head in E. apply dec_inj; exact E. Qed.

(* ================= B. issuer invariants ================= *)
Definition wf_iss (pfx : str) (i : issuer) : Prop :=
  NoDup (map fst i)
  /\ map snd i = map (fun k => pfx ++ dec (N.of_nat k)) (seq 0 (length i)).

Lemma wf_iss_nil pfx : wf_iss pfx [].
Proof. split; [constructor|reflexivity]. Qed.

Lemma bt_get_Some_In {V} (m : list (str * V)) k v : bt_get m k = Some v -> In (k, v) m.
Proof.
  induction m as [|[k' v'] m IH]; cbn [bt_get]; [discriminate|].
  destruct (str_eqb_spec k' k) as [->|Hn].
  - intros E; injection E as ->. left; reflexivity.
  - intros E; right; auto.
Qed.

Lemma bt_get_None_notin {V} (m : list (str * V)) k : bt_get m k = None -> ~ In k (map fst m).
Proof.
  induction m as [|[k' v'] m IH]; cbn [bt_get map fst]; [intros _ []|].
  destruct (str_eqb_spec k' k) as [->|Hn]; [discriminate|].
  intros E [F|F]; [congruence|]. apply IH in E. contradiction.
Qed.

Lemma iss_get_In i b id : iss_get i b = Some id -> In (b, id) i.
Proof. apply bt_get_Some_In. Qed.

Lemma iss_get_In_fst i b id : iss_get i b = Some id -> In b (map fst i).
Proof. intros E. apply iss_get_In in E. apply (in_map fst) in E. exact E. Qed.

Lemma iss_get_notin i b : ~ In b (map fst i) -> iss_get i b = None.
Proof.
  intros Hn. destruct (iss_get i b) as [id|] eqn:E; [|reflexivity].
  apply iss_get_In_fst in E. contradiction.
Qed.

Lemma issue_cases pfx i b :
  (issue_ pfx i b = i /\ In b (map fst i))
  \/ (~ In b (map fst i) /\ issue_ pfx i b = i ++ [(b, pfx ++ dec (N.of_nat (length i)))]).
Proof.
  unfold issue_, issue. destruct (iss_get i b) as [id|] eqn:E.
  - left. split; [reflexivity|]. eapply iss_get_In_fst; eauto.
  - right. split; [|reflexivity]. apply bt_get_None_notin. exact E.
Qed.

Lemma wf_iss_issue pfx i b : wf_iss pfx i -> wf_iss pfx (issue_ pfx i b).
Proof.
  intros [Hnd Hs]. destruct (issue_cases pfx i b) as [[-> _]|[Hn ->]]; [split; assumption|].
  split.
  - rewrite map_app. cbn [map fst].
    apply NoDup_app_intro; [exact Hnd|constructor; [intros []|constructor]|].
    intros x Hx [<-|[]]. contradiction.
  - rewrite map_app, app_length. cbn [map snd length].
    replace (length i + 1)%nat with (S (length i)) by lia.
    rewrite seq_S, map_app, <- Hs. reflexivity.
Qed.

Lemma issue_In pfx i b : In b (map fst (issue_ pfx i b)).
Proof.
  destruct (issue_cases pfx i b) as [[-> Hi]|[_ ->]]; [exact Hi|].
  rewrite map_app. apply in_or_app. right. left. reflexivity.
Qed.

Lemma issue_mono pfx i b : incl (map fst i) (map fst (issue_ pfx i b)).
Proof.
  destruct (issue_cases pfx i b) as [[-> _]|[_ ->]]; [apply incl_refl|].
  rewrite map_app. apply incl_appl, incl_refl.
Qed.

Lemma issue_inv pfx i b x : In x (map fst (issue_ pfx i b)) -> x = b \/ In x (map fst i).
Proof.
  destruct (issue_cases pfx i b) as [[-> _]|[_ ->]]; [auto|].
  rewrite map_app. intros Hx. apply in_app_or in Hx as [Hx|[<-|[]]]; auto.
Qed.

Lemma issue_incl pfx i b (B : list str) :
  incl (map fst i) B -> In b B -> incl (map fst (issue_ pfx i b)) B.
Proof. intros Hi Hb x Hx. apply issue_inv in Hx as [->|Hx]; auto. Qed.

Lemma wf_iss_issue_all pfx bs : forall i, wf_iss pfx i -> wf_iss pfx (issue_all pfx i bs).
Proof.
  unfold issue_all. induction bs as [|b bs IH]; intros i Hw; cbn [fold_left]; [exact Hw|].
  apply IH, wf_iss_issue, Hw.
Qed.

Lemma issue_all_mono pfx bs : forall i, incl (map fst i) (map fst (issue_all pfx i bs)).
Proof.
  unfold issue_all. induction bs as [|b bs IH]; intros i; cbn [fold_left]; [apply incl_refl|].
  eapply incl_tran; [apply issue_mono|apply IH].
Qed.

Lemma issue_all_In pfx bs : forall i b, In b bs -> In b (map fst (issue_all pfx i bs)).
Proof.
  unfold issue_all. induction bs as [|b0 bs IH]; intros i b; cbn [fold_left]; [intros []|].
  intros [->|Hb]; [|apply IH; exact Hb].
  apply (issue_all_mono pfx bs). apply issue_In.
Qed.

Lemma issue_all_inv pfx bs : forall i x,
  In x (map fst (issue_all pfx i bs)) -> In x bs \/ In x (map fst i).
Proof.
  unfold issue_all. induction bs as [|b bs IH]; intros i x; cbn [fold_left]; [auto|].
  intros Hx. apply IH in Hx as [Hx|Hx]; [left; right; exact Hx|].
  apply issue_inv in Hx as [->|Hx]; [left; left; reflexivity|right; exact Hx].
Qed.

Lemma issue_all_incl pfx bs i (B : list str) :
  incl (map fst i) B -> incl bs B -> incl (map fst (issue_all pfx i bs)) B.
Proof. intros Hi Hb x Hx. apply issue_all_inv in Hx as [Hx|Hx]; auto. Qed.

Lemma wf_iss_snd_nodup pfx i : wf_iss pfx i -> NoDup (map snd i).
Proof.
  intros [_ ->]. apply NoDup_map_inj; [|apply seq_NoDup].
  intros a b E. apply pfx_dec_inj in E. lia.
Qed.

(* ================= C. labels issued by hash_n_degree_quads come from the dataset ========== *)
Lemma bt_push_in {V} (k : str) (v : V) : forall m k' vs,
  In (k', vs) (bt_push k v m) ->
  In (k', vs) m
  \/ (k' = k /\ forall x, In x vs -> x = v \/ exists vs0, In (k, vs0) m /\ In x vs0).
Proof.
  induction m as [|[k0 vs0] m IH]; intros k' vs; cbn [bt_push].
  - intros [E|[]]. injection E as <- <-. right. split; [reflexivity|].
    intros x [<-|[]]. left; reflexivity.
  - destruct (str_cmp k k0) eqn:Ec.
    + apply str_cmp_eq in Ec. subst k0.
      intros [E|Hin]; [|left; right; exact Hin].
      injection E as <- <-. right. split; [reflexivity|].
      intros x Hx. apply in_app_or in Hx as [Hx|[<-|[]]]; [|left; reflexivity].
      right. exists vs0. split; [left; reflexivity|exact Hx].
    + intros [E|Hin]; [|left; exact Hin].
      injection E as <- <-. right. split; [reflexivity|].
      intros x [<-|[]]. left; reflexivity.
    + intros [E|Hin]; [left; left; exact E|].
      apply IH in Hin as [Hin|[-> Hx]]; [left; right; exact Hin|].
      right. split; [reflexivity|]. intros x Hin. apply Hx in Hin as [->|[vs1 [H1 H2]]]; [left; reflexivity|].
      right. exists vs1. split; [right; exact H1|exact H2].
Qed.

Lemma comp_in_bnodes_q q pos c b :
  In (pos, c) (comps q) -> bnode_id c = Some b -> In b (bnodes_q q).
Proof.
  intros Hc Hb. unfold bnodes_q. apply in_flat_map. exists (pos, c). split; [exact Hc|].
  unfold comp_label. cbn [snd]. rewrite Hb. left; reflexivity.
Qed.

Section Labels.
Variable H : str -> str.
Variable B : list str.

Definition closed (st : state) : Prop :=
  forall k qs q, In (k, qs) (st_b2q st) -> In q qs -> incl (bnodes_q q) B.
Definition hn_ok (hn : list (str * list str)) : Prop :=
  forall k bl, In (k, bl) hn -> incl bl B.
Definition rec_ok (rec : str -> issuer -> N -> res (str * issuer)) : Prop :=
  forall r ic dp h ic', incl (map fst ic) B -> rec r ic dp = Ok (h, ic') -> incl (map fst ic') B.
Definition acc_ok (acc : str * option issuer) : Prop :=
  forall i, snd acc = Some i -> incl (map fst i) B.

Lemma hn_ok_push h b hn : hn_ok hn -> In b B -> hn_ok (bt_push h b hn).
Proof.
  intros Hok Hb k bl Hin. apply bt_push_in in Hin as [Hin|[-> Hx]]; [eapply Hok; eauto|].
  intros x Hin. apply Hx in Hin as [->|[vs0 [H1 H2]]]; [exact Hb|].
  eapply Hok; eauto.
Qed.

Lemma hn_comps_ok st ident iss q : forall cs hn hn',
  (forall c, In c cs -> In c (comps q)) -> incl (bnodes_q q) B -> hn_ok hn ->
  hn_comps H st ident iss q cs hn = Ok hn' -> hn_ok hn'.
Proof.
  induction cs as [|[pos c] cs IH]; intros hn hn' Hc Hq Hok E; cbn [hn_comps] in E.
  - injection E as <-. exact Hok.
  - assert (Hc' : forall c0, In c0 cs -> In c0 (comps q)) by (intros c0 H0; apply Hc; right; exact H0).
    destruct (bnode_id c) as [b|] eqn:Eb; [|eapply IH; eauto].
    destruct (str_eqb b ident); [eapply IH; eauto|].
    destruct (hash_related H st b q iss pos) as [h|e]; [|discriminate].
    eapply IH; [exact Hc'|exact Hq| |exact E].
    apply hn_ok_push; [exact Hok|]. apply Hq.
    eapply comp_in_bnodes_q; [apply Hc; left; reflexivity|exact Eb].
Qed.

Lemma hn_quads_ok st ident iss : forall qs hn hn',
  (forall q, In q qs -> incl (bnodes_q q) B) -> hn_ok hn ->
  hn_quads H st ident iss qs hn = Ok hn' -> hn_ok hn'.
Proof.
  induction qs as [|q qs IH]; intros hn hn' Hq Hok E; cbn [hn_quads] in E.
  - injection E as <-. exact Hok.
  - destruct (hn_comps H st ident iss q (comps q) hn) as [hn1|e] eqn:E1; [|discriminate].
    eapply IH; [| |exact E].
    + intros q0 H0. apply Hq. right; exact H0.
    + eapply hn_comps_ok; [| |exact Hok|exact E1]; [auto|apply Hq; left; reflexivity].
Qed.

Lemma perm_ids_labels canon : forall p ic path rl ic' path' rl',
  incl p B -> incl (map fst ic) B ->
  perm_ids canon ic path rl p = (ic', path', rl') ->
  incl (map fst ic') B /\ (incl rl B -> incl rl' B).
Proof.
  induction p as [|r p IH]; intros ic path rl ic' path' rl' Hp Hi E; cbn [perm_ids] in E.
  - injection E as <- _ <-. split; auto.
  - assert (Hr : In r B) by (apply Hp; left; reflexivity).
    assert (Hp' : incl p B) by (intros x Hx; apply Hp; right; exact Hx).
    destruct (iss_get canon r) as [cid|]; [eapply IH; eauto|].
    destruct (issue s_b ic r) as [[ic1 id] new] eqn:Ei.
    assert (E1 : ic1 = issue_ s_b ic r) by (unfold issue_; rewrite Ei; reflexivity).
    apply IH in E; [|exact Hp'|subst ic1; apply issue_incl; assumption].
    destruct E as [E2 E3]. split; [exact E2|]. intros Hrl. apply E3.
    destruct new; [|exact Hrl]. apply incl_app; [exact Hrl|]. intros x [<-|[]]. exact Hr.
Qed.

Lemma perm_rec_labels rec st chosen depth : rec_ok rec ->
  forall rl ic path ic' path',
  incl (map fst ic) B ->
  perm_rec rec st chosen depth ic path rl = Ok (Some (ic', path')) ->
  incl (map fst ic') B.
Proof.
  intros Hrec. induction rl as [|r rl IH]; intros ic path ic' path' Hi E; cbn [perm_rec] in E.
  - injection E as <- _. exact Hi.
  - destruct (rec r ic (depth + 1)) as [[h ic2]|e] eqn:Er; [|discriminate].
    destruct (issue s_b ic r) as [[ic1 id] new].
    match type of E with (if ?c then _ else _) = _ => destruct c end; [discriminate|].
    eapply IH; [|exact E]. eapply Hrec; eauto.
Qed.

Lemma one_perm_ok rec st base depth acc p acc' :
  rec_ok rec -> incl (map fst base) B -> incl p B -> acc_ok acc ->
  one_perm rec st base depth acc p = Ok acc' -> acc_ok acc'.
Proof.
  intros Hrec Hb Hp Hacc E. unfold one_perm in E. destruct acc as [chosen ci].
  destruct (perm_ids (st_canon st) base [] [] p) as [[ic path] rl] eqn:Ep.
  apply perm_ids_labels in Ep as [Hic _]; [|exact Hp|exact Hb].
  match type of E with (if ?c then _ else _) = _ => destruct c end;
    [injection E as <-; exact Hacc|].
  destruct (perm_rec rec st chosen depth ic path rl) as [[[ic' path']|]|e] eqn:Er;
    [| injection E as <-; exact Hacc | discriminate].
  eapply perm_rec_labels in Er; [|exact Hrec|exact Hic].
  match type of E with (if ?c then _ else _) = _ => destruct c end;
    [|injection E as <-; exact Hacc].
  injection E as <-. intros i Ei. cbn [snd] in Ei. injection Ei as <-. exact Er.
Qed.

Lemma all_perms_ok rec st base depth : rec_ok rec -> incl (map fst base) B ->
  forall ps acc acc', (forall p, In p ps -> incl p B) -> acc_ok acc ->
  all_perms rec st base depth acc ps = Ok acc' -> acc_ok acc'.
Proof.
  intros Hrec Hb. induction ps as [|p ps IH]; intros acc acc' Hps Hacc E; cbn [all_perms] in E.
  - injection E as <-. exact Hacc.
  - destruct (one_perm rec st base depth acc p) as [acc1|e] eqn:E1; [|discriminate].
    eapply IH; [| |exact E].
    + intros p0 H0. apply Hps. right; exact H0.
    + eapply one_perm_ok; [exact Hrec|exact Hb| |exact Hacc|exact E1]. apply Hps. left; reflexivity.
Qed.

Lemma heap_perms_incl (bl p : list str) : incl bl B -> In p (heap_perms bl) -> incl p B.
Proof.
  intros Hbl Hp x Hx. apply heap_perms_sound in Hp. apply Hbl.
  eapply Permutation_in; [apply Permutation_sym; exact Hp|exact Hx].
Qed.

Lemma hn_groups_ok rec st iss depth : rec_ok rec -> incl (map fst iss) B ->
  forall hn data ret data' ret', hn_ok hn ->
  (forall r, ret = Some r -> incl (map fst r) B) ->
  hn_groups rec st iss depth data ret hn = Ok (data', ret') ->
  forall r, ret' = Some r -> incl (map fst r) B.
Proof.
  intros Hrec Hi. induction hn as [|[rh bl] hn IH]; intros data ret data' ret' Hok Hret E;
    cbn [hn_groups] in E.
  - injection E as _ <-. exact Hret.
  - match type of E with (if ?c then _ else _) = _ => destruct c end; [discriminate|].
    match type of E with match all_perms _ _ ?b _ _ _ with _ => _ end = _ => set (base := b) in * end.
    assert (Hbase : incl (map fst base) B).
    { subst base. destruct ret as [r|]; [apply Hret; reflexivity|exact Hi]. }
    destruct (all_perms rec st base depth ([], None) (heap_perms bl)) as [[chosen ci]|e] eqn:Ea;
      [|discriminate].
    eapply all_perms_ok in Ea; [|exact Hrec|exact Hbase| |intros i Hi0; discriminate].
    + eapply IH; [|exact Ea|exact E]. intros k bl0 H0. eapply Hok. right; exact H0.
    + intros p Hp. eapply heap_perms_incl; [|exact Hp]. eapply Hok. left; reflexivity.
Qed.

Lemma hnd_body_labels rec st ident iss depth h iss' :
  rec_ok rec -> closed st -> incl (map fst iss) B ->
  hnd_body H rec st ident iss depth = Ok (h, iss') -> incl (map fst iss') B.
Proof.
  intros Hrec Hcl Hi E. unfold hnd_body in E.
  match type of E with (if ?c then _ else _) = _ => destruct c end; [discriminate|].
  destruct (bt_get (st_b2q st) ident) as [qs|] eqn:Eg; [|discriminate].
  apply bt_get_Some_In in Eg.
  destruct (hn_quads H st ident iss qs []) as [hn|e] eqn:Eq; [|discriminate].
  apply hn_quads_ok in Eq; [| intros q Hq; eapply Hcl; eauto | intros k bl []].
  destruct (hn_groups rec st iss depth [] None hn) as [[data ret]|e] eqn:Eh; [|discriminate].
  injection E as _ <-.
  destruct ret as [r|]; [|exact Hi].
  eapply hn_groups_ok in Eh; [exact Eh|exact Hrec|exact Hi|exact Eq|intros r0 E0; discriminate|reflexivity].
Qed.

Theorem hnd_labels : forall fuel st ident iss depth h iss',
  closed st -> incl (map fst iss) B ->
  hnd H fuel st ident iss depth = Ok (h, iss') -> incl (map fst iss') B.
Proof.
  induction fuel as [|f IH]; intros st ident iss depth h iss' Hcl Hi E; cbn [hnd] in E; [discriminate|].
  eapply hnd_body_labels; [|exact Hcl|exact Hi|exact E].
  intros r ic dp h0 ic' Hic Er. eapply IH; eauto.
Qed.
End Labels.

(* ---------- step 2: the map b2q only mentions quads and labels of the dataset ---------- *)
Definition m_ok (D : list quad) (m : b2q_t) : Prop :=
  forall k qs, In (k, qs) m -> In k (bnodes D) /\ forall q, In q qs -> In q D.

Lemma m_ok_push D b q m : In b (bnodes D) -> In q D -> m_ok D m -> m_ok D (bt_push b q m).
Proof.
  intros Hb Hq Hm k qs Hin. apply bt_push_in in Hin as [Hin|[-> Hx]]; [apply Hm; exact Hin|].
  split; [exact Hb|]. intros q0 H0. apply Hx in H0 as [->|[vs0 [H1 H2]]]; [exact Hq|].
  eapply Hm; eauto.
Qed.

Lemma step2_comps_ok once D q : In q D -> forall cs seen m m',
  (forall c, In c cs -> In c (comps q)) -> m_ok D m ->
  step2_comps once q seen cs m = Ok m' -> m_ok D m'.
Proof.
  intros HqD. induction cs as [|[pos c] cs IH]; intros seen m m' Hc Hm E; cbn [step2_comps] in E.
  - injection E as <-. exact Hm.
  - assert (Hc' : forall c0, In c0 cs -> In c0 (comps q)) by (intros c0 H0; apply Hc; right; exact H0).
    destruct (is_bad c); [discriminate|].
    destruct (bnode_id c) as [b|] eqn:Eb; [|eapply IH; eauto].
    destruct (once && mem b seen); [eapply IH; eauto|].
    eapply IH; [exact Hc'| |exact E].
    apply m_ok_push; [|exact HqD|exact Hm].
    unfold bnodes. apply in_flat_map. exists q. split; [exact HqD|].
    eapply comp_in_bnodes_q; [apply Hc; left; reflexivity|exact Eb].
Qed.

Lemma step2_ok once D : forall d m m', incl d D -> m_ok D m ->
  step2 once d m = Ok m' -> m_ok D m'.
Proof.
  induction d as [|q d IH]; intros m m' Hd Hm E; cbn [step2] in E.
  - injection E as <-. exact Hm.
  - destruct (bnode_id (q_pred q)); [discriminate|].
    destruct (step2_comps once q [] (comps q) m) as [m1|e] eqn:E1; [|discriminate].
    eapply IH; [|eapply step2_comps_ok; [| |exact Hm|exact E1]|exact E].
    + intros x Hx. apply Hd. right; exact Hx.
    + apply Hd. left; reflexivity.
    + auto.
Qed.

Theorem step2_closed : forall once d m, step2 once d [] = Ok m ->
  (forall k qs q, In (k, qs) m -> In q qs -> In q d)
  /\ (forall k qs, In (k, qs) m -> In k (bnodes d)).
Proof.
  intros once d m E.
  assert (Hm : m_ok d m).
  { eapply step2_ok; [apply incl_refl| |exact E]. intros k qs []. }
  split.
  - intros k qs q H1 H2. apply Hm in H1 as [_ H1]. apply H1; exact H2.
  - intros k qs H1. apply Hm in H1 as [H1 _]. exact H1.
Qed.

Lemma bnodes_q_incl d q : In q d -> incl (bnodes_q q) (bnodes d).
Proof. intros Hq b Hb. unfold bnodes. apply in_flat_map. exists q. split; assumption. Qed.

(* ---------- steps 3, 4, 5 ---------- *)
Lemma step3_h2b_ok (B : list str) : forall (l : list (str * str)) m,
  (forall e, In e l -> In (fst e) B) -> hn_ok B m ->
  hn_ok B (fold_left (fun m e => bt_push (snd e) (fst e) m) l m).
Proof.
  induction l as [|e l IH]; intros m Hl Hm; cbn [fold_left]; [exact Hm|].
  apply IH.
  - intros e0 H0. apply Hl. right; exact H0.
  - apply hn_ok_push; [exact Hm|]. apply Hl. left; reflexivity.
Qed.

Lemma step4_ok (B : list str) : forall h2b canon n c,
  hn_ok B h2b -> wf_iss s_c14n canon -> incl (map fst canon) B ->
  step4 h2b canon = (n, c) ->
  hn_ok B n /\ wf_iss s_c14n c /\ incl (map fst c) B.
Proof.
  induction h2b as [|[h bl] r IH]; intros canon n c Hok Hw Hi E; cbn [step4] in E.
  - injection E as <- <-. split; [intros k bl []|split; assumption].
  - assert (Hr : hn_ok B r) by (intros k bl0 H0; eapply Hok; right; exact H0).
    assert (Hbl : incl bl B) by (eapply Hok; left; reflexivity).
    destruct bl as [|b [|b' bl]].
    + destruct (step4 r canon) as [n1 c1] eqn:E1. injection E as <- <-.
      apply IH in E1 as (H1 & H2 & H3); try assumption.
      split; [|split; assumption]. intros k bl0 [E0|H0]; [injection E0 as <- <-; exact Hbl|eapply H1; eauto].
    + eapply IH; [exact Hr| | |exact E].
      * apply wf_iss_issue; exact Hw.
      * apply issue_incl; [exact Hi|]. apply Hbl. left; reflexivity.
    + destruct (step4 r canon) as [n1 c1] eqn:E1. injection E as <- <-.
      apply IH in E1 as (H1 & H2 & H3); try assumption.
      split; [|split; assumption]. intros k bl0 [E0|H0]; [injection E0 as <- <-; exact Hbl|eapply H1; eauto].
Qed.

Lemma insert_by_In {A} (leb : A -> A -> bool) x y : forall l, In x (insert_by leb y l) -> x = y \/ In x l.
Proof.
  induction l as [|z l IH]; cbn [insert_by].
  - intros [<-|[]]. left; reflexivity.
  - destruct (leb y z).
    + intros [<-|Hx]; [left; reflexivity|right; exact Hx].
    + intros [<-|Hx]; [right; left; reflexivity|].
      apply IH in Hx as [->|Hx]; [left; reflexivity|right; right; exact Hx].
Qed.

Lemma sort_by_In {A} (leb : A -> A -> bool) x : forall l, In x (sort_by leb l) -> In x l.
Proof.
  unfold sort_by. induction l as [|y l IH]; cbn [fold_right]; [auto|].
  intros Hx. apply insert_by_In in Hx as [->|Hx]; [left; reflexivity|right; apply IH; exact Hx].
Qed.

Section Steps.
Variable H : str -> str.
Variable B : list str.

Lemma step5_paths_ok fuel st : closed B st -> forall ids paths, incl ids B ->
  step5_paths H fuel st ids = Ok paths ->
  forall r, In r paths -> incl (map fst (snd r)) B.
Proof.
  intros Hcl. induction ids as [|n ids IH]; intros paths Hids E; cbn [step5_paths] in E.
  - injection E as <-. intros r [].
  - destruct (hnd H fuel st n (issue_ s_b [] n) 0) as [[h i']|e] eqn:Eh; [|discriminate].
    destruct (step5_paths H fuel st ids) as [l|e] eqn:El; [|discriminate].
    injection E as <-. intros r [<-|Hr].
    + cbn [snd]. eapply hnd_labels; [exact Hcl| |exact Eh].
      apply issue_incl; [intros x []|apply Hids; left; reflexivity].
    + eapply IH; [|reflexivity|exact Hr]. intros x Hx. apply Hids. right; exact Hx.
Qed.

Lemma step5_fold_ok : forall (l : list (str * issuer)) canon,
  (forall r, In r l -> incl (map fst (snd r)) B) ->
  wf_iss s_c14n canon -> incl (map fst canon) B ->
  let c := fold_left (fun c r => issue_all s_c14n c (map fst (snd r))) l canon in
  wf_iss s_c14n c /\ incl (map fst c) B.
Proof.
  induction l as [|r l IH]; intros canon Hl Hw Hi; cbn [fold_left]; [split; assumption|].
  apply IH.
  - intros r0 H0. apply Hl. right; exact H0.
  - apply wf_iss_issue_all; exact Hw.
  - apply issue_all_incl; [exact Hi|]. apply Hl. left; reflexivity.
Qed.

Lemma step5_issue_ok canon paths :
  (forall r, In r paths -> incl (map fst (snd r)) B) ->
  wf_iss s_c14n canon -> incl (map fst canon) B ->
  wf_iss s_c14n (step5_issue canon paths) /\ incl (map fst (step5_issue canon paths)) B.
Proof.
  intros Hp Hw Hi. unfold step5_issue. apply step5_fold_ok; [|exact Hw|exact Hi].
  intros r Hr. apply Hp. eapply sort_by_In; exact Hr.
Qed.

Lemma step5_ok fuel : forall h2b st issued,
  closed B st -> hn_ok B h2b -> wf_iss s_c14n (st_canon st) -> incl (map fst (st_canon st)) B ->
  step5 H fuel st h2b = Ok issued ->
  wf_iss s_c14n issued /\ incl (map fst issued) B.
Proof.
  induction h2b as [|[h ids] r IH]; intros st issued Hcl Hok Hw Hi E; cbn [step5] in E.
  - injection E as <-. split; assumption.
  - destruct (step5_paths H fuel st ids) as [paths|e] eqn:Ep; [|discriminate].
    assert (Hp : forall r0, In r0 paths -> incl (map fst (snd r0)) B).
    { eapply step5_paths_ok; [exact Hcl| |exact Ep]. eapply Hok. left; reflexivity. }
    destruct (step5_issue_ok (st_canon st) paths Hp Hw Hi) as [Hw' Hi'].
    eapply IH; [| | | |exact E].
    + exact Hcl.
    + intros k bl H0. eapply Hok. right; exact H0.
    + exact Hw'.
    + exact Hi'.
Qed.
End Steps.

(* ---------- step 6 ---------- *)
Lemma relabel_t_spec issued t t' : relabel_t issued t = Ok t' ->
  t' = rename_t (id_of issued) t /\ forall b, bnode_id t = Some b -> In b (map fst issued).
Proof.
  destruct t as [s|s|l dt|l tag|s p o|v]; cbn [relabel_t rename_t bnode_id];
    try (intros E; injection E as <-; split; [reflexivity|intros b Eb; discriminate]).
  destruct (iss_get issued s) as [id|] eqn:Eg; [|discriminate].
  intros E; injection E as <-. split.
  - unfold id_of. rewrite Eg. reflexivity.
  - intros b Eb. injection Eb as <-. eapply iss_get_In_fst; eauto.
Qed.

Lemma comp_label_In c b : In b (comp_label c) -> bnode_id (snd c) = Some b.
Proof.
  unfold comp_label. destruct (bnode_id (snd c)) as [b'|]; [|intros []].
  intros [<-|[]]. reflexivity.
Qed.

Lemma relabel_q_spec issued q q' : relabel_q issued q = Ok q' ->
  q' = rename_q (id_of issued) q /\ incl (bnodes_q q) (map fst issued).
Proof.
  destruct q as [[[s p] o] g]. cbn [relabel_q rename_q].
  destruct (relabel_t issued s) as [s'|e] eqn:Es.
  2:{ destruct (relabel_t issued p); destruct (relabel_t issued o); discriminate. }
  destruct (relabel_t issued p) as [p'|e] eqn:Ep.
  2:{ destruct (relabel_t issued o); discriminate. }
  destruct (relabel_t issued o) as [o'|e] eqn:Eo; [|discriminate].
  apply relabel_t_spec in Es as [-> Hs], Ep as [-> Hp], Eo as [-> Ho].
  destruct g as [t|].
  - destruct (relabel_t issued t) as [t'|e] eqn:Et; [|discriminate].
    apply relabel_t_spec in Et as [-> Ht].
    intros E; injection E as <-. split; [reflexivity|].
    intros b Hb. unfold bnodes_q in Hb. apply in_flat_map in Hb as [c [Hc Hb]].
    apply comp_label_In in Hb. cbn [comps app] in Hc.
    destruct Hc as [<-|[<-|[<-|[<-|[]]]]]; cbn [snd] in Hb; auto.
  - intros E; injection E as <-. split; [reflexivity|].
    intros b Hb. unfold bnodes_q in Hb. apply in_flat_map in Hb as [c [Hc Hb]].
    apply comp_label_In in Hb. cbn [comps app] in Hc.
    destruct Hc as [<-|[<-|[<-|[]]]]; cbn [snd] in Hb; auto.
Qed.

Lemma relabel_qs_spec issued : forall d qs, relabel_qs issued d = Ok qs ->
  qs = map (rename_q (id_of issued)) d /\ incl (bnodes d) (map fst issued).
Proof.
  induction d as [|q d IH]; intros qs E; cbn [relabel_qs] in E.
  - injection E as <-. split; [reflexivity|intros x []].
  - destruct (relabel_q issued q) as [q'|e] eqn:Eq; [|discriminate].
    destruct (relabel_qs issued d) as [l|e] eqn:El; [|discriminate].
    injection E as <-. apply relabel_q_spec in Eq as [-> Hq].
    destruct (IH l eq_refl) as [-> Hd]. split; [reflexivity|].
    unfold bnodes. cbn [flat_map]. apply incl_app; assumption.
Qed.

(* ================= D. the identifier map is a bijection ================= *)
Lemma relabel_with_core H v fuel df pl d qs issued :
  relabel_with H v fuel df pl d = Ok (qs, issued) ->
  wf_iss s_c14n issued
  /\ incl (map fst issued) (bnodes d)
  /\ incl (bnodes d) (map fst issued)
  /\ qs = map (rename_q (id_of issued)) d.
Proof.
  unfold relabel_with. intros E.
  destruct (step2 (v_once v) d []) as [b2q|e] eqn:E2; [|discriminate].
  apply step2_closed in E2 as [Hq Hk].
  set (B := bnodes d).
  assert (Hh2b : hn_ok B (step3_h2b (step3_b2h H b2q))).
  { unfold step3_h2b. apply step3_h2b_ok; [|intros k bl []].
    intros e He. unfold step3_b2h in He. apply in_map_iff in He as [[k qs0] [<- He]].
    cbn [fst]. eapply Hk; exact He. }
  destruct (step4 (step3_h2b (step3_b2h H b2q)) []) as [h2b canon] eqn:E4.
  apply (step4_ok B) in E4 as (H1 & H2 & H3);
    [|exact Hh2b|apply wf_iss_nil|intros x []].
  destruct (step5 H fuel (mkState b2q (step3_b2h H b2q) canon df pl (v_prune v)) h2b) as [iss|e] eqn:E5;
    [|discriminate].
  apply (step5_ok H B) in E5 as [Hw Hi]; [|  |exact H1|exact H2|exact H3].
  2:{ intros k qs0 q Hin Hq0. cbn [st_b2q] in Hin. apply bnodes_q_incl. eapply Hq; eauto. }
  destruct (relabel_qs iss d) as [qs1|e] eqn:E6; [|discriminate].
  injection E as <- <-. apply relabel_qs_spec in E6 as [-> Hd].
  split; [exact Hw|split; [exact Hi|split; [exact Hd|reflexivity]]].
Qed.

Theorem idmap_bijection_core : forall H v fuel df pl d bytes issued,
  normalize_with H v fuel df pl d = Ok (bytes, issued) ->
  NoDup (map fst issued)
  /\ (forall b, In b (map fst issued) <-> In b (bnodes d))
  /\ map snd issued = map c14n_id (seq 0 (length issued))
  /\ NoDup (map snd issued).
Proof.
  intros H v fuel df pl d bytes issued E. unfold normalize_with in E.
  destruct (relabel_with H v fuel df pl d) as [[qs iss]|e] eqn:Er; [|discriminate].
  injection E as _ <-. apply relabel_with_core in Er as (Hw & H1 & H2 & _).
  split; [apply Hw|]. split; [intros b; split; [apply H1|apply H2]|].
  split; [apply Hw|]. eapply wf_iss_snd_nodup; exact Hw.
Qed.

Theorem idmap_bijection : forall H v fuel df pl d bytes issued,
  normalize_with H v fuel df pl d = Ok (bytes, issued) ->
  NoDup (map fst issued)
  /\ (forall b, In b (map fst issued) <-> In b (bnodes d))
  /\ map snd issued = map c14n_id (seq 0 (length issued))
  /\ NoDup (map snd issued)
  /\ relabel_with H v fuel df pl d = Ok (map (rename_q (id_of issued)) d, issued)
  /\ bytes = serialize (map (rename_q (id_of issued)) d).
Proof.
  intros H v fuel df pl d bytes issued E.
  destruct (idmap_bijection_core H v fuel df pl d bytes issued E) as (A1 & A2 & A3 & A4).
  unfold normalize_with in E.
  destruct (relabel_with H v fuel df pl d) as [[qs iss]|e] eqn:Er; [|discriminate].
  injection E as <- <-. pose proof (relabel_with_core _ _ _ _ _ _ _ _ Er) as (_ & _ & _ & ->).
  repeat (split; [assumption|]). split; reflexivity.
Qed.

