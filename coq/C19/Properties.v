(* C19/Properties.v -- pinned statements of property C19. *)
From Sophia.C19 Require Import Model Proofs.
From Sophia.gen Require Consts.

Check (get_confined : forall fs exts caches iri0,
  let iri := hd [] (split_on c_hash iri0) in
  forall p, In p (fst (get fs exts true caches iri0)) -> confined_any exts caches iri p).
Check (found_confined : forall fs exts caches iri0 p ct,
  snd (get fs exts true caches iri0) = Found p ct ->
  confined_any exts caches (hd [] (split_on c_hash iri0)) p).
Check (resolve_safe : forall dir cs base,
  forallb comp_safe cs = true -> path_prefix dir base = true ->
  path_prefix dir (resolve base cs) = true).
(* the statement instantiated with the extension list found in the source today *)
Theorem get_confined_current_exts : forall fs caches iri0 p,
  In p (fst (get fs Consts.loader_exts true caches iri0)) ->
  confined_any Consts.loader_exts caches (hd [] (split_on c_hash iri0)) p.
Proof. intros fs caches iri0 p H. exact (get_confined fs Consts.loader_exts caches iri0 p H). Qed.
(* no negotiated extension contains a path separator (so an extended IRI stays in its namespace) *)
Theorem exts_have_no_slash :
  forallb (fun e => negb (existsb (N.eqb c_slash) e)) Consts.loader_exts = true.
Proof. vm_compute. reflexivity. Qed.

Print Assumptions get_confined.
Print Assumptions found_confined.
Print Assumptions resolve_safe.
Print Assumptions get_confined_current_exts.
Print Assumptions exts_have_no_slash.
Print Assumptions prefix_refuted_dotdot.
Print Assumptions prefix_refuted_abs.
