(* C05/Proofs.v -- gathers the proof files of property C05 (Heap.v: Heap's algorithm; NqProofs.v:
   the canonical N-Quads writer re-reads; FirstDegree.v: BTreeMap lemmas, step 2, invariance of
   first-degree hashes; Bijection.v: issuer invariants and the identifier map; Invariance.v: the
   tie flag erases, invariance when first-degree hashes are distinct; Relabel1.v/Relabel.v:
   invariance under relabelling when no hash path list has two equal hashes; Entry.v/EntryProofs.v:
   entry points with fixed limits, fallible source, writer with a byte budget, independence of the
   final sort and of Heap's algorithm from the order of their input) and adds the statements of
   full invariance, its refutation (DESIGN.md section 4 row 28) and completeness. *)
From Sophia.C05 Require Export Model Heap Reader NqProofs Ties FirstDegree Bijection Invariance
  Relabel1 Relabel Entry EntryProofs.
From Coq Require Import Permutation.

(* a concrete injective toy hash: the input prefixed by its length *)
Definition toyH (x : str) : str := N.of_nat (length x) :: x.

(* ---------- (6) invariance under relabelling and reordering ---------- *)
(* The property as the crate's documentation suggests it: false. *)
Definition invariance_statement : Prop :=
  forall (H : str -> str) fuel df pl (pi : str -> str) d1 d2 b1 i1 b2 i2,
    Forall wf_quad d1 -> Forall wf_quad d2 ->
    inj_on pi (bnodes d1) ->
    Permutation d2 (map (rename_q pi) d1) ->
    impl_model H fuel df pl d1 = Ok (b1, i1) ->
    impl_model H fuel df pl d2 = Ok (b2, i2) ->
    b1 = b2.
(* The same with the explicit hypothesis that the run on d1 meets no tie (Ties.v): the statement
   RDFC-1.0 can be expected to satisfy.  NOT proved here (it is the correctness argument of
   RDFC-1.0 itself).  What is proved: [invariance_under_relabelling] (Relabel.v: any label
   bijection, same quad order, hypothesis: no two results of one hash path list carry the same
   hash) and [invariance_distinct_first_degree] (Invariance.v: labels AND quad order, when no
   two blank nodes share a first-degree hash).  Open: independence of the quad order when
   hash-n-degree runs. *)
Definition invariance_no_ties_statement : Prop :=
  forall (H : str -> str) fuel df pl (pi : str -> str) d1 d2 b1 i1 b2 i2,
    Forall wf_quad d1 -> Forall wf_quad d2 ->
    inj_on pi (bnodes d1) ->
    Permutation d2 (map (rename_q pi) d1) ->
    no_ties H fuel df pl d1 ->
    impl_model H fuel df pl d1 = Ok (b1, i1) ->
    impl_model H fuel df pl d2 = Ok (b2, i2) ->
    b1 = b2.

(* DESIGN.md section 4 row 28:  _:e4 <p> "l" . _:e4 <p> _:e6 _:e3 . _:e5 <p> _:e3 _:e6 .
   and the same with e3/e6 exchanged.  e3 and e6 get equal hash-n-degree results for EVERY hash
   function (the related-node hash records position and predicate, not which other node shares
   the quad) although no automorphism exchanges them; the tie is broken by label order. *)
Definition w_p : term := Iri [112].
Definition w_b (n : N) : term := Bnode [101; 48 + n].
Definition w28 : list quad :=
  [(w_b 4, w_p, LitDt [108] xsd_string, None); (w_b 4, w_p, w_b 6, Some (w_b 3));
   (w_b 5, w_p, w_b 3, Some (w_b 6))].
Definition swap36 (b : str) : str :=
  if str_eqb b [101;51] then [101;54] else if str_eqb b [101;54] then [101;51] else b.

Lemma w28_wf : Forall wf_quad w28.
Proof. repeat constructor; cbn; intuition (try discriminate; try lia). Qed.
Lemma w28_renamed_wf : Forall wf_quad (map (rename_q swap36) w28).
Proof. repeat constructor; cbn; intuition (try discriminate; try lia). Qed.
Lemma swap36_inj : inj_on swap36 (bnodes w28).
Proof.
  intros x y Hx Hy. cbn in Hx, Hy.
  repeat (destruct Hx as [<-|Hx]; [|]); try contradiction;
  repeat (destruct Hy as [<-|Hy]; [|]); try contradiction;
  vm_compute; intros E; try reflexivity; discriminate E.
Qed.

Lemma w28_runs : exists b1 i1 b2 i2,
  impl_model toyH 20 (Some 1000) (Some 6) w28 = Ok (b1, i1)
  /\ impl_model toyH 20 (Some 1000) (Some 6) (map (rename_q swap36) w28) = Ok (b2, i2)
  /\ str_eqb b1 b2 = false.
Proof. vm_compute. do 4 eexists. repeat split; reflexivity. Qed.

Theorem invariance_refuted_for_three_blank_quads : ~ invariance_statement.
Proof.
  intros Hinv. destruct w28_runs as (b1 & i1 & b2 & i2 & E1 & E2 & D).
  pose proof (Hinv toyH 20%nat (Some 1000) (Some 6) swap36 w28 (map (rename_q swap36) w28)
                b1 i1 b2 i2 w28_wf w28_renamed_wf swap36_inj (Permutation_refl _) E1 E2) as Eb.
  subst b2. rewrite str_eqb_refl in D. discriminate D.
Qed.

(* the witness does meet a tie, so it does not contradict invariance_no_ties_statement *)
Example w28_has_a_tie : run_ties toyH (mkVar true true) 20 (Some 1000) (Some 6) w28 = Some true.
Proof. vm_compute. reflexivity. Qed.
(* ... precisely a tie of step 5.3, the hypothesis excluded by invariance_under_relabelling *)
Example w28_has_a_top_tie : top_ties toyH (mkVar true true) 20 (Some 1000) (Some 6) w28 = true.
Proof. vm_compute. reflexivity. Qed.
(* a dataset where hash-n-degree runs (e1 and e2 share a first-degree hash) without any tie *)
Definition path4 : list quad :=
  [(w_b 0, w_p, w_b 1, None); (w_b 1, w_p, w_b 2, None); (w_b 2, w_p, w_b 3, None)].
Example no_ties_nonvacuous : no_ties toyH 20 (Some 1000) (Some 6) path4.
Proof. vm_compute. reflexivity. Qed.
Example no_top_ties_nonvacuous : top_ties toyH (mkVar true true) 20 (Some 1000) (Some 6) path4 = false.
Proof. vm_compute. reflexivity. Qed.

(* ---------- (3) completeness: equal canonical documents only for isomorphic datasets ---------- *)
(* Both relabelled datasets are the same set of quads; together with [idmap_bijection] (each
   identifier map is a bijection from the blank nodes of its input onto c14n0..c14n(n-1)) the
   composite of one map with the inverse of the other is an isomorphism. *)
Lemma insert_by_perm {A} (leb : A -> A -> bool) x l : Permutation (x :: l) (insert_by leb x l).
Proof.
  induction l as [|y l IH]; cbn [insert_by]; [apply Permutation_refl|].
  destruct (leb x y); [apply Permutation_refl|].
  eapply perm_trans; [apply perm_swap|]. apply perm_skip. exact IH.
Qed.
Lemma sort_by_perm {A} (leb : A -> A -> bool) l : Permutation l (sort_by leb l).
Proof.
  induction l as [|x l IH]; cbn; [constructor|].
  eapply perm_trans; [apply perm_skip; exact IH|]. apply insert_by_perm.
Qed.

Theorem equal_bytes_implies_isomorphic : forall H v fuel df pl d1 d2 bytes i1 i2,
  Forall wf_quad d1 -> Forall wf_quad d2 ->
  normalize_with H v fuel df pl d1 = Ok (bytes, i1) ->
  normalize_with H v fuel df pl d2 = Ok (bytes, i2) ->
  Permutation (map (rename_q (id_of i1)) d1) (map (rename_q (id_of i2)) d2).
Proof.
  intros H v fuel df pl d1 d2 bytes i1 i2 W1 W2 E1 E2.
  pose proof (idmap_bijection _ _ _ _ _ _ _ _ E1) as (_ & _ & _ & _ & R1 & B1).
  pose proof (idmap_bijection _ _ _ _ _ _ _ _ E2) as (_ & _ & _ & _ & R2 & B2).
  apply relabel_with_core in R1 as (Wi1 & _). apply relabel_with_core in R2 as (Wi2 & _).
  assert (Q1 : Forall wf_quad (map (rename_q (id_of i1)) d1)) by (apply wf_relabelled; assumption).
  assert (Q2 : Forall wf_quad (map (rename_q (id_of i2)) d2)) by (apply wf_relabelled; assumption).
  unfold serialize in B1, B2.
  assert (E : sort_by quad_leb (map (rename_q (id_of i1)) d1)
            = sort_by quad_leb (map (rename_q (id_of i2)) d2)).
  { apply doc_inj; [apply sort_by_Forall; exact Q1 | apply sort_by_Forall; exact Q2 | congruence]. }
  eapply perm_trans; [apply sort_by_perm|]. rewrite E. apply Permutation_sym, sort_by_perm.
Qed.
