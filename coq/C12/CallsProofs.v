(* C12/CallsProofs.v -- facts about the serializer object (C12/Calls.v). *)
From Sophia.C12 Require Import Model Proofs Calls.

Section CallsFacts.
Variable info : N -> tinfo.
Variable o : opts.
Variable bad : N -> bool.

(* without an ill-formed rdf:JSON literal among the accepted quads, the call succeeds with the engine's document *)
Theorem serialise_result_some d :
  (forall q, In q d -> is_jsonld info q = true -> bad (qo q) = false) ->
  serialise_result info o bad d = Some (serialise info o d).
Proof.
  intros H. unfold serialise_result.
  destruct (existsb (bad_quad info bad) d) eqn:E; [|reflexivity].
  apply existsb_exists in E as [q [Hq Hb]]. unfold bad_quad in Hb.
  apply andb_true_iff in Hb as [Hb Hbad]. apply andb_true_iff in Hb as [Hj _].
  rewrite (H q Hq Hj) in Hbad. discriminate.
Qed.

(* the call fails exactly when an accepted quad has an ill-formed rdf:JSON literal as object *)
Theorem serialise_result_none d :
  serialise_result info o bad d = None <->
  exists q, In q d /\ is_jsonld info q = true /\ is_lit info (qo q) = true /\ bad (qo q) = true.
Proof.
  unfold serialise_result. destruct (existsb (bad_quad info bad) d) eqn:E.
  - split; [intros _|reflexivity]. apply existsb_exists in E as [q [Hq Hb]]. unfold bad_quad in Hb.
    apply andb_true_iff in Hb as [Hb Hbad]. apply andb_true_iff in Hb as [Hj Hl]. eauto.
  - split; [discriminate|]. intros [q [Hq [Hj [Hl Hb]]]]. exfalso.
    assert (existsb (bad_quad info bad) d = true).
    { apply existsb_exists. exists q. split; [exact Hq|]. unfold bad_quad. rewrite Hj, Hl, Hb. reflexivity. }
    congruence.
Qed.

(* the quads JSON-LD cannot express play no role in the outcome, error included *)
Theorem serialise_result_filter d :
  serialise_result info o bad d = serialise_result info o bad (filter (is_jsonld info) d).
Proof.
  unfold serialise_result. rewrite <- serialise_filter.
  assert (E : existsb (bad_quad info bad) (filter (is_jsonld info) d) = existsb (bad_quad info bad) d).
  { induction d as [|q d IH]; simpl; [reflexivity|].
    destruct (is_jsonld info q) eqn:Ej; simpl; rewrite IH; [reflexivity|].
    unfold bad_quad at 2. rewrite Ej. reflexivity. }
  rewrite E. reflexivity.
Qed.

(* no state is carried from one call to the next: the k-th result is that of the k-th dataset alone *)
Theorem calls_independent ds k d :
  nth_error ds k = Some d -> nth_error (calls info o bad ds) k = Some (serialise_result info o bad d).
Proof. intros H. unfold calls. apply map_nth_error. exact H. Qed.

Theorem calls_app a b : calls info o bad (a ++ b) = calls info o bad a ++ calls info o bad b.
Proof. apply map_app. Qed.

(* a writer target holds the documents of the successful calls, in order *)
Theorem appended_app r1 r2 : appended (r1 ++ r2) = appended r1 ++ appended r2.
Proof. unfold appended. apply flat_map_app. Qed.
Theorem appended_all_ok ds :
  (forall d q, In d ds -> In q d -> is_jsonld info q = true -> bad (qo q) = false) ->
  appended (calls info o bad ds) = map (serialise info o) ds.
Proof.
  induction ds as [|d ds IH]; intros H; simpl; [reflexivity|].
  rewrite serialise_result_some by (intros q Hq; apply (H d q); simpl; auto).
  simpl. f_equal. apply IH. intros d' q Hd. apply H. simpl. auto.
Qed.

(* the Jsonifier holds the document of the last successful call *)
Lemma replaced_fold rs : forall acc,
  fold_left (fun acc r => match r with Some doc => Some doc | None => acc end) rs acc =
  match replaced rs with Some doc => Some doc | None => acc end.
Proof.
  unfold replaced. induction rs as [|r rs IH]; intros acc; simpl; [reflexivity|].
  rewrite IH. rewrite (IH (match r with Some doc => Some doc | None => None end)).
  destruct (fold_left _ rs None); [reflexivity|]. destruct r; reflexivity.
Qed.
Theorem replaced_snoc rs r :
  replaced (rs ++ [r]) = match r with Some doc => Some doc | None => replaced rs end.
Proof. unfold replaced at 1. rewrite fold_left_app. simpl. rewrite replaced_fold. destruct r, (replaced rs); reflexivity. Qed.
End CallsFacts.
