(* C10/Observe.v -- the OTHER observation methods of the in-memory graphs and datasets (round 7): the provided
   methods of sophia_api::graph::Graph / sophia_api::dataset::Dataset that the stores of inmem/src/graph.rs and
   inmem/src/dataset.rs inherit (api/src/graph.rs, api/src/dataset.rs):
     subjects() predicates() objects() graph_names()            self.quads().map_ok(to_s) ...
     iris() blank_nodes() literals() variables()                 quads -> iter_spog -> to_atoms -> filter on the kind
     quoted_triples()                                            quads -> iter_spog -> to_constituents -> filter is_triple
     contains(s, p, o, g)                                        quads_matching([s], [p], [o], [g]).next().is_some()
   on top of the stores of C10/Query.v.  Every one of them is a function of the statements of the store alone: none
   keeps a value between two calls, so nothing but the statements is copied by Clone.  Terms are identifiers; a
   signature `tsig` says of which kind each identifier is and, for a quoted triple, which its three components are.
   The accessors may yield a term several times: the harness compares their answers as sets.  Definitions only. *)
From Sophia.C10 Require Export Query.

Inductive tkind := KIri | KBnode | KLit | KVar | KTriple (s p o : N).
Definition tsig := list (N * tkind).
Fixpoint sig_find (sg : tsig) (t : N) : option tkind :=
  match sg with [] => None | (k, x) :: r => if N.eqb k t then Some x else sig_find r t end.

(* Term::atoms / Term::constituents; `fuel` bounds the nesting depth of the quoted triples *)
Fixpoint atoms (fuel : nat) (sg : tsig) (t : N) : list N :=
  match fuel with
  | O => []
  | S f => match sig_find sg t with
           | Some (KTriple s p o) => atoms f sg s ++ atoms f sg p ++ atoms f sg o
           | Some _ => [t]
           | None => []
           end
  end.
Fixpoint constituents (fuel : nat) (sg : tsig) (t : N) : list N :=
  match fuel with
  | O => []
  | S f => t :: match sig_find sg t with
                | Some (KTriple s p o) => constituents f sg s ++ constituents f sg p ++ constituents f sg o
                | _ => []
                end
  end.
Definition depth_fuel : nat := 8.

Inductive acc := ASubjects | APredicates | AObjects | AGraphNames | AIris | ABnodes | ALiterals | AQuoted | AVariables.
Definition is_iri (sg : tsig) (t : N) : bool := match sig_find sg t with Some KIri => true | _ => false end.
Definition is_bnode (sg : tsig) (t : N) : bool := match sig_find sg t with Some KBnode => true | _ => false end.
Definition is_lit (sg : tsig) (t : N) : bool := match sig_find sg t with Some KLit => true | _ => false end.
Definition is_var (sg : tsig) (t : N) : bool := match sig_find sg t with Some KVar => true | _ => false end.
Definition is_quoted (sg : tsig) (t : N) : bool := match sig_find sg t with Some (KTriple _ _ _) => true | _ => false end.
(* iter_spog: s, p, o, then the graph name unless it is the default graph (a graph has none: `norm` made it 0) *)
Definition spog (q : quad) : list N := [qs q; qp q; qo q] ++ (if N.eqb (qg q) 0 then [] else [qg q]).
Definition all_atoms (sg : tsig) (l : list quad) : list N := flat_map (atoms depth_fuel sg) (flat_map spog l).
(* what an accessor yields for a store holding the statements `l` *)
Definition observe_stmts (sg : tsig) (l : list quad) (a : acc) : list N :=
  match a with
  | ASubjects => map qs l
  | APredicates => map qp l
  | AObjects => map qo l
  | AGraphNames => filter (fun g => negb (N.eqb g 0)) (map qg l)
  | AIris => filter (is_iri sg) (all_atoms sg l)
  | ABnodes => filter (is_bnode sg) (all_atoms sg l)
  | ALiterals => filter (is_lit sg) (all_atoms sg l)
  | AVariables => filter (is_var sg) (all_atoms sg l)
  | AQuoted => filter (is_quoted sg) (flat_map (constituents depth_fuel sg) (flat_map spog l))
  end.
Definition observe (sg : tsig) (st : qstore) (a : acc) : list N := observe_stmts sg (stmts st) a.
(* Graph::contains / Dataset::contains: the pattern whose four positions are constants (a graph ignores g) *)
Definition q_contains (st : qstore) (q : quad) : bool :=
  match q_query st (mkPat true true true true q) with [] => false | _ :: _ => true end.

(* ---- histories: the operations of Query.v, plus the observations ---- *)
Inductive aop :=
| AQ (o : qop)
| AObs (sid : N) (a : acc)
| AHas (sid : N) (q : quad).
Inductive aobs := AO (x : qobs) | ASet (l : list N).
Definition astep (sg : tsig) (w : qworld) (o : aop) : qworld * aobs :=
  match o with
  | AQ o => let '(w', x) := qstep w o in (w', AO x)
  | AObs sid a => (w, match qfind w sid with None => AO ONone | Some s => ASet (observe sg s a) end)
  | AHas sid q => (w, match qfind w sid with None => AO ONone | Some s => AO (OBool (q_contains s q)) end)
  end.
Fixpoint arun_from (sg : tsig) (w : qworld) (ops : list aop) : qworld * list aobs :=
  match ops with
  | [] => (w, [])
  | o :: r => let '(w', x) := astep sg w o in let '(w'', xs) := arun_from sg w' r in (w'', x :: xs)
  end.
Definition arun (sg : tsig) (ops : list aop) : qworld * list aobs := arun_from sg [] ops.
Definition atouches (o : aop) (sid : N) : bool :=
  match o with AQ o => qtouches o sid | AObs _ _ | AHas _ _ => false end.

(* harness-facing: the answers of a history; the terms yielded by an accessor are compared as a set *)
Definition mem_N (x : N) (l : list N) : bool := existsb (N.eqb x) l.
Definition same_set (a b : list N) : bool := forallb (fun x => mem_N x b) a && forallb (fun x => mem_N x a) b.
Definition aobs_eqb (a b : aobs) : bool :=
  match a, b with
  | AO x, AO y => qobs_eqb x y
  | ASet x, ASet y => same_set x y
  | _, _ => false
  end.
Definition ahist_ok (sg : tsig) (ops : list aop) (observed : list aobs) : bool :=
  list_eqb aobs_eqb (snd (arun sg ops)) observed.
