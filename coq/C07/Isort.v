(* C07/Isort.v -- insertion sort under a total order with Leibniz antisymmetry computes a
   canonical form of the multiset: permutations sort to EQUAL lists. *)
From Coq Require Import List Bool Permutation.
Import ListNotations.

Section Isort.
Variable A : Type.
Variable leb : A -> A -> bool.
Hypothesis leb_total : forall x y, leb x y = false -> leb y x = true.
Hypothesis leb_antisym : forall x y, leb x y = true -> leb y x = true -> x = y.
Hypothesis leb_trans : forall x y z, leb x y = true -> leb y z = true -> leb x z = true.

Fixpoint ginsert (x : A) (l : list A) : list A :=
  match l with
  | [] => [x]
  | y :: l' => if leb x y then x :: l else y :: ginsert x l'
  end.
Definition gsort (l : list A) : list A := fold_right ginsert [] l.

Lemma ginsert_comm x y l : ginsert x (ginsert y l) = ginsert y (ginsert x l).
Proof.
  induction l as [|z l IH]; simpl.
  - destruct (leb x y) eqn:Exy, (leb y x) eqn:Eyx; auto.
    + rewrite (leb_antisym _ _ Exy Eyx). reflexivity.
    + apply leb_total in Exy. congruence.
  - destruct (leb y z) eqn:Eyz, (leb x z) eqn:Exz; simpl; rewrite ?Eyz, ?Exz; simpl.
    + destruct (leb x y) eqn:Exy, (leb y x) eqn:Eyx; simpl; rewrite ?Eyz, ?Exz; auto.
      * rewrite (leb_antisym _ _ Exy Eyx). reflexivity.
      * apply leb_total in Exy. congruence.
    + assert (Exy : leb x y = false).
      { destruct (leb x y) eqn:E; auto. rewrite (leb_trans _ _ _ E Eyz) in Exz. discriminate. }
      rewrite ?Exy, ?Exz, ?Eyz; simpl; rewrite ?Exy, ?Exz, ?Eyz. reflexivity.
    + assert (Eyx : leb y x = false).
      { destruct (leb y x) eqn:E; auto. rewrite (leb_trans _ _ _ E Exz) in Eyz. discriminate. }
      rewrite ?Eyx, ?Exz, ?Eyz; simpl; rewrite ?Eyx, ?Exz, ?Eyz. reflexivity.
    + rewrite IH. reflexivity.
Qed.

Theorem gsort_perm_eq l l' : Permutation l l' -> gsort l = gsort l'.
Proof.
  induction 1; simpl; auto.
  - congruence.
  - apply ginsert_comm.
  - congruence.
Qed.

Lemma ginsert_perm x l : Permutation (x :: l) (ginsert x l).
Proof.
  induction l as [|y l IH]; simpl; auto.
  destruct (leb x y); auto.
  eapply perm_trans; [apply perm_swap|]. apply perm_skip. exact IH.
Qed.
Theorem gsort_perm l : Permutation l (gsort l).
Proof.
  induction l as [|x l IH]; simpl; auto.
  eapply perm_trans; [apply perm_skip; exact IH|]. apply ginsert_perm.
Qed.
End Isort.
