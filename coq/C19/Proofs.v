(* C19/Proofs.v -- every path the loader opens lies under the directory of a namespace that
   prefixes the IRI. *)
From Sophia.C19 Require Import Model.

Lemma path_prefix_refl d : path_prefix d d = true.
Proof. induction d as [|x d IH]; simpl; auto. rewrite str_eqb_refl. exact IH. Qed.

Lemma path_prefix_app d b s : path_prefix d b = true -> path_prefix d (b ++ [s]) = true.
Proof.
  revert b; induction d as [|x d IH]; intros b H; simpl in *; auto.
  destruct b as [|y b]; [discriminate|]. simpl.
  apply andb_true_iff in H as [H1 H2]. rewrite H1. simpl. apply IH. exact H2.
Qed.

Lemma resolve_safe dir cs : forall base,
  forallb comp_safe cs = true -> path_prefix dir base = true ->
  path_prefix dir (resolve base cs) = true.
Proof.
  induction cs as [|c cs IH]; intros base Hs Hb; simpl; auto.
  simpl in Hs. apply andb_true_iff in Hs as [Hc Hs].
  destruct c; simpl in Hc; try discriminate.
  - apply IH; auto.
  - apply IH; auto. apply path_prefix_app. exact Hb.
Qed.

Lemma find_cache_spec caches iri dir sub :
  find_cache caches iri = Some (dir, sub) ->
  exists ns, In (ns, dir) caches /\ strip_prefix ns iri = Some sub.
Proof.
  induction caches as [|[ns d] r IH]; simpl; [discriminate|].
  destruct (strip_prefix ns iri) as [s|] eqn:E.
  - intros H; inversion H; subst. exists ns. auto.
  - intros H. destruct (IH H) as [ns' [H1 H2]]. exists ns'. auto.
Qed.

Section S.
Variable fs : fsys.
Variable exts : list str.
Variable caches : list cache.

(* the confinement predicate for the IRI [iri] actually looked up *)
Definition confined (iri : str) (p : list str) : Prop :=
  exists ns dir sub, In (ns, dir) caches /\ strip_prefix ns iri = Some sub
                     /\ path_prefix dir p = true.

Lemma get1_confined iri :
  let '(o, _, _) := get1 fs true caches iri in forall p, In p o -> confined iri p.
Proof.
  unfold get1. destruct (find_cache caches iri) as [[dir sub]|] eqn:E; [|intros p []].
  simpl. destruct (forallb comp_safe (components sub)) eqn:Hs; simpl; [|intros p []].
  apply find_cache_spec in E as [ns [Hin Hp]].
  assert (Hc : confined iri (resolve dir (components sub))).
  { exists ns, dir, sub. repeat split; auto. apply resolve_safe; auto. apply path_prefix_refl. }
  destruct (walk fs [] (resolve dir (components sub)) (trailing_dir sub));
    intros p [<-|[]]; exact Hc.
Qed.

Definition confined_any (iri : str) (p : list str) : Prop :=
  confined iri p \/ exists e, In e exts /\ confined (iri ++ e) p.

Lemma try_exts_confined iri es : forall opened,
  (forall e, In e es -> In e exts) ->
  (forall p, In p opened -> confined_any iri p) ->
  forall p, In p (fst (try_exts fs true caches iri es opened)) -> confined_any iri p.
Proof.
  induction es as [|e es IH]; intros opened Hes Hop; simpl; auto.
  pose proof (get1_confined (iri ++ e)) as H1.
  destruct (get1 fs true caches (iri ++ e)) as [[o res] nf].
  assert (Hboth : forall p, In p (opened ++ o) -> confined_any iri p).
  { intros p Hp. apply in_app_iff in Hp as [Hp|Hp]; auto.
    right. exists e. split; [apply Hes; left; reflexivity | apply H1; exact Hp]. }
  destruct res; simpl; auto; apply IH; auto; intros e' He'; apply Hes; right; exact He'.
Qed.

(* Main theorem: whatever the IRI, the configuration and the content of the file system, every
   path handed to the OS lies under the directory mapped to a namespace that prefixes the
   (fragment-stripped) IRI, or that IRI extended by one of the negotiated extensions. *)
Theorem get_confined iri0 :
  let iri := hd [] (split_on c_hash iri0) in
  forall p, In p (fst (get fs exts true caches iri0)) -> confined_any iri p.
Proof.
  intros iri. unfold get. fold iri.
  pose proof (get1_confined iri) as H1.
  destruct (get1 fs true caches iri) as [[o res] nf].
  destruct (nf && no_ext iri).
  - apply try_exts_confined; auto. intros p Hp. left. apply H1. exact Hp.
  - simpl. intros p Hp. left. apply H1. exact Hp.
Qed.

(* a file is only ever returned from such a path *)
Theorem found_confined iri0 p ct :
  snd (get fs exts true caches iri0) = Found p ct ->
  confined_any (hd [] (split_on c_hash iri0)) p.
Proof.
  intros H. apply get_confined.
  unfold get in *. set (iri := hd [] (split_on c_hash iri0)) in *.
  destruct (get1 fs true caches iri) as [[o res] nf] eqn:E1.
  assert (Hg : forall i o' r' n', get1 fs true caches i = (o', r', n') -> forall q c, r' = Found q c -> In q o').
  { intros i o' r' n'. unfold get1. destruct (find_cache caches i) as [[d s]|]; [|intros X; inversion X; discriminate].
    destruct (true && negb (forallb comp_safe (components s))); [intros X; inversion X; discriminate|].
    destruct (walk fs [] (resolve d (components s)) (trailing_dir s)); intros X; inversion X; subst;
      intros q c Hq; inversion Hq; subst; left; reflexivity. }
  destruct (nf && no_ext iri).
  - clear E1. revert o H. induction exts as [|e es IH]; intros o H; simpl in *; [discriminate|].
    destruct (get1 fs true caches (iri ++ e)) as [[o2 r2] n2] eqn:E2.
    destruct r2; simpl in *; try (apply IH; exact H).
    inversion H; subst. apply in_app_iff. right. eapply Hg; eauto.
  - simpl in *. eapply Hg; eauto.
Qed.
End S.

(* ---------- the pre-fix code (guard off) is refuted ---------- *)
Definition ex_ns : str := [104;58;47;47;101;47;110;115;47].          (* "h://e/ns/" *)
Definition ex_dir : list str := [[114]; [110;115]].                    (* /r/ns *)
Definition ex_secret : list str := [[115]].                            (* /s *)
Definition ex_fs : fsys := [([[114]], false); (ex_dir, false); (ex_secret, true)].
(* "h://e/ns/../../s" *)
Definition ex_iri_dotdot : str := ex_ns ++ [46;46;47;46;46;47;115].
(* "h://e/ns//s" : absolute remainder replaces the directory in PathBuf::join *)
Definition ex_iri_abs : str := ex_ns ++ [47;115].

Example prefix_refuted_dotdot :
  snd (get ex_fs [] false [(ex_ns, ex_dir)] ex_iri_dotdot) = Found ex_secret 0
  /\ path_prefix ex_dir ex_secret = false.
Proof. vm_compute. split; reflexivity. Qed.
Example prefix_refuted_abs :
  snd (get ex_fs [] false [(ex_ns, ex_dir)] ex_iri_abs) = Found ex_secret 0.
Proof. vm_compute. reflexivity. Qed.
(* with the guard, both are refused before any path is opened *)
Example fixed_dotdot : get ex_fs [] true [(ex_ns, ex_dir)] ex_iri_dotdot = ([], Unsupported).
Proof. vm_compute. reflexivity. Qed.
Example fixed_abs : get ex_fs [] true [(ex_ns, ex_dir)] ex_iri_abs = ([], Unsupported).
Proof. vm_compute. reflexivity. Qed.
(* percent-encoded dots are not decoded: "%2e%2e" is an ordinary file name under the directory *)
Example percent_encoded_is_normal :
  components [37;50;101;37;50;101;47;115] = [CNormal [37;50;101;37;50;101]; CNormal [115]].
Proof. vm_compute. reflexivity. Qed.
(* non-vacuity: an IRI with dot and empty segments that is served from inside the directory *)
Example nonvacuous :
  snd (get [([[114]], false); (ex_dir, false); (ex_dir ++ [[120]], true)] [] true [(ex_ns, ex_dir)]
         (ex_ns ++ [46;47;47;120;35;102])) = Found (ex_dir ++ [[120]]) 0.
Proof. vm_compute. reflexivity. Qed.
