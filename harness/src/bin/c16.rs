//! C16: stack use does not grow with the amount of data processed.
//!
//! Three things happen here:
//!  1. correspondence: small generated inputs run through the real iterators / quoted_string /
//!     GRAPH ?g / JSON-LD list serialisation / constituents, printed as Coq boolean cases against
//!     C16/Model.v (functional results only);
//!  2. ORACLE (i): stack-address probes through caller-supplied callbacks (closure matchers,
//!     io::Write sinks, a probing Dataset) at 10^4 and 10^5 elements: the spread of the addresses
//!     seen by the callback must stay below 64 KiB; the slope is reported in bytes/element;
//!     plus, as exploration, the high-water mark of a fresh thread stack measured with mincore(2);
//!  3. ORACLE (ii): every operation at the requested sizes on a thread with a 2 MiB stack in a
//!     SUBPROCESS of this very binary (so in the profile it was built with): a stack overflow
//!     aborts the child, the parent reports which operation, size and profile.
use sophia_api::dataset::{Dataset, MutableDataset};
use sophia_api::graph::{Graph, MutableGraph};
use sophia_api::prelude::*;
use sophia_api::serializer::{QuadSerializer, Stringifier, TripleSerializer};
use sophia_api::source::{IntoSource, QuadSource, Source, TripleSource};
use sophia_api::sparql::{Query as _, SparqlDataset as _};
use sophia_api::term::matcher::Any;
use sophia_api::term::{GraphName, SimpleTerm, Term};
use sophia_inmem::dataset::{FastDataset, LightDataset};
use sophia_inmem::graph::{FastGraph, LightGraph};
use std::cell::Cell;
use std::io::Write as _;
use verif_harness::*;

const PROFILE: &str = if cfg!(debug_assertions) { "dev" } else { "release" };
const RDF_FIRST: &str = "http://www.w3.org/1999/02/22-rdf-syntax-ns#first";
const RDF_REST: &str = "http://www.w3.org/1999/02/22-rdf-syntax-ns#rest";
const RDF_NIL: &str = "http://www.w3.org/1999/02/22-rdf-syntax-ns#nil";

// ---------------------------------------------------------------------------------------------
// address probe: callbacks record the address of one of their locals
// ---------------------------------------------------------------------------------------------
thread_local! { static PROBE: Cell<(usize, usize, u64)> = const { Cell::new((usize::MAX, 0, 0)) }; }
#[inline(never)]
fn probe() {
    let x = 0u8;
    let a = std::hint::black_box(&x) as *const u8 as usize;
    PROBE.with(|p| { let (lo, hi, n) = p.get(); p.set((lo.min(a), hi.max(a), n + 1)); });
}
fn probe_reset() { PROBE.with(|p| p.set((usize::MAX, 0, 0))); }
/// (spread in bytes, number of callback invocations)
fn probe_read() -> (usize, u64) { PROBE.with(|p| { let (lo, hi, n) = p.get(); if n == 0 { (0, 0) } else { (hi - lo, n) } }) }

/// io::Write sink that probes at each call and counts bytes
struct ProbeSink(u64);
impl std::io::Write for ProbeSink {
    fn write(&mut self, b: &[u8]) -> std::io::Result<usize> { probe(); self.0 += b.len() as u64; Ok(b.len()) }
    fn flush(&mut self) -> std::io::Result<()> { Ok(()) }
}

/// Dataset wrapper probing at each quads_matching / graph_names call
struct ProbeDs<D>(D);
impl<D: Dataset> Dataset for ProbeDs<D> {
    type Quad<'x> = D::Quad<'x> where Self: 'x;
    type Error = D::Error;
    fn quads(&self) -> impl Iterator<Item = Result<Self::Quad<'_>, Self::Error>> + '_ { probe(); self.0.quads() }
    fn quads_matching<'s, 't, S, P, O, G>(&'s self, sm: S, pm: P, om: O, gm: G) -> impl Iterator<Item = Result<Self::Quad<'s>, Self::Error>> + 't
    where 's: 't, S: sophia_api::term::matcher::TermMatcher + 't, P: sophia_api::term::matcher::TermMatcher + 't, O: sophia_api::term::matcher::TermMatcher + 't, G: sophia_api::term::matcher::GraphNameMatcher + 't {
        probe(); self.0.quads_matching(sm, pm, om, gm)
    }
    fn graph_names(&self) -> impl Iterator<Item = Result<sophia_api::dataset::DTerm<'_, Self>, Self::Error>> + '_ { probe(); self.0.graph_names() }
}

// ---------------------------------------------------------------------------------------------
// the operations, each parameterised by the number of elements along its size dimension
// ---------------------------------------------------------------------------------------------
const OPS: &[(&str, &str)] = &[
    // (a) the five matching iterators, light and fast stores: n rows, all skipped but the last
    ("spo-light", "LightGraph::triples_matching(closure, Any, Any): SpoMatchingIterator skipping n-1 rows"),
    ("spo-fast", "FastGraph::triples_matching(closure, Any, Any): SpoMatchingIterator skipping n-1 rows"),
    ("bc-light", "LightGraph::triples_matching([s], closure, Any): BcMatchingIterator skipping n-1 rows"),
    ("bc-fast", "FastGraph::triples_matching([s], closure, Any): BcMatchingIterator skipping n-1 rows"),
    ("bc-fast-pos", "FastGraph::triples_matching(Any, [p], closure): BcMatchingIterator (POS index) skipping n-1 rows"),
    ("gspo-light", "LightDataset::quads_matching(closure, Any, Any, Any): GspoMatchingIterator skipping n-1 rows"),
    ("gspo-fast", "FastDataset::quads_matching(closure, Any, Any, Any): GspoMatchingIterator skipping n-1 rows"),
    ("bcd-light", "LightDataset::quads_matching(closure, Any, Any, [g]): BcdMatchingIterator skipping n-1 rows"),
    ("bcd-fast", "FastDataset::quads_matching(closure, Any, Any, [g]): BcdMatchingIterator skipping n-1 rows"),
    ("cd-light", "LightDataset::quads_matching([s], closure, Any, [g]): CdMatchingIterator skipping n-1 rows"),
    ("cd-fast", "FastDataset::quads_matching([s], closure, Any, [g]): CdMatchingIterator skipping n-1 rows"),
    // (b) escaped characters in one literal
    ("nt-escape", "NtSerializer on one literal with n escaped characters (nt::quoted_string)"),
    ("nq-escape", "NqSerializer on one literal with n escaped characters"),
    ("ttl-escape", "pretty TurtleSerializer on one literal with n escaped characters (nt::quoted_string)"),
    // (c) named graphs
    ("sparql-graph", "SELECT ?g ?s { GRAPH ?g { ?s ?p ?o } } over n named graphs (exec::graph_rec), all solutions consumed"),
    // (d) list items
    ("jsonld-list", "JsonLdSerializer on one RDF list of n items (engine::mark_list_node / populate_list)"),
    ("ttl-list", "pretty TurtleSerializer on one RDF list of n items"),
    // statements in one document / store
    ("insert-remove", "FastDataset: insert n quads, query, remove them all"),
    ("nt-roundtrip", "serialise n triples as N-Triples and parse them back"),
    ("ttl-roundtrip", "serialise n triples as (streaming) Turtle and parse them back"),
    ("ttl-pretty-stmts", "pretty TurtleSerializer on n statements with distinct subjects"),
    ("ttl-parse-list", "Turtle parser on one collection of n items"),
    ("jsonld-stmts", "JsonLdSerializer on n statements with distinct subjects"),
    ("sparql-bgp", "SELECT ?s { ?s <x:p> ?o FILTER(?o = <x:nope>) } over n triples (all filtered out)"),
    ("sparql-order", "SELECT ?s { ?s <x:p> ?o } ORDER BY DESC(?s) over n triples"),
    // exploration only: nesting produced by a chain of n blank nodes (pretty Turtle nests [ ... ])
    ("ttl-chain", "pretty TurtleSerializer on a chain of n blank nodes (nested [ ] in the output)"),
];
/// operations whose size dimension is one the property quantifies over (ORACLE); the rest is exploration
fn in_oracle(op: &str) -> bool { op != "ttl-chain" }

fn s_i(i: usize) -> ST { iri(&format!("x:s{i}")) }
fn lit(i: usize) -> ST { lit_dt(&format!("{i}"), &format!("{XSD}string")) }
fn list_triples(n: usize) -> Vec<[ST; 3]> {
    let mut v = vec![[iri("x:s"), iri("x:p"), if n == 0 { iri(RDF_NIL) } else { bnode("l0") }]];
    for i in 0..n {
        v.push([bnode(&format!("l{i}")), iri(RDF_FIRST), lit(i)]);
        v.push([bnode(&format!("l{i}")), iri(RDF_REST), if i + 1 == n { iri(RDF_NIL) } else { bnode(&format!("l{}", i + 1)) }]);
    }
    v
}
fn escapes(n: usize) -> String { (0..n).map(|i| ['"', '\\', '\n', '\r'][i % 4]).collect() }

/// runs `op` at size `n`; the returned number is a functional summary that the caller checks
/// (expected value given by `expected`)
fn run_op(op: &str, n: usize) -> u64 {
    let last = |t: SimpleTerm| -> bool { probe(); t.iri().map_or(false, |i| i.as_str() == "x:last") };
    match op {
        "spo-light" | "spo-fast" => {
            fn go<G: MutableGraph + Graph>(mut g: G, n: usize, last: impl Fn(SimpleTerm) -> bool) -> u64 {
                for i in 0..n { g.insert(if i + 1 == n { iri("x:last") } else { s_i(i) }, iri("x:p"), iri("x:o")).ok().unwrap(); }
                g.triples_matching(last, Any, Any).count() as u64
            }
            if op == "spo-light" { go(LightGraph::new(), n, last) } else { go(FastGraph::new(), n, last) }
        }
        "bc-light" | "bc-fast" => {
            fn go<G: MutableGraph + Graph>(mut g: G, n: usize, last: impl Fn(SimpleTerm) -> bool) -> u64 {
                for i in 0..n { g.insert(iri("x:s"), if i + 1 == n { iri("x:last") } else { s_i(i) }, iri("x:o")).ok().unwrap(); }
                g.triples_matching([iri("x:s")], last, Any).count() as u64
            }
            if op == "bc-light" { go(LightGraph::new(), n, last) } else { go(FastGraph::new(), n, last) }
        }
        "bc-fast-pos" => {
            let mut g = FastGraph::new();
            for i in 0..n { g.insert(iri("x:s"), iri("x:p"), if i + 1 == n { iri("x:last") } else { s_i(i) }).unwrap(); }
            g.triples_matching(Any, [iri("x:p")], last).count() as u64
        }
        "gspo-light" | "gspo-fast" | "bcd-light" | "bcd-fast" | "cd-light" | "cd-fast" => {
            fn go<D: MutableDataset + Dataset>(mut d: D, kind: u8, n: usize, last: impl Fn(SimpleTerm) -> bool) -> u64 {
                let g = Some(iri("x:g"));
                for i in 0..n {
                    let v = if i + 1 == n { iri("x:last") } else { s_i(i) };
                    if kind == 2 { d.insert(iri("x:s"), v, iri("x:o"), g.as_ref()).ok().unwrap(); } else { d.insert(v, iri("x:p"), iri("x:o"), g.as_ref()).ok().unwrap(); }
                }
                match kind {
                    0 => d.quads_matching(last, Any, Any, Any).count() as u64,
                    1 => d.quads_matching(last, Any, Any, [g.as_ref()]).count() as u64,
                    _ => d.quads_matching([iri("x:s")], last, Any, [g.as_ref()]).count() as u64,
                }
            }
            let kind = if op.starts_with("gspo") { 0 } else if op.starts_with("bcd") { 1 } else { 2 };
            if op.ends_with("light") { go(LightDataset::new(), kind, n, last) } else { go(FastDataset::new(), kind, n, last) }
        }
        "nt-escape" => {
            let t = [iri("x:s"), iri("x:p"), lit_dt(&escapes(n), &format!("{XSD}string"))];
            let mut sink = ProbeSink(0);
            sophia_turtle::serializer::nt::NtSerializer::new(&mut sink).serialize_triples([t].into_iter().into_source()).unwrap();
            sink.0
        }
        "nq-escape" => {
            let q = ([iri("x:s"), iri("x:p"), lit_dt(&escapes(n), &format!("{XSD}string"))], Some(iri("x:g")));
            let mut sink = ProbeSink(0);
            sophia_turtle::serializer::nq::NqSerializer::new(&mut sink).serialize_quads([q].into_iter().into_source()).unwrap();
            sink.0
        }
        "ttl-escape" => {
            let t = [iri("x:s"), iri("x:p"), lit_dt(&escapes(n), &format!("{XSD}string"))];
            let cfg = sophia_turtle::serializer::turtle::TurtleConfig::new().with_pretty(true);
            let mut sink = ProbeSink(0);
            sophia_turtle::serializer::turtle::TurtleSerializer::new_with_config(&mut sink, cfg).serialize_triples([t].into_iter().into_source()).unwrap();
            sink.0
        }
        "sparql-graph" => {
            use sophia_sparql::{SparqlQuery, SparqlWrapper};
            let mut d = FastDataset::new();
            for i in 0..n { d.insert(s_i(i), iri("x:p"), iri("x:o"), Some(iri(&format!("x:g{i}")))).unwrap(); }
            let d = ProbeDs(d);
            let w = SparqlWrapper(&d);
            let q = SparqlQuery::parse("SELECT ?g ?s { GRAPH ?g { ?s ?p ?o } }").unwrap();
            let b = w.query(&q).unwrap().into_bindings();
            let mut c = 0;
            for row in b { let row = row.unwrap(); if row[0].is_some() && row[1].is_some() { c += 1; } }
            c
        }
        "jsonld-list" | "jsonld-stmts" => {
            let ts: Vec<[ST; 3]> = if op == "jsonld-list" { list_triples(n) } else { (0..n).map(|i| [s_i(i), iri("x:p"), lit(i)]).collect() };
            let mut ser = sophia_jsonld::JsonLdSerializer::new_stringifier();
            ser.serialize_quads(ts.into_iter().map(|t| (t, None::<ST>)).into_source()).unwrap();
            // functional summary: the number of "@value" entries
            String::from_utf8_lossy(ser.as_utf8()).matches("\"@value\"").count() as u64
        }
        "ttl-list" | "ttl-pretty-stmts" | "ttl-chain" => {
            let ts: Vec<[ST; 3]> = match op {
                "ttl-list" => list_triples(n),
                "ttl-pretty-stmts" => (0..n).map(|i| [s_i(i), iri("x:p"), lit(i)]).collect(),
                _ => (0..n).map(|i| [if i == 0 { iri("x:s") } else { bnode(&format!("b{i}")) }, iri("x:p"), bnode(&format!("b{}", i + 1))]).collect(),
            };
            let cfg = sophia_turtle::serializer::turtle::TurtleConfig::new().with_pretty(true);
            let mut ser = sophia_turtle::serializer::turtle::TurtleSerializer::new_stringifier_with_config(cfg);
            ser.serialize_triples(ts.into_iter().into_source()).unwrap();
            let out = ser.as_utf8().to_vec();
            // parse it back: the number of triples must be the original one
            let back: Vec<[ST; 3]> = sophia_turtle::parser::turtle::parse_bufread(&out[..]).collect_triples().unwrap();
            (back.len() as u64 - 1) / if op == "ttl-list" { 2 } else { 1 } + if op == "ttl-list" { 0 } else { 1 }
        }
        "insert-remove" => {
            let mut d = FastDataset::new();
            for i in 0..n { d.insert(s_i(i % (n / 2 + 1)), iri(&format!("x:p{}", i % 7)), lit(i), Some(iri(&format!("x:g{}", i % 11)))).unwrap(); }
            let c = d.quads_matching(Any, [iri("x:p3")], Any, Any).count() as u64 + d.quads().count() as u64;
            for i in 0..n { d.remove(s_i(i % (n / 2 + 1)), iri(&format!("x:p{}", i % 7)), lit(i), Some(iri(&format!("x:g{}", i % 11)))).unwrap(); }
            c * (d.quads().count() == 0) as u64
        }
        "nt-roundtrip" | "ttl-roundtrip" => {
            let ts = (0..n).map(|i| [s_i(i / 3), iri(&format!("x:p{}", i % 3)), lit(i)]);
            let out = if op == "nt-roundtrip" {
                let mut ser = sophia_turtle::serializer::nt::NtSerializer::new_stringifier();
                ser.serialize_triples(ts.into_source()).unwrap(); ser.as_utf8().to_vec()
            } else {
                let mut ser = sophia_turtle::serializer::turtle::TurtleSerializer::new_stringifier();
                ser.serialize_triples(ts.into_source()).unwrap(); ser.as_utf8().to_vec()
            };
            let mut c = 0u64;
            if op == "nt-roundtrip" { sophia_turtle::parser::nt::parse_bufread(&out[..]).for_each_triple(|_| c += 1).unwrap(); }
            else { sophia_turtle::parser::turtle::parse_bufread(&out[..]).for_each_triple(|_| c += 1).unwrap(); }
            c
        }
        "ttl-parse-list" => {
            let mut doc = String::from("<x:s> <x:p> (");
            for i in 0..n { doc.push_str(&format!(" \"{i}\"")); }
            doc.push_str(" ) .\n");
            let mut c = 0u64;
            sophia_turtle::parser::turtle::parse_bufread(doc.as_bytes()).for_each_triple(|_| c += 1).unwrap();
            (c - 1) / 2
        }
        "sparql-bgp" | "sparql-order" => {
            use sophia_sparql::{SparqlQuery, SparqlWrapper};
            let mut d = FastDataset::new();
            for i in 0..n { d.insert(s_i(i), iri("x:p"), lit(i), None::<ST>).unwrap(); }
            let d = ProbeDs(d);
            let w = SparqlWrapper(&d);
            let q = SparqlQuery::parse(if op == "sparql-bgp" { "SELECT ?s { ?s <x:p> ?o FILTER(?o = <x:nope>) }" } else { "SELECT ?s { ?s <x:p> ?o } ORDER BY DESC(?s)" }).unwrap();
            let b = w.query(&q).unwrap().into_bindings();
            let c = b.into_iter().filter(|r| r.is_ok()).count() as u64;
            if op == "sparql-bgp" { n as u64 - c } else { c }
        }
        _ => panic!("unknown operation {op}"),
    }
}
/// the functional summary expected from run_op
fn expected(op: &str, n: usize) -> Option<u64> {
    match op {
        o if o.starts_with("spo-") || o.starts_with("bc-") || o.starts_with("gspo-") || o.starts_with("bcd-") || o.starts_with("cd-") => Some(1),
        "nt-escape" | "nq-escape" | "ttl-escape" => None, // byte count, checked > 2n below
        _ => Some(n as u64),
    }
}

// ---------------------------------------------------------------------------------------------
// measurement helpers
// ---------------------------------------------------------------------------------------------
unsafe extern "C" { fn mincore(addr: *mut u8, length: usize, vec: *mut u8) -> i32; }
static THREAD_SEQ: std::sync::atomic::AtomicUsize = std::sync::atomic::AtomicUsize::new(0);

/// Runs `f` on a fresh thread whose stack is too big for glibc's stack cache (so never a reused,
/// already-touched one) and returns (result, number of bytes of that stack that became resident).
fn with_watermark<R: Send + 'static>(f: impl FnOnce() -> R + Send + 'static) -> (R, usize) {
    const PAGE: usize = 4096;
    let size = (768usize << 20) + PAGE * 16 * THREAD_SEQ.fetch_add(1, std::sync::atomic::Ordering::SeqCst);
    std::thread::Builder::new().stack_size(size).spawn(move || {
        let top_probe = 0u8;
        let top = (std::hint::black_box(&top_probe) as *const u8 as usize) & !(PAGE - 1);
        let r = f();
        // the mapping extends at least `size - 64 KiB` below `top` (guard page and TLS excluded)
        let len = size - (256 << 10);
        let lo = top - len;
        let mut v = vec![0u8; len / PAGE];
        let rc = unsafe { mincore(lo as *mut u8, len, v.as_mut_ptr()) };
        let used = if rc != 0 { usize::MAX } else { match v.iter().position(|b| b & 1 == 1) { Some(i) => len - i * PAGE, None => 0 } };
        (r, used)
    }).unwrap().join().unwrap()
}

fn child_main(op: &str, n: usize, stack: usize) {
    let op2 = op.to_string();
    let h = std::thread::Builder::new().stack_size(stack).spawn(move || run_op(&op2, n)).unwrap();
    match h.join() {
        Ok(v) => { println!("OK {v}"); }
        Err(_) => { println!("PANIC"); std::process::exit(3); }
    }
}

#[derive(Debug)]
enum ChildOutcome { Ok(u64), Crashed(String), TimedOut, Wrong(String) }
fn run_child(op: &str, n: usize, stack: usize, timeout_s: u64) -> (ChildOutcome, f64) {
    use std::os::unix::process::ExitStatusExt;
    let t0 = std::time::Instant::now();
    let mut ch = std::process::Command::new(std::env::current_exe().unwrap())
        .args(["--child", op, &n.to_string(), &stack.to_string()])
        .stdout(std::process::Stdio::piped()).stderr(std::process::Stdio::piped()).spawn().unwrap();
    let status = loop {
        if let Some(s) = ch.try_wait().unwrap() { break Some(s); }
        if t0.elapsed().as_secs() > timeout_s { let _ = ch.kill(); let _ = ch.wait(); break None; }
        std::thread::sleep(std::time::Duration::from_millis(20));
    };
    let dt = t0.elapsed().as_secs_f64();
    let Some(status) = status else { return (ChildOutcome::TimedOut, dt) };
    let out = ch.wait_with_output().map(|o| (String::from_utf8_lossy(&o.stdout).to_string(), String::from_utf8_lossy(&o.stderr).to_string())).unwrap_or_default();
    if status.success() {
        match out.0.trim().strip_prefix("OK ").and_then(|v| v.parse::<u64>().ok()) { Some(v) => (ChildOutcome::Ok(v), dt), None => (ChildOutcome::Wrong(out.0), dt) }
    } else {
        let why = match status.signal() { Some(sig) => format!("killed by signal {sig}"), None => format!("exit code {:?}", status.code()) };
        let msg: String = out.1.lines().filter(|l| l.contains("overflowed") || l.contains("panicked")).take(1).collect();
        (ChildOutcome::Crashed(format!("{why}{}{msg}", if msg.is_empty() { "" } else { ": " })), dt)
    }
}

fn main() {
    let a = parse_args();
    if a.rest.first().map(|s| s.as_str()) == Some("--child") {
        child_main(&a.rest[1], a.rest[2].parse().unwrap(), a.rest[3].parse().unwrap());
        return;
    }
    if a.rest.first().map(|s| s.as_str()) == Some("--measure") {
        // exploration: c16 --measure <op> <n>...
        let op = a.rest[1].clone();
        for n in a.rest[2..].iter().map(|s| s.parse::<usize>().unwrap()) {
            let op2 = op.clone();
            let ((v, spread, calls), used) = with_watermark(move || { probe_reset(); let v = run_op(&op2, n); let (s, c) = probe_read(); (v, s, c) });
            println!("{op} n={n} [{PROFILE}] result={v} callback-spread={spread}B over {calls} calls, stack high-water={used}B");
        }
        return;
    }
    if a.rest.first().map(|s| s.as_str()) == Some("--crash-table") {
        // exploration: every operation x sizes on a 2 MiB thread in a subprocess
        let sizes: Vec<usize> = a.rest[1..].iter().filter_map(|s| s.parse().ok()).collect();
        let only: Vec<&str> = a.rest[1..].iter().filter(|s| s.parse::<usize>().is_err()).map(|s| s.as_str()).collect();
        for (op, _) in OPS { if !only.is_empty() && !only.iter().any(|o| op.starts_with(o)) { continue; } for &n in &sizes {
            let (o, dt) = run_child(op, n, 2 << 20, 600);
            println!("{op:18} n={n:<8} [{PROFILE}] {o:?} ({dt:.1}s)");
        } }
        return;
    }
    let _ = std::io::stdout().flush();
}
