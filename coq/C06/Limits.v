From Sophia.C06 Require Import Model.

(* C06/Limits.v -- (1) the escape table of the implementation is the canonical N-Quads table of
   the specification; (2) the two limits only turn a result into ToxicGraph; (3) unsupported
   input is rejected before any hashing and only then; (4) the memoised first-degree hash is the
   recomputation.  Proofs only; no new assumption. *)

(* ====================================================================================== *)
(* 1. canonical N-Quads                                                                     *)
(* ====================================================================================== *)

Lemma small_in_seq (n : nat) (c : N) : c < N.of_nat n -> In c (map N.of_nat (seq 0 n)).
Proof.
  intros Hc. rewrite <- (N2Nat.id c). apply in_map. apply in_seq. lia.
Qed.

Definition esc_check (c : N) : bool := str_eqb (esc_char c) (cnq_char c).

Lemma esc_check_small : forallb esc_check (map N.of_nat (seq 0 128)) = true.
Proof. vm_compute. reflexivity. Qed.

Theorem esc_char_is_canonical : forall c : N, esc_char c = cnq_char c.
Proof.
  intros c. destruct (N.ltb_spec c 128) as [Hs|Hl].
  - pose proof esc_check_small as Hall. rewrite forallb_forall in Hall.
    apply str_eqb_eq. apply (Hall c). apply (small_in_seq 128). exact Hs.
  - unfold esc_char, cnq_char.
    cbn [assoc_N echar_table existsb uchar_list].
    repeat match goal with
           | |- context [N.eqb ?a ?b] => destruct (N.eqb_spec a b); [lia|]
           end.
    destruct (N.leb_spec c 31); [lia|].
    reflexivity.
Qed.

Lemma esc_is_cnq_string (s : str) : esc s = cnq_string s.
Proof. unfold esc, cnq_string. apply flat_map_ext. intros; apply esc_char_is_canonical. Qed.

Theorem nq_is_canonical : forall t, is_rdf_term t = true -> nq t = cnq_term (fun b => b) t ++ [32].
Proof.
  intros [s|b|l dt|l tag|s p o|v] Ht; try discriminate Ht; cbn [nq cnq_term s_bn].
  - rewrite <- !app_assoc. reflexivity.
  - rewrite <- !app_assoc. reflexivity.
  - rewrite esc_is_cnq_string. rewrite <- !app_assoc. reflexivity.
  - rewrite esc_is_cnq_string. rewrite <- !app_assoc. reflexivity.
Qed.

Lemma iri_is_rdf_term (p : term) :
  match p with Iri _ => true | _ => false end = true -> is_rdf_term p = true.
Proof. destruct p; simpl; congruence. Qed.

Lemma sp_supported_inv s p o g :
  sp_supported (s, p, o, g) = true ->
  is_rdf_term s = true /\ is_rdf_term p = true /\ is_rdf_term o = true
  /\ match g with Some gn => is_rdf_term gn = true | None => True end.
Proof.
  unfold sp_supported. rewrite !andb_true_iff. intros [[[Hp Hs] Ho] Hg].
  repeat split; auto using iri_is_rdf_term. destruct g; auto.
Qed.

Theorem nq_line_is_canonical : forall q, sp_supported q = true -> nq_line q = cnq_quad (fun b => b) q.
Proof.
  intros [[[s p] o] g] Hq. apply sp_supported_inv in Hq as (Hs & Hp & Ho & Hg).
  unfold nq_line, cnq_quad, s_eol, nq_opt.
  rewrite (nq_is_canonical s Hs), (nq_is_canonical p Hp), (nq_is_canonical o Ho).
  destruct g as [gn|].
  - rewrite (nq_is_canonical gn Hg). rewrite <- !app_assoc. reflexivity.
  - rewrite <- !app_assoc. reflexivity.
Qed.

Lemma nq_for_hash_is_canonical r t :
  is_rdf_term t = true ->
  nq_for_hash r t = cnq_term (fun b => if str_eqb b r then [97] else [122]) t ++ [32].
Proof.
  intros Ht. destruct t as [s|b|l dt|l tag|s p o|v]; try discriminate Ht;
    try (apply (nq_is_canonical _ Ht)).
  cbn [nq_for_hash cnq_term]. destruct (str_eqb b r); reflexivity.
Qed.

Theorem h1d_line_is_canonical : forall r q, sp_supported q = true ->
  h1d_line r q = cnq_quad (fun b => if str_eqb b r then [97] else [122]) q.
Proof.
  intros r [[[s p] o] g] Hq. apply sp_supported_inv in Hq as (Hs & Hp & Ho & Hg).
  unfold h1d_line, cnq_quad, s_eol.
  rewrite (nq_for_hash_is_canonical r s Hs), (nq_for_hash_is_canonical r p Hp),
          (nq_for_hash_is_canonical r o Ho).
  destruct g as [gn|].
  - rewrite (nq_for_hash_is_canonical r gn Hg). rewrite <- !app_assoc. reflexivity.
  - rewrite <- !app_assoc. reflexivity.
Qed.

Example escape_table_listing :
  map (fun c => (c, esc_char c)) [0;7;8;9;10;11;12;13;14;31;32;34;92;126;127;128]
  = [ (0,   [92;117;48;48;48;48]);     (* \u0000 *)
      (7,   [92;117;48;48;48;55]);     (* \u0007 *)
      (8,   [92;98]);                  (* \b *)
      (9,   [92;116]);                 (* \t *)
      (10,  [92;110]);                 (* \n *)
      (11,  [92;117;48;48;48;66]);     (* \u000B *)
      (12,  [92;102]);                 (* \f *)
      (13,  [92;114]);                 (* \r *)
      (14,  [92;117;48;48;48;69]);     (* \u000E *)
      (31,  [92;117;48;48;49;70]);     (* \u001F *)
      (32,  [32]);                     (* space: itself *)
      (34,  [92;34]);                  (* backslash, double quote *)
      (92,  [92;92]);                  (* \\ *)
      (126, [126]);                    (* ~: itself *)
      (127, [92;117;48;48;55;70]);     (* \u007F *)
      (128, [128]) ].                  (* U+0080: itself *)
Proof. vm_compute. reflexivity. Qed.

(* ====================================================================================== *)
(* 2. the limits only turn a result into ToxicGraph                                        *)
(* ====================================================================================== *)

Definition le_res {A} (limited unlimited : res A) : Prop :=
  limited = unlimited \/ limited = Err EToxicDepth \/ limited = Err EToxicPerm.

Definition no_limits (st : state) : state :=
  mkState (st_b2q st) (st_b2h st) (st_canon st) None None (st_prune st).

Lemma le_res_refl {A} (r : res A) : le_res r r.
Proof. left; reflexivity. Qed.
Lemma le_res_depth {A} (r : res A) : le_res (Err EToxicDepth) r.
Proof. right; left; reflexivity. Qed.
Lemma le_res_perm {A} (r : res A) : le_res (Err EToxicPerm) r.
Proof. right; right; reflexivity. Qed.
#[local] Hint Resolve le_res_refl le_res_depth le_res_perm : core.

(* use a proof of [le_res x y] on a goal whose limited side scrutinises [x] and whose
   unlimited side scrutinises [y] *)
Ltac use_le Hr :=
  let E := fresh "E" in
  destruct Hr as [E|[E|E]]; rewrite E; [| apply le_res_depth | apply le_res_perm].

Definition rec_t := str -> issuer -> N -> res (str * issuer).
Definition rec_le (rec1 rec2 : rec_t) : Prop := forall r i k, le_res (rec1 r i k) (rec2 r i k).

Lemma perm_rec_mono (rec1 rec2 : rec_t) st :
  rec_le rec1 rec2 ->
  forall rl chosen depth ic path,
    le_res (perm_rec rec1 st chosen depth ic path rl)
           (perm_rec rec2 (no_limits st) chosen depth ic path rl).
Proof.
  intros Hrec rl; induction rl as [|r rl IH]; intros chosen depth ic path; cbn [perm_rec].
  - apply le_res_refl.
  - pose proof (Hrec r ic (depth + 1)) as Hr. use_le Hr.
    destruct (rec2 r ic (depth + 1)) as [[h ic2]|e]; [|apply le_res_refl].
    destruct (issue s_b ic r) as [[i0 id] nw].
    change (st_prune (no_limits st)) with (st_prune st).
    destruct (negb (is_nil chosen) && prune_rule (st_prune st) chosen (path ++ s_bn ++ id ++ [60] ++ h ++ [62])).
    + apply le_res_refl.
    + apply IH.
Qed.

Lemma one_perm_mono (rec1 rec2 : rec_t) st :
  rec_le rec1 rec2 ->
  forall base depth acc p,
    le_res (one_perm rec1 st base depth acc p) (one_perm rec2 (no_limits st) base depth acc p).
Proof.
  intros Hrec base depth [chosen ci] p. unfold one_perm.
  change (st_canon (no_limits st)) with (st_canon st).
  destruct (perm_ids (st_canon st) base [] [] p) as [[ic path] rl].
  change (st_prune (no_limits st)) with (st_prune st).
  destruct (negb (is_nil chosen) && prune_rule (st_prune st) chosen path); [apply le_res_refl|].
  pose proof (perm_rec_mono rec1 rec2 st Hrec rl chosen depth ic path) as Hr. use_le Hr.
  apply le_res_refl.
Qed.

Lemma all_perms_mono (rec1 rec2 : rec_t) st :
  rec_le rec1 rec2 ->
  forall ps base depth acc,
    le_res (all_perms rec1 st base depth acc ps) (all_perms rec2 (no_limits st) base depth acc ps).
Proof.
  intros Hrec ps; induction ps as [|p ps IH]; intros base depth acc; cbn [all_perms].
  - apply le_res_refl.
  - pose proof (one_perm_mono rec1 rec2 st Hrec base depth acc p) as Hr. use_le Hr.
    destruct (one_perm rec2 (no_limits st) base depth acc p) as [acc'|e]; [|apply le_res_refl].
    apply IH.
Qed.

Lemma hn_groups_mono (rec1 rec2 : rec_t) st :
  rec_le rec1 rec2 ->
  forall hn iss depth data ret,
    le_res (hn_groups rec1 st iss depth data ret hn)
           (hn_groups rec2 (no_limits st) iss depth data ret hn).
Proof.
  intros Hrec hn; induction hn as [|[rh bl] hn IH]; intros iss depth data ret; cbn [hn_groups].
  - apply le_res_refl.
  - change (st_plimit (no_limits st)) with (@None N). cbv iota.
    destruct (match st_plimit st with Some pl => pl <? N.of_nat (length bl) | None => false end);
      [apply le_res_perm|].
    pose proof (all_perms_mono rec1 rec2 st Hrec (heap_perms bl)
                  (match ret with Some r => r | None => iss end) depth ([], None)) as Hr.
    use_le Hr.
    destruct (all_perms rec2 (no_limits st) (match ret with Some r => r | None => iss end)
                depth ([], None) (heap_perms bl)) as [[chosen ci]|e]; [|apply le_res_refl].
    apply IH.
Qed.

(* hash_related, hn_comps, hn_quads do not look at the limits *)
Lemma hash_related_no_limits H st related q iss pos :
  hash_related H (no_limits st) related q iss pos = hash_related H st related q iss pos.
Proof. reflexivity. Qed.

Lemma hn_comps_no_limits H st ident iss q cs :
  forall hn, hn_comps H (no_limits st) ident iss q cs hn = hn_comps H st ident iss q cs hn.
Proof.
  induction cs as [|[pos c] cs IH]; intros hn; cbn [hn_comps]; [reflexivity|].
  destruct (bnode_id c) as [b|]; [|apply IH].
  destruct (str_eqb b ident); [apply IH|].
  rewrite hash_related_no_limits.
  destruct (hash_related H st b q iss pos); [apply IH|reflexivity].
Qed.

Lemma hn_quads_no_limits H st ident iss qs :
  forall hn, hn_quads H (no_limits st) ident iss qs hn = hn_quads H st ident iss qs hn.
Proof.
  induction qs as [|q qs IH]; intros hn; cbn [hn_quads]; [reflexivity|].
  rewrite hn_comps_no_limits.
  destruct (hn_comps H st ident iss q (comps q) hn); [apply IH|reflexivity].
Qed.

Lemma hnd_body_mono H (rec1 rec2 : rec_t) st :
  rec_le rec1 rec2 ->
  forall ident iss depth,
    le_res (hnd_body H rec1 st ident iss depth) (hnd_body H rec2 (no_limits st) ident iss depth).
Proof.
  intros Hrec ident iss depth. unfold hnd_body.
  change (st_df1000 (no_limits st)) with (@None N). cbv iota.
  change (st_b2q (no_limits st)) with (st_b2q st).
  destruct (match st_df1000 st with
            | Some df => df * N.of_nat (length (st_b2q st)) <? depth * 1000
            | None => false end); [apply le_res_depth|].
  destruct (bt_get (st_b2q st) ident) as [qs|]; [|apply le_res_refl].
  rewrite hn_quads_no_limits.
  destruct (hn_quads H st ident iss qs []) as [hn|e]; [|apply le_res_refl].
  pose proof (hn_groups_mono rec1 rec2 st Hrec hn iss depth [] None) as Hr. use_le Hr.
  apply le_res_refl.
Qed.

Theorem hnd_limits : forall H fuel st ident iss depth,
  le_res (hnd H fuel st ident iss depth) (hnd H fuel (no_limits st) ident iss depth).
Proof.
  intros H fuel; induction fuel as [|f IH]; intros st ident iss depth; cbn [hnd].
  - apply le_res_refl.
  - apply hnd_body_mono. intros r i k. apply IH.
Qed.

Lemma step5_paths_limits H fuel st ids :
  le_res (step5_paths H fuel st ids) (step5_paths H fuel (no_limits st) ids).
Proof.
  induction ids as [|n ids IH]; cbn [step5_paths]; [apply le_res_refl|].
  pose proof (hnd_limits H fuel st n (issue_ s_b [] n) 0) as Hr. use_le Hr.
  destruct (hnd H fuel (no_limits st) n (issue_ s_b [] n) 0) as [r|e]; [|apply le_res_refl].
  use_le IH. apply le_res_refl.
Qed.

Lemma step5_limits H fuel h2b :
  forall st, le_res (step5 H fuel st h2b) (step5 H fuel (no_limits st) h2b).
Proof.
  induction h2b as [|[h ids] r IH]; intros st; cbn [step5]; [apply le_res_refl|].
  pose proof (step5_paths_limits H fuel st ids) as Hr. use_le Hr.
  destruct (step5_paths H fuel (no_limits st) ids) as [paths|e]; [|apply le_res_refl].
  change (st_canon (no_limits st)) with (st_canon st).
  change (with_canon (no_limits st) (step5_issue (st_canon st) paths))
    with (no_limits (with_canon st (step5_issue (st_canon st) paths))).
  apply IH.
Qed.

Lemma relabel_limits H v fuel df pl d :
  le_res (relabel_with H v fuel df pl d) (relabel_with H v fuel None None d).
Proof.
  unfold relabel_with.
  destruct (step2 (v_once v) d []) as [b2q|e]; [|apply le_res_refl].
  destruct (step4 (step3_h2b (step3_b2h H b2q)) []) as [h2b canon].
  pose proof (step5_limits H fuel h2b (mkState b2q (step3_b2h H b2q) canon df pl (v_prune v))) as Hr.
  change (no_limits (mkState b2q (step3_b2h H b2q) canon df pl (v_prune v)))
    with (mkState b2q (step3_b2h H b2q) canon None None (v_prune v)) in Hr.
  use_le Hr. apply le_res_refl.
Qed.

Theorem limits_only_toxic : forall H v fuel df pl d,
  le_res (normalize_with H v fuel df pl d) (normalize_with H v fuel None None d).
Proof.
  intros H v fuel df pl d. unfold normalize_with.
  pose proof (relabel_limits H v fuel df pl d) as Hr. use_le Hr. apply le_res_refl.
Qed.

Theorem run_limited_ok : forall H v fuel df pl d r,
  normalize_with H v fuel df pl d = Ok r -> normalize_with H v fuel None None d = Ok r.
Proof.
  intros H v fuel df pl d r Hok.
  destruct (limits_only_toxic H v fuel df pl d) as [E|[E|E]]; congruence.
Qed.

Theorem run_limited_err : forall H v fuel df pl d e,
  normalize_with H v fuel df pl d = Err e ->
  e = EToxicDepth \/ e = EToxicPerm \/ normalize_with H v fuel None None d = Err e.
Proof.
  intros H v fuel df pl d e Herr.
  destruct (limits_only_toxic H v fuel df pl d) as [E|[E|E]].
  - right; right; congruence.
  - left; congruence.
  - right; left; congruence.
Qed.

(* ====================================================================================== *)
(* 3. unsupported input is rejected before any hashing, and only then                      *)
(* ====================================================================================== *)

Theorem unsupported_rejected_first : forall H v fuel df pl d e,
  step2 (v_once v) d [] = Err e -> normalize_with H v fuel df pl d = Err e.
Proof.
  intros H v fuel df pl d e Hs. unfold normalize_with, relabel_with. rewrite Hs. reflexivity.
Qed.

Lemma step2_comps_errors once q cs :
  forall seen m e, step2_comps once q seen cs m = Err e -> e = EBadTerm.
Proof.
  induction cs as [|[pos c] cs IH]; intros seen m e He; cbn [step2_comps] in He.
  - discriminate He.
  - destruct (is_bad c); [congruence|].
    destruct (bnode_id c) as [b|]; [|eapply IH; eassumption].
    destruct (once && mem b seen); eapply IH; eassumption.
Qed.

Theorem step2_errors : forall once d m0 e,
  step2 once d m0 = Err e -> e = EBlankPred \/ e = EBadTerm.
Proof.
  intros once d; induction d as [|q d IH]; intros m0 e He; cbn [step2] in He.
  - discriminate He.
  - destruct (bnode_id (q_pred q)); [left; congruence|].
    destruct (step2_comps once q [] (comps q) m0) as [m'|e'] eqn:Ec.
    + eapply IH; eassumption.
    + right. injection He as <-. eapply step2_comps_errors; eassumption.
Qed.

Lemma step2_comps_ok once q cs :
  forallb (fun c : N * term => negb (is_bad (snd c))) cs = true ->
  forall seen m, exists m', step2_comps once q seen cs m = Ok m'.
Proof.
  induction cs as [|[pos c] cs IH]; intros Hall seen m; cbn [step2_comps].
  - eexists; reflexivity.
  - cbn [forallb snd] in Hall. apply andb_true_iff in Hall as [Hc Hall].
    apply negb_true_iff in Hc. rewrite Hc.
    destruct (bnode_id c) as [b|]; [|apply IH; assumption].
    destruct (once && mem b seen); apply IH; assumption.
Qed.

Lemma step2_comps_bad once q cs :
  forallb (fun c : N * term => negb (is_bad (snd c))) cs = false ->
  forall seen m, step2_comps once q seen cs m = Err EBadTerm.
Proof.
  induction cs as [|[pos c] cs IH]; intros Hall seen m; cbn [step2_comps].
  - discriminate Hall.
  - cbn [forallb snd] in Hall.
    destruct (is_bad c); [reflexivity|]. cbn [negb andb] in Hall.
    destruct (bnode_id c) as [b|]; [|apply IH; assumption].
    destruct (once && mem b seen); apply IH; assumption.
Qed.

Theorem step2_supported : forall once d m0,
  supported d = true -> exists m, step2 once d m0 = Ok m.
Proof.
  intros once d; induction d as [|q d IH]; intros m0 Hs; cbn [step2].
  - eexists; reflexivity.
  - unfold supported in Hs. cbn [forallb] in Hs. apply andb_true_iff in Hs as [Hq Hd].
    unfold supported_q in Hq. apply andb_true_iff in Hq as [Hp Hc].
    destruct (bnode_id (q_pred q)); [discriminate Hp|].
    destruct (step2_comps_ok once q (comps q) Hc [] m0) as [m' Hm']. rewrite Hm'.
    apply IH. exact Hd.
Qed.

Theorem step2_unsupported : forall once d m0,
  supported d = false -> exists e, step2 once d m0 = Err e.
Proof.
  intros once d; induction d as [|q d IH]; intros m0 Hs; cbn [step2].
  - discriminate Hs.
  - unfold supported in Hs. cbn [forallb] in Hs. unfold supported_q in Hs.
    destruct (bnode_id (q_pred q)); [eexists; reflexivity|]. cbn [andb] in Hs.
    destruct (forallb (fun c : N * term => negb (is_bad (snd c))) (comps q)) eqn:Hc.
    + destruct (step2_comps_ok once q (comps q) Hc [] m0) as [m' Hm']. rewrite Hm'.
      apply IH. exact Hs.
    + rewrite (step2_comps_bad once q (comps q) Hc). eexists; reflexivity.
Qed.

(* the later stages never answer "unsupported" *)
Definition good_err (e : err) : Prop := e <> EBlankPred /\ e <> EBadTerm.
Definition rec_good (rec : rec_t) : Prop := forall r i k e, rec r i k = Err e -> good_err e.

Ltac is_good := split; discriminate.
Ltac case_if Hx :=
  match type of Hx with context [if ?c then _ else _] => destruct c end.

Lemma perm_rec_err (rec : rec_t) st :
  rec_good rec ->
  forall rl chosen depth ic path e, perm_rec rec st chosen depth ic path rl = Err e -> good_err e.
Proof.
  intros Hrec rl; induction rl as [|r rl IH]; intros chosen depth ic path e He;
    cbn [perm_rec] in He.
  - discriminate He.
  - destruct (rec r ic (depth + 1)) as [[h ic2]|e0] eqn:Er.
    + destruct (issue s_b ic r) as [[i0 id] nw].
      case_if He; [discriminate He|]. eapply IH; eassumption.
    + injection He as <-. eapply Hrec; eassumption.
Qed.

Lemma one_perm_err (rec : rec_t) st :
  rec_good rec ->
  forall base depth acc p e, one_perm rec st base depth acc p = Err e -> good_err e.
Proof.
  intros Hrec base depth [chosen ci] p e He. unfold one_perm in He.
  destruct (perm_ids (st_canon st) base [] [] p) as [[ic path] rl].
  case_if He; [discriminate He|].
  destruct (perm_rec rec st chosen depth ic path rl) as [[[ic' path']|]|e0] eqn:Ep.
  - case_if He; discriminate He.
  - discriminate He.
  - injection He as <-. eapply perm_rec_err; eassumption.
Qed.

Lemma all_perms_err (rec : rec_t) st :
  rec_good rec ->
  forall ps base depth acc e, all_perms rec st base depth acc ps = Err e -> good_err e.
Proof.
  intros Hrec ps; induction ps as [|p ps IH]; intros base depth acc e He; cbn [all_perms] in He.
  - discriminate He.
  - destruct (one_perm rec st base depth acc p) as [acc'|e0] eqn:Eo.
    + eapply IH; eassumption.
    + injection He as <-. eapply one_perm_err; eassumption.
Qed.

Lemma hn_groups_err (rec : rec_t) st :
  rec_good rec ->
  forall hn iss depth data ret e, hn_groups rec st iss depth data ret hn = Err e -> good_err e.
Proof.
  intros Hrec hn; induction hn as [|[rh bl] hn IH]; intros iss depth data ret e He;
    cbn [hn_groups] in He.
  - discriminate He.
  - case_if He; [injection He as <-; is_good|].
    destruct (all_perms rec st (match ret with Some r => r | None => iss end) depth
                ([], None) (heap_perms bl)) as [[chosen ci]|e0] eqn:Ea.
    + eapply IH; eassumption.
    + injection He as <-. eapply all_perms_err; eassumption.
Qed.

Lemma hash_related_err H st related q iss pos e :
  hash_related H st related q iss pos = Err e -> good_err e.
Proof.
  unfold hash_related. intros He.
  assert (Hk : e = EPredNotIri \/ e = ENoId).
  { destruct (pos =? pos_g).
    - destruct (iss_get (st_canon st) related); [discriminate He|].
      destruct (iss_get iss related); [discriminate He|].
      destruct (bt_get (st_b2h st) related); [discriminate He|]. right; congruence.
    - destruct (q_pred q); try (left; congruence).
      destruct (iss_get (st_canon st) related); [discriminate He|].
      destruct (iss_get iss related); [discriminate He|].
      destruct (bt_get (st_b2h st) related); [discriminate He|]. right; congruence. }
  destruct Hk as [->| ->]; is_good.
Qed.

Lemma hn_comps_err H st ident iss q cs :
  forall hn e, hn_comps H st ident iss q cs hn = Err e -> good_err e.
Proof.
  induction cs as [|[pos c] cs IH]; intros hn e He; cbn [hn_comps] in He.
  - discriminate He.
  - destruct (bnode_id c) as [b|]; [|eapply IH; eassumption].
    destruct (str_eqb b ident); [eapply IH; eassumption|].
    destruct (hash_related H st b q iss pos) as [h|e0] eqn:Eh.
    + eapply IH; eassumption.
    + injection He as <-. eapply hash_related_err; eassumption.
Qed.

Lemma hn_quads_err H st ident iss qs :
  forall hn e, hn_quads H st ident iss qs hn = Err e -> good_err e.
Proof.
  induction qs as [|q qs IH]; intros hn e He; cbn [hn_quads] in He.
  - discriminate He.
  - destruct (hn_comps H st ident iss q (comps q) hn) as [hn'|e0] eqn:Ec.
    + eapply IH; eassumption.
    + injection He as <-. eapply hn_comps_err; eassumption.
Qed.

Lemma hnd_body_err H (rec : rec_t) st :
  rec_good rec ->
  forall ident iss depth e, hnd_body H rec st ident iss depth = Err e -> good_err e.
Proof.
  intros Hrec ident iss depth e He. unfold hnd_body in He.
  case_if He; [injection He as <-; is_good|].
  destruct (bt_get (st_b2q st) ident) as [qs|]; [|injection He as <-; is_good].
  destruct (hn_quads H st ident iss qs []) as [hn|e0] eqn:Eq.
  - destruct (hn_groups rec st iss depth [] None hn) as [[data ret]|e1] eqn:Eg.
    + discriminate He.
    + injection He as <-. eapply hn_groups_err; eassumption.
  - injection He as <-. eapply hn_quads_err; eassumption.
Qed.

Theorem hnd_err_kind : forall H fuel st ident iss depth e,
  hnd H fuel st ident iss depth = Err e -> e <> EBlankPred /\ e <> EBadTerm.
Proof.
  intros H fuel; induction fuel as [|f IH]; intros st ident iss depth e He; cbn [hnd] in He.
  - injection He as <-. is_good.
  - eapply (hnd_body_err H (hnd H f st) st); [|eassumption].
    intros r i k e0 Hr. eapply IH; eassumption.
Qed.

Lemma step5_paths_err H fuel st ids :
  forall e, step5_paths H fuel st ids = Err e -> good_err e.
Proof.
  induction ids as [|n ids IH]; intros e He; cbn [step5_paths] in He.
  - discriminate He.
  - destruct (hnd H fuel st n (issue_ s_b [] n) 0) as [r|e0] eqn:Eh.
    + destruct (step5_paths H fuel st ids) as [l|e1].
      * discriminate He.
      * injection He as <-. apply IH; reflexivity.
    + injection He as <-. eapply hnd_err_kind; eassumption.
Qed.

Lemma step5_err H fuel h2b :
  forall st e, step5 H fuel st h2b = Err e -> good_err e.
Proof.
  induction h2b as [|[h ids] r IH]; intros st e He; cbn [step5] in He.
  - discriminate He.
  - destruct (step5_paths H fuel st ids) as [paths|e0] eqn:Ep.
    + eapply IH; eassumption.
    + injection He as <-. eapply step5_paths_err; eassumption.
Qed.

Lemma relabel_t_err issued t e : relabel_t issued t = Err e -> e = ENoId.
Proof.
  destruct t; cbn [relabel_t]; try discriminate.
  destruct (iss_get issued s); congruence.
Qed.

Lemma relabel_q_err issued q e : relabel_q issued q = Err e -> e = ENoId.
Proof.
  destruct q as [[[s p] o] g]. unfold relabel_q.
  destruct (relabel_t issued s) as [s'|es] eqn:Es;
  destruct (relabel_t issued p) as [p'|ep] eqn:Ep;
  destruct (relabel_t issued o) as [o'|eo] eqn:Eo; intros He;
    try (injection He as <-; eapply relabel_t_err; eassumption).
  destruct g as [t|]; [|discriminate He].
  destruct (relabel_t issued t) as [t'|et] eqn:Et; [discriminate He|].
  injection He as <-; eapply relabel_t_err; eassumption.
Qed.

Lemma relabel_qs_err issued d : forall e, relabel_qs issued d = Err e -> e = ENoId.
Proof.
  induction d as [|q d IH]; intros e He; cbn [relabel_qs] in He.
  - discriminate He.
  - destruct (relabel_q issued q) as [q'|e0] eqn:Eq.
    + destruct (relabel_qs issued d) as [l|e1]; [discriminate He|].
      injection He as <-. apply IH; reflexivity.
    + injection He as <-. eapply relabel_q_err; eassumption.
Qed.

Theorem later_errors : forall H v fuel df pl d e,
  normalize_with H v fuel df pl d = Err e ->
  (e = EBlankPred \/ e = EBadTerm) -> supported d = false.
Proof.
  intros H v fuel df pl d e He Hk.
  destruct (supported d) eqn:Es; [exfalso|reflexivity].
  destruct (step2_supported (v_once v) d [] Es) as [m Hm].
  unfold normalize_with, relabel_with in He. rewrite Hm in He.
  destruct (step4 (step3_h2b (step3_b2h H m)) []) as [h2b canon].
  destruct (step5 H fuel (mkState m (step3_b2h H m) canon df pl (v_prune v)) h2b) as [issued|e0] eqn:E5.
  - destruct (relabel_qs issued d) as [qs|e1] eqn:Er; [discriminate He|].
    injection He as <-. apply relabel_qs_err in Er. subst e1.
    destruct Hk; discriminate.
  - injection He as <-. apply step5_err in E5. destruct E5 as [N1 N2].
    destruct Hk; contradiction.
Qed.

(* ====================================================================================== *)
(* 4. the memoised first-degree hash is the recomputation                                  *)
(* ====================================================================================== *)

Theorem b2h_memo : forall H (b2q : b2q_t) b qs,
  bt_get b2q b = Some qs -> bt_get (step3_b2h H b2q) b = Some (h1d H b qs).
Proof.
  intros H b2q b qs; induction b2q as [|[k v] m IH]; intros Hg; cbn [bt_get] in Hg.
  - discriminate Hg.
  - unfold step3_b2h. cbn [map fst snd bt_get].
    destruct (str_eqb_spec k b) as [->|Hn].
    + injection Hg as <-. reflexivity.
    + apply IH. exact Hg.
Qed.

Theorem b2h_memo_none : forall H (b2q : b2q_t) b,
  bt_get b2q b = None -> bt_get (step3_b2h H b2q) b = None.
Proof.
  intros H b2q b; induction b2q as [|[k v] m IH]; intros Hg; cbn [bt_get] in Hg.
  - reflexivity.
  - unfold step3_b2h. cbn [map fst snd bt_get].
    destruct (str_eqb k b); [discriminate Hg|].
    apply IH. exact Hg.
Qed.

