#!/usr/bin/env python3
"""Reads `llvm-cov show` text output on stdin; prints, per source file of /repo, the executable lines with count 0
that are not inside `#[cfg(test)]` modules, as compact ranges with the source text."""
import re, sys

cur = None
files = {}
for line in sys.stdin:
    line = line.rstrip("\n")
    m = re.match(r"^(/[^:]+\.rs):$", line)
    if m:
        cur = m.group(1); files[cur] = []; continue
    m = re.match(r"^\s*(\d+)\|\s*([0-9.kMGE]*)\|(.*)$", line)
    if m and cur:
        files[cur].append((int(m.group(1)), m.group(2), m.group(3)))

for f, rows in sorted(files.items()):
    if not f.startswith("/repo/"):
        continue
    in_test = False
    out = []
    for ln, cnt, src in rows:
        if re.search(r"#\[cfg\((all\()?test", src):
            in_test = True   # test modules sit at the end of sophia's files
        if in_test:
            continue
        if cnt == "0":
            out.append((ln, src))
    total = sum(1 for ln, cnt, src in rows if cnt != "")
    if not out:
        continue
    print("== %s: %d uncovered of %d instrumented lines" % (f, len(out), total))
    for ln, src in out:
        print("  %5d| %s" % (ln, src[:150]))
