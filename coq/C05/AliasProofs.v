(* C05/AliasProofs.v -- theorems about Alias.v: the canonical document of the model does not depend
   on whether the blank node labels of the input look like canonical (or temporary) identifiers.
   Corollaries of Relabel.invariance_under_relabelling for relabellings given as tables, for the
   canonical document read back (relabelling by the identifier map itself: idempotence) and for the
   document read back and relabelled once more; the decidable side conditions of the checker
   alias_ok are sound; the third clause of alias_ok follows from the first one (so the checker
   never alarms on an implementation that agrees with the model).
   Stdlib only, closed under the global context. *)
From Sophia.C05 Require Import Model Heap Reader NqProofs Ties FirstDegree Bijection Invariance.
From Sophia.C05 Require Import Relabel1 Relabel Entry Alias.
From Coq Require Import Permutation.
From Sophia.C05 Require Proofs.

(* ---------- the decidable side condition ---------- *)
Theorem injective_on_sound : forall f l, injective_on f l = true -> inj_on f l.
Proof.
  intros f l Hf x y Hx Hy E. unfold injective_on in Hf.
  rewrite forallb_forall in Hf. specialize (Hf x Hx). rewrite forallb_forall in Hf.
  specialize (Hf y Hy). rewrite E, str_eqb_refl in Hf. cbn [implb] in Hf.
  apply str_eqb_eq. exact Hf.
Qed.
Theorem injective_on_complete : forall f l, inj_on f l -> injective_on f l = true.
Proof.
  intros f l Hinj. unfold injective_on. apply forallb_forall. intros x Hx.
  apply forallb_forall. intros y Hy.
  destruct (str_eqb (f x) (f y)) eqn:E; cbn [implb]; [|reflexivity].
  apply str_eqb_eq. apply Hinj; [exact Hx|exact Hy|]. apply str_eqb_eq. exact E.
Qed.

(* ---------- relabelling by a table ---------- *)
Theorem alias_invariant : forall H fuel df pl m d b1 i1,
  Forall wf_quad d -> Forall wf_quad (relabel_input m d) ->
  inj_on (lbl_apply m) (bnodes d) ->
  top_ties H (mkVar true true) fuel df pl d = false ->
  impl_model H fuel df pl d = Ok (b1, i1) ->
  exists i2, impl_model H fuel df pl (relabel_input m d) = Ok (b1, i2).
Proof.
  intros H fuel df pl m d b1 i1 W1 W2 Hinj Ht R. unfold relabel_input in *.
  eapply invariance_under_relabelling; eassumption.
Qed.

(* the identifier map as well: every node keeps its identifier *)
Theorem alias_idmap_invariant : forall H fuel df pl m d qs i1,
  Forall wf_quad d ->
  inj_on (lbl_apply m) (bnodes d) ->
  top_ties H (mkVar true true) fuel df pl d = false ->
  relabel_with H (mkVar true true) fuel df pl d = Ok (qs, i1) ->
  relabel_with H (mkVar true true) fuel df pl (relabel_input m d) = Ok (qs, rn (lbl_apply m) i1).
Proof.
  intros H fuel df pl m d qs i1 W Hinj Ht R. unfold relabel_input.
  apply relabel_with_rename; [reflexivity|apply wf_supported; exact W|exact Hinj|exact Ht|exact R].
Qed.

(* ---------- the identifier map is injective on the labels of the input ---------- *)
Lemma in_fst_snd {A B} (l : list (A * B)) a b : In (a, b) l -> In b (map snd l).
Proof. intros Hi. apply in_map_iff. exists (a, b). split; [reflexivity|exact Hi]. Qed.

Lemma nodup_snd_inj {A B} (l : list (A * B)) : NoDup (map snd l) ->
  forall a1 a2 b, In (a1, b) l -> In (a2, b) l -> a1 = a2.
Proof.
  induction l as [|[a b0] l IH]; intros Hn a1 a2 b H1 H2; [destruct H1|].
  cbn [map snd] in Hn. inversion Hn as [|? ? Hnot Hn']; subst.
  destruct H1 as [E1|H1], H2 as [E2|H2].
  - congruence.
  - injection E1 as <- <-. exfalso. apply Hnot. eapply in_fst_snd; exact H2.
  - injection E2 as <- <-. exfalso. apply Hnot. eapply in_fst_snd; exact H1.
  - eapply IH; eassumption.
Qed.

Theorem id_of_inj_on : forall (issued : issuer) (B : list str),
  NoDup (map snd issued) -> (forall b, In b B -> In b (map fst issued)) ->
  inj_on (id_of issued) B.
Proof.
  intros issued B Hn Hc x y Hx Hy E. unfold id_of in E.
  destruct (in_fst_iss_get issued x (Hc x Hx)) as [ix Ex].
  destruct (in_fst_iss_get issued y (Hc y Hy)) as [iy Ey].
  rewrite Ex, Ey in E. subst iy.
  apply iss_get_In in Ex. apply iss_get_In in Ey.
  eapply nodup_snd_inj; eassumption.
Qed.

(* ---------- the canonical document read back ---------- *)
(* canonicalising the relabelled dataset (= the canonical document read back, whose labels are
   c14n0 .. c14n(n-1)) gives the same document *)
Theorem reread_same_document : forall H fuel df pl d b1 i1,
  Forall wf_quad d ->
  top_ties H (mkVar true true) fuel df pl d = false ->
  impl_model H fuel df pl d = Ok (b1, i1) ->
  exists i2, impl_model H fuel df pl (map (rename_q (id_of i1)) d) = Ok (b1, i2).
Proof.
  intros H fuel df pl d b1 i1 W Ht R.
  pose proof (idmap_bijection H (mkVar true true) fuel df pl d b1 i1 R) as (_ & Hk & _ & Hn & _ & _).
  assert (Hw : wf_iss s_c14n i1).
  { pose proof R as R0. apply impl_model_inv in R0 as [qs0 [R0 _]].
    apply relabel_with_core in R0 as (Hw & _). exact Hw. }
  apply (invariance_under_relabelling H fuel df pl (id_of i1) d b1 i1 W);
    [apply wf_relabelled; assumption| |exact Ht|exact R].
  apply id_of_inj_on; [exact Hn|intros b Hb; apply Hk; exact Hb].
Qed.

(* ... and so does the document read back and relabelled once more by any injection pi (two
   identifiers exchanged, the arrangement of another hash function, labels of a generator, ...):
   the labels c14n0 .. c14n(n-1) in ANY arrangement give the document of the original dataset *)
Theorem reread_relabelled_same_document : forall H fuel df pl pi d b1 i1,
  Forall wf_quad d ->
  (forall b, ~ In 32 b -> ~ In 32 (pi b)) ->
  inj_on pi (map snd i1) ->
  top_ties H (mkVar true true) fuel df pl d = false ->
  impl_model H fuel df pl d = Ok (b1, i1) ->
  exists i2, impl_model H fuel df pl (map (rename_q pi) (map (rename_q (id_of i1)) d)) = Ok (b1, i2).
Proof.
  intros H fuel df pl pi d b1 i1 W Hsp Hpi Ht R.
  pose proof (idmap_bijection H (mkVar true true) fuel df pl d b1 i1 R) as (_ & Hk & _ & Hn & _ & _).
  assert (Hw : wf_iss s_c14n i1).
  { pose proof R as R0. apply impl_model_inv in R0 as [qs0 [R0 _]].
    apply relabel_with_core in R0 as (Hw & _). exact Hw. }
  set (f := fun b => pi (id_of i1 b)).
  assert (Em : map (rename_q pi) (map (rename_q (id_of i1)) d) = map (rename_q f) d).
  { rewrite map_map. apply map_ext. intros q. apply rename_q_compose. intros b _. reflexivity. }
  rewrite Em.
  assert (Hin : forall b, In b (bnodes d) -> In (id_of i1 b) (map snd i1)).
  { intros b Hb. apply Hk in Hb. destruct (in_fst_iss_get i1 b Hb) as [id Eid].
    unfold id_of. rewrite Eid. apply iss_get_In in Eid. eapply in_fst_snd; exact Eid. }
  apply (invariance_under_relabelling H fuel df pl f d b1 i1 W); [ | |exact Ht|exact R].
  - apply Forall_map. eapply Forall_impl; [|exact W]. intros q Hq.
    apply wf_quad_rename; [|exact Hq]. intros b Hb. unfold f. apply Hsp.
    apply id_of_no_space; assumption.
  - intros x y Hx Hy E. unfold f in E.
    apply (id_of_inj_on i1 (bnodes d) Hn (fun b Hb => proj2 (Hk b) Hb)); [exact Hx|exact Hy|].
    apply Hpi; [apply Hin; exact Hx|apply Hin; exact Hy|exact E].
Qed.

(* ---------- the checker ---------- *)
(* for well-formed input, the third clause of alias_ok (same document as the original dataset) is
   implied by the first one (implementation = model on the relabelled dataset): the check cannot
   alarm on an implementation that agrees with the model *)
Theorem alias_clause_follows : forall tbl df pl d m code2 bytes2 idmap2 b1 i1,
  Forall wf_quad d -> Forall wf_quad (relabel_input m d) ->
  injective_on (lbl_apply m) (bnodes d) = true ->
  top_ties (tbl_H tbl) (mkVar true true) (fuel_for d) (Some df) (Some pl) d = false ->
  normalize_with (tbl_H tbl) (mkVar true true) (fuel_for d) (Some df) (Some pl) d = Ok (b1, i1) ->
  impl_ok true tbl df pl (relabel_input m d) code2 bytes2 idmap2 = true ->
  (code2 =? 0) && str_eqb b1 bytes2 = true.
Proof.
  intros tbl df pl d m code2 bytes2 idmap2 b1 i1 W1 W2 Hinj Ht R Hok.
  destruct (alias_invariant (tbl_H tbl) (fuel_for d) (Some df) (Some pl) m d b1 i1
              W1 W2 (injective_on_sound _ _ Hinj) Ht R) as [i2 R2].
  unfold impl_ok in Hok.
  assert (Ef : fuel_for (relabel_input m d) = fuel_for d).
  { unfold fuel_for, relabel_input. rewrite map_length. reflexivity. }
  rewrite Ef in Hok. unfold impl_model in R2. rewrite R2 in Hok. cbn [outcome_eqb] in Hok.
  apply andb_prop in Hok as [Hok _]. exact Hok.
Qed.

(* the checker accepts what the model computes, and rejects a document that is not the model's *)
Theorem alias_ok_bytes : forall tbl df pl d m shaped code2 bytes2 idmap2 b1 i1,
  injective_on (lbl_apply m) (bnodes d) = true ->
  top_ties (tbl_H tbl) (mkVar true true) (fuel_for d) (Some df) (Some pl) d = false ->
  normalize_with (tbl_H tbl) (mkVar true true) (fuel_for d) (Some df) (Some pl) d = Ok (b1, i1) ->
  alias_ok true tbl df pl d m shaped code2 bytes2 idmap2 = true ->
  code2 = 0 /\ bytes2 = b1.
Proof.
  intros tbl df pl d m shaped code2 bytes2 idmap2 b1 i1 Hinj Ht R Hok.
  unfold alias_ok in Hok. rewrite Hinj, Ht, R in Hok. cbn [andb negb] in Hok.
  apply andb_prop in Hok as [_ Hok]. apply andb_prop in Hok as [Hc Hb].
  split; [apply N.eqb_eq; exact Hc|symmetry; apply str_eqb_eq; exact Hb].
Qed.

(* ---------- non-vacuity ---------- *)
(* path4 (_:e0 p _:e1 . _:e1 p _:e2 . _:e2 p _:e3 .) relabelled e0 -> c14n1, e1 -> c14n0,
   e2 -> c14n3, e3 -> c14n2: the labels are exactly c14n0 .. c14n3, the arrangement is not the
   canonical one (the identifier map is not the identity), the document is the one of path4 *)
Definition alias_w : list (str * str) :=
  [([101;48], c14n_id 1); ([101;49], c14n_id 0); ([101;50], c14n_id 3); ([101;51], c14n_id 2)].
Example alias_w_shaped :
  canonical_shaped (relabel_input alias_w Proofs.path4) = true
  /\ canonical_shaped Proofs.path4 = false
  /\ injective_on (lbl_apply alias_w) (bnodes Proofs.path4) = true.
Proof. vm_compute. repeat split; reflexivity. Qed.
Example alias_w_same_document : exists b i1 i2,
  impl_model Proofs.toyH 20 (Some 1000) (Some 6) Proofs.path4 = Ok (b, i1)
  /\ impl_model Proofs.toyH 20 (Some 1000) (Some 6) (relabel_input alias_w Proofs.path4) = Ok (b, i2)
  /\ id_of i2 (c14n_id 1) = c14n_id 0 /\ id_of i2 (c14n_id 0) = c14n_id 3.
Proof. do 3 eexists. vm_compute. repeat split; reflexivity. Qed.
