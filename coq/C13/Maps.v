(* C13/Maps.v -- lemmas on the small utilities of Model.v: structural term equality, boolean
   membership / de-duplication, sorted association lists (extensionality), bindings. *)
From Sophia.C13 Require Import Model.
From Coq Require Import Permutation.

(* ---------- equality tests ---------- *)
Lemma teq_eq a b : teq a b = true <-> a = b.
Proof.
  revert b; induction a; intros [] ; simpl; try (split; congruence);
    rewrite ?andb_true_iff, ?str_eqb_eq.
  - split; congruence.
  - split; congruence.
  - split; [intros [-> ->]; reflexivity | intros E; injection E; auto].
  - split; [intros [-> ->]; reflexivity | intros E; injection E; auto].
  - rewrite IHa1, IHa2, IHa3. split; [intros [[-> ->] ->]; reflexivity | intros E; injection E; auto].
  - split; congruence.
Qed.
Lemma teq_refl a : teq a a = true.
Proof. apply teq_eq; reflexivity. Qed.
Lemma teq_false a b : teq a b = false <-> a <> b.
Proof. destruct (teq a b) eqn:E; split; try congruence.
  - apply teq_eq in E. congruence.
  - intros _ H. apply teq_eq in H. congruence. Qed.
Lemma oteq_eq a b : oteq a b = true <-> a = b.
Proof. destruct a, b; simpl; try (split; congruence). rewrite teq_eq. split; congruence. Qed.
Lemma atom_eqb_eq a b : atom_eqb a b = true <-> a = b.
Proof. destruct a, b; simpl; try (split; congruence); rewrite str_eqb_eq; split; congruence. Qed.
Lemma triple_eqb_eq a b : triple_eqb a b = true <-> a = b.
Proof.
  destruct a as [[s1 p1] o1], b as [[s2 p2] o2]; simpl. rewrite !andb_true_iff, !teq_eq.
  split; [intros [[-> ->] ->]; reflexivity | intros E; injection E; auto].
Qed.
Lemma quad_eqb_eq a b : quad_eqb a b = true <-> a = b.
Proof.
  destruct a, b; unfold quad_eqb; simpl. rewrite andb_true_iff, triple_eqb_eq, oteq_eq.
  split; [intros [-> ->]; reflexivity | intros E; injection E; auto].
Qed.
Lemma kv_eqb_eq a b : kv_eqb a b = true <-> a = b.
Proof.
  destruct a, b; unfold kv_eqb; simpl. rewrite andb_true_iff, str_eqb_eq, teq_eq.
  split; [intros [-> ->]; reflexivity | intros E; injection E; auto].
Qed.
Lemma amap_eqb_eq a b : amap_eqb a b = true <-> a = b.
Proof. apply list_eqb_spec, kv_eqb_eq. Qed.
Lemma str_eqb_false a b : str_eqb a b = false <-> a <> b.
Proof. destruct (str_eqb_spec a b); split; congruence. Qed.
Lemma str_eqb_sym a b : str_eqb a b = str_eqb b a.
Proof. destruct (str_eqb_spec a b), (str_eqb_spec b a); congruence. Qed.

(* ---------- memb / dedupb / filter_map ---------- *)
Section Eqb.
Context {A : Type} (eqb : A -> A -> bool) (eqb_eq : forall x y, eqb x y = true <-> x = y).
Lemma memb_In x l : memb eqb x l = true <-> In x l.
Proof.
  induction l as [|y l IH]; simpl; [split; [discriminate | tauto]|].
  rewrite orb_true_iff, IH, eqb_eq. split; intros [H|H]; auto.
Qed.
Lemma memb_false x l : memb eqb x l = false <-> ~ In x l.
Proof. rewrite <- memb_In. destruct (memb eqb x l); split; congruence. Qed.
Lemma dedupb_In x l : In x (dedupb eqb l) <-> In x l.
Proof.
  induction l as [|y l IH]; simpl; [tauto|].
  rewrite filter_In, IH. split.
  - intros [H|[H _]]; auto.
  - intros [H|H]; auto. destruct (eqb y x) eqn:E.
    + left. apply eqb_eq. exact E.
    + right. split; auto.
Qed.
Lemma dedupb_NoDup l : NoDup (dedupb eqb l).
Proof.
  induction l as [|y l IH]; simpl; constructor.
  - rewrite filter_In. intros [_ H]. assert (E : eqb y y = true) by (apply eqb_eq; reflexivity).
    rewrite E in H. discriminate.
  - apply NoDup_filter. exact IH.
Qed.
End Eqb.

Lemma filter_map_In {A B} (f : A -> option B) l y :
  In y (filter_map f l) <-> exists x, In x l /\ f x = Some y.
Proof.
  induction l as [|x l IH]; simpl.
  - split; [tauto | intros [? [[] _]]].
  - destruct (f x) eqn:E; simpl; rewrite IH; split.
    + intros [<-|[x' [H1 H2]]]; [exists x; auto | exists x'; auto].
    + intros [x' [[<-|H1] H2]]; [left; congruence | right; exists x'; auto].
    + intros [x' [H1 H2]]; exists x'; auto.
    + intros [x' [[<-|H1] H2]]; [congruence | exists x'; auto].
Qed.
Lemma filter_map_app {A B} (f : A -> option B) l1 l2 :
  filter_map f (l1 ++ l2) = filter_map f l1 ++ filter_map f l2.
Proof.
  induction l1 as [|x l1 IH]; simpl; [reflexivity|]. destruct (f x); simpl; rewrite IH; reflexivity.
Qed.
Lemma filter_map_map {A B C} (f : B -> option C) (g : A -> B) l :
  filter_map f (map g l) = filter_map (fun x => f (g x)) l.
Proof. induction l as [|x l IH]; simpl; [reflexivity|]. rewrite IH. reflexivity. Qed.
Lemma map_filter_map {A B C} (g : B -> C) (f : A -> option B) l :
  map g (filter_map f l) = filter_map (fun x => option_map g (f x)) l.
Proof.
  induction l as [|x l IH]; simpl; [reflexivity|]. destruct (f x); simpl; rewrite IH; reflexivity.
Qed.
Lemma filter_map_ext {A B} (f g : A -> option B) l :
  (forall x, In x l -> f x = g x) -> filter_map f l = filter_map g l.
Proof.
  induction l as [|x l IH]; simpl; intros H; [reflexivity|].
  rewrite (H x) by auto. rewrite IH by auto. reflexivity.
Qed.

Lemma Permutation_filter {A} (f : A -> bool) l l' :
  Permutation l l' -> Permutation (filter f l) (filter f l').
Proof.
  induction 1; simpl.
  - constructor.
  - destruct (f x); auto.
  - destruct (f x), (f y); auto. constructor.
  - eapply perm_trans; eauto.
Qed.
Lemma Permutation_filter_map {A B} (f : A -> option B) l l' :
  Permutation l l' -> Permutation (filter_map f l) (filter_map f l').
Proof.
  induction 1; simpl.
  - constructor.
  - destruct (f x); auto.
  - destruct (f x), (f y); auto. constructor.
  - eapply perm_trans; eauto.
Qed.
Lemma Permutation_flat_map_l {A B} (f : A -> list B) l l' :
  Permutation l l' -> Permutation (flat_map f l) (flat_map f l').
Proof.
  induction 1; simpl.
  - constructor.
  - apply Permutation_app_head. assumption.
  - rewrite !app_assoc. apply Permutation_app_tail. apply Permutation_app_comm.
  - eapply perm_trans; eauto.
Qed.
Lemma Permutation_flat_map_f {A B} (f g : A -> list B) l :
  (forall x, In x l -> Permutation (f x) (g x)) -> Permutation (flat_map f l) (flat_map g l).
Proof.
  induction l as [|x l IH]; simpl; intros H; [constructor|].
  apply Permutation_app; [apply H; auto | apply IH; auto].
Qed.

Lemma NoDup_app_intro {A} (l1 l2 : list A) :
  NoDup l1 -> NoDup l2 -> (forall z, In z l1 -> In z l2 -> False) -> NoDup (l1 ++ l2).
Proof.
  induction 1 as [|x l1 Hx H1 IH]; simpl; intros H2 Hd; [assumption|].
  constructor.
  - rewrite in_app_iff. intros [H|H]; [contradiction | eapply Hd; eauto].
  - apply IH; auto. intros; eapply Hd; eauto.
Qed.
Lemma NoDup_flat_map {A B} (f : A -> list B) l :
  NoDup l ->
  (forall x, In x l -> NoDup (f x)) ->
  (forall x y z, In x l -> In y l -> In z (f x) -> In z (f y) -> x = y) ->
  NoDup (flat_map f l).
Proof.
  induction 1 as [|x l Hx Hl IH]; simpl; intros Hf Hd; [constructor|].
  apply NoDup_app_intro.
  - apply Hf; auto.
  - apply IH; auto. intros; eapply Hd; eauto.
  - intros z Hz1 Hz2. apply in_flat_map in Hz2 as [y [Hy Hz2]].
    assert (x = y) by (eapply Hd; eauto). subst. contradiction.
Qed.

(* ---------- sorted association lists ---------- *)
Definition klt (k k' : str) : Prop := str_cmp k k' = Lt.
Lemma klt_neq k k' : klt k k' -> str_eqb k k' = false.
Proof.
  unfold klt. intros H. apply str_eqb_false. intros ->. rewrite str_cmp_refl in H. discriminate.
Qed.
Lemma klt_trans a b c : klt a b -> klt b c -> klt a c.
Proof. apply str_cmp_lt_trans. Qed.
Lemma cmp_gt_lt k k' : str_cmp k k' = Gt -> klt k' k.
Proof. unfold klt. rewrite (str_cmp_antisym k k'). intros ->. reflexivity. Qed.

Lemma sorted_tail k v m : sortedb ((k, v) :: m) = true -> sortedb m = true.
Proof. destruct m as [|[k' v'] m]; simpl; [reflexivity|]. destruct (str_cmp k k'); congruence. Qed.
Lemma sorted_head_lt m : forall k v, sortedb ((k, v) :: m) = true ->
  forall k' v', In (k', v') m -> klt k k'.
Proof.
  induction m as [|[k1 v1] m IH]; intros k v Hs k' v' Hin; [destruct Hin|].
  assert (H1 : klt k k1).
  { simpl in Hs. unfold klt. destruct (str_cmp k k1); congruence. }
  destruct Hin as [E|Hin].
  - injection E as <- <-. exact H1.
  - eapply klt_trans; [exact H1|]. eapply IH; eauto. eapply sorted_tail; eauto.
Qed.
Lemma sorted_cons_intro k v m :
  sortedb m = true -> (forall k' v', In (k', v') m -> klt k k') -> sortedb ((k, v) :: m) = true.
Proof.
  destruct m as [|[k1 v1] m]; intros Hs H; [reflexivity|].
  simpl. rewrite (H k1 v1) by (left; reflexivity). exact Hs.
Qed.
Lemma lookup_In k m v : lookup k m = Some v -> In (k, v) m.
Proof.
  induction m as [|[k1 v1] m IH]; simpl; [discriminate|].
  destruct (str_eqb_spec k k1) as [->|Hn]; [intros E; injection E as <-; auto | auto].
Qed.
Lemma lookup_lt_all k m : (forall k' v', In (k', v') m -> klt k k') -> lookup k m = None.
Proof.
  induction m as [|[k1 v1] m IH]; intros H; [reflexivity|]. simpl.
  rewrite (klt_neq k k1) by (eapply H; left; reflexivity). apply IH. intros; eapply H; right; eauto.
Qed.
Lemma In_lookup k v m : sortedb m = true -> In (k, v) m -> lookup k m = Some v.
Proof.
  induction m as [|[k1 v1] m IH]; intros Hs Hin; [destruct Hin|]. simpl.
  destruct Hin as [E|Hin].
  - injection E as -> ->. rewrite str_eqb_refl. reflexivity.
  - assert (klt k1 k) by (eapply sorted_head_lt; eauto).
    rewrite str_eqb_sym, (klt_neq k1 k) by assumption. apply IH; auto. eapply sorted_tail; eauto.
Qed.

Lemma amap_ext m1 : forall m2, sortedb m1 = true -> sortedb m2 = true ->
  (forall k, lookup k m1 = lookup k m2) -> m1 = m2.
Proof.
  induction m1 as [|[k1 v1] m1 IH]; intros [|[k2 v2] m2] H1 H2 H.
  - reflexivity.
  - specialize (H k2). simpl in H. rewrite str_eqb_refl in H. discriminate.
  - specialize (H k1). simpl in H. rewrite str_eqb_refl in H. discriminate.
  - destruct (str_cmp k1 k2) eqn:C.
    + apply str_cmp_eq in C. subst k2.
      assert (v1 = v2). { specialize (H k1). simpl in H. rewrite str_eqb_refl in H. congruence. }
      subst v2. f_equal. apply IH; try (eapply sorted_tail; eauto).
      intros k. destruct (str_eqb_spec k k1) as [->|Hn].
      * rewrite (lookup_lt_all k1 m1) by (intros; eapply sorted_head_lt; [exact H1|eauto]).
        rewrite (lookup_lt_all k1 m2) by (intros; eapply sorted_head_lt; [exact H2|eauto]).
        reflexivity.
      * specialize (H k). simpl in H. apply str_eqb_false in Hn. rewrite Hn in H. exact H.
    + exfalso. specialize (H k1). simpl in H. rewrite str_eqb_refl in H.
      rewrite (klt_neq k1 k2 C) in H. rewrite lookup_lt_all in H; [discriminate|].
      intros k' v' Hin. eapply klt_trans; [exact C|]. eapply sorted_head_lt; eauto.
    + exfalso. apply cmp_gt_lt in C. specialize (H k2). simpl in H. rewrite str_eqb_refl in H.
      rewrite (klt_neq k2 k1 C) in H. rewrite lookup_lt_all in H; [discriminate|].
      intros k' v' Hin. eapply klt_trans; [exact C|]. eapply sorted_head_lt; eauto.
Qed.

Lemma lookup_insert k v m k' :
  lookup k' (insert k v m) = if str_eqb k' k then Some v else lookup k' m.
Proof.
  induction m as [|[k1 v1] m IH]; simpl; [reflexivity|].
  destruct (str_cmp k k1) eqn:C; simpl.
  - apply str_cmp_eq in C. subst k1. destruct (str_eqb k' k); reflexivity.
  - reflexivity.
  - rewrite IH. destruct (str_eqb_spec k' k1) as [->|Hn]; [|reflexivity].
    apply cmp_gt_lt in C. rewrite (klt_neq _ _ C). reflexivity.
Qed.
Lemma lookup_insert_eq k v m : lookup k (insert k v m) = Some v.
Proof. rewrite lookup_insert, str_eqb_refl. reflexivity. Qed.
Lemma lookup_insert_neq k v m k' : k' <> k -> lookup k' (insert k v m) = lookup k' m.
Proof. intros H. rewrite lookup_insert. apply str_eqb_false in H. rewrite H. reflexivity. Qed.
Lemma In_insert x y k v m : In (x, y) (insert k v m) -> (x, y) = (k, v) \/ In (x, y) m.
Proof.
  induction m as [|[k1 v1] m IH]; simpl.
  - intros [E|[]]; auto.
  - destruct (str_cmp k k1); simpl.
    + intros [E|H]; auto.
    + intros [E|H]; auto.
    + intros [E|H]; auto. destruct (IH H); auto.
Qed.
Lemma sorted_insert k v m : sortedb m = true -> sortedb (insert k v m) = true.
Proof.
  induction m as [|[k1 v1] m IH]; intros Hs; [reflexivity|].
  simpl. destruct (str_cmp k k1) eqn:C.
  - apply str_cmp_eq in C. subst k1. apply sorted_cons_intro; [eapply sorted_tail; eauto|].
    intros; eapply sorted_head_lt; eauto.
  - apply sorted_cons_intro; [exact Hs|]. intros k' v' [E|Hin].
    + injection E as <- <-. exact C.
    + eapply klt_trans; [exact C|]. eapply sorted_head_lt; eauto.
  - apply sorted_cons_intro; [apply IH; eapply sorted_tail; eauto|].
    intros k' v' Hin. apply In_insert in Hin as [E|Hin].
    + injection E as -> ->. apply cmp_gt_lt. exact C.
    + eapply sorted_head_lt; eauto.
Qed.

Lemma sorted_filter (f : str * term -> bool) m : sortedb m = true -> sortedb (filter f m) = true.
Proof.
  induction m as [|[k v] m IH]; intros Hs; [reflexivity|]. simpl.
  assert (Ht : sortedb m = true) by (eapply sorted_tail; eauto).
  destruct (f (k, v)); [|auto].
  apply sorted_cons_intro; [auto|]. intros k' v' Hin. apply filter_In in Hin as [Hin _].
  eapply sorted_head_lt; eauto.
Qed.
Lemma lookup_filter_key (f : str -> bool) m k :
  lookup k (filter (fun kv => f (fst kv)) m) = if f k then lookup k m else None.
Proof.
  induction m as [|[k1 v1] m IH]; simpl; [destruct (f k); reflexivity|].
  destruct (f k1) eqn:F; simpl.
  - destruct (str_eqb_spec k k1) as [->|Hn]; [rewrite F; reflexivity | exact IH].
  - destruct (str_eqb_spec k k1) as [->|Hn]; [rewrite IH, F; reflexivity | exact IH].
Qed.
Lemma lookup_restrict vs m k :
  lookup k (restrict vs m) = if memb str_eqb k vs then lookup k m else None.
Proof. unfold restrict. apply (lookup_filter_key (fun k => memb str_eqb k vs)). Qed.
Lemma lookup_remove k m k' :
  lookup k' (remove k m) = if str_eqb k k' then None else lookup k' m.
Proof.
  unfold remove. rewrite (lookup_filter_key (fun x => negb (str_eqb k x))).
  destruct (str_eqb k k'); reflexivity.
Qed.
Lemma sorted_restrict vs m : sortedb m = true -> sortedb (restrict vs m) = true.
Proof. apply sorted_filter. Qed.
Lemma sorted_remove k m : sortedb m = true -> sortedb (remove k m) = true.
Proof. apply sorted_filter. Qed.
Lemma lookup_keys k m : In k (keys m) <-> lookup k m <> None.
Proof.
  induction m as [|[k1 v1] m IH]; simpl; [split; [tauto | congruence]|].
  destruct (str_eqb_spec k k1) as [->|Hn].
  - split; [congruence | auto].
  - rewrite <- IH. split; [intros [E|H]; congruence | auto].
Qed.

(* ---------- bindings ---------- *)
Lemma get_set a t b a' : get a' (set a t b) = if atom_eqb a' a then Some t else get a' b.
Proof.
  destruct a, a'; simpl; try reflexivity; apply lookup_insert.
Qed.
Lemma get_set_eq a t b : get a (set a t b) = Some t.
Proof. rewrite get_set. replace (atom_eqb a a) with true; [reflexivity|]. symmetry. apply atom_eqb_eq. reflexivity. Qed.
Lemma get_set_neq a t b a' : a' <> a -> get a' (set a t b) = get a' b.
Proof.
  intros H. rewrite get_set. destruct (atom_eqb a' a) eqn:E; [|reflexivity].
  apply atom_eqb_eq in E. contradiction.
Qed.
Lemma wfbind_set a t b : wfbind b = true -> wfbind (set a t b) = true.
Proof.
  unfold wfbind. rewrite !andb_true_iff. intros [H1 H2].
  destruct a; simpl; split; auto using sorted_insert.
Qed.
Lemma wfbind_empty : wfbind empty_binding = true.
Proof. reflexivity. Qed.
Lemma binding_ext b1 b2 : wfbind b1 = true -> wfbind b2 = true ->
  (forall a, get a b1 = get a b2) -> b1 = b2.
Proof.
  unfold wfbind. rewrite !andb_true_iff. intros [H1 H2] [H3 H4] H.
  destruct b1 as [v1 i1], b2 as [v2 i2]; simpl in *. f_equal.
  - apply amap_ext; auto. intros k. exact (H (AV k)).
  - apply amap_ext; auto. intros k. exact (H (AB k)).
Qed.
(* b' extends b *)
Definition ext (b b' : binding) : Prop := forall a t, get a b = Some t -> get a b' = Some t.
Lemma ext_refl b : ext b b.
Proof. intros a t H. exact H. Qed.
Lemma ext_trans b1 b2 b3 : ext b1 b2 -> ext b2 b3 -> ext b1 b3.
Proof. intros H1 H2 a t H. auto. Qed.
Lemma ext_set a t b : get a b = None -> ext b (set a t b).
Proof.
  intros Hn a' t' H. rewrite get_set. destruct (atom_eqb a' a) eqn:E; [|exact H].
  apply atom_eqb_eq in E. subst. congruence.
Qed.
Definition unset (a : atom) (b : binding) : binding :=
  match a with
  | AV v => mkB (remove v (bv b)) (bb b)
  | AB i => mkB (bv b) (remove i (bb b))
  end.
Lemma get_unset a b a' : get a' (unset a b) = if atom_eqb a a' then None else get a' b.
Proof. destruct a, a'; simpl; try reflexivity; apply lookup_remove. Qed.
Lemma wfbind_unset a b : wfbind b = true -> wfbind (unset a b) = true.
Proof.
  unfold wfbind. rewrite !andb_true_iff. intros [H1 H2].
  destruct a; simpl; split; auto using sorted_remove.
Qed.
