(* C08/Model.v -- harness-facing checker: the regenerated validator regexes, run by the verified
   derivative matcher, against BnodeId::new / VarName::new / LanguageTag::new. *)
From Sophia.Common Require Export Prelude.
From Sophia.C08 Require Export Regex.
From Sophia.gen Require Export LabelSrc.

Definition val3_ok (s : str) (bnode var tag : bool) : bool :=
  Bool.eqb (matchb bnode_id_regex s) bnode && Bool.eqb (matchb varname_regex s) var
  && Bool.eqb (matchb lang_tag_regex s) tag.
