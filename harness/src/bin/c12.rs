//! C12: JSON-LD serialisation round trip.  Generated datasets (list pathologies, shared blank
//! nodes, compound literals, i18n datatypes, rdf:JSON, non-expressible quads) are serialised by
//! sophia_jsonld, parsed back by sophia's JSON-LD parser and compared up to isomorphism with the
//! expressible part of the input (ORACLE); the emitted JSON is also read back by a small JSON
//! reader, translated to term identifiers and compared inside Coq with the tree computed by the
//! model (C12/Model.v).
use sophia_api::prelude::*;
use sophia_api::quad::Spog;
use sophia_api::term::{SimpleTerm, TermKind};
use sophia_isomorphism::isomorphic_datasets;
use sophia_jsonld::{JsonLdOptions, JsonLdParser, JsonLdStringifier, ProcessingMode, RdfDirection};
use std::collections::{BTreeMap, BTreeSet};
use verif_harness::*;

type Q = Spog<ST>;

const I18N: &str = "https://www.w3.org/ns/i18n#";
fn rdf(s: &str) -> ST { iri(&format!("{RDF}{s}")) }
fn ex(s: &str) -> ST { iri(&format!("http://e/{s}")) }
fn plain(s: &str) -> ST { lit_dt(s, &format!("{XSD}string")) }

// ------------------------------------------------------------------ options
#[derive(Clone, Copy, Debug, PartialEq, Eq)]
struct Opts { mode10: bool, use_rdf_type: bool, dir: u8, spaces: u16 }
impl Opts {
    fn build(&self) -> JsonLdOptions<sophia_jsonld::loader_factory::DefaultLoaderFactory<sophia_jsonld::loader::NoLoader>> {
        let mut o = JsonLdOptions::new()
            .with_processing_mode(if self.mode10 { ProcessingMode::JsonLd1_0 } else { ProcessingMode::JsonLd1_1 })
            .with_use_rdf_type(self.use_rdf_type)
            .with_spaces(self.spaces);
        o = match self.dir { 1 => o.with_rdf_direction(RdfDirection::I18nDatatype), 2 => o.with_rdf_direction(RdfDirection::CompoundLiteral), _ => o };
        o
    }
    fn show(&self) -> String {
        format!("mode={} use_rdf_type={} rdf_direction={} spaces={}", if self.mode10 { "1.0" } else { "1.1" }, self.use_rdf_type, ["none", "i18n-datatype", "compound-literal"][self.dir as usize], self.spaces)
    }
}

// ------------------------------------------------------------------ running the implementation
static QUIET: std::sync::atomic::AtomicBool = std::sync::atomic::AtomicBool::new(false);
fn quiet(b: bool) { QUIET.store(b, std::sync::atomic::Ordering::SeqCst); }
fn quiet_panics() { let old = std::panic::take_hook(); std::panic::set_hook(Box::new(move |i| { if !QUIET.load(std::sync::atomic::Ordering::SeqCst) { old(i) } })); }
fn panic_msg(e: Box<dyn std::any::Any + Send>) -> String {
    if let Some(s) = e.downcast_ref::<&str>() { s.to_string() } else if let Some(s) = e.downcast_ref::<String>() { s.clone() } else { "?".into() }
}
fn serialise(quads: &[Q], o: &Opts) -> Result<String, String> {
    let quads = quads.to_vec();
    let o = *o;
    quiet(true);
    let res = std::panic::catch_unwind(move || {
        let mut ser = JsonLdStringifier::new_stringifier_with_options(o.build());
        match ser.serialize_dataset(&quads) {
            Ok(_) => Ok(ser.as_utf8().to_vec()),
            Err(e) => Err(format!("serializer error: {e}")),
        }
    });
    quiet(false);
    match res {
        Ok(Ok(b)) => String::from_utf8(b).map_err(|_| "output is not UTF-8".to_string()),
        Ok(Err(e)) => Err(e),
        Err(e) => Err(format!("PANIC in serializer: {}", panic_msg(e))),
    }
}
fn to_st<T: Term>(t: T) -> ST {
    match t.kind() {
        TermKind::Iri => iri(t.iri().unwrap().as_str()),
        TermKind::BlankNode => bnode(t.bnode_id().unwrap().as_str()),
        TermKind::Literal => match t.language_tag() {
            Some(tag) => lit_lang(&t.lexical_form().unwrap(), tag.as_str()),
            None => lit_dt(&t.lexical_form().unwrap(), t.datatype().unwrap().as_str()),
        },
        TermKind::Variable => var(t.variable().unwrap().as_str()),
        TermKind::Triple => { let [s, p, o] = t.triple().unwrap(); triple(to_st(s), to_st(p), to_st(o)) }
    }
}
fn parse_back(txt: &str, o: &Opts) -> Result<Vec<Q>, String> {
    let txt = txt.to_string();
    let o = *o;
    quiet(true);
    let res = std::panic::catch_unwind(move || {
        let p = JsonLdParser::new_with_options(o.build());
        let mut out: Vec<Q> = vec![];
        let mut src = p.parse_str(&txt);
        match src.for_each_quad(|q| { out.push(([to_st(q.s()), to_st(q.p()), to_st(q.o())], q.g().map(to_st))); }) {
            Ok(()) => Ok(out),
            Err(e) => Err(format!("parse error: {e}")),
        }
    });
    quiet(false);
    match res {
        Ok(r) => r,
        Err(e) => Err(format!("PANIC in parser: {}", panic_msg(e))),
    }
}

// ------------------------------------------------------------------ a small JSON reader
#[derive(Clone, Debug, PartialEq)]
enum J { Null, Bool(bool), Num(String), Str(String), Arr(Vec<J>), Obj(Vec<(String, J)>) }
struct JP<'a> { s: &'a [u8], i: usize }
impl<'a> JP<'a> {
    fn ws(&mut self) { while self.i < self.s.len() && matches!(self.s[self.i], b' ' | b'\n' | b'\r' | b'\t') { self.i += 1; } }
    fn eat(&mut self, c: u8) -> Result<(), String> { self.ws(); if self.s.get(self.i) == Some(&c) { self.i += 1; Ok(()) } else { Err(format!("expected {:?} at {}", c as char, self.i)) } }
    fn hex4(&mut self) -> Result<u32, String> { let h = std::str::from_utf8(self.s.get(self.i..self.i + 4).ok_or("short \\u")?).map_err(|e| e.to_string())?; self.i += 4; u32::from_str_radix(h, 16).map_err(|e| e.to_string()) }
    fn string(&mut self) -> Result<String, String> {
        self.eat(b'"')?; let mut out: Vec<u8> = vec![];
        loop {
            let c = *self.s.get(self.i).ok_or("unterminated string")?; self.i += 1;
            match c {
                b'"' => break,
                b'\\' => { let e = *self.s.get(self.i).ok_or("bad escape")?; self.i += 1;
                    let ch = match e { b'n' => '\n', b'r' => '\r', b't' => '\t', b'b' => '\u{8}', b'f' => '\u{c}', b'/' => '/', b'\\' => '\\', b'"' => '"',
                        b'u' => { let mut cp = self.hex4()?; if (0xD800..0xDC00).contains(&cp) && self.s.get(self.i..self.i + 2) == Some(b"\\u") { self.i += 2; let lo = self.hex4()?; cp = 0x10000 + ((cp - 0xD800) << 10) + (lo - 0xDC00); } char::from_u32(cp).ok_or("bad code point")? }
                        _ => return Err("bad escape".into()) };
                    let mut b = [0u8; 4]; out.extend_from_slice(ch.encode_utf8(&mut b).as_bytes()); }
                c => out.push(c),
            }
        }
        String::from_utf8(out).map_err(|e| e.to_string())
    }
    fn value(&mut self) -> Result<J, String> {
        self.ws();
        match *self.s.get(self.i).ok_or("unexpected end")? {
            b'{' => { self.i += 1; let mut v = vec![]; self.ws(); if self.s.get(self.i) == Some(&b'}') { self.i += 1; return Ok(J::Obj(v)); }
                loop { self.ws(); let k = self.string()?; self.eat(b':')?; let x = self.value()?; v.push((k, x)); self.ws(); match self.s.get(self.i) { Some(b',') => self.i += 1, Some(b'}') => { self.i += 1; return Ok(J::Obj(v)); } _ => return Err(format!("bad object at {}", self.i)) } } }
            b'[' => { self.i += 1; let mut v = vec![]; self.ws(); if self.s.get(self.i) == Some(&b']') { self.i += 1; return Ok(J::Arr(v)); }
                loop { v.push(self.value()?); self.ws(); match self.s.get(self.i) { Some(b',') => self.i += 1, Some(b']') => { self.i += 1; return Ok(J::Arr(v)); } _ => return Err(format!("bad array at {}", self.i)) } } }
            b'"' => Ok(J::Str(self.string()?)),
            b't' if self.s[self.i..].starts_with(b"true") => { self.i += 4; Ok(J::Bool(true)) }
            b'f' if self.s[self.i..].starts_with(b"false") => { self.i += 5; Ok(J::Bool(false)) }
            b'n' if self.s[self.i..].starts_with(b"null") => { self.i += 4; Ok(J::Null) }
            _ => { let st = self.i; while self.i < self.s.len() && matches!(self.s[self.i], b'0'..=b'9' | b'-' | b'+' | b'.' | b'e' | b'E') { self.i += 1; } if st == self.i { Err(format!("unexpected byte at {st}")) } else { Ok(J::Num(String::from_utf8_lossy(&self.s[st..self.i]).to_string())) } }
        }
    }
}
fn read_json(txt: &str) -> Result<J, String> { let mut p = JP { s: txt.as_bytes(), i: 0 }; let v = p.value()?; p.ws(); if p.i == txt.len() { Ok(v) } else { Err("trailing bytes".into()) } }
/// compact text with sorted keys (the canonical form of the small rdf:JSON literals generated here)
fn canon_json(j: &J) -> String {
    match j {
        J::Null => "null".into(), J::Bool(b) => b.to_string(), J::Num(n) => n.clone(), J::Str(s) => json_str(s),
        J::Arr(v) => format!("[{}]", v.iter().map(canon_json).collect::<Vec<_>>().join(",")),
        J::Obj(v) => { let mut v: Vec<&(String, J)> = v.iter().collect(); v.sort_by(|a, b| a.0.encode_utf16().cmp(b.0.encode_utf16())); format!("{{{}}}", v.iter().map(|(k, x)| format!("{}:{}", json_str(k), canon_json(x))).collect::<Vec<_>>().join(",")) }
    }
}
impl J {
    fn get(&self, k: &str) -> Option<&J> { if let J::Obj(v) = self { v.iter().find(|e| e.0 == k).map(|e| &e.1) } else { None } }
    fn arr(&self) -> Result<&Vec<J>, String> { if let J::Arr(v) = self { Ok(v) } else { Err(format!("array expected, found {self:?}")) } }
    fn str(&self) -> Result<&str, String> { if let J::Str(s) = self { Ok(s) } else { Err(format!("string expected, found {self:?}")) } }
}

// ------------------------------------------------------------------ reference reader: JSON-LD 1.1 API, "Deserialize JSON-LD to RDF",
// restricted to the expanded/flattened shape the serializer emits (no context, no nested node objects); written from the specification
struct RefRdf { out: Vec<Q>, fresh: usize, dir: u8, quirks: bool }
impl RefRdf {
    fn id_term(s: &str) -> ST { if let Some(l) = s.strip_prefix("_:") { bnode(l) } else { iri(s) } }
    fn fresh(&mut self) -> ST { self.fresh += 1; bnode(&format!("L{}", self.fresh)) }
    fn node(&mut self, n: &J, g: &Option<ST>, top: bool) -> Result<(), String> {
        let J::Obj(entries) = n else { return Err(format!("node object expected, found {n:?}")) };
        let id = Self::id_term(n.get("@id").ok_or("node object without @id")?.str()?);
        for (k, v) in entries {
            match k.as_str() {
                "@id" => {}
                "@type" => for t in v.arr()? { self.out.push(([id.clone(), rdf("type"), Self::id_term(t.str()?)], g.clone())); },
                "@graph" => { if !top { return Err("@graph below the top level".into()); } for m in v.arr()? { self.node(m, &Some(id.clone()), false)?; } }
                k if k.starts_with('@') => return Err(format!("unexpected keyword {k}")),
                // JSON-LD 1.1 "Deserialize JSON-LD to RDF" 8.1.2: a property that is a blank node identifier is
                // dropped (produceGeneralizedRdf is off); its values are still converted, so that lists below it
                // would emit their cells -- but nothing reaches the subject
                k if k.starts_with("_:") => { for item in v.arr()? { let before = self.out.len(); let _ = self.object(item, g)?; self.out.truncate(before); } }
                k if sophia_iri::IriRef::new(k).is_err() => return Err(format!("property key {k:?} is not an IRI")),
                k => for item in v.arr()? { let o = self.object(item, g)?; self.out.push(([id.clone(), iri(k), o], g.clone())); },
            }
        }
        Ok(())
    }
    fn object(&mut self, item: &J, g: &Option<ST>) -> Result<ST, String> {
        let J::Obj(entries) = item else { return Err(format!("object expected, found {item:?}")) };
        if let Some(l) = item.get("@list") {
            if entries.len() != 1 { return Err("list object with other entries".into()); }
            let items: Vec<ST> = l.arr()?.iter().map(|x| self.object(x, g)).collect::<Result<_, _>>()?;
            let cells: Vec<ST> = items.iter().map(|_| self.fresh()).collect();
            for i in 0..items.len() {
                self.out.push(([cells[i].clone(), rdf("first"), items[i].clone()], g.clone()));
                self.out.push(([cells[i].clone(), rdf("rest"), cells.get(i + 1).cloned().unwrap_or_else(|| rdf("nil"))], g.clone()));
            }
            return Ok(cells.first().cloned().unwrap_or_else(|| rdf("nil")));
        }
        if let Some(v) = item.get("@value") {
            for (k, _) in entries { if !matches!(k.as_str(), "@value" | "@type" | "@language" | "@direction") { return Err(format!("value object with entry {k}")); } }
            let ty = item.get("@type").map(|t| t.str()).transpose()?;
            if ty == Some("@json") { return Ok(lit_dt(&canon_json(v), &format!("{RDF}JSON"))); }
            let lex = v.str().map_err(|_| "non-string @value without @json (use_native_types is off)".to_string())?;
            let lang = item.get("@language").map(|t| t.str()).transpose()?;
            let dirn = item.get("@direction").map(|t| t.str()).transpose()?;
            if let Some(l) = lang { if sophia_api::term::LanguageTag::new(l).is_err() { return Err(format!("@language {l:?} is not a well-formed tag")); } }
            if let Some(d) = dirn { if d != "ltr" && d != "rtl" { return Err(format!("invalid base direction {d:?}")); } }
            if ty.is_some() && (lang.is_some() || dirn.is_some()) { return Err("value object with both @type and @language/@direction".into()); }
            return Ok(match (dirn, self.dir) {
                (Some(d), 1) if self.quirks && lang.is_none() => lit_dt(lex, &format!("{I18N}{d}")),
                (Some(_), 2) if self.quirks => self.fresh(),
                (Some(d), 1) => lit_dt(lex, &format!("{I18N}{}_{d}", lang.unwrap_or("").to_ascii_lowercase())),
                (Some(d), 2) => { let b = self.fresh(); self.out.push(([b.clone(), rdf("value"), plain(lex)], g.clone())); if let Some(l) = lang { self.out.push(([b.clone(), rdf("language"), plain(&l.to_ascii_lowercase())], g.clone())); } self.out.push(([b.clone(), rdf("direction"), plain(d)], g.clone())); b }
                _ => match (lang, ty) { (Some(l), _) => lit_lang(lex, l), (None, Some(t)) => lit_dt(lex, t), (None, None) => plain(lex) },
            });
        }
        if let Some(i) = item.get("@id") { if entries.len() != 1 { return Err("node reference with other entries".into()); } return Ok(Self::id_term(i.str()?)); }
        Err(format!("unrecognised object {item:?}"))
    }
}
/// `quirks`: do what json-ld-core 0.15.1 is known to do differently from the specification when
/// rdfDirection is set (third-party code, outside /repo): no rdf:value/rdf:language/rdf:direction
/// triples for compound literals, and no '_' in the i18n datatype when there is no language.
fn reference_to_rdf(doc: &J, dir: u8, quirks: bool) -> Result<Vec<Q>, String> {
    let mut r = RefRdf { out: vec![], fresh: 0, dir, quirks };
    for n in doc.arr()? { r.node(n, &None, true)?; }
    Ok(r.out)
}

// ------------------------------------------------------------------ printing
fn show_t(t: &ST) -> String {
    match t {
        SimpleTerm::Iri(i) => { let s = i.as_str(); if let Some(r) = s.strip_prefix(RDF) { format!("rdf:{r}") } else if let Some(r) = s.strip_prefix("http://e/") { format!(":{r}") } else { format!("<{s}>") } }
        SimpleTerm::BlankNode(b) => format!("_:{}", b.as_str()),
        SimpleTerm::LiteralDatatype(l, d) => { let d = d.as_str(); if d == format!("{XSD}string") { format!("{l:?}") } else if let Some(r) = d.strip_prefix(RDF) { format!("{l:?}^^rdf:{r}") } else if let Some(r) = d.strip_prefix(XSD) { format!("{l:?}^^xsd:{r}") } else if let Some(r) = d.strip_prefix(I18N) { format!("{l:?}^^i18n:{r}") } else { format!("{l:?}^^<{d}>") } }
        SimpleTerm::LiteralLanguage(l, t) => format!("{l:?}@{}", t.as_str()),
        SimpleTerm::Variable(v) => format!("?{}", v.as_str()),
        SimpleTerm::Triple(tr) => format!("<< {} {} {} >>", show_t(&tr[0]), show_t(&tr[1]), show_t(&tr[2])),
    }
}
fn show_q(q: &Q) -> String { format!("{} {} {}{} .", show_t(&q.0[0]), show_t(&q.0[1]), show_t(&q.0[2]), q.1.as_ref().map(|g| format!(" {}", show_t(g))).unwrap_or_default()) }
fn show_ds(d: &[Q]) -> String { d.iter().map(show_q).collect::<Vec<_>>().join(" ") }
fn key_t(t: &ST) -> String { match t { SimpleTerm::LiteralLanguage(l, tag) => format!("{l:?}@{}", tag.as_str().to_ascii_lowercase()), _ => show_t(t) } }
fn key_q(q: &Q) -> String { format!("{}|{}|{}|{}", key_t(&q.0[0]), key_t(&q.0[1]), key_t(&q.0[2]), q.1.as_ref().map(key_t).unwrap_or_default()) }
fn dedup(d: &[Q]) -> Vec<Q> { let mut seen = BTreeSet::new(); d.iter().filter(|q| seen.insert(key_q(q))).cloned().collect() }

// ------------------------------------------------------------------ the expressible part (oracle side, from the property text)
fn expressible(q: &Q) -> bool {
    let node = |t: &ST| matches!(t, SimpleTerm::Iri(_) | SimpleTerm::BlankNode(_));
    node(&q.0[0]) && matches!(q.0[1], SimpleTerm::Iri(_)) && (node(&q.0[2]) || matches!(q.0[2], SimpleTerm::LiteralDatatype(..) | SimpleTerm::LiteralLanguage(..))) && q.1.as_ref().is_none_or(node)
}

// ------------------------------------------------------------------ generator
struct G<'a> { r: &'a mut Rng, q: Vec<Q>, tags: Vec<String>, nb: usize }
impl<'a> G<'a> {
    fn fresh(&mut self) -> ST { self.nb += 1; bnode(&format!("b{}", self.nb)) }
    fn tag(&mut self, s: &str) { if !self.tags.iter().any(|t| t == s) { self.tags.push(s.to_string()); } }
    fn add(&mut self, s: &ST, p: &ST, o: &ST, g: &Option<ST>) { self.q.push(([s.clone(), p.clone(), o.clone()], g.clone())); }
    fn graph(&mut self) -> Option<ST> {
        match self.r.below(8) { 0..=3 => None, 4 => Some(ex("g1")), 5 => Some(ex("g2")), 6 => Some(bnode("g")), _ => Some(bnode(&format!("b{}", self.r.range(1, 4)))) }
    }
    fn other_graph(&mut self, g: &Option<ST>) -> Option<ST> {
        for _ in 0..10 { let h = self.graph(); if &h != g { return h; } }
        if g.is_none() { Some(ex("g1")) } else { None }
    }
    fn old_blank(&mut self) -> ST { if self.nb == 0 { self.fresh() } else { bnode(&format!("b{}", self.r.range(1, self.nb))) } }
    fn subject(&mut self) -> ST { match self.r.below(5) { 0 | 1 => ex(self.r.ps(&["a", "b"])), 2 => self.fresh(), _ => self.old_blank() } }
    fn pred(&mut self) -> ST { match self.r.below(12) { 0 => rdf("first"), 1 => rdf("rest"), 2 => rdf("type"), 3 => rdf("value"), _ => ex(self.r.ps(&["p", "q"])) } }
    fn literal(&mut self) -> ST {
        match self.r.below(9) {
            0 | 1 => plain(self.r.ps(&["x", "y", "", "a\"b\\c\n"])),
            2 => lit_lang(self.r.ps(&["x", "chat"]), self.r.ps(&["en", "fr-BE", "EN"])),
            3 => lit_dt(self.r.ps(&["1", "02", "x"]), &format!("{XSD}integer")),
            4 => lit_dt(self.r.ps(&["true", "1.5E0", "z"]), &format!("{XSD}{}", self.r.ps(&["boolean", "double"]))),
            5 => { self.tag("rdf:JSON literal"); lit_dt(self.r.ps(&["{\"a\":1,\"b\":[true,null,\"x\"]}", "[]", "\"s\"", "12", "null", "{\"@id\":\"http://e/a\",\"z\":{}}"]), &format!("{RDF}JSON")) }
            6 => { self.tag("i18n datatype literal"); lit_dt(self.r.ps(&["x", "שלום"]), &format!("{I18N}{}", self.r.ps(&["en_ltr", "_rtl", "fr-be_rtl", "en_ltr", "ar_rtl"]))) }
            7 => lit_dt("v", "http://e/dt"),
            _ => plain(self.r.ps(&["ltr", "rtl", "en"])),
        }
    }
    fn object(&mut self) -> ST {
        match self.r.below(10) { 0 | 1 => ex(self.r.ps(&["a", "b", "C"])), 2 => rdf(self.r.ps(&["nil", "List", "nil"])), 3 | 4 => self.old_blank(), 5 => self.fresh(), _ => self.literal() }
    }
    fn noise(&mut self, k: usize) {
        for _ in 0..k { let (s, p, o, g) = (self.subject(), self.pred(), self.object(), self.graph()); self.add(&s, &p, &o, &g); }
    }
    /// items of a list: literal, IRI, blank, rdf:nil, nested list
    fn item(&mut self, g: &Option<ST>, depth: usize) -> ST {
        match self.r.below(8) {
            0 if depth > 0 => { self.tag("nested list"); let n = self.r.below(3); self.chain(g, n, depth - 1, false) }
            1 => { self.tag("rdf:nil as list item"); rdf("nil") }
            2 => ex("a"),
            3 => self.old_blank(),
            _ => self.literal(),
        }
    }
    /// builds a well-formed chain of `len` cells in graph g, returns its head (rdf:nil when empty)
    fn chain(&mut self, g: &Option<ST>, len: usize, depth: usize, typed: bool) -> ST {
        let cells: Vec<ST> = (0..len).map(|_| self.fresh()).collect();
        for i in 0..len {
            let it = self.item(g, depth);
            self.add(&cells[i], &rdf("first"), &it, g);
            let next = if i + 1 < len { cells[i + 1].clone() } else { rdf("nil") };
            self.add(&cells[i], &rdf("rest"), &next, g);
            if typed { self.add(&cells[i], &rdf("type"), &rdf("List"), g); }
        }
        cells.first().cloned().unwrap_or_else(|| rdf("nil"))
    }
    fn cells_of(&self, head: &ST) -> Vec<ST> {
        // follow rdf:rest from head among generated quads
        let mut out = vec![]; let mut cur = head.clone();
        while matches!(cur, SimpleTerm::BlankNode(_)) && out.len() < 10 {
            out.push(cur.clone());
            let nx = self.q.iter().find(|q| q.0[0] == cur && q.0[1] == rdf("rest")).map(|q| q.0[2].clone());
            match nx { Some(n) if !out.contains(&n) => cur = n, _ => break }
        }
        out
    }
    fn list_shape(&mut self) {
        let g = self.graph();
        let len = if self.r.chance(1, 15) { self.tag("long list"); self.r.range(6, 12) } else { self.r.range(1, 3) };
        let variant = self.r.below(20);
        let typed = variant == 5;
        let head = self.chain(&g, len, 1, typed);
        let cells = self.cells_of(&head);
        let s = self.subject(); let p = ex("p");
        if variant != 0 { self.add(&s, &p, &head, &g); }
        match variant {
            0 => self.tag("list head never used as an object"),
            1 => { self.tag("shared list: second parent"); let c = self.r.pick(&cells).clone(); let s2 = self.subject(); let p2 = ex(self.r.ps(&["p", "q"])); self.add(&s2, &p2, &c, &g); }
            2 => { self.tag("branching list: two rdf:rest"); let c = self.r.pick(&cells).clone(); let o = if self.r.chance(1, 2) { rdf("nil") } else { self.chain(&g, 1, 0, false) }; self.add(&c, &rdf("rest"), &o, &g); }
            3 => { self.tag("branching list: two rdf:first"); let c = self.r.pick(&cells).clone(); let o = self.literal(); self.add(&c, &rdf("first"), &o, &g); }
            4 => { self.tag("cyclic list: rdf:rest loops back"); let last = cells.last().unwrap().clone(); let tgt = self.r.pick(&cells).clone();
                   self.q.retain(|q| !(q.0[0] == last && q.0[1] == rdf("rest"))); self.add(&last, &rdf("rest"), &tgt, &g); if self.r.chance(1, 2) { self.add(&last, &rdf("rest"), &rdf("nil"), &g); } }
            5 => self.tag("typed rdf:List cells"),
            6 => { self.tag("one cell typed rdf:List"); let c = self.r.pick(&cells).clone(); self.add(&c, &rdf("type"), &rdf("List"), &g); }
            7 => { self.tag("list cell with an extra property"); let c = self.r.pick(&cells).clone(); let o = self.object(); let p = self.pred(); self.add(&c, &p, &o, &g); }
            8 => { self.tag("list split across graphs: a cell's quad moved"); let c = self.r.pick(&cells).clone(); let h = self.other_graph(&g); let which = if self.r.chance(1, 2) { rdf("first") } else { rdf("rest") };
                   for q in self.q.iter_mut() { if q.0[0] == c && q.0[1] == which { q.1 = h.clone(); } } }
            9 => { self.tag("list cell also a subject in another graph"); let c = self.r.pick(&cells).clone(); let h = self.other_graph(&g); let o = self.object(); self.add(&c, &ex("q"), &o, &h); }
            10 => { self.tag("list cell also a graph name"); let c = self.r.pick(&cells).clone(); let o = self.object(); self.add(&ex("a"), &ex("q"), &o, &Some(c)); }
            11 => { self.tag("list head referenced from another graph"); let h = self.other_graph(&g); let last = self.q.len() - 1; self.q[last].1 = h; }
            12 => { self.tag("list referenced again from another graph"); let h = self.other_graph(&g); let c = self.r.pick(&cells).clone(); let s2 = self.subject(); self.add(&s2, &ex("q"), &c, &h); }
            13 => { self.tag("list cell referenced by its own item (cycle through rdf:first)"); let c = self.r.pick(&cells).clone(); let tgt = self.r.pick(&cells).clone();
                    self.q.retain(|q| !(q.0[0] == c && q.0[1] == rdf("first"))); self.add(&c, &rdf("first"), &tgt, &g);
                    if self.r.chance(1, 2) { let last = self.q.iter().position(|q| q.0[2] == head && q.0[1] == p); if let Some(i) = last { self.q.remove(i); } } }
            14 => { self.tag("list cell without rdf:first"); let c = self.r.pick(&cells).clone(); self.q.retain(|q| !(q.0[0] == c && q.0[1] == rdf("first"))); }
            15 => { self.tag("same list copied in two graphs"); let h = self.other_graph(&g); let copy: Vec<Q> = self.q.iter().filter(|q| q.1 == g && (cells.contains(&q.0[0]) || q.0[2] == head)).cloned().collect(); for mut q in copy { q.1 = h.clone(); self.q.push(q); } }
            16 => { self.tag("list head under rdf:first of a plain node"); let last = self.q.len() - 1; self.q[last].0[1] = rdf("first"); }
            17 => { self.tag("list head under rdf:rest of an IRI or plain node"); let last = self.q.len() - 1; self.q[last].0[1] = rdf("rest"); }
            _ => self.tag("well-formed list"),
        }
    }
    fn type_shape(&mut self) {
        let (s, g) = (self.subject(), self.graph());
        let o = match self.r.below(6) { 0 => { self.tag("rdf:type with blank object"); self.old_blank() } 1 => { self.tag("rdf:type with literal object"); self.literal() } 2 => { self.tag("rdf:type rdf:nil"); rdf("nil") } 3 => rdf("List"), _ => ex("C") };
        self.tag("rdf:type"); self.add(&s, &rdf("type"), &o, &g);
    }
    fn compound_shape(&mut self) {
        let g = self.graph(); let b = self.fresh();
        let variant = self.r.below(12);
        let dirv = if variant == 7 { plain("up") } else { plain(self.r.ps(&["ltr", "rtl"])) };
        let val = if variant == 8 { lit_dt("1", &format!("{XSD}integer")) } else if variant == 9 { lit_lang("x", "en") } else { plain(self.r.ps(&["x", "שלום"])) };
        self.add(&b, &rdf("value"), &val, &g); self.add(&b, &rdf("direction"), &dirv, &g);
        if self.r.chance(1, 2) { let l = if variant == 10 { plain("not a tag") } else { plain(self.r.ps(&["en", "ar"])) }; self.add(&b, &rdf("language"), &l, &g); }
        let s = self.subject();
        if variant != 0 { self.add(&s, &ex("p"), &b, &g); }
        match variant {
            0 => self.tag("compound literal never referenced"),
            1 => { self.tag("compound literal referenced twice"); let s2 = self.subject(); self.add(&s2, &ex("q"), &b, &g); }
            2 => { self.tag("compound literal referenced from another graph"); let h = self.other_graph(&g); let last = self.q.len() - 1; self.q[last].1 = h; }
            3 => { self.tag("compound literal also described in another graph"); let h = self.other_graph(&g); let o = self.object(); self.add(&b, &ex("q"), &o, &h); }
            4 => { self.tag("compound literal with an extra property"); let o = self.object(); self.add(&b, &ex("q"), &o, &g); }
            5 => { self.tag("compound literal as a list item"); let cell = self.fresh(); let last = self.q.len() - 1; self.q[last].0[2] = cell.clone(); self.add(&cell, &rdf("first"), &b, &g); self.add(&cell, &rdf("rest"), &rdf("nil"), &g); }
            6 => { self.tag("compound literal with two values"); self.add(&b, &rdf("value"), &plain("second"), &g); }
            7 => self.tag("compound literal with direction other than ltr/rtl"),
            8 => self.tag("compound literal whose value is not a plain string"),
            9 => self.tag("compound literal whose value is language-tagged"),
            10 => self.tag("compound literal with ill-formed language"),
            _ => self.tag("compound literal, well-formed"),
        }
    }
    fn i18n_shape(&mut self) {
        let (s, g) = (self.subject(), self.graph());
        let suffix = self.r.ps(&["en_ltr", "_rtl", "en", "", "en_", "_", "EN_ltr", "en_up", "en_ltr_x", "fr-be_rtl", "a%20b_ltr"]);
        match suffix { "en_ltr" | "_rtl" | "fr-be_rtl" => self.tag("i18n datatype literal"), _ => self.tag(&format!("i18n datatype literal with unusual suffix {suffix:?}")) }
        let o = lit_dt("x", &format!("{I18N}{suffix}")); self.add(&s, &ex("p"), &o, &g);
    }
    fn inexpressible(&mut self) {
        self.tag("quads JSON-LD cannot express");
        let g = self.graph();
        let (s, p, o) = (self.subject(), ex("p"), self.object());
        match self.r.below(7) {
            0 => self.add(&var("v"), &p, &o, &g),
            1 => self.add(&plain("lit"), &p, &o, &g),
            2 => self.add(&triple(ex("a"), ex("p"), ex("b")), &p, &o, &g),
            3 => { let b = self.old_blank(); self.add(&s, &b, &o, &g) }
            4 => { let b = self.old_blank(); self.add(&s, &p, &triple(ex("a"), ex("p"), b), &g) }
            5 => self.add(&s, &p, &var("w"), &g),
            _ => { let gg = match self.r.below(3) { 0 => var("g"), 1 => plain("g"), _ => triple(ex("a"), ex("p"), ex("b")) }; self.add(&s, &p, &o, &Some(gg)) }
        }
    }
}
fn shuffle<T>(v: &mut Vec<T>, r: &mut Rng) { for i in (1..v.len()).rev() { let j = r.below(i + 1); v.swap(i, j); } }

/// the replayed defect witnesses (DESIGN section 4 rows 11, 12 and the ones found while building), always cases 0..
fn witness_case(idx: usize) -> Option<(Vec<Q>, Vec<String>, Opts)> {
    let o = Opts { mode10: false, use_rdf_type: false, dir: 0, spaces: 0 };
    let (b, c, n) = (bnode("b"), bnode("c"), None::<ST>);
    let q = |s: &ST, p: &ST, o: &ST, g: &Option<ST>| -> Q { ([s.clone(), p.clone(), o.clone()], g.clone()) };
    let cell = |g: &Option<ST>| vec![q(&b, &rdf("first"), &plain("a"), g), q(&b, &rdf("rest"), &rdf("nil"), g)];
    let g2 = Some(ex("g2"));
    Some(match idx {
        0 => (cell(&n), vec!["WITNESS row 11: list cell that is never an object".into()], o),
        1 => ([cell(&n), vec![q(&ex("s"), &ex("p"), &b, &n), q(&b, &ex("q"), &ex("a"), &g2)]].concat(), vec!["WITNESS row 12: list cell that is also a subject in another graph".into()], o),
        2 => ([cell(&g2), vec![q(&ex("s"), &ex("p"), &b, &g2), q(&ex("a"), &ex("q"), &ex("a"), &Some(b.clone()))]].concat(), vec!["WITNESS: list cell that is also a graph name".into()], o),
        3 => (vec![q(&b, &rdf("first"), &c, &n), q(&b, &rdf("rest"), &rdf("nil"), &n), q(&c, &rdf("first"), &plain("a"), &n), q(&c, &rdf("rest"), &b, &n)], vec!["WITNESS: list that is its own item (1.1)".into()], o),
        4 => ([cell(&n), vec![q(&b, &rdf("type"), &rdf("List"), &n), q(&ex("s"), &ex("p"), &b, &n)]].concat(), vec!["WITNESS: cell typed rdf:List".into()], o),
        5 => (vec![q(&b, &rdf("value"), &plain("x"), &n), q(&b, &rdf("direction"), &plain("ltr"), &n)], vec!["WITNESS: compound literal that nothing references".into()], Opts { dir: 2, ..o }),
        6 => (vec![q(&ex("s"), &ex("p"), &lit_dt("x", &format!("{I18N}en")), &n)], vec!["WITNESS: i18n datatype without direction".into()], Opts { dir: 1, ..o }),
        _ => return None,
    })
}

fn gen_case(r: &mut Rng, single: bool) -> (Vec<Q>, Vec<String>, Opts) {
    let opts = Opts { mode10: r.chance(1, 3), use_rdf_type: r.chance(1, 3), dir: [0, 0, 1, 2, 2][r.below(5)], spaces: if r.chance(1, 3) { 2 } else { 0 } };
    let mut g = G { r, q: vec![], tags: vec![], nb: 0 };
    let k = if single { 0 } else { g.r.below(3) }; g.noise(k);
    for _ in 0..(if single { 1 } else { g.r.range(1, 3) }) {
        match g.r.below(12) { 0..=5 => g.list_shape(), 6 => g.type_shape(), 7 | 8 => g.compound_shape(), 9 => g.i18n_shape(), 10 => g.inexpressible(), _ => { let k = g.r.range(1, 4); g.noise(k) } }
    }
    let (mut q, tags) = (g.q, g.tags);
    if r.chance(1, 2) { shuffle(&mut q, r); }
    (dedup(&q), tags, opts)
}

/// the property oracle: Some(description) when the round trip fails.  Two readers are applied to the
/// emitted document: sophia's JsonLdParser (the property as stated) and the reference reader above.
fn iso(expected: &Vec<Q>, back: &Vec<Q>) -> bool { isomorphic_datasets(expected, back).unwrap_or(false) }
fn oracle(quads: &[Q], o: &Opts, ser: &Result<String, String>) -> Option<String> {
    let expected: Vec<Q> = quads.iter().filter(|q| expressible(q)).cloned().collect();
    let txt = match ser { Ok(t) => t, Err(e) => return Some(format!("SERIALIZER FAILS: {e}")) };
    let flat = txt.split_whitespace().collect::<Vec<_>>().join(" ");
    let reference = read_json(txt).and_then(|j| reference_to_rdf(&j, o.dir, false));
    let ref_back = match &reference {
        Err(e) => return Some(format!("SERIALIZER OUTPUT INVALID (reference reader): {e}; document: {flat}")),
        Ok(back) => dedup(back),
    };
    if !iso(&expected, &ref_back) { return Some(format!("SERIALIZER LOSES INFORMATION (reference reader): read back {} quads [{}] instead of {}; document: {flat}", ref_back.len(), show_ds(&ref_back), expected.len())); }
    match parse_back(txt, o).map(|b| dedup(&b)) {
        Err(e) => Some(format!("PARSER REJECTS a document the reference reader round-trips: {e}; document: {flat}")),
        Ok(back) if !iso(&expected, &back) => {
            let quirk = dedup(&read_json(txt).and_then(|j| reference_to_rdf(&j, o.dir, true)).unwrap_or_default());
            if o.dir != 0 && iso(&quirk, &back) { Some(format!("PARSER (json-ld-core 0.15.1, rdfDirection={}) DIVERGES from the specification in the known way: parsed back {} quads [{}] instead of {}; document: {flat}", if o.dir == 1 { "i18n-datatype: no '_' before the direction when there is no language" } else { "compound-literal: no rdf:value/rdf:direction/rdf:language triples" }, back.len(), show_ds(&back), expected.len())) }
            else { Some(format!("PARSER DIVERGES from the reference reader: parsed back {} quads [{}] instead of {}; document: {flat}", back.len(), show_ds(&back), expected.len())) }
        }
        _ => None,
    }
}

// ------------------------------------------------------------------ Coq side
struct Intern { ids: Vec<(String, u64, ST)>, next: u64 }
impl Intern {
    fn new() -> Self {
        let mut i = Intern { ids: vec![], next: 10 };
        for (k, n) in ["first", "rest", "nil", "type", "List", "value", "direction", "language"].iter().enumerate() { i.ids.push((key_t(&rdf(n)), k as u64 + 1, rdf(n))); }
        i
    }
    fn id(&mut self, t: &ST) -> u64 {
        let k = key_t(t);
        if let Some(e) = self.ids.iter().find(|e| e.0 == k) { return e.1; }
        self.next += 1; self.ids.push((k, self.next, t.clone())); self.next
    }
    fn find(&self, t: &ST) -> Option<u64> { let k = key_t(t); self.ids.iter().find(|e| e.0 == k).map(|e| e.1) }
    fn table(&self) -> String {
        coq_list(self.ids.iter().map(|(_, n, t)| format!("({n}, {})", match t {
            SimpleTerm::Iri(_) => "I".to_string(), SimpleTerm::BlankNode(_) => "B".to_string(),
            SimpleTerm::LiteralLanguage(..) => "Lit false false false".to_string(),
            SimpleTerm::LiteralDatatype(l, d) => { let plain = d.as_str() == format!("{XSD}string"); format!("Lit {} {} {}", coq_bool(plain), coq_bool(plain && (&**l == "ltr" || &**l == "rtl")), coq_bool(plain && sophia_api::term::LanguageTag::new(&**l).is_ok() && !l.bytes().any(|b| b.is_ascii_uppercase()))) }
            _ => "other_info".to_string() })))
    }
}
fn coq_quad(i: &mut Intern, q: &Q) -> String { format!("mkQ {} {} {} {}", i.id(&q.0[0]), i.id(&q.0[1]), i.id(&q.0[2]), coq_opt(q.1.as_ref().map(|g| i.id(g).to_string()))) }
fn canon_obj(j: &J) -> String { canon_json(j) }
/// value object of each literal of the dataset, obtained from the implementation itself on a one-quad dataset
fn literal_objects(quads: &[Q], o: &Opts, i: &mut Intern, i18n: &mut Vec<String>) -> Vec<(String, u64)> {
    let mut out = vec![]; let mut seen = BTreeSet::new();
    for q in quads { if !expressible(q) { continue; } let l = &q.0[2]; if !matches!(l, SimpleTerm::LiteralDatatype(..) | SimpleTerm::LiteralLanguage(..)) || !seen.insert(show_t(l)) { continue; }
        let one: Vec<Q> = vec![([ex("s"), ex("p"), l.clone()], None)];
        if let Ok(txt) = serialise(&one, o) { if let Ok(j) = read_json(&txt) { if let Some(v) = j.arr().ok().and_then(|a| a.first()).and_then(|n| n.get("http://e/p")).and_then(|v| v.arr().ok()).and_then(|a| a.first()) {
            out.push((canon_obj(v), i.id(l)));
            // literal level: the i18n-datatype shortcut, against Model.i18n_value
            if let (1, SimpleTerm::LiteralDatatype(_, dt)) = (o.dir, l) { if let Some(suffix) = dt.as_str().strip_prefix(I18N) {
                let tag = suffix.split('_').next().unwrap_or("");
                let wf = sophia_api::term::LanguageTag::new(tag).is_ok();
                let gs = |k: &str| v.get(k).and_then(|x| x.str().ok()).map(|x| x.to_string());
                let observed = match (gs("@type"), gs("@language"), gs("@direction")) {
                    (Some(t), None, None) => format!("VTyped {}", coq_str(t.strip_prefix(I18N).unwrap_or(&t))),
                    (_, lang, dirn) => format!("VDir {} {}", coq_opt(lang.map(|x| coq_str(&x))), coq_str(&dirn.unwrap_or_default())),
                };
                i18n.push(format!("i18n_ok {} {} ({observed})", coq_bool(wf), coq_str(suffix)));
            } }
        } } } }
    out
}
fn coq_val(v: &J, lits: &[(String, u64)], i: &mut Intern) -> Result<String, String> {
    if let Some(l) = v.get("@list") { return Ok(format!("JList [] {}", coq_list(l.arr()?.iter().map(|x| coq_val(x, lits, i).map(|s| format!("({s})"))).collect::<Result<Vec<_>, _>>()?))); }
    if v.get("@value").is_some() {
        if let Some(e) = lits.iter().find(|e| e.0 == canon_obj(v)) { return Ok(format!("JLit {}", e.1)); }
        if let (Some(val), Some(d)) = (v.get("@value"), v.get("@direction")) {
            let f = |i: &mut Intern, x: &J| -> Result<u64, String> { i.find(&plain(x.str()?)).ok_or_else(|| format!("compound literal component {x:?} is not a plain literal of the input")) };
            let l = match v.get("@language") { Some(l) => Some(f(i, l)?.to_string()), None => None };
            return Ok(format!("JComp 0 {} {} {}", f(i, val)?, f(i, d)?, coq_opt(l)));
        }
        return Err(format!("value object {} corresponds to no literal of the input", canon_obj(v)));
    }
    if let Some(x) = v.get("@id") { return Ok(format!("JRef {}", i.id(&RefRdf::id_term(x.str()?)))); }
    Err(format!("unrecognised value {v:?}"))
}
fn coq_node(n: &J, lits: &[(String, u64)], i: &mut Intern) -> Result<String, String> {
    let J::Obj(entries) = n else { return Err("node object expected".into()) };
    let id = i.id(&RefRdf::id_term(n.get("@id").ok_or("no @id")?.str()?));
    let mut types = vec![]; let mut props = vec![];
    for (k, v) in entries {
        match k.as_str() {
            "@id" | "@graph" => {}
            "@type" => for t in v.arr()? { types.push(i.id(&RefRdf::id_term(t.str()?)).to_string()); },
            k => { let vs = v.arr()?.iter().map(|x| coq_val(x, lits, i)).collect::<Result<Vec<_>, _>>()?; props.push(format!("({}, {})", i.id(&RefRdf::id_term(k)), coq_list(vs))); }
        }
    }
    Ok(format!("mkJ {id} {} {}", coq_list(types), coq_list(props)))
}
fn coq_doc(doc: &J, lits: &[(String, u64)], i: &mut Intern) -> Result<String, String> {
    let tops = doc.arr()?.iter().map(|n| {
        let g = match n.get("@graph") { Some(g) => Some(coq_list(g.arr()?.iter().map(|m| coq_node(m, lits, i)).collect::<Result<Vec<_>, _>>()?)), None => None };
        Ok(format!("mkTop ({}) {}", coq_node(n, lits, i)?, coq_opt(g)))
    }).collect::<Result<Vec<_>, String>>()?;
    Ok(coq_list(tops))
}

fn main() {
    let a = parse_args();
    quiet_panics();
    let single = a.rest.iter().any(|x| x == "--single");
    let verbose = a.rest.iter().any(|x| x == "--verbose");
    let mut sum = Summary::default();
    sum.rule = "case = (dataset of up to ~30 quads = noise quads + 1..3 shapes among: lists (well-formed, unreferenced head, shared, branching, cyclic through rdf:rest or rdf:first, typed rdf:List, extra property, split across graphs, cell reused as subject/graph name elsewhere, copied in two graphs, nested, rdf:nil items), rdf:type with IRI/blank/literal objects, compound-literal shapes, i18n datatypes, rdf:JSON literals, quads JSON-LD cannot express; options = processing mode x use_rdf_type x rdf_direction x indentation); non-trivial = the dataset has an rdf:rest or rdf:direction quad, or at least two graphs; distinct = distinct (dataset, options)".into();
    let base = Rng::new(a.seed);
    let range: Vec<usize> = match a.only { Some(i) => vec![i], None => (0..a.n).collect() };
    let mut by_tag: BTreeMap<String, (u64, u64)> = BTreeMap::new();
    let mut cases = vec![]; let mut seen = BTreeSet::new();
    // every option setter must leave the other options alone (the options are part of the property's quantifier)
    if a.only.is_none() {
        for flag in [false, true] {
            let o = JsonLdOptions::new().with_use_rdf_type(flag).with_use_native_types(!flag).with_default_document_loader::<sophia_jsonld::loader::NoLoader>();
            if o.use_rdf_type() != flag { sum.oracle_failures.push(("options".into(), format!("OPTIONS: JsonLdOptions::new().with_use_rdf_type({flag}).with_use_native_types({}).with_default_document_loader() has use_rdf_type() == {} (every with_*document_loader* builder copies use_native_types into use_rdf_type)", !flag, o.use_rdf_type()))); }
        }
    }
    for idx in range {
        let mut r = base.fork(idx as u64);
        let (quads, tags, opts) = witness_case(idx).unwrap_or_else(|| gen_case(&mut r, single));
        let ser = serialise(&quads, &opts);
        let res = oracle(&quads, &opts, &ser);
        sum.evaluations += 1;
        let graphs: BTreeSet<String> = quads.iter().map(|q| q.1.as_ref().map(key_t).unwrap_or_default()).collect();
        let nontrivial = graphs.len() >= 2 || quads.iter().any(|q| q.0[1] == rdf("rest") || q.0[1] == rdf("direction"));
        if nontrivial && seen.insert(format!("{:?}{}", opts, show_ds(&quads))) { sum.distinct_nontrivial += 1; }
        for t in &tags { let e = by_tag.entry(t.clone()).or_default(); e.0 += 1; if res.is_some() { e.1 += 1; } }
        sum.bump(&format!("mode:{}", if opts.mode10 { "1.0" } else { "1.1" }));
        sum.bump(&format!("rdf_direction:{}", ["none", "i18n-datatype", "compound-literal"][opts.dir as usize]));
        if opts.use_rdf_type { sum.bump("use_rdf_type"); } if opts.spaces > 0 { sum.bump("indented"); }
        if let Some(d) = &res {
            if verbose { println!("FAIL {idx} {tags:?} [{}] {} => {d}", opts.show(), show_ds(&quads)); }
            sum.bump(&format!("oracle:{}", d.split(':').next().unwrap_or("").split('(').next().unwrap_or("").trim()));
            sum.oracle_failures.push((idx.to_string(), format!("{d}; shapes {tags:?}; options {}; dataset: {}", opts.show(), show_ds(&quads))));
        }
        if sum.samples.len() < 5 && nontrivial && idx % 7 == 0 { sum.samples.push(format!("case {idx} [{}] {} => {}", opts.show(), show_ds(&quads), ser.clone().unwrap_or_else(|e| e).split_whitespace().collect::<Vec<_>>().join(" "))); }
        // Coq case
        let mut it = Intern::new();
        let cq = coq_list(quads.iter().map(|q| coq_quad(&mut it, q)));
        let mut i18n = vec![];
        let lits = literal_objects(&quads, &opts, &mut it, &mut i18n);
        let observed = match &ser { Ok(txt) => read_json(txt).and_then(|j| coq_doc(&j, &lits, &mut it)), Err(e) => Err(e.clone()) };
        let copts = format!("(mkOpts {} {} {})", coq_bool(opts.mode10), coq_bool(opts.use_rdf_type), coq_bool(opts.dir == 2));
        let body = match &observed {
            Ok(doc) => format!("let t := {} in let d := {cq} in c12_ok t {copts} d {doc} && roundtrip_ok t {copts} d 1000{}", it.table(), i18n.iter().map(|x| format!(" && {x}")).collect::<String>()),
            Err(e) => format!("false (* no document to compare: {} *)", e.replace("*)", "* )").replace("(*", "( *")),
        };
        if a.only.is_some() { println!("CASE {idx}: {tags:?} {} :: {}\n => oracle {:?}\n{}\nCoq: {body}", opts.show(), show_ds(&quads), res, ser.clone().unwrap_or_else(|e| e)); }
        cases.push((idx, body));
    }
    for (t, (n, f)) in &by_tag { sum.bump_by(&format!("shape:{t}"), *n); if verbose { println!("{f:5}/{n:5} {t}"); } }
    if a.only.is_none() {
        sum.shards = write_shards(&a.out, "From Sophia.C12 Require Import Model.\n", &cases, a.shards);
        sum.extra.push(("coq_cases".into(), cases.len().to_string()));
        std::fs::write(format!("{}/summary.json", a.out), sum.to_json()).unwrap();
    }
    println!("c12: {} cases, {} distinct non-trivial, {} oracle failures", sum.evaluations, sum.distinct_nontrivial, sum.oracle_failures.len());
}
