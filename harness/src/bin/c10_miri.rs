//! C10, thorough tier: fixed clone/drop/insert scenarios meant to be run under Miri
//! (`cargo +nightly miri run --bin c10_miri`): any read of released memory is reported by Miri.
use sophia_api::prelude::*;
use sophia_inmem::dataset::{FastDataset, LightDataset};
use sophia_inmem::graph::{FastGraph, LightGraph};
use sophia_inmem::index::{SimpleTermIndex, TermIndex};
use verif_harness::*;

fn terms(k: usize) -> [ST; 3] {
    [iri(&format!("http://example.org/subject/with/a/long/path/{k}")), iri("http://example.org/p"),
     if k % 3 == 0 { lit_lang(&format!("value {k}"), "en-GB") } else if k % 3 == 1 { triple(iri("http://e/a"), iri("http://e/p"), bnode(&format!("b{k}"))) } else { lit_dt(&k.to_string(), &format!("{XSD}integer")) }]
}
macro_rules! scenario { ($ty:ty, $ins:expr, $count:expr) => {{
    let ins = $ins; let count = $count;
    // clone, drop the original, read and grow the clone
    let mut a = <$ty>::default(); for k in 0..6 { ins(&mut a, k); }
    let mut b = a.clone(); drop(a);
    let junk: Vec<String> = (0..64).map(|k| format!("http://example.org/subject/with/a/long/path/{k}")).collect();
    for k in 0..9 { ins(&mut b, k); } assert_eq!(count(&b), 9); drop(junk);
    // clone, grow the original past a reallocation, drop the clone, read the original
    let mut c = b.clone(); for k in 9..40 { ins(&mut b, k); } drop(c); assert_eq!(count(&b), 40);
    // clone of a clone, swap, drop in the other order
    c = b.clone(); let mut d = c.clone(); std::mem::swap(&mut c, &mut d); drop(b); ins(&mut d, 41); drop(c); assert_eq!(count(&d), 41);
}}; }
fn main() {
    scenario!(FastGraph, |g: &mut FastGraph, k: usize| { let t = terms(k); g.insert(&t[0], &t[1], &t[2]).unwrap(); }, |g: &FastGraph| g.triples().map(|t| { let t = t.unwrap(); t.s().is_iri() as usize + t.o().lexical_form().map(|l| l.len()).unwrap_or(0) * 0 }).count());
    scenario!(LightGraph, |g: &mut LightGraph, k: usize| { let t = terms(k); g.insert(&t[0], &t[1], &t[2]).unwrap(); }, |g: &LightGraph| g.triples().map(|t| t.unwrap().o().kind()).count());
    scenario!(FastDataset, |g: &mut FastDataset, k: usize| { let t = terms(k); g.insert(&t[0], &t[1], &t[2], Some(&t[1])).unwrap(); }, |g: &FastDataset| g.quads().map(|q| q.unwrap().s().iri().map(|i| i.len())).count());
    scenario!(LightDataset, |g: &mut LightDataset, k: usize| { let t = terms(k); g.insert(&t[0], &t[1], &t[2], Some(&t[1])).unwrap(); }, |g: &LightDataset| g.quads().map(|q| format!("{:?}", q.unwrap().o())).count());
    let mut ix = SimpleTermIndex::<u16>::default(); for k in 0..5 { for t in terms(k) { ix.ensure_index(&t).unwrap(); } }
    let iy = ix.clone(); drop(ix); for i in 0..iy.len() { let _ = format!("{:?}", iy.get_term(i as u16)); }
    println!("c10_miri: scenarios completed");
}
