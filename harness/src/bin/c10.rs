//! C10: histories interleaving insert / clone / drop / swap-move / growth over several live
//! stores; after every history each live store's verif_audit vector and content by index are
//! compared with the Coq ownership model (C10/Model.v); oracle: no store ever points into memory
//! it does not own, and a clone keeps the content it had when cloned.
//!
//! Widened after the coverage report: every way of building a store (Default, `new()`, `from_*_source`,
//! `collect_*`, `insert_all`), of cloning it (Clone, clone_from, Box/Rc/Arc/Vec/Option/Cow/array/tuple clones,
//! `Rc::make_mut`, `vec![x; n]`, `resize`, clone of a clone, collecting the statements of a live store into
//! another store type), of moving it (swap, take, replace, into and out of Box/Rc/Arc/Vec, to another thread and
//! back) and of dropping it (drop, overwrite, `Vec::clear`/`truncate`, drop on another thread); stores indexed
//! by usize/u16/u32 and by tiny capacity-limited indexes (error branches); default-graph quads; statements
//! given through a term type whose accessors return OWNED strings (the owned branch of `ensure_owned`);
//! statement-level comparison of every live store with a shadow after every step.
//!
//! Strengthened after round 6:
//! * queries are operations of the histories (`Op::Query`: one pattern shape first, then every shape and the listing, on a store
//!   and on the stores it was cloned from / into, in either order), and a second family of histories (cases 500000..) is
//!   observed only through the storage hooks and the term index between those operations, so that clones are taken and
//!   mutated BEFORE the first query is made on either side (a store whose answers depend on which queries it or its
//!   clone answered before -- lazily built or shared indexes -- is not masked by the oracle's own queries);
//! * directed clone / mutate / query histories (cases 1000000..): 14 graph and dataset types x 8 mutation plans x the side
//!   and the shape of the first query, every answer compared with the shadow and, for a sample, with the Coq model
//!   C10/Query.v (indexes spo/pos/osp and gspo/gpos/gosp/spog/posg/ospg, the index each shape is answered from);
//! * safe but ill-behaved user-defined implementations of `Term` (kind and accessors disagree, answers change between
//!   calls, eq / hash / cmp inconsistent), of `TermMatcher` / `GraphNameMatcher` (constant() and matches() disagree or
//!   change) and of `Source` (misreports), passed to every entry point of the 18 store types in SUBPROCESSES (cases
//!   2000000..): a caught panic or an error is fine, a process that dies is the failure; after every call the store and a
//!   clone taken before pass the storage audit and the content comparison;
//! * a panic of the implementation in the middle of a history is caught and reported with the history.
//!
//! Strengthened after round 7:
//! * every OTHER observation method of the stores (subjects / predicates / objects / graph_names / iris / blank_nodes / literals /
//!   quoted_triples / variables / contains, the as_dataset / union_graph / graph(g) views) is compared with an oracle computed from the
//!   statements the store was given: in the random histories after every step on the stores the step touched and on their relatives by
//!   cloning, at every Query operation and at the end; in directed clone / mutate / OBSERVE histories (cases 1500000..) whose first
//!   observation is ONE accessor on ONE side (possibly also called before the clone), a sample of them through the Coq model
//!   C10/Observe.v: a value cached inside a store and shared with its clones shows up there;
//! * size ladders (cases 3000000..): one store per type grown once per run to 2^10, 2^16, 2^17 (+-1) statements (2^20 with
//!   --thorough-sizes) and to 2^16 / 2^17 distinct terms, cloned at every rung, every pattern shape on the clone and on the original
//!   before and after mutating the clone, the original dropped and the clone grown further: an implementation that copies, queries or
//!   releases a store differently from a certain size on is exercised on both sides of the threshold;
//! * both run on other threads beside the random histories (`side_streams`).
use sophia_api::dataset::CollectibleDataset;
use sophia_api::graph::CollectibleGraph;
use sophia_api::prelude::*;
use sophia_api::term::{GraphName, SimpleTerm, TermKind};
use sophia_api::MownStr;
use sophia_inmem::dataset::{GenericFastDataset, GenericLightDataset};
use sophia_inmem::graph::{FastGraph, GenericFastGraph, GenericLightGraph, LightGraph};
use sophia_inmem::index::{Index, SimpleTermIndex, TermIndex, TermIndexFullError};
use std::borrow::Cow;
use std::rc::Rc;
use std::sync::Arc;
use verif_harness::*;

type Ti<I> = SimpleTermIndex<I>;
type TFE = TermIndexFullError;
/// the type of the terms that the stores hand out (by reference): whatever SimpleTermIndex declares
type IT = <SimpleTermIndex<u32> as TermIndex>::Term;
type S6 = Ti<SmallIdx<6>>;
type G9 = GenericFastGraph<Ti<SmallIdx<9>>>;
type LG9 = GenericLightGraph<Ti<SmallIdx<9>>>;
type LD9 = GenericLightDataset<Ti<SmallIdx<9>>>;
type FD9 = GenericFastDataset<Ti<SmallIdx<9>>>;
type I32 = Ti<u32>;
type I16 = Ti<u16>;
type IUS = Ti<usize>;
type FG = sophia_inmem::graph::FastGraph;
type LG = sophia_inmem::graph::LightGraph;
type FD = sophia_inmem::dataset::FastDataset;
type LD = sophia_inmem::dataset::LightDataset;
type SFG = sophia_inmem::graph::small::FastGraph;
type SLG = sophia_inmem::graph::small::LightGraph;
type SFD = sophia_inmem::dataset::small::FastDataset;
type SLD = sophia_inmem::dataset::small::LightDataset;
type LGU = GenericLightGraph<Ti<usize>>;
type FDU = GenericFastDataset<Ti<usize>>;

thread_local! { static QUIET: std::cell::Cell<bool> = std::cell::Cell::new(false); }
/// the message of the last panic (any thread): a panic of the implementation during a history is reported with the history
static LAST_PANIC: std::sync::Mutex<String> = std::sync::Mutex::new(String::new());
fn last_panic() -> String { LAST_PANIC.lock().map(|s| s.replace('\n', " ")).unwrap_or_default() }

/// A term type whose accessors return OWNED strings (as the native literals i32, f64, ... do): SimpleTerm::from_term
/// then goes through the owned branch of `ensure_owned` (clone + transmute to 'static); the key must own a fresh copy.
#[derive(Clone, Copy, Debug)]
struct OwnT<'a>(&'a ST);
impl<'a> Term for OwnT<'a> {
    type BorrowTerm<'x> = OwnT<'a> where Self: 'x;
    fn kind(&self) -> TermKind { self.0.kind() }
    fn borrow_term(&self) -> OwnT<'a> { *self }
    fn iri(&self) -> Option<sophia_api::term::IriRef<MownStr<'_>>> { self.0.iri().map(|i| sophia_api::term::IriRef::new_unchecked(MownStr::from(i.as_str().to_string()))) }
    fn bnode_id(&self) -> Option<sophia_api::term::BnodeId<MownStr<'_>>> { self.0.bnode_id().map(|i| sophia_api::term::BnodeId::new_unchecked(MownStr::from(i.as_str().to_string()))) }
    fn lexical_form(&self) -> Option<MownStr<'_>> { self.0.lexical_form().map(|l| MownStr::from(l.to_string())) }
    fn datatype(&self) -> Option<sophia_api::term::IriRef<MownStr<'_>>> { self.0.datatype().map(|i| sophia_api::term::IriRef::new_unchecked(MownStr::from(i.as_str().to_string()))) }
    fn language_tag(&self) -> Option<sophia_api::term::LanguageTag<MownStr<'_>>> { self.0.language_tag().map(|i| sophia_api::term::LanguageTag::new_unchecked(MownStr::from(i.as_str().to_string()))) }
    fn variable(&self) -> Option<sophia_api::term::VarName<MownStr<'_>>> { self.0.variable().map(|i| sophia_api::term::VarName::new_unchecked(MownStr::from(i.as_str().to_string()))) }
    fn triple(&self) -> Option<[OwnT<'a>; 3]> { self.0.triple().map(|[s, p, o]| [OwnT(s), OwnT(p), OwnT(o)]) }
    fn to_triple(self) -> Option<[OwnT<'a>; 3]> { self.triple() }
}


// =====================================================================================================================
// Strengthened after round 7: EVERY observation method of the stores, not only the listing and the pattern queries.
// An `Acc` is what one of them yields: (name, a hash of every term / statement yielded, the same rendered as text when asked).
// The oracle (`expected_acc`) computes the same from the statements the store was given; the answers are compared as SETS
// (the accessors may yield duplicates).  Compared on BOTH sides of every clone, after the clone and after every mutation
// of either side: a value cached inside a store and shared with its clones shows up as an accessor of one side following
// the mutations of the other.
// =====================================================================================================================
type Acc = (&'static str, Vec<u64>, Vec<String>);
const GACC: [&str; 10] = ["subjects()", "predicates()", "objects()", "iris()", "blank_nodes()", "literals()", "quoted_triples()", "variables()", "as_dataset().quads()", "as_dataset().graph_names()"];
const DACC: [&str; 11] = ["subjects()", "predicates()", "objects()", "graph_names()", "iris()", "blank_nodes()", "literals()", "quoted_triples()", "variables()", "union_graph().triples()", "graph(g).triples() for g in graph_names() and the default graph"];
fn th_into<T: Term, H: std::hash::Hasher>(t: T, h: &mut H) {
    use TermKind::*;
    match t.kind() {
        Iri => { h.write_u8(1); h.write(t.iri().unwrap().as_bytes()); }
        BlankNode => { h.write_u8(2); h.write(t.bnode_id().unwrap().as_bytes()); }
        Literal => { h.write_u8(3); h.write(t.lexical_form().unwrap().as_bytes()); h.write_u8(0xfe); if let Some(l) = t.language_tag() { h.write_u8(1); h.write(l.as_bytes()); } else { h.write_u8(2); h.write(t.datatype().unwrap().as_bytes()); } }
        Variable => { h.write_u8(4); h.write(t.variable().unwrap().as_bytes()); }
        Triple => { h.write_u8(5); for c in t.triple().unwrap() { th_into(c, h); } }
    }
    h.write_u8(0xff);
}
/// a hash of the term as its accessors spell it
struct Fnv(u64);
impl std::hash::Hasher for Fnv { fn finish(&self) -> u64 { self.0 } fn write(&mut self, b: &[u8]) { let mut h = self.0; for c in b.chunks(8) { let mut w = [0u8; 8]; w[..c.len()].copy_from_slice(c); h = (h ^ u64::from_le_bytes(w)).wrapping_mul(0x100000001b3).rotate_left(23) ^ (c.len() as u64); } self.0 = h; } }
fn th<T: Term>(t: T) -> u64 { use std::hash::Hasher; let mut h = Fnv(0xcbf29ce484222325); th_into(t, &mut h); h.finish() }
fn th_stmt<T: Term>(t: [T; 3], g: Option<T>) -> u64 { use std::hash::Hasher; let mut h = Fnv(0xcbf29ce484222325); h.write_u8(9); let [a, b, c] = t; th_into(a, &mut h); th_into(b, &mut h); th_into(c, &mut h); match g { Some(g) => th_into(g, &mut h), None => h.write_u8(0) } h.finish() }
fn rend<T: Term>(t: T) -> String {
    use TermKind::*;
    match t.kind() {
        Iri => format!("<{}>", t.iri().unwrap().as_str()), BlankNode => format!("_:{}", t.bnode_id().unwrap().as_str()), Variable => format!("?{}", t.variable().unwrap().as_str()),
        Literal => if let Some(l) = t.language_tag() { format!("{:?}@{}", &t.lexical_form().unwrap()[..], l.as_str()) } else { format!("{:?}^^<{}>", &t.lexical_form().unwrap()[..], t.datatype().unwrap().as_str()) },
        Triple => { let [a, b, c] = t.triple().unwrap(); format!("<< {} {} {} >>", rend(a), rend(b), rend(c)) }
    }
}
fn rend_stmt<T: Term>(t: [T; 3], g: Option<T>) -> String { let [a, b, c] = t; format!("{} {} {} {}", rend(a), rend(b), rend(c), g.map(|g| rend(g)).unwrap_or_else(|| "(default graph)".into())) }
fn acc_terms<T: Term, E>(name: &'static str, it: impl Iterator<Item = Result<T, E>>, render: bool) -> Acc {
    let mut a: Acc = (name, vec![], vec![]);
    for t in it { let t = match t { Ok(t) => t, Err(_) => panic!("{name} yielded an error") }; a.1.push(th(t.borrow_term())); if render { a.2.push(rend(t.borrow_term())); } }
    a
}
fn acc_stmts<T: Term, E>(name: &'static str, it: impl Iterator<Item = Result<([T; 3], Option<T>), E>>, render: bool) -> Acc {
    let mut a: Acc = (name, vec![], vec![]);
    for q in it { let (t, g) = match q { Ok(q) => q, Err(_) => panic!("{name} yielded an error") };
        a.1.push(th_stmt([t[0].borrow_term(), t[1].borrow_term(), t[2].borrow_term()], g.as_ref().map(|g| g.borrow_term())));
        if render { a.2.push(rend_stmt([t[0].borrow_term(), t[1].borrow_term(), t[2].borrow_term()], g.as_ref().map(|g| g.borrow_term()))); } }
    a
}
/// the oracle: what every accessor must yield (as a set) for a store of family `fam` holding exactly `stmts`
fn expected_acc(fam: u8, stmts: &[([&ST; 3], Option<&ST>)], render: bool) -> Vec<Acc> { expected_acc_of(fam, stmts, render, None) }
/// (`only`: the others are left empty)
fn expected_acc_of(fam: u8, stmts: &[([&ST; 3], Option<&ST>)], render: bool, only: Option<usize>) -> Vec<Acc> {
    fn atoms<'a>(t: &'a ST, out: &mut Vec<&'a ST>) { if let SimpleTerm::Triple(tr) = t { for c in tr.iter() { atoms(c, out); } } else { out.push(t); } }
    fn constituents<'a>(t: &'a ST, out: &mut Vec<&'a ST>) { out.push(t); if let SimpleTerm::Triple(tr) = t { for c in tr.iter() { constituents(c, out); } } }
    fn spog_of<'a>(fam: u8, q: &'a ([&'a ST; 3], Option<&'a ST>)) -> Vec<&'a ST> { q.0.iter().copied().chain(if fam == 2 { q.1 } else { None }).collect() }
    let terms = |name: &'static str, f: &dyn for<'a> Fn(&'a ([&'a ST; 3], Option<&'a ST>)) -> Vec<&'a ST>| -> Acc { let mut a: Acc = (name, vec![], vec![]); for q in stmts { for t in f(q) { a.1.push(th(t)); if render { a.2.push(rend(t)); } } } a };
    let by_kind = |name: &'static str, k: TermKind| -> Acc { terms(name, &|q| { let mut v = vec![]; for t in spog_of(fam, q) { if k == TermKind::Triple { constituents(t, &mut v) } else { atoms(t, &mut v) } } v.into_iter().filter(|t| t.kind() == k).collect() }) };
    let sts = |name: &'static str, with_g: bool| -> Acc { let mut a: Acc = (name, vec![], vec![]); for q in stmts { let g = if with_g { q.1 } else { None }; a.1.push(th_stmt(q.0, g)); if render { a.2.push(rend_stmt(q.0, g)); } } a };
    let n = if fam == 1 { GACC.len() } else { DACC.len() };
    (0..n).map(|k| { if only.is_some_and(|o| o != k) { return ("", vec![], vec![]); }
        if fam == 1 { match k { 0 => terms(GACC[0], &|q| vec![q.0[0]]), 1 => terms(GACC[1], &|q| vec![q.0[1]]), 2 => terms(GACC[2], &|q| vec![q.0[2]]), 3 => by_kind(GACC[3], TermKind::Iri), 4 => by_kind(GACC[4], TermKind::BlankNode), 5 => by_kind(GACC[5], TermKind::Literal), 6 => by_kind(GACC[6], TermKind::Triple), 7 => by_kind(GACC[7], TermKind::Variable), 8 => sts(GACC[8], false), _ => (GACC[9], vec![], vec![]) } }
        else { match k { 0 => terms(DACC[0], &|q| vec![q.0[0]]), 1 => terms(DACC[1], &|q| vec![q.0[1]]), 2 => terms(DACC[2], &|q| vec![q.0[2]]), 3 => terms(DACC[3], &|q| q.1.into_iter().collect()), 4 => by_kind(DACC[4], TermKind::Iri), 5 => by_kind(DACC[5], TermKind::BlankNode), 6 => by_kind(DACC[6], TermKind::Literal), 7 => by_kind(DACC[7], TermKind::Triple), 8 => by_kind(DACC[8], TermKind::Variable), 9 => sts(DACC[9], false), _ => sts(DACC[10], true) } } }).collect()
}
fn as_set<T: Ord + Clone>(v: &[T]) -> Vec<T> { let mut v = v.to_vec(); v.sort(); v.dedup(); v }
/// every accessor of the store against the oracle, then `contains` on statements that are there and on statements that are not
static ACC_NS: std::sync::atomic::AtomicU64 = std::sync::atomic::AtomicU64::new(0);
fn acc_mismatch(s: &Store, stmts: &[([&ST; 3], Option<&ST>)], absent: &ST) -> Option<String> { let t0 = std::time::Instant::now(); let r = acc_mismatch0(s, stmts, absent); if std::env::var("ACC_TRACE").is_ok() { eprintln!("ACC {} {}", stmts.len(), t0.elapsed().as_micros()); } ACC_NS.fetch_add(t0.elapsed().as_nanos() as u64, std::sync::atomic::Ordering::Relaxed); r }
fn acc_mismatch0(s: &Store, stmts: &[([&ST; 3], Option<&ST>)], absent: &ST) -> Option<String> {
    let fam = s.fam(); if fam == 0 { return None; }
    let got = s.accessors(None, false); let exp = expected_acc(fam, stmts, false);
    for (k, (g, e)) in got.iter().zip(exp.iter()).enumerate() { if as_set(&g.1) != as_set(&e.1) {
        let g2 = s.accessors(Some(k), true); let e2 = expected_acc(fam, stmts, true);
        return Some(format!("{} yields {:?} ({} distinct items), but the store was given {} statements and must yield {:?} ({} distinct items)", g.0, as_set(&g2[0].2).iter().take(8).collect::<Vec<_>>(), as_set(&g.1).len(), stmts.len(), as_set(&e2[k].2).iter().take(8).collect::<Vec<_>>(), as_set(&e.1).len()));
    } }
    if got.len() != exp.len() { return Some(format!("{} accessors were observed, {} expected", got.len(), exp.len())); }
    let is_in = |t: [&ST; 3], g: Option<&ST>| { let h = th_stmt(t, if fam == 2 { g } else { None }); stmts.iter().any(|q| th_stmt(q.0, if fam == 2 { q.1 } else { None }) == h) };
    let mut probes: Vec<([&ST; 3], Option<&ST>)> = vec![];
    if let (Some(f), Some(l)) = (stmts.first(), stmts.last()) { probes.push(*f); probes.push(*l); probes.push(([f.0[0], f.0[1], l.0[2]], f.1)); probes.push(([l.0[0], f.0[1], f.0[2]], l.1)); probes.push((f.0, None)); probes.push(([absent, f.0[1], f.0[2]], f.1)); if fam == 2 { probes.push((f.0, Some(absent))); probes.push((l.0, f.1)); } }
    for (t, g) in probes { let want = is_in(t, g); let got = s.has(t, g); if got != Some(want) { return Some(format!("contains({}) answers {got:?}, but the statement is {} the {} statements the store was given", rend_stmt(t, if fam == 2 { g } else { None }), if want { "among" } else { "not among" }, stmts.len())); } }
    None
}

/// what a live store offers as a SOURCE for building / extending another store (borrowing from the live store)
trait Src {
    fn fam(&self) -> u8;
    fn terms_dyn(&self) -> Box<dyn Iterator<Item = &IT> + '_>;
    fn triples_dyn(&self) -> Box<dyn Iterator<Item = Result<[&IT; 3], TFE>> + '_> { Box::new(std::iter::empty()) }
    fn quads_dyn(&self) -> Box<dyn Iterator<Item = Result<(GraphName<&IT>, [&IT; 3]), TFE>> + '_> { Box::new(std::iter::empty()) }
}
/// uniform view of the 18 store types (three generic impls: index, graphs, datasets)
trait St: Clone + Default + Send + Src + 'static {
    type I: Index + Default + Send + Sync + 'static;
    fn ti(&self) -> &Ti<Self::I>;
    /// 0 Default::default(), 1 the inherent new(), 2 the bulk constructor on an empty source, 3 mem::take of a new() one
    fn mk(how: usize) -> Self;
    /// Ok(Some(changed?)) for graphs/datasets, Ok(None) for bare indexes (each term interned); Err = term index full
    fn ins<T: Term + Copy>(&mut self, t: [T; 3], g: Option<T>) -> Result<Option<bool>, ()>;
    fn rem(&mut self, t: [&ST; 3], g: Option<&ST>) -> Option<bool>;
    fn shapes(&self, _absent: &ST) -> Option<String> { None }
    /// build a new store from the statements (terms, for bare indexes) of a live store
    fn collect_from(src: &dyn Src, how: usize) -> Result<Self, ()>;
    fn extend_from(&mut self, src: &dyn Src) -> Result<(), ()>;
    /// the statements matching a pattern whose constants are the positions of `mask` (s = bit 0, p = 1, o = 2, g = 3) of (t, g)
    fn matching(&self, _mask: u8, _t: [&ST; 3], _g: Option<&ST>) -> Vec<([ST; 3], Option<ST>)> { vec![] }
    /// as `matching`, for the stores of the size ladders: the answers as identifiers (`big_id`), nothing is copied
    fn matching_ids(&self, _mask: u8, _t: [&ST; 3], _g: Option<&ST>) -> Vec<[u64; 4]> { vec![] }
    /// every OTHER public observation method (see `Acc`): all of them, or only the `which`-th one
    fn accessors(&self, _which: Option<usize>, _render: bool) -> Vec<Acc> { vec![] }
    /// `contains`
    fn has(&self, _t: [&ST; 3], _g: Option<&ST>) -> Option<bool> { None }
    /// the entry points of the store that take terms, called with a user-defined term type (see `Hostile`)
    fn term_entries() -> &'static [&'static str];
    fn term_entry<T: Term + Copy>(&mut self, e: usize, t: [T; 3], g: Option<T>);
    /// the entry points that take matchers, called with a user-defined matcher at position `pos` (0 s, 1 p, 2 o, 3 g)
    fn matcher_entries() -> &'static [&'static str] { &[] }
    fn matcher_entry(&mut self, _e: usize, _pos: usize, _h: HM, _others: [&ST; 3]) {}
    /// the bulk entry points, fed by a user-defined source
    fn source_entries() -> &'static [&'static str] { &[] }
    fn source_entry(&mut self, _e: usize, _v: u8, _items: &[([&ST; 3], Option<&ST>)]) {}
}
impl<I: Index + Default + Send + Sync + 'static> Src for Ti<I> {
    fn fam(&self) -> u8 { 0 }
    fn terms_dyn(&self) -> Box<dyn Iterator<Item = &IT> + '_> { Box::new((0..self.len()).map(move |i| self.get_term(I::from_usize(i)))) }
}
impl<I: Index + Default + Send + Sync + 'static> St for Ti<I> {
    type I = I;
    fn ti(&self) -> &Ti<I> { self }
    fn mk(how: usize) -> Self { match how { 0 => Default::default(), 3 => std::mem::take(&mut Self::new()), _ => Self::new() } }
    fn ins<T: Term + Copy>(&mut self, t: [T; 3], g: Option<T>) -> Result<Option<bool>, ()> {
        for x in t { self.ensure_index(x).map_err(|_| ())?; }
        if let Some(g) = g { self.ensure_index(g).map_err(|_| ())?; }
        Ok(None)
    }
    fn rem(&mut self, _t: [&ST; 3], _g: Option<&ST>) -> Option<bool> { None }
    fn collect_from(src: &dyn Src, how: usize) -> Result<Self, ()> { let mut x = Self::mk(how); x.extend_from(src)?; Ok(x) }
    fn extend_from(&mut self, src: &dyn Src) -> Result<(), ()> { for t in src.terms_dyn() { self.ensure_index(t).map_err(|_| ())?; } Ok(()) }
    fn term_entries() -> &'static [&'static str] { &["ensure_index", "get_index", "ensure_index then get_term", "ensure_index into a clone"] }
    fn term_entry<T: Term + Copy>(&mut self, e: usize, t: [T; 3], g: Option<T>) { match e {
        0 => { for x in t.into_iter().chain(g) { let _ = self.ensure_index(x); } }
        1 => { for x in t.into_iter().chain(g) { let _ = self.get_index(x); } }
        2 => { for x in t.into_iter().chain(g) { if let Ok(i) = self.ensure_index(x) { let _ = format!("{:?}", self.get_term(i)); } } }
        _ => { let mut c = self.clone(); for x in t.into_iter().chain(g) { let _ = c.ensure_index(x); } note_bad(sane(&c, "a clone that interned the terms")); }
    } }
}
macro_rules! graph_impl { ($G:ident) => {
    impl<I: Index + Default + Send + Sync + 'static> Src for $G<Ti<I>> {
        fn fam(&self) -> u8 { 1 }
        fn terms_dyn(&self) -> Box<dyn Iterator<Item = &IT> + '_> { let ti = self.verif_term_index(); Box::new((0..ti.len()).map(move |i| ti.get_term(I::from_usize(i)))) }
        fn triples_dyn(&self) -> Box<dyn Iterator<Item = Result<[&IT; 3], TFE>> + '_> { Box::new(self.triples()) }
    }
    impl<I: Index + Default + Send + Sync + 'static> St for $G<Ti<I>> {
        type I = I;
        fn ti(&self) -> &Ti<I> { self.verif_term_index() }
        fn mk(how: usize) -> Self { match how { 0 => Default::default(), 1 => Self::new(), 2 => Self::from_triple_source(std::iter::empty::<Result<[ST; 3], TFE>>()).ok().unwrap(), _ => std::mem::take(&mut Self::new()) } }
        fn ins<T: Term + Copy>(&mut self, t: [T; 3], _g: Option<T>) -> Result<Option<bool>, ()> { self.insert(t[0], t[1], t[2]).map(Some).map_err(|_| ()) }
        fn rem(&mut self, t: [&ST; 3], _g: Option<&ST>) -> Option<bool> { Some(self.remove(t[0], t[1], t[2]).unwrap()) }
        fn shapes(&self, absent: &ST) -> Option<String> { graph_shapes(self, absent) }
        fn collect_from(src: &dyn Src, how: usize) -> Result<Self, ()> { match how {
            0 => Self::from_triple_source(src.triples_dyn()).map_err(|_| ()),
            1 => src.triples_dyn().collect_triples::<Self>().map_err(|_| ()),
            2 => { let mut g = Self::new(); g.insert_all(src.triples_dyn()).map_err(|_| ())?; Ok(g) }
            _ => { let v: Vec<[ST; 3]> = src.triples_dyn().map(|t| t.unwrap().map(|x| x.into_term())).collect(); Self::from_triple_source(v.triples()).map_err(|_| ()) }
        } }
        fn extend_from(&mut self, src: &dyn Src) -> Result<(), ()> { self.insert_all(src.triples_dyn()).map(|_| ()).map_err(|_| ()) }
        fn matching(&self, mask: u8, t: [&ST; 3], _g: Option<&ST>) -> Vec<([ST; 3], Option<ST>)> {
            let m = |i: usize| if mask >> i & 1 == 1 { TMx::K(t[i].clone()) } else { TMx::A };
            self.triples_matching(m(0), m(1), m(2)).map(|x| { let x = x.ok().unwrap(); ([deep(x[0]), deep(x[1]), deep(x[2])], None) }).collect()
        }
        fn matching_ids(&self, mask: u8, t: [&ST; 3], _g: Option<&ST>) -> Vec<[u64; 4]> {
            let m = |i: usize| if mask >> i & 1 == 1 { TMx::K(t[i].clone()) } else { TMx::A };
            self.triples_matching(m(0), m(1), m(2)).map(|x| { let x = x.ok().unwrap(); [big_id(x[0]), big_id(x[1]), big_id(x[2]), 0] }).collect()
        }
        fn accessors(&self, which: Option<usize>, render: bool) -> Vec<Acc> {
            let want = |k: usize| which.is_none_or(|w| w == k); let mut v = vec![];
            if want(0) { v.push(acc_terms(GACC[0], self.subjects(), render)); } if want(1) { v.push(acc_terms(GACC[1], self.predicates(), render)); } if want(2) { v.push(acc_terms(GACC[2], self.objects(), render)); }
            if want(3) { v.push(acc_terms(GACC[3], self.iris(), render)); } if want(4) { v.push(acc_terms(GACC[4], self.blank_nodes(), render)); } if want(5) { v.push(acc_terms(GACC[5], self.literals(), render)); }
            if want(6) { v.push(acc_terms(GACC[6], self.quoted_triples(), render)); } if want(7) { v.push(acc_terms(GACC[7], self.variables(), render)); }
            if want(8) { v.push(acc_stmts(GACC[8], self.as_dataset().quads().map(|q| q.map(|q| q.to_spog())), render)); }
            if want(9) { v.push(acc_terms(GACC[9], self.as_dataset().graph_names(), render)); }
            v
        }
        fn has(&self, t: [&ST; 3], _g: Option<&ST>) -> Option<bool> { Some(self.contains(t[0], t[1], t[2]).ok().unwrap()) }
        fn term_entries() -> &'static [&'static str] { &["insert", "remove", "contains", "triples_matching (constants through a user matcher, every shape)", "triples_matching ([t] / Some(t) matchers)", "insert_all", "from_triple_source", "collect_triples", "remove_all", "remove_matching", "retain_matching", "insert_triple + remove_triple", "insert into a clone"] }
        fn term_entry<T: Term + Copy>(&mut self, e: usize, t: [T; 3], _g: Option<T>) { use sophia_api::term::matcher::Any; let one = || std::iter::once(Ok::<[T; 3], MyErr>(t)); match e {
            0 => { let _ = self.insert(t[0], t[1], t[2]); }
            1 => { let _ = self.remove(t[0], t[1], t[2]); }
            2 => { let _ = self.contains(t[0], t[1], t[2]); }
            3 => { for mask in 0..8u8 { let m = |i: usize| if mask >> i & 1 == 1 { TMg::K(t[i]) } else { TMg::A }; let _ = self.triples_matching(m(0), m(1), m(2)).count(); } }
            4 => { let _ = self.triples_matching([t[0]], Any, Any).count(); let _ = self.triples_matching(Any, [t[1]], Any).count(); let _ = self.triples_matching(Any, Any, [t[2]]).count(); let _ = self.triples_matching([t[0]], [t[1]], [t[2]]).count();
                   let _ = self.triples_matching(Some(t[0]), Any, Some(t[2])).count(); let _ = self.triples_matching(Any, Some(t[1]), [t[2], t[0]]).count(); let _ = self.triples_matching([t[0], t[1]], Any, Any).count(); }
            5 => { let _ = self.insert_all(one()); }
            6 => { if let Ok(n) = Self::from_triple_source(one()) { note_bad(sane(&n, "the store built by from_triple_source")); } }
            7 => { if let Ok(n) = one().collect_triples::<Self>() { note_bad(sane(&n, "the store built by collect_triples")); } }
            8 => { let _ = self.remove_all(one()); }
            9 => { let _ = self.remove_matching([t[0]], Any, Any); let _ = self.remove_matching(Any, TMg::K(t[1]), TMg::K(t[2])); }
            10 => { let _ = self.retain_matching(Any, Any, TMg::K(t[2])); }
            11 => { let _ = self.insert_triple(t); let _ = self.remove_triple(t); }
            _ => { let mut c = self.clone(); let _ = c.insert(t[0], t[1], t[2]); note_bad(sane(&c, "a clone that was given the statement")); }
        } }
        fn matcher_entries() -> &'static [&'static str] { &["triples_matching (others Any)", "triples_matching (others constants)", "remove_matching", "retain_matching"] }
        fn matcher_entry(&mut self, e: usize, pos: usize, h: HM, o: [&ST; 3]) {
            let m = |i: usize, k: bool| if i == pos { MX::H(h) } else if k { MX::K(o[i].clone()) } else { MX::A };
            match e {
                0 => { let _ = self.triples_matching(m(0, false), m(1, false), m(2, false)).map(|t| t.map(|t| format!("{t:?}").len())).count(); }
                1 => { let _ = self.triples_matching(m(0, true), m(1, true), m(2, true)).map(|t| t.map(|t| format!("{t:?}").len())).count(); let _ = self.triples_matching(m(0, pos == 2), m(1, pos == 0), m(2, pos == 1)).count(); }
                2 => { let _ = self.remove_matching(m(0, false), m(1, true), m(2, false)); }
                _ => { let _ = self.retain_matching(m(0, false), m(1, false), m(2, false)); }
            }
        }
        fn source_entries() -> &'static [&'static str] { &["insert_all", "from_triple_source", "collect_triples", "remove_all"] }
        fn source_entry(&mut self, e: usize, v: u8, items: &[([&ST; 3], Option<&ST>)]) {
            let src = || HSrc { v, calls: 0, pos: 0, items: items.iter().map(|x| x.0).collect::<Vec<[&ST; 3]>>() };
            match e {
                0 => { let _ = self.insert_all(src()); }
                1 => { if let Ok(n) = Self::from_triple_source(src()) { note_bad(sane(&n, "the store built by from_triple_source")); } }
                2 => { if let Ok(n) = src().collect_triples::<Self>() { note_bad(sane(&n, "the store built by collect_triples")); } }
                _ => { let _ = self.remove_all(src()); }
            }
        }
    }
} }
graph_impl!(GenericFastGraph);
graph_impl!(GenericLightGraph);
macro_rules! dataset_impl { ($D:ident) => {
    impl<I: Index + Default + Send + Sync + 'static> Src for $D<Ti<I>> {
        fn fam(&self) -> u8 { 2 }
        fn terms_dyn(&self) -> Box<dyn Iterator<Item = &IT> + '_> { let ti = self.verif_term_index(); Box::new((0..ti.len()).map(move |i| ti.get_term(I::from_usize(i)))) }
        fn quads_dyn(&self) -> Box<dyn Iterator<Item = Result<(GraphName<&IT>, [&IT; 3]), TFE>> + '_> { Box::new(self.quads()) }
    }
    impl<I: Index + Default + Send + Sync + 'static> St for $D<Ti<I>> {
        type I = I;
        fn ti(&self) -> &Ti<I> { self.verif_term_index() }
        fn mk(how: usize) -> Self { match how { 0 => Default::default(), 1 => Self::new(), 2 => Self::from_quad_source(std::iter::empty::<Result<([ST; 3], Option<ST>), TFE>>()).ok().unwrap(), _ => std::mem::take(&mut Self::new()) } }
        fn ins<T: Term + Copy>(&mut self, t: [T; 3], g: Option<T>) -> Result<Option<bool>, ()> { self.insert(t[0], t[1], t[2], g).map(Some).map_err(|_| ()) }
        fn rem(&mut self, t: [&ST; 3], g: Option<&ST>) -> Option<bool> { Some(self.remove(t[0], t[1], t[2], g).unwrap()) }
        fn shapes(&self, absent: &ST) -> Option<String> { dataset_shapes(self, absent) }
        fn collect_from(src: &dyn Src, how: usize) -> Result<Self, ()> { match how {
            0 => Self::from_quad_source(src.quads_dyn()).map_err(|_| ()),
            1 => src.quads_dyn().collect_quads::<Self>().map_err(|_| ()),
            2 => { let mut d = Self::new(); d.insert_all(src.quads_dyn()).map_err(|_| ())?; Ok(d) }
            _ => { let v: Vec<([ST; 3], Option<ST>)> = src.quads_dyn().map(|q| { let (g, t) = q.unwrap(); (t.map(|x| x.into_term()), g.map(|x| x.into_term())) }).collect(); Self::from_quad_source(v.quads()).map_err(|_| ()) }
        } }
        fn extend_from(&mut self, src: &dyn Src) -> Result<(), ()> { self.insert_all(src.quads_dyn()).map(|_| ()).map_err(|_| ()) }
        fn matching(&self, mask: u8, t: [&ST; 3], g: Option<&ST>) -> Vec<([ST; 3], Option<ST>)> {
            let m = |i: usize| if mask >> i & 1 == 1 { TMx::K(t[i].clone()) } else { TMx::A };
            let gm = if mask >> 3 & 1 == 1 { GMx::K(g.cloned()) } else { GMx::A };
            self.quads_matching(m(0), m(1), m(2), gm).map(|q| { let (g, x) = q.ok().unwrap(); ([deep(x[0]), deep(x[1]), deep(x[2])], g.map(deep)) }).collect()
        }
        fn matching_ids(&self, mask: u8, t: [&ST; 3], g: Option<&ST>) -> Vec<[u64; 4]> {
            let m = |i: usize| if mask >> i & 1 == 1 { TMx::K(t[i].clone()) } else { TMx::A };
            let gm = if mask >> 3 & 1 == 1 { GMx::K(g.cloned()) } else { GMx::A };
            self.quads_matching(m(0), m(1), m(2), gm).map(|q| { let (g, x) = q.ok().unwrap(); [big_id(x[0]), big_id(x[1]), big_id(x[2]), g.map(|g| big_id(g)).unwrap_or(0)] }).collect()
        }
        fn accessors(&self, which: Option<usize>, render: bool) -> Vec<Acc> {
            let want = |k: usize| which.is_none_or(|w| w == k); let mut v = vec![];
            if want(0) { v.push(acc_terms(DACC[0], self.subjects(), render)); } if want(1) { v.push(acc_terms(DACC[1], self.predicates(), render)); } if want(2) { v.push(acc_terms(DACC[2], self.objects(), render)); }
            if want(3) { v.push(acc_terms(DACC[3], self.graph_names(), render)); }
            if want(4) { v.push(acc_terms(DACC[4], self.iris(), render)); } if want(5) { v.push(acc_terms(DACC[5], self.blank_nodes(), render)); } if want(6) { v.push(acc_terms(DACC[6], self.literals(), render)); }
            if want(7) { v.push(acc_terms(DACC[7], self.quoted_triples(), render)); } if want(8) { v.push(acc_terms(DACC[8], self.variables(), render)); }
            if want(9) { v.push(acc_stmts(DACC[9], self.union_graph().triples().map(|t| t.map(|t| (t.to_spo(), None))), render)); }
            if want(10) {
                // the way SPARQL's GRAPH ?g {...} walks through a dataset: graph_names(), then graph(g) for each of them (and the default graph)
                let mut names: Vec<Option<ST>> = vec![None]; let mut seen = std::collections::HashSet::new();
                for g in self.graph_names() { let g = g.ok().unwrap(); if seen.insert(th(g)) { names.push(Some(deep(g))); } }
                let mut a: Acc = (DACC[10], vec![], vec![]);
                for g in names { let dg = self.graph(g.clone()); let part = acc_stmts(DACC[10], dg.triples().map(|t| t.map(|t| (t, g.as_ref()))), render); a.1.extend(part.1); a.2.extend(part.2); }
                v.push(a);
            }
            v
        }
        fn has(&self, t: [&ST; 3], g: Option<&ST>) -> Option<bool> { Some(self.contains(t[0], t[1], t[2], g).ok().unwrap()) }
        fn term_entries() -> &'static [&'static str] { &["insert", "remove", "contains", "quads_matching (constants through a user matcher, every shape)", "quads_matching ([t] / Some(t) matchers)", "insert_all", "from_quad_source", "collect_quads", "remove_all", "remove_matching", "retain_matching", "insert_quad + remove_quad", "insert into a clone"] }
        fn term_entry<T: Term + Copy>(&mut self, e: usize, t: [T; 3], g: Option<T>) { use sophia_api::term::matcher::Any; let one = || std::iter::once(Ok::<([T; 3], Option<T>), MyErr>((t, g))); match e {
            0 => { let _ = self.insert(t[0], t[1], t[2], g); }
            1 => { let _ = self.remove(t[0], t[1], t[2], g); }
            2 => { let _ = self.contains(t[0], t[1], t[2], g); }
            3 => { for mask in 0..16u8 { let m = |i: usize| if mask >> i & 1 == 1 { TMg::K(t[i]) } else { TMg::A }; let gm = if mask >> 3 & 1 == 1 { GMg::K(g) } else { GMg::A }; let _ = self.quads_matching(m(0), m(1), m(2), gm).count(); } }
            4 => { let _ = self.quads_matching([t[0]], Any, Any, Any).count(); let _ = self.quads_matching(Any, [t[1]], Any, [g]).count(); let _ = self.quads_matching(Any, Any, [t[2]], Any).count(); let _ = self.quads_matching([t[0]], [t[1]], [t[2]], [g]).count();
                   let _ = self.quads_matching(Some(t[0]), Any, Some(t[2]), Some(g)).count(); let _ = self.quads_matching(Any, Any, Any, [g]).count(); let _ = self.quads_matching(Any, Some(t[1]), [t[2], t[0]], [g, None]).count(); }
            5 => { let _ = self.insert_all(one()); }
            6 => { if let Ok(n) = Self::from_quad_source(one()) { note_bad(sane(&n, "the store built by from_quad_source")); } }
            7 => { if let Ok(n) = one().collect_quads::<Self>() { note_bad(sane(&n, "the store built by collect_quads")); } }
            8 => { let _ = self.remove_all(one()); }
            9 => { let _ = self.remove_matching([t[0]], Any, Any, Any); let _ = self.remove_matching(Any, TMg::K(t[1]), TMg::K(t[2]), GMg::K(g)); }
            10 => { let _ = self.retain_matching(Any, Any, TMg::K(t[2]), GMg::K(g)); }
            11 => { let _ = self.insert_quad((t, g)); let _ = self.remove_quad((t, g)); }
            _ => { let mut c = self.clone(); let _ = c.insert(t[0], t[1], t[2], g); note_bad(sane(&c, "a clone that was given the statement")); }
        } }
        fn matcher_entries() -> &'static [&'static str] { &["quads_matching (others Any)", "quads_matching (others constants)", "remove_matching", "retain_matching"] }
        fn matcher_entry(&mut self, e: usize, pos: usize, h: HM, o: [&ST; 3]) {
            let m = |i: usize, k: bool| if i == pos { MX::H(h) } else if k { MX::K(o[i].clone()) } else { MX::A };
            let gm = |k: bool| if pos == 3 { GX::H(h) } else if k { GX::K(Some(o[0].clone())) } else { GX::A };
            match e {
                0 => { let _ = self.quads_matching(m(0, false), m(1, false), m(2, false), gm(false)).map(|q| q.map(|q| format!("{q:?}").len())).count(); }
                1 => { let _ = self.quads_matching(m(0, true), m(1, true), m(2, true), gm(true)).map(|q| q.map(|q| format!("{q:?}").len())).count(); let _ = self.quads_matching(m(0, pos == 2), m(1, pos == 0), m(2, pos == 1), gm(pos == 1)).count(); let _ = self.quads_matching(m(0, pos == 3), m(1, pos == 3), m(2, pos == 0), gm(false)).count(); }
                2 => { let _ = self.remove_matching(m(0, false), m(1, true), m(2, false), gm(false)); }
                _ => { let _ = self.retain_matching(m(0, false), m(1, false), m(2, false), gm(false)); }
            }
        }
        fn source_entries() -> &'static [&'static str] { &["insert_all", "from_quad_source", "collect_quads", "remove_all"] }
        fn source_entry(&mut self, e: usize, v: u8, items: &[([&ST; 3], Option<&ST>)]) {
            let src = || HSrc { v, calls: 0, pos: 0, items: items.to_vec() };
            match e {
                0 => { let _ = self.insert_all(src()); }
                1 => { if let Ok(n) = Self::from_quad_source(src()) { note_bad(sane(&n, "the store built by from_quad_source")); } }
                2 => { if let Ok(n) = src().collect_quads::<Self>() { note_bad(sane(&n, "the store built by collect_quads")); } }
                _ => { let _ = self.remove_all(src()); }
            }
        }
    }
} }
dataset_impl!(GenericFastDataset);
dataset_impl!(GenericLightDataset);

#[allow(clippy::large_enum_variant)]
enum Store { S6(S6), G9(G9), I32(I32), I16(I16), FG(FG), LG(LG), FD(FD), LD(LD), SFG(SFG), IUS(IUS), LGU(LGU), FDU(FDU), SLG(SLG), SFD(SFD), SLD(SLD), LG9(LG9), LD9(LD9), FD9(FD9) }
const NKINDS: usize = 18;
macro_rules! each { ($s:expr; $x:ident => $e:expr) => { match $s {
    Store::S6($x) => $e, Store::G9($x) => $e, Store::I32($x) => $e, Store::I16($x) => $e, Store::FG($x) => $e, Store::LG($x) => $e, Store::FD($x) => $e, Store::LD($x) => $e, Store::SFG($x) => $e,
    Store::IUS($x) => $e, Store::LGU($x) => $e, Store::FDU($x) => $e, Store::SLG($x) => $e, Store::SFD($x) => $e, Store::SLD($x) => $e, Store::LG9($x) => $e, Store::LD9($x) => $e, Store::FD9($x) => $e } } }
macro_rules! wrap { ($s:expr; $x:ident => $e:expr) => { match $s {
    Store::S6($x) => Store::S6($e), Store::G9($x) => Store::G9($e), Store::I32($x) => Store::I32($e), Store::I16($x) => Store::I16($e), Store::FG($x) => Store::FG($e), Store::LG($x) => Store::LG($e), Store::FD($x) => Store::FD($e), Store::LD($x) => Store::LD($e), Store::SFG($x) => Store::SFG($e),
    Store::IUS($x) => Store::IUS($e), Store::LGU($x) => Store::LGU($e), Store::FDU($x) => Store::FDU($e), Store::SLG($x) => Store::SLG($e), Store::SFD($x) => Store::SFD($e), Store::SLD($x) => Store::SLD($e), Store::LG9($x) => Store::LG9($e), Store::LD9($x) => Store::LD9($e), Store::FD9($x) => Store::FD9($e) } } }
/// kind numbers (0..=8 as before the widening)
macro_rules! by_kind { ($k:expr; $T:ident, $V:ident => $e:expr) => { match $k {
    7 => { type $T = S6; let $V = Store::S6 as fn(S6) -> Store; $e } 8 => { type $T = G9; let $V = Store::G9 as fn(G9) -> Store; $e }
    0 => { type $T = I32; let $V = Store::I32 as fn(I32) -> Store; $e } 1 => { type $T = I16; let $V = Store::I16 as fn(I16) -> Store; $e }
    2 => { type $T = FG; let $V = Store::FG as fn(FG) -> Store; $e } 3 => { type $T = LG; let $V = Store::LG as fn(LG) -> Store; $e }
    4 => { type $T = FD; let $V = Store::FD as fn(FD) -> Store; $e } 5 => { type $T = LD; let $V = Store::LD as fn(LD) -> Store; $e }
    6 => { type $T = SFG; let $V = Store::SFG as fn(SFG) -> Store; $e } 9 => { type $T = IUS; let $V = Store::IUS as fn(IUS) -> Store; $e }
    10 => { type $T = LGU; let $V = Store::LGU as fn(LGU) -> Store; $e } 11 => { type $T = FDU; let $V = Store::FDU as fn(FDU) -> Store; $e }
    12 => { type $T = SLG; let $V = Store::SLG as fn(SLG) -> Store; $e } 13 => { type $T = SFD; let $V = Store::SFD as fn(SFD) -> Store; $e }
    14 => { type $T = SLD; let $V = Store::SLD as fn(SLD) -> Store; $e } 15 => { type $T = LG9; let $V = Store::LG9 as fn(LG9) -> Store; $e }
    16 => { type $T = LD9; let $V = Store::LD9 as fn(LD9) -> Store; $e } _ => { type $T = FD9; let $V = Store::FD9 as fn(FD9) -> Store; $e } } } }
fn fam_of(k: usize) -> u8 { match k { 0 | 1 | 7 | 9 => 0, 2 | 3 | 6 | 8 | 10 | 12 | 15 => 1, _ => 2 } }
fn out_of_range<I: Index + Default + Send + Sync + 'static>(ti: &Ti<I>) -> Vec<String> {
    let mut idx: Vec<(String, I)> = vec![];
    for (name, v) in [("len", ti.len()), ("len+1", ti.len() + 1)] {
        QUIET.with(|q| q.set(true)); let r = std::panic::catch_unwind(|| I::from_usize(v)); QUIET.with(|q| q.set(false));
        if let Ok(i) = r { idx.push((name.into(), i)); }
    }
    idx.push(("MAX".into(), I::MAX));
    let mut bad = vec![];
    for (name, i) in idx { QUIET.with(|q| q.set(true)); let r = std::panic::catch_unwind(std::panic::AssertUnwindSafe(|| { let t: ST = ti.get_term(i).into_term(); format!("{t:?}") })); QUIET.with(|q| q.set(false)); if let Ok(t) = r { bad.push(format!("get_term({name}) returned {} instead of panicking", t.chars().take(60).collect::<String>())); } }
    bad
}
impl Store {
    fn kind(&self) -> &'static str { match self { Store::S6(_) => "SimpleTermIndex<SmallIdx<6>>", Store::G9(_) => "GenericFastGraph<SimpleTermIndex<SmallIdx<9>>>", Store::I32(_) => "SimpleTermIndex<u32>", Store::I16(_) => "SimpleTermIndex<u16>", Store::FG(_) => "FastGraph", Store::LG(_) => "LightGraph", Store::FD(_) => "FastDataset", Store::LD(_) => "LightDataset", Store::SFG(_) => "small::FastGraph",
        Store::IUS(_) => "SimpleTermIndex<usize>", Store::LGU(_) => "GenericLightGraph<SimpleTermIndex<usize>>", Store::FDU(_) => "GenericFastDataset<SimpleTermIndex<usize>>", Store::SLG(_) => "small::LightGraph", Store::SFD(_) => "small::FastDataset", Store::SLD(_) => "small::LightDataset",
        Store::LG9(_) => "GenericLightGraph<SimpleTermIndex<SmallIdx<9>>>", Store::LD9(_) => "GenericLightDataset<SimpleTermIndex<SmallIdx<9>>>", Store::FD9(_) => "GenericFastDataset<SimpleTermIndex<SmallIdx<9>>>" } }
    fn knum(&self) -> usize { match self { Store::S6(_) => 7, Store::G9(_) => 8, Store::I32(_) => 0, Store::I16(_) => 1, Store::FG(_) => 2, Store::LG(_) => 3, Store::FD(_) => 4, Store::LD(_) => 5, Store::SFG(_) => 6, Store::IUS(_) => 9, Store::LGU(_) => 10, Store::FDU(_) => 11, Store::SLG(_) => 12, Store::SFD(_) => 13, Store::SLD(_) => 14, Store::LG9(_) => 15, Store::LD9(_) => 16, Store::FD9(_) => 17 } }
    fn fam(&self) -> u8 { fam_of(self.knum()) }
    /// u16-indexed: the histories never fill them (as before the widening)
    fn is_u16(&self) -> bool { matches!(self.knum(), 1 | 6 | 12 | 13 | 14) }
    fn mk(k: usize, how: usize) -> Store { by_kind!(k; T, v => v(<T as St>::mk(how))) }
    /// Clone::clone_from (a provided method of Clone that a type may override); false if the two stores are of different types
    fn clone_from_it(&mut self, src: &Store) -> bool { match (self, src) {
        (Store::S6(a), Store::S6(b)) => { a.clone_from(b); true } (Store::G9(a), Store::G9(b)) => { a.clone_from(b); true } (Store::I32(a), Store::I32(b)) => { a.clone_from(b); true } (Store::I16(a), Store::I16(b)) => { a.clone_from(b); true }
        (Store::FG(a), Store::FG(b)) => { a.clone_from(b); true } (Store::LG(a), Store::LG(b)) => { a.clone_from(b); true } (Store::FD(a), Store::FD(b)) => { a.clone_from(b); true } (Store::LD(a), Store::LD(b)) => { a.clone_from(b); true } (Store::SFG(a), Store::SFG(b)) => { a.clone_from(b); true }
        (Store::IUS(a), Store::IUS(b)) => { a.clone_from(b); true } (Store::LGU(a), Store::LGU(b)) => { a.clone_from(b); true } (Store::FDU(a), Store::FDU(b)) => { a.clone_from(b); true } (Store::SLG(a), Store::SLG(b)) => { a.clone_from(b); true } (Store::SFD(a), Store::SFD(b)) => { a.clone_from(b); true } (Store::SLD(a), Store::SLD(b)) => { a.clone_from(b); true }
        (Store::LG9(a), Store::LG9(b)) => { a.clone_from(b); true } (Store::LD9(a), Store::LD9(b)) => { a.clone_from(b); true } (Store::FD9(a), Store::FD9(b)) => { a.clone_from(b); true }
        _ => false } }
    fn shapes(&self, absent: &ST) -> Option<String> { each!(self; x => x.shapes(absent)) }
    fn audit(&self) -> Vec<bool> { each!(self; x => x.ti().verif_audit()) }
    fn len(&self) -> usize { each!(self; x => x.ti().len()) }
    fn is_empty(&self) -> bool { each!(self; x => x.ti().is_empty()) }
    fn term_at(&self, i: usize) -> &IT { each!(self; x => x.ti().get_term(Index::from_usize(i))) }
    /// (address, length, owned?) of every string of the keys and of the index table
    fn strings(&self) -> (Vec<(usize, usize, bool)>, Vec<(usize, usize, bool)>) { each!(self; x => x.ti().verif_strings()) }
    /// get_term on an index that was never handed out (len, len+1, MAX): a safe public method, it must panic, not read out of bounds
    fn out_of_range_reads(&self) -> Vec<String> { each!(self; x => out_of_range(x.ti())) }
    fn as_src(&self) -> &dyn Src { each!(self; x => x as &dyn Src) }
    /// insert the statement made of `ts` (3 terms + graph name; bare indexes intern each term); via 1: through OwnT
    fn insert(&mut self, ts: [&ST; 3], g: Option<&ST>, via: usize) -> Result<Option<bool>, ()> {
        if via == 1 { each!(self; x => x.ins([OwnT(ts[0]), OwnT(ts[1]), OwnT(ts[2])], g.map(OwnT))) } else { each!(self; x => x.ins(ts, g)) }
    }
    fn remove(&mut self, ts: [&ST; 3], g: Option<&ST>) -> Option<bool> { each!(self; x => x.rem(ts, g)) }
    fn matching(&self, mask: u8, ts: [&ST; 3], g: Option<&ST>) -> Vec<([ST; 3], Option<ST>)> { each!(self; x => x.matching(mask, ts, g)) }
    fn accessors(&self, which: Option<usize>, render: bool) -> Vec<Acc> { each!(self; x => x.accessors(which, render)) }
    fn matching_ids(&self, mask: u8, ts: [&ST; 3], g: Option<&ST>) -> Vec<[u64; 4]> { each!(self; x => x.matching_ids(mask, ts, g)) }
    fn has(&self, ts: [&ST; 3], g: Option<&ST>) -> Option<bool> { each!(self; x => x.has(ts, g)) }
    /// std::mem::take on the concrete store: its content moves out, a Default store of the same type stays
    fn take(&mut self) -> Store { wrap!(self; x => std::mem::take(x)) }
    fn collect(src: &Store, dk: usize, how: usize) -> Result<Store, ()> { let s = src.as_src(); by_kind!(dk; T, v => <T as St>::collect_from(s, how).map(v)) }
    fn extend(&mut self, src: &Store) -> Result<(), ()> { let s = src.as_src(); each!(self; x => x.extend_from(s)) }
    /// all statements in iteration order (graph name last; None = default graph)
    fn stmts(&self) -> Vec<([&IT; 3], Option<&IT>)> { let s = self.as_src(); match s.fam() { 1 => s.triples_dyn().map(|t| (t.ok().unwrap(), None)).collect(), 2 => s.quads_dyn().map(|q| { let (g, t) = q.ok().unwrap(); (t, g) }).collect(), _ => vec![] } }
}
impl Clone for Store {
    fn clone(&self) -> Store { wrap!(self; x => x.clone()) }
    fn clone_from(&mut self, src: &Store) { if !self.clone_from_it(src) { *self = src.clone(); } }
}
/// where a slot keeps its store: inline, or inside a Box / Rc / Arc / Vec (moving the holder then moves a pointer only)
enum Held { Plain(Store), Boxed(Box<Store>), Rc(Rc<Store>), Arc(Arc<Store>), Vec1(Vec<Store>) }
impl Held {
    fn wrap(st: Store, k: usize) -> Held { match k { 0 => Held::Plain(st), 1 => Held::Boxed(Box::new(st)), 2 => Held::Rc(Rc::new(st)), 3 => Held::Arc(Arc::new(st)), _ => { let mut v = Vec::new(); v.push(st); Held::Vec1(v) } } }
    fn get(&self) -> &Store { match self { Held::Plain(s) => s, Held::Boxed(b) => b, Held::Rc(r) => r, Held::Arc(a) => a, Held::Vec1(v) => &v[0] } }
    /// Rc/Arc: make_mut on a uniquely held store must not clone it
    fn get_mut(&mut self) -> &mut Store { match self { Held::Plain(s) => s, Held::Boxed(b) => b, Held::Rc(r) => Rc::make_mut(r), Held::Arc(a) => Arc::make_mut(a), Held::Vec1(v) => &mut v[0] } }
    fn unwrap(self) -> Store { match self { Held::Plain(s) => s, Held::Boxed(b) => *b, Held::Rc(r) => Rc::try_unwrap(r).ok().unwrap(), Held::Arc(a) => Arc::try_unwrap(a).ok().unwrap(), Held::Vec1(mut v) => v.pop().unwrap() } }
}
/// one clone of the store held by `h`, made in the `via`-th way; returns the holder of the original (possibly another
/// container now), the clone, and how many EXTRA clones were made and dropped on the way; via 15 = clone of a clone
fn clone_via(h: Held, via: usize) -> (Held, Store, usize) {
    match via {
        1 => { let b = Box::new(h.unwrap()); let b2 = b.clone(); (Held::Boxed(b), *b2, 0) }
        2 => { let rc = Rc::new(h.unwrap()); let mut rc2 = Rc::clone(&rc); let _ = Rc::make_mut(&mut rc2); let c = Rc::try_unwrap(rc2).ok().unwrap(); (Held::Rc(rc), c, 0) }
        3 => { let a = Arc::new(h.unwrap()); let mut a2 = Arc::clone(&a); let _ = Arc::make_mut(&mut a2); let c = Arc::try_unwrap(a2).ok().unwrap(); (Held::Arc(a), c, 0) }
        4 => { let rc = Rc::new(h.unwrap()); let rc2 = Rc::clone(&rc); let c = Rc::unwrap_or_clone(rc2); (Held::Rc(rc), c, 0) }
        5 => { let v = vec![h.unwrap()]; let mut v2 = v.clone(); let c = v2.pop().unwrap(); (Held::Vec1(v), c, 0) }
        6 => { let v = vec![h.unwrap()]; let mut v2 = v[..].to_vec(); let c = v2.pop().unwrap(); (Held::Vec1(v), c, 0) }
        7 => { let v = vec![h.unwrap()]; let mut v2: Vec<Store> = Vec::new(); v2.extend_from_slice(&v); let c = v2.pop().unwrap(); (Held::Vec1(v), c, 0) }
        8 => { let v = vec![h.unwrap()]; let mut v2: Vec<Store> = v.iter().cloned().collect(); let c = v2.pop().unwrap(); (Held::Vec1(v), c, 0) }
        9 => { let mut v2 = vec![h.get().clone(); 3]; let c = v2.swap_remove(0); drop(v2); (h, c, 2) }
        10 => { let mut v2: Vec<Store> = Vec::new(); v2.resize(3, h.get().clone()); let c = v2.remove(1); v2.clear(); (h, c, 2) }
        11 => { let c = Some(h.get()).cloned().unwrap(); (h, c, 0) }
        12 => { let c = Cow::Borrowed(h.get()).into_owned(); (h, c, 0) }
        13 => { let c = h.get().to_owned(); (h, c, 0) }
        14 => { let a = [h.get().clone()]; let [c] = a.clone(); drop(a); (h, c, 1) }
        15 => { let c = h.get().clone(); let d = c.clone(); drop(c); (h, d, 0) }
        16 => { let mut c = Store::mk(h.get().knum(), 1); c.clone_from(h.get()); (h, c, 0) }
        17 => { let t = (h.get().clone(), 7u8); let c = t.clone().0; drop(t); (h, c, 1) }
        _ => { let c = h.get().clone(); (h, c, 0) }
    }
}
const NVIA: usize = 18;

enum TMx { K(ST), A }
impl sophia_api::term::matcher::TermMatcher for TMx {
    type Term = ST;
    fn matches<T2: Term + ?Sized>(&self, t: &T2) -> bool { match self { TMx::K(k) => Term::eq(k, t.borrow_term()), TMx::A => true } }
    fn constant(&self) -> Option<&ST> { if let TMx::K(k) = self { Some(k) } else { None } }
}
enum GMx { K(Option<ST>), A }
impl sophia_api::term::matcher::GraphNameMatcher for GMx {
    type Term = ST;
    fn matches<T2: Term + ?Sized>(&self, g: GraphName<&T2>) -> bool { match self { GMx::K(k) => sophia_api::term::graph_name_eq(k.as_ref().map(|t| t.borrow_term()), g.map(|t| t.borrow_term())), GMx::A => true } }
    fn constant(&self) -> Option<GraphName<&ST>> { if let GMx::K(k) = self { Some(k.as_ref()) } else { None } }
}
/// every pattern shape (which positions are constants) must return exactly the statements of the store that match it:
/// a copy of a store that forgot one of its secondary indexes answers some shapes wrongly.  Probes: the first three
/// statements, the first one with each position replaced by a term the store never saw, and a recombination of two
/// statements (all terms known, statement most often absent); the last two kinds on stores of up to 48 statements.
/// the additional probes (absent terms, recombinations) are run on stores of at most this many statements (cost)
const EXTRA_PROBES_UP_TO: usize = 48;
fn graph_shapes<G: Graph>(g: &G, absent: &ST) -> Option<String> {
    let all: Vec<[ST; 3]> = g.triples().map(|t| { let t = t.ok().unwrap(); [t.s().into_term(), t.p().into_term(), t.o().into_term()] }).collect();
    let mut probes: Vec<[ST; 3]> = all.iter().take(3).cloned().collect();
    if let Some(f) = all.first().filter(|_| all.len() <= EXTRA_PROBES_UP_TO) { for j in 0..3 { let mut p = f.clone(); p[j] = absent.clone(); probes.push(p); } let l = all.last().unwrap(); probes.push([f[0].clone(), f[1].clone(), l[0].clone()]); probes.push([l[0].clone(), f[1].clone(), f[2].clone()]); }
    for probe in probes.iter() {
        // per statement: at which positions it carries the probe's term (then `want` for a mask = statements whose positions include the mask)
        let eqm: Vec<u8> = all.iter().map(|t| (0..3).fold(0u8, |a, i| a | (u8::from(Term::eq(&t[i], probe[i].borrow_term())) << i))).collect();
        for mask in 0..8u8 {
        let m = |i: usize| if mask >> i & 1 == 1 { TMx::K(probe[i].clone()) } else { TMx::A };
        let got = g.triples_matching(m(0), m(1), m(2)).count();
        let want = eqm.iter().filter(|e| **e & mask == mask).count();
        if got != want { return Some(format!("pattern with constants at positions {mask:03b} (spo) of {probe:?} returns {got} triples, the store holds {want} matching ones")); }
    } }
    None
}
fn dataset_shapes<D: Dataset>(d: &D, absent: &ST) -> Option<String> {
    let all: Vec<([ST; 3], Option<ST>)> = d.quads().map(|q| { let q = q.ok().unwrap(); ([q.s().into_term(), q.p().into_term(), q.o().into_term()], q.g().map(|g| g.into_term())) }).collect();
    let mut probes: Vec<([ST; 3], Option<ST>)> = all.iter().take(3).cloned().collect();
    if let Some(f) = all.first().filter(|_| all.len() <= EXTRA_PROBES_UP_TO) { for j in 0..4 { let mut p = f.clone(); if j < 3 { p.0[j] = absent.clone(); } else { p.1 = Some(absent.clone()); } probes.push(p); }
        let l = all.last().unwrap(); probes.push(([f.0[0].clone(), f.0[1].clone(), l.0[0].clone()], f.1.clone())); probes.push((f.0.clone(), l.1.clone())); probes.push((l.0.clone(), None)); }
    for probe in probes.iter() {
        let eqm: Vec<u8> = all.iter().map(|q| (0..3).fold(0u8, |a, i| a | (u8::from(Term::eq(&q.0[i], probe.0[i].borrow_term())) << i)) | (u8::from(sophia_api::term::graph_name_eq(q.1.as_ref().map(|t| t.borrow_term()), probe.1.as_ref().map(|t| t.borrow_term()))) << 3)).collect();
        for mask in 0..16u8 {
        let m = |i: usize| if mask >> i & 1 == 1 { TMx::K(probe.0[i].clone()) } else { TMx::A };
        let gm = if mask >> 3 & 1 == 1 { GMx::K(probe.1.clone()) } else { GMx::A };
        let got = d.quads_matching(m(0), m(1), m(2), gm).count();
        let want = eqm.iter().filter(|e| **e & mask == mask).count();
        if got != want { return Some(format!("pattern with constants at positions {mask:04b} (gops, s lowest bit) of {probe:?} returns {got} quads, the store holds {want} matching ones")); }
    } }
    None
}
/// A user-defined term type that keeps its text INLINE and is its own BorrowTerm (Copy): every string it hands out
/// borrows from the value itself, so a copy made on the stack must not be borrowed beyond its life.
#[derive(Clone, Copy, Debug)]
struct InlAtom { kind: u8, len: u8, buf: [u8; 40] }
impl InlAtom { fn new(kind: u8, t: &str) -> Self { let mut buf = [0u8; 40]; buf[..t.len()].copy_from_slice(t.as_bytes()); InlAtom { kind, len: t.len() as u8, buf } } fn text(&self) -> &str { std::str::from_utf8(&self.buf[..self.len as usize]).unwrap() } }
#[derive(Clone, Copy, Debug)]
enum Inl { Atom(InlAtom), Triple([InlAtom; 3]) }
impl Term for Inl {
    type BorrowTerm<'x> = Inl;
    fn kind(&self) -> sophia_api::term::TermKind { use sophia_api::term::TermKind::*; match self { Inl::Atom(a) => match a.kind { 0 => Iri, 1 => BlankNode, _ => Literal }, Inl::Triple(_) => Triple } }
    fn borrow_term(&self) -> Inl { *self }
    fn iri(&self) -> Option<sophia_api::term::IriRef<sophia_api::MownStr<'_>>> { match self { Inl::Atom(a) if a.kind == 0 => Some(sophia_api::term::IriRef::new_unchecked(sophia_api::MownStr::from_ref(a.text()))), _ => None } }
    fn bnode_id(&self) -> Option<sophia_api::term::BnodeId<sophia_api::MownStr<'_>>> { match self { Inl::Atom(a) if a.kind == 1 => Some(sophia_api::term::BnodeId::new_unchecked(sophia_api::MownStr::from_ref(a.text()))), _ => None } }
    fn lexical_form(&self) -> Option<sophia_api::MownStr<'_>> { match self { Inl::Atom(a) if a.kind == 2 => Some(sophia_api::MownStr::from_ref(a.text())), _ => None } }
    fn datatype(&self) -> Option<sophia_api::term::IriRef<sophia_api::MownStr<'_>>> { match self { Inl::Atom(a) if a.kind == 2 => Some(sophia_api::term::IriRef::new_unchecked(sophia_api::MownStr::from_ref("http://www.w3.org/2001/XMLSchema#string"))), _ => None } }
    fn language_tag(&self) -> Option<sophia_api::term::LanguageTag<sophia_api::MownStr<'_>>> { None }
    fn triple(&self) -> Option<[Inl; 3]> { match self { Inl::Triple(a) => Some([Inl::Atom(a[0]), Inl::Atom(a[1]), Inl::Atom(a[2])]), _ => None } }
    fn to_triple(self) -> Option<[Inl; 3]> { self.triple() }
}
/// look-ups, removals and insertions through the stores with such terms (quoted triples included) must behave as with
/// SimpleTerms; with a conversion that keeps borrowing from a dead temporary they read released stack memory
fn inline_term_scenarios() -> Vec<String> {
    let mut bad = vec![];
    let qt_s = triple(iri("http://e/a"), iri("http://e/p"), lit_dt("inline text", &format!("{XSD}string")));
    let qt_i = Inl::Triple([InlAtom::new(0, "http://e/a"), InlAtom::new(0, "http://e/p"), InlAtom::new(2, "inline text")]);
    let (p_i, o_i, b_i) = (Inl::Atom(InlAtom::new(0, "http://e/q")), Inl::Atom(InlAtom::new(2, "o")), Inl::Atom(InlAtom::new(1, "b1")));
    fn go<G: MutableGraph + Graph + Default>(name: &str, qt_s: &ST, qt_i: Inl, p_i: Inl, o_i: Inl, b_i: Inl, bad: &mut Vec<String>) where G::MutationError: std::fmt::Debug {
        let mut g = G::default();
        g.insert(qt_s.clone(), iri("http://e/q"), lit_dt("o", &format!("{XSD}string"))).unwrap();
        g.insert(bnode("b1"), iri("http://e/q"), qt_s.clone()).unwrap();
        for _ in 0..3 { let filler: Vec<u8> = vec![0xAA; 256]; std::hint::black_box(&filler); } // churn the stack / heap a little
        let n1 = g.triples_matching([qt_i], sophia_api::term::matcher::Any, sophia_api::term::matcher::Any).count();
        let n2 = g.triples_matching(sophia_api::term::matcher::Any, [p_i], [qt_i]).count();
        let c = g.contains(qt_i, p_i, o_i).unwrap_or(false);
        if n1 != 1 || n2 != 1 || !c { bad.push(format!("{name}: with an inline, self-borrowing term type the quoted triple << a p \"inline text\" >> is found {n1} time(s) as subject, {n2} time(s) as object, contains = {c}; expected 1, 1, true")); }
        let ins = g.insert(qt_i, p_i, o_i).map_err(|e| format!("{e:?}"));
        if ins != Ok(false) { bad.push(format!("{name}: inserting the statement again through inline terms returned {ins:?}, expected Ok(false) (already there)")); }
        let rem = g.remove(b_i, p_i, qt_i).map_err(|e| format!("{e:?}"));
        if rem != Ok(true) || g.triples().count() != 1 { bad.push(format!("{name}: removing a statement through inline terms returned {rem:?} and left {} statement(s), expected Ok(true) and 1", g.triples().count())); }
    }
    go::<FastGraph>("FastGraph", &qt_s, qt_i, p_i, o_i, b_i, &mut bad);
    go::<LightGraph>("LightGraph", &qt_s, qt_i, p_i, o_i, b_i, &mut bad);
    go::<sophia_inmem::graph::small::FastGraph>("small::FastGraph", &qt_s, qt_i, p_i, o_i, b_i, &mut bad);
    go::<std::collections::HashSet<[ST; 3]>>("HashSet<[SimpleTerm;3]>", &qt_s, qt_i, p_i, o_i, b_i, &mut bad);
    bad
}
/// statements given through a term type whose accessors return OWNED strings, and through native literals (whose
/// lexical forms are computed, hence owned): the store must keep its own copy, also after the temporary is gone,
/// and a clone taken meanwhile must be independent
fn owned_accessor_scenarios() -> Vec<String> {
    let mut bad = vec![];
    fn go<G: MutableGraph + Graph + Default + Clone>(name: &str, bad: &mut Vec<String>) where G::MutationError: std::fmt::Debug {
        let mut g = G::default();
        { let s = iri("http://e/owned/subject"); let o = lit_lang("chat", "fr-BE"); let q = triple(bnode("b"), iri("http://e/p"), lit_dt("1", &format!("{XSD}integer")));
          g.insert(OwnT(&s), OwnT(&s), OwnT(&o)).unwrap(); g.insert(OwnT(&q), OwnT(&s), 42i32).unwrap(); g.insert(OwnT(&s), OwnT(&s), 1.5f64).unwrap(); g.insert(OwnT(&s), OwnT(&s), true).unwrap(); g.insert(OwnT(&s), OwnT(&s), "native str").unwrap(); }
        let c = g.clone();
        for k in 0..40 { g.insert(k as i32, iri("http://e/p"), format!("filler {k}").as_str()).unwrap(); }
        drop(g);
        let junk: Vec<String> = (0..32).map(|k| format!("http://e/owned/subjecT{k}")).collect(); std::hint::black_box(&junk);
        let s = iri("http://e/owned/subject"); let q = triple(bnode("b"), iri("http://e/p"), lit_dt("1", &format!("{XSD}integer")));
        let want: Vec<ST> = vec![lit_lang("chat", "fr-BE"), lit_dt("1.5", &format!("{XSD}double")), lit_dt("true", &format!("{XSD}boolean")), lit_dt("native str", &format!("{XSD}string"))];
        for w in &want { if !c.contains(&s, &s, w).unwrap_or(false) { bad.push(format!("{name}: a clone (original grown, then dropped) of a store filled through owned-string accessors / native literals no longer contains <subject> <subject> {w:?}")); } }
        if !c.contains(&q, &s, lit_dt("42", &format!("{XSD}integer"))).unwrap_or(false) { bad.push(format!("{name}: the clone no longer contains the statement whose subject is a quoted triple given through owned-string accessors")); }
        if c.triples().count() != 5 { bad.push(format!("{name}: the clone holds {} statements, expected 5", c.triples().count())); }
    }
    go::<FastGraph>("FastGraph", &mut bad); go::<LightGraph>("LightGraph", &mut bad); go::<SFG>("small::FastGraph", &mut bad); go::<LGU>("GenericLightGraph<SimpleTermIndex<usize>>", &mut bad);
    bad
}

/// static-clone: regression scenario for a use-after-free found by the widened histories.  The terms handed out by a
/// store (`TermIndex::get_term`, the items of `triples()` / `quads()`) borrow their text from the keys of the store's
/// term index.  Whatever a caller can obtain from a store with safe calls and KEEP after dropping the store (a value
/// of a `'static` type) must own its text: `Clone::clone` of a handed-out term (an owned `SimpleTerm<'static>` whose
/// strings were the store's: the defect), `into_term`, `SimpleTerm::from_term`, `try_from_term`, `as_simple` then
/// `into_term`, `to_triple` of an owned copy of a quoted triple, Arc/Rc terms, stash copies, the statements
/// collected into other containers and stores, the same from a CLONE of the store.  Checked from the addresses
/// (`verif_strings`) while the store is alive; then the store is dropped, the heap churned, and every kept value read.
fn static_clone_scenarios() -> Vec<String> {
    fn assert_static<T: 'static>(_: &T) {}
    fn ranges<T: Term>(t: T, out: &mut Vec<(usize, usize)>) {
        if let Some([s, p, o]) = t.triple() { ranges(s, out); ranges(p, out); ranges(o, out); return; }
        if let Some(x) = t.iri() { out.push((x.as_str().as_ptr() as usize, x.len())); }
        if let Some(x) = t.bnode_id() { out.push((x.as_str().as_ptr() as usize, x.len())); }
        if let Some(x) = t.lexical_form() { out.push((x.as_ptr() as usize, x.len())); }
        if let Some(x) = t.language_tag() { out.push((x.as_str().as_ptr() as usize, x.len())); }
        if let Some(x) = t.variable() { out.push((x.as_str().as_ptr() as usize, x.len())); }
        if let Some(x) = t.datatype() { out.push((x.as_str().as_ptr() as usize, x.len())); }
    }
    fn inside<T: Term + Copy>(kept: &[T], keys: &[(usize, usize, bool)]) -> usize { let mut r = vec![]; for t in kept { ranges(*t, &mut r); } r.iter().filter(|(p, l)| *l > 0 && keys.iter().any(|k| k.1 > 0 && *p < k.0 + k.1 && k.0 < p + l)).count() }
    fn both(x: (Vec<(usize, usize, bool)>, Vec<(usize, usize, bool)>)) -> Vec<(usize, usize, bool)> { let (mut k, e) = x; k.extend(e); k }
    /// is the value an owned one (not a reference, whose life the compiler bounds by the store's)?
    fn owned_value<T>(v: &T) -> bool { !std::any::type_name_of_val(v).starts_with('&') }
    let mut bad = vec![];
    let qt = triple(bnode("b0"), iri("http://e/static/p"), lit_dt("12", &format!("{XSD}integer")));
    let stmts: Vec<[ST; 4]> = vec![[iri("http://e/static/subject"), iri("http://e/static/p"), lit_lang("chat", "fr"), iri("http://e/static/g")], [qt.clone(), iri("http://e/static/p"), lit_dt("plain", &format!("{XSD}string")), iri("http://e/static/g")], [iri("http://e/static/subject"), iri("http://e/static/q"), qt.clone(), iri("http://e/static/subject")]];
    // everything a caller may keep of one handed-out term
    fn keep<T: Term + Copy>(t: T, kept: &mut Vec<ST>, arcs: &mut Vec<sophia_term::ArcTerm>, rcs: &mut Vec<sophia_term::RcTerm>, stash: &mut sophia_term::ArcStrStash) {
        let a: ST = t.into_term(); let b = <ST as sophia_api::term::FromTerm>::from_term(t); let c: ST = t.try_into_term().unwrap(); let d: ST = t.as_simple().into_term();
        if let Some(tr) = a.clone().to_triple() { kept.extend(tr); }
        kept.extend([a, b, c, d]); arcs.push(t.into_term()); arcs.push(stash.copy_term(t)); rcs.push(t.into_term());
    }
    fn ti_fg(g: &FastGraph) -> &I32 { g.verif_term_index() }
    fn ti_ld(d: &LD) -> &I32 { d.verif_term_index() }
    fn ti_ix(ix: &I32) -> &I32 { ix }
    fn items_fg(g: &FastGraph) -> Vec<&IT> { g.triples().flat_map(|t| t.unwrap()).collect() }
    fn items_ld(d: &LD) -> Vec<&IT> { d.quads().flat_map(|q| { let (g, t) = q.unwrap(); t.into_iter().chain(g) }).collect() }
    fn items_ix(ix: &I32) -> Vec<&IT> { (0..ix.len()).map(|i| ix.get_term(i as u32)).collect() }
    macro_rules! run { ($name:expr, $store:expr, $ti:expr, $items:expr, $others:expr) => {{
        let store = $store; let ti = $ti; let items = $items; let others = $others;
        let (mut kept, mut arcs, mut rcs, mut stash) = (vec![], vec![], vec![], sophia_term::ArcStrStash::new());
        let mut cloned_in = 0; let mut n_items = 0; let mut clones: Vec<ST> = vec![];
        for t in items(&store) { n_items += 1;
            // the defect: Clone::clone of a handed-out term must not be an owned value holding the store's strings
            let c = t.clone(); if owned_value(&c) && inside(&[c.borrow_term()], &both(ti(&store).verif_strings())) > 0 { cloned_in += 1; } clones.push(c);
            keep(t, &mut kept, &mut arcs, &mut rcs, &mut stash); }
        assert_static(&kept); assert_static(&arcs); assert_static(&rcs);
        let keys = both(ti(&store).verif_strings()); assert_static(&clones);
        if cloned_in > 0 { bad.push(format!("static-clone: {}: Clone::clone of {cloned_in} of the {n_items} terms handed out by the store is an owned value whose strings lie in the store's own storage (keys / index table): safe code can keep it after drop(store) and then reads released memory", $name)); }
        let n = inside(&kept.iter().collect::<Vec<_>>(), &keys) + inside(&arcs.iter().collect::<Vec<_>>(), &keys) + inside(&rcs.iter().collect::<Vec<_>>(), &keys);
        if n > 0 { bad.push(format!("static-clone: {}: {n} strings of the owned copies (into_term / from_term / try_into_term / as_simple+into_term / to_triple / ArcTerm / RcTerm / stash) of the terms handed out by the store lie in the store's own storage", $name)); }
        // collected into other containers and stores; and the same from a clone of the store, the original dropped first
        let (other_terms, other_keys): (Vec<ST>, Vec<(usize, usize, bool)>) = others(&store);
        let n = inside(&other_terms.iter().collect::<Vec<_>>(), &keys) + other_keys.iter().filter(|o| o.1 > 0 && keys.iter().any(|k| k.1 > 0 && o.0 < k.0 + k.1 && k.0 < o.0 + o.1)).count();
        if n > 0 { bad.push(format!("static-clone: {}: {n} strings of containers / stores collected from the store lie in the store's key storage", $name)); }
        let clone = store.clone(); drop(store);
        let junk: Vec<String> = (0..64).map(|k| format!("http://e/static/subjecT{k}")).collect(); std::hint::black_box(&junk);
        let mut kept2 = vec![]; for t in items(&clone) { keep(t, &mut kept2, &mut arcs, &mut rcs, &mut stash); }
        let n2 = inside(&kept2.iter().collect::<Vec<_>>(), &both(ti(&clone).verif_strings()));
        if n2 > 0 { bad.push(format!("static-clone: {}: {n2} strings of the owned copies of the terms handed out by a CLONE of the store lie in the clone's key storage", $name)); }
        drop(clone); let junk2: Vec<String> = (0..64).map(|k| format!("http://e/static/subJect{k}")).collect(); std::hint::black_box(&junk2);
        // after both are gone: every kept value still reads as the term it was copied from
        let expect = |t: &dyn Fn(&ST) -> bool| stmts.iter().flatten().any(|e| t(e)) ;
        let all_ok = kept.iter().chain(kept2.iter()).chain(other_terms.iter()).all(|k| expect(&|e: &ST| same_term(k, e)) || qt.triple().is_some_and(|tr| tr.iter().any(|e| same_term(k, *e))))
            && arcs.iter().all(|k| expect(&|e: &ST| Term::eq(k, e))) && rcs.iter().all(|k| expect(&|e: &ST| Term::eq(k, e)));
        // the clones themselves are only read if the address check found them independent (reading them otherwise is the use-after-free)
        let clones_ok = cloned_in > 0 || clones.iter().all(|k| expect(&|e: &ST| same_term(k, e)) || qt.triple().is_some_and(|tr| tr.iter().any(|e| same_term(k, *e))));
        if !clones_ok { bad.push(format!("static-clone: {}: after drop(store) a Clone::clone of a handed-out term no longer reads as any of the terms that were inserted", $name)); }
        if !all_ok { bad.push(format!("static-clone: {}: after drop(store) an owned copy of a handed-out term no longer reads as any of the terms that were inserted", $name)); }
    }}; }
    run!("FastGraph", { let mut g = FastGraph::new(); for s in &stmts { g.insert(&s[0], &s[1], &s[2]).unwrap(); } g }, ti_fg,
        items_fg,
        |g: &FastGraph| { let v: Vec<[ST; 3]> = g.triples().collect_triples().unwrap(); let h: std::collections::HashSet<[ST; 3]> = g.triples().collect_triples().unwrap(); let l: LG = g.triples().collect_triples().unwrap();
            (v.into_iter().flatten().chain(h.into_iter().flatten()).collect(), l.verif_term_index().verif_strings().0) });
    run!("LightDataset", { let mut d = LD::new(); for s in &stmts { d.insert(&s[0], &s[1], &s[2], Some(&s[3])).unwrap(); } d.insert(&stmts[0][0], &stmts[0][1], &stmts[0][2], None::<&ST>).unwrap(); d }, ti_ld,
        items_ld,
        |d: &LD| { let v: Vec<([ST; 3], Option<ST>)> = d.quads().collect_quads().unwrap(); let f: FD = d.quads().collect_quads().unwrap();
            (v.into_iter().flat_map(|(t, g)| t.into_iter().chain(g)).collect(), f.verif_term_index().verif_strings().0) });
    run!("SimpleTermIndex<u32>", { let mut ix = I32::new(); for s in &stmts { for t in s { ix.ensure_index(t).unwrap(); } } ix }, ti_ix,
        items_ix,
        |ix: &I32| { let mut iy = IUS::new(); for i in 0..ix.len() { iy.ensure_index(ix.get_term(i as u32)).unwrap(); } (vec![], iy.verif_strings().0) });
    bad
}

fn nstr(t: &ST) -> usize { use sophia_api::term::SimpleTerm::*; match t { Iri(_) | BlankNode(_) | Variable(_) => 1, LiteralDatatype(..) | LiteralLanguage(..) => 2, Triple(tr) => tr.iter().map(nstr).sum() } }

/// the same term, spelled the same: compared through EVERY accessor of Term (kind, iri, bnode_id, lexical_form,
/// datatype, language_tag, variable, triple), each of which must answer None on the other kinds
fn same_term<A: Term, B: Term>(a: A, b: B) -> bool {
    a.kind() == b.kind()
        && match (a.iri(), b.iri()) { (None, None) => true, (Some(x), Some(y)) => x.as_str() == y.as_str(), _ => false }
        && match (a.bnode_id(), b.bnode_id()) { (None, None) => true, (Some(x), Some(y)) => x.as_str() == y.as_str(), _ => false }
        && match (a.lexical_form(), b.lexical_form()) { (None, None) => true, (Some(x), Some(y)) => x[..] == y[..], _ => false }
        && match (a.datatype(), b.datatype()) { (None, None) => true, (Some(x), Some(y)) => x.as_str() == y.as_str(), _ => false }
        && match (a.language_tag(), b.language_tag()) { (None, None) => true, (Some(x), Some(y)) => x.as_str() == y.as_str(), _ => false }
        && match (a.variable(), b.variable()) { (None, None) => true, (Some(x), Some(y)) => x.as_str() == y.as_str(), _ => false }
        && match (a.triple(), b.triple()) { (None, None) => true, (Some([x0, x1, x2]), Some([y0, y1, y2])) => same_term(x0, y0) && same_term(x1, y1) && same_term(x2, y2), _ => false }
}
/// term identifiers: 1..=16 Term::eq classes of the pool, 900..=903 the specials, >= 1000 bulk IRIs; 0 = the default graph;
/// 999 = a term that is never inserted (used by removals only: every early exit of `remove`)
struct Ids { pool: Vec<Vec<ST>>, specials: Vec<(u64, ST)> }
impl Ids {
    fn new() -> Ids {
        // 900..=903: an IRI and a literal whose DATATYPE is that very IRI (twice): the literal's datatype string must be its own copy
        Ids { pool: small_pool(), specials: vec![(900, iri(&format!("{XSD}integer"))), (901, lit_dt("7", &format!("{XSD}integer"))), (902, iri("http://e/dt")), (903, lit_dt("x", "http://e/dt"))] }
    }
    fn term(&self, id: u64, r: &mut Rng) -> ST { if id == 999 { iri("http://absent.example/never-inserted") } else if (900..=903).contains(&id) { self.specials[(id - 900) as usize].1.clone() } else if id >= 1000 { iri(&format!("http://bulk.example/{id}")) } else { r.pick(&self.pool[(id - 1) as usize]).clone() } }
    fn id<T: Term>(&self, t: T) -> u64 {
        if let Some(i) = t.iri() { if let Some(n) = i.as_str().strip_prefix("http://bulk.example/") { return n.parse().unwrap(); } }
        for (id, s) in &self.specials { if Term::eq(s, t.borrow_term()) { return *id; } }
        class_id(&self.pool, t.borrow_term())
    }
}
/// what the harness expects of a slot: the terms of its index, in index order (identifier and the spelling first
/// interned), and its statements as identifier tuples (s, p, o, g; g = 0: default graph / not a dataset)
#[derive(Clone, Default)]
struct Sh { terms: Vec<(u64, ST)>, stmts: Vec<[u64; 4]> }
/// Replay on the shadow what the store must have done with `stmts` (each a list of terms, in interning order), given
/// that its index gained `newly` terms: a known term costs nothing, an unknown one consumes one of the `newly`; the
/// first unknown term once they are used up is where a capacity-limited store failed.  Records the model's Insert ops (term, strings - 1, quoted?).
/// Returns, per statement fully processed, whether it was new to the store; `true` in the second component = stopped early.
fn walk(sh: &mut Sh, fam: u8, stmts: &[Vec<(u64, ST)>], mut newly: usize, emitted: &mut Vec<(u64, usize, bool)>) -> (Vec<bool>, bool, usize) {
    let mut res = vec![];
    for st in stmts {
        for (id, t) in st {
            if !sh.terms.iter().any(|(i, _)| i == id) { if newly == 0 { return (res, true, 0); } newly -= 1; sh.terms.push((*id, t.clone())); }
            emitted.push((*id, nstr(t) - 1, t.is_triple()));
        }
        if fam == 0 { res.push(false); } else {
            let key = [st[0].0, st[1].0, st[2].0, if fam == 2 { st.get(3).map(|x| x.0).unwrap_or(0) } else { 0 }];
            if sh.stmts.contains(&key) { res.push(false); } else { sh.stmts.push(key); res.push(true); }
        }
    }
    (res, false, newly)
}
/// the storage audit from the addresses themselves: every string of every key AND of every index-table entry is owned
/// (get_term hands the entries out as `&SimpleTerm<'static>`: a borrowed string in one of them can be cloned out of the
/// store and outlive it), the strings of one store are pairwise disjoint, and the strings of two live stores never
/// overlap (evaluated by sorting the intervals; a borrowed entry string, if any, is also required to lie inside a key
/// of the same store, as before the repair of the index)
fn storage_audit(slots: &[Option<Held>], ops: &[Op]) -> Option<String> {
    let mut all: Vec<(usize, usize, usize)> = vec![]; // (start, end, store) of every non-empty owned string
    for (i, h) in slots.iter().enumerate() { if let Some(h) = h {
        let s = h.get(); let kind = s.kind(); let (keys, entries) = s.strings();
        if let Some(k) = keys.iter().find(|k| !k.2) { return Some(format!("after {:?}: store #{i} ({kind}) has a key that BORROWS one of its strings ({} bytes at {:#x}) instead of owning it: a clone of the store would point into this store's memory", ops, k.1, k.0)); }
        let mut ks: Vec<(usize, usize)> = keys.iter().filter(|k| k.1 > 0).map(|k| (k.0, k.0 + k.1)).collect(); ks.sort_unstable();
        let mut pm = Vec::with_capacity(ks.len()); let mut m = 0usize; for k in &ks { m = m.max(k.1); pm.push(m); }
        for e in entries.iter().filter(|e| !e.2 && e.1 > 0) {
            let n = ks.partition_point(|k| k.0 <= e.0);
            if n == 0 || pm[n - 1] < e.0 + e.1 { return Some(format!("after {:?}: store #{i} ({kind}) has an index-table entry whose string ({} bytes at {:#x}) lies in none of its own keys", ops, e.1, e.0)); }
        }
        if let Some(e) = entries.iter().find(|e| !e.2 && e.1 > 0) { return Some(format!("after {:?}: store #{i} ({kind}) has an index-table entry that BORROWS a string ({} bytes at {:#x}): get_term hands it out as &SimpleTerm<'static>, so Clone::clone of it yields a term that may outlive the store while pointing into it", ops, e.1, e.0)); }
        // keys and entries of one store: pairwise disjoint storage
        let mut own: Vec<(usize, usize)> = ks.clone(); own.extend(entries.iter().filter(|e| e.2 && e.1 > 0).map(|e| (e.0, e.0 + e.1))); own.sort_unstable();
        let mut hi = 0usize; for (st, en) in &own { if *st < hi { return Some(format!("after {:?}: store #{i} ({kind}): two of its own strings (keys / index-table entries) overlap at {:#x}", ops, st)); } hi = hi.max(*en); }
        all.extend(own.iter().map(|k| (k.0, k.1, i)));
    } }
    all.sort_unstable();
    let mut maxend = vec![(0usize, 0usize); slots.len()];
    for (st, en, i) in all {
        for (j, (e, a)) in maxend.iter().enumerate() { if j != i && *e > st { let (lo, hi) = (i.min(j), i.max(j)); return Some(format!("after {:?}: stores #{lo} ({}) and #{hi} share storage: a {}-byte string at {:#x} overlaps a string (at {:#x}) of the other store", ops, slots[lo].as_ref().unwrap().get().kind(), en - st, st, a)); } }
        if en > maxend[i].0 { maxend[i] = (en, st); }
    }
    None
}
/// the accessors are compared after EVERY step on stores of at most this many statements, and at the end of the history and at every Query
/// operation on stores of any size (cost)
const ACC_EVERY_STEP_UP_TO: usize = 40;
/// the statements the shadow says a store holds, with the terms as the store first interned them
fn shadow_stmts(sh: &Sh) -> Vec<([&ST; 3], Option<&ST>)> {
    let tm: std::collections::HashMap<u64, &ST> = sh.terms.iter().map(|(i, t)| (*i, t)).collect();
    sh.stmts.iter().map(|k| ([tm[&k[0]], tm[&k[1]], tm[&k[2]]], if k[3] == 0 { None } else { Some(tm[&k[3]]) })).collect()
}
/// the stores related to one of `touched` by a clone / a collection, in either direction (whether or not `touched` are still alive)
fn clone_group(touched: &[usize], cloned_from: &[(usize, usize)]) -> Vec<usize> {
    let mut g: Vec<usize> = touched.to_vec();
    for x in touched { for (a, b) in cloned_from { for (u, v) in [(a, b), (b, a)] { if u == x && !g.contains(v) { g.push(*v); } } } }
    g
}
/// everything that must hold after every step
/// one store against its shadow through the statement API: every pattern shape answers with the statements the store lists,
/// and it lists exactly the statements it was given
fn full_store_check(i: usize, slots: &[Option<Held>], shadow: &[Sh], ids: &Ids, ops: &[Op], absent: &ST) -> Option<String> {
    let s = slots[i].as_ref()?.get(); if s.fam() == 0 { return None; }
    if let Some(why) = s.shapes(absent) { return Some(format!("after {:?}: store #{i} ({}): {why}", ops, s.kind())); }
    let mut got: Vec<[u64; 4]> = s.stmts().iter().map(|(t, g)| [ids.id(t[0]), ids.id(t[1]), ids.id(t[2]), g.map(|g| ids.id(g)).unwrap_or(0)]).collect();
    let mut exp = shadow[i].stmts.clone(); let listed = got.len(); got.sort_unstable(); got.dedup(); exp.sort_unstable();
    if got != exp || listed != exp.len() { return Some(format!("after {:?}: store #{i} ({}) lists {listed} statements {:?}, expected the {} statements {:?} (identifiers s, p, o, g; 0 = default graph)", ops, s.kind(), got.iter().take(8).collect::<Vec<_>>(), exp.len(), exp.iter().take(8).collect::<Vec<_>>())); }
    // and every other observation method (subjects(), ..., graph_names(), contains(), the graph / dataset views)
    if let Some(why) = acc_mismatch(s, &shadow_stmts(&shadow[i]), absent) { return Some(format!("after {:?}: store #{i} ({}): {why}", ops, s.kind())); }
    None
}
/// quiet: only what the storage hooks and the term index show (no statement is listed, no pattern is queried)
fn check_step(slots: &[Option<Held>], shadow: &[Sh], ids: &Ids, ops: &[Op], cloned_from: &[(usize, usize)], run_shapes: bool, absent: &ST, quiet: bool, acc_group: &[usize], acc_any_size: bool) -> Option<String> {
    // no live store points into memory it does not own
    let audits: Vec<Option<Vec<bool>>> = slots.iter().map(|h| h.as_ref().map(|h| h.get().audit())).collect();
    for (i, au) in audits.iter().enumerate() { if let Some(au) = au { if au.iter().any(|b| !b) { let s = slots[i].as_ref().unwrap().get();
        return Some(format!("after {:?}: store #{i} ({}) holds {} of {} index entries that point outside its own key storage (would read memory it does not own)", ops, s.kind(), au.iter().filter(|b| !**b).count(), au.len())); } } }
    if let Some(f) = storage_audit(slots, ops) { return Some(f); }
    if run_shapes { for (i, h) in slots.iter().enumerate() { if let Some(h) = h { let s = h.get(); if cloned_from.iter().any(|(a, b)| *a == i || *b == i) { if let Some(why) = s.shapes(absent) { return Some(format!("after {:?}: store #{i} ({}), a clone or the source of a clone: {why}", ops, s.kind())); } } } } }
    // every live store still holds exactly the terms it interned, in order and as first spelled (a clone: those of its
    // original at the time of cloning plus its own later ones)
    for (i, h) in slots.iter().enumerate() { if let Some(h) = h { let s = h.get();
        let n = s.len(); let sh = &shadow[i];
        if n != sh.terms.len() || (0..n).any(|k| !same_term(s.term_at(k), &sh.terms[k].1)) {
            let got: Vec<u64> = (0..n).map(|k| ids.id(s.term_at(k))).collect();
            let exp: Vec<u64> = sh.terms.iter().map(|x| x.0).collect();
            let first = (0..n.min(sh.terms.len())).find(|k| !same_term(s.term_at(*k), &sh.terms[*k].1));
            return Some(format!("after {:?}: store #{i} ({}) no longer holds the terms it interned: index table reads {:?} ({n} terms), expected {:?} ({} terms){}", ops, s.kind(), got.iter().take(12).collect::<Vec<_>>(), exp.iter().take(12).collect::<Vec<_>>(), exp.len(),
                first.map(|k| format!("; first difference at index {k}: reads {:?}, expected {:?}", s.term_at(k), sh.terms[k].1)).unwrap_or_default()));
        }
            if s.is_empty() != (n == 0) { return Some(format!("after {:?}: store #{i} ({}): the term index says is_empty() = {} with len() = {n}", ops, s.kind(), s.is_empty())); }
        // and exactly the statements it was given (a clone: those of its original at the time of cloning, then its own)
        if s.fam() != 0 && !quiet {
            let mut got: Vec<[u64; 4]> = s.stmts().iter().map(|(t, g)| [ids.id(t[0]), ids.id(t[1]), ids.id(t[2]), g.map(|g| ids.id(g)).unwrap_or(0)]).collect();
            let mut exp = sh.stmts.clone(); let listed = got.len(); got.sort_unstable(); got.dedup(); exp.sort_unstable();
            if got != exp || listed != exp.len() { return Some(format!("after {:?}: store #{i} ({}) lists {listed} statements {:?}, expected the {} statements {:?} (identifiers s, p, o, g; 0 = default graph)", ops, s.kind(), got.iter().take(8).collect::<Vec<_>>(), exp.len(), exp.iter().take(8).collect::<Vec<_>>())); }
            // every other observation method, on the store the step touched and on every store related to it by clones
            if acc_group.contains(&i) && (sh.stmts.len() <= ACC_EVERY_STEP_UP_TO || acc_any_size) { if let Some(why) = acc_mismatch(s, &shadow_stmts(sh), absent) { return Some(format!("after {:?}: store #{i} ({}): {why}", ops, s.kind())); } }
        }
    } }
    None
}
/// New(slot, kind, how) Insert(slot, ids, via) Bulk(slot, first id, n) Remove(slot, ids) Clone(src, dst, via) Drop(slot, via) Swap(a, b, via)
/// CloneFrom(src, dst) Take(src, dst, via) Collect(src, dst, kind of dst, how) Extend(src, dst) Rewrap(slot, container)
/// CloneGrow(src, dst, first id, n) Thread(slot, ids)
#[derive(Debug, Clone)]
enum Op { New(usize, usize, usize), Insert(usize, Vec<u64>, usize), Bulk(usize, u64, usize), Remove(usize, Vec<u64>), Clone(usize, usize, usize), Drop(usize, usize), Swap(usize, usize, usize), CloneFrom(usize, usize),
    Take(usize, usize, usize), Collect(usize, usize, usize, usize), Extend(usize, usize), Rewrap(usize, usize), CloneGrow(usize, usize, u64, usize), Thread(usize, Vec<u64>),
    /// Query(slot, shape of the first query, order: 0 = this store first, then the stores it was cloned from / into; 1 = the other way round)
    Query(usize, u8, usize) }

/// capacity of the tiny indexes (ensure_index fails once `len` reaches Index::MAX)
fn cap(s: &Store) -> Option<usize> { match s.knum() { 7 => Some(6), 8 | 15 | 16 | 17 => Some(9), _ => None } }
/// the terms a statement makes the store intern, in interning order: bare index: all four (the 4th unless 0); graph: s p o; dataset: s p o g (g unless 0)
fn shape_stmt(fam: u8, ids: &[u64], ts: &[Option<ST>]) -> Vec<(u64, ST)> {
    let n = if fam == 1 { 3 } else { 4 };
    (0..n).filter(|i| ids[*i] != 0).map(|i| (ids[i], ts[i].clone().unwrap())).collect()
}
fn ins_ops(slot: usize, v: &[(u64, usize, bool)]) -> String { coq_list(v.iter().map(|(id, n, q)| format!("Insert {slot} {id} {n} {}", coq_bool(*q)))) }
/// insert one statement into the real store and replay it on the shadow; Some(description) if the store misbehaved
fn do_insert(st: &mut Store, sh: &mut Sh, slot: usize, stmt: &[(u64, ST)], via: usize, emitted: &mut Vec<(u64, usize, bool)>) -> Option<String> {
    let before = st.len(); let fam = st.fam();
    let res = st.insert([&stmt[0].1, &stmt[1].1, &stmt[2].1], stmt.get(3).map(|x| &x.1), via);
    let newly = st.len().wrapping_sub(before);
    let (news, early, left) = walk(sh, fam, std::slice::from_ref(&stmt.to_vec()), newly, emitted);
    if left != 0 { return Some(format!("inserting the statement {:?} made the term index of a {} grow by {newly} terms, {left} more than the statement has new terms", stmt.iter().map(|x| x.0).collect::<Vec<_>>(), st.kind())); }
    if res.is_err() != early { return Some(format!("inserting the statement {:?} into a {} returned {} although the index {}", stmt.iter().map(|x| x.0).collect::<Vec<_>>(), st.kind(), if res.is_err() { "an error" } else { "Ok" }, if early { "did not intern all its terms" } else { "interned all its terms" })); }
    if early { match cap(st) { Some(c) if sh.terms.len() == c => {} _ => return Some(format!("a {} holding {} terms refused a new term (TermIndexFullError)", st.kind(), sh.terms.len())) } }
    if let (Ok(Some(b)), Some(n)) = (res, news.first()) { if b != *n { return Some(format!("inserting the statement {:?} into a {} returned {b}, but the statement was {} the store", stmt.iter().map(|x| x.0).collect::<Vec<_>>(), st.kind(), if *n { "not yet in" } else { "already in" })); } }
    None
}
/// the statements (for a bare index: the terms) of a live store in ITERATION order, as the shadow spells them
/// an independent copy of a term handed out by a store (NOT Clone::clone: that one copies the pointers of borrowed strings)
fn deep<T: Term>(t: T) -> ST { t.into_term() }
fn source_seq(src: &Store, ids: &Ids) -> Vec<Vec<(u64, ST)>> {
    if src.fam() == 0 { (0..src.len()).map(|k| { let t = src.term_at(k); vec![(ids.id(t), deep(t))] }).collect() }
    else { src.stmts().iter().map(|(t, g)| { let mut v: Vec<(u64, ST)> = t.iter().map(|x| (ids.id(*x), deep(*x))).collect(); if let Some(g) = g { v.push((ids.id(*g), deep(*g))); } v }).collect() }
}

// =====================================================================================================================
// Directed clone / mutate / QUERY histories.  What a store answers must not depend on which queries it -- or a store it
// was cloned from / into -- answered BEFORE: the store is loaded by insertions only, cloned while no query was ever made,
// one side or both are mutated, and only then the first query is made: of ONE pattern shape, on ONE side; then every
// shape on the other side, then every shape on the first side; both sides are mutated again and swept again in the other
// order; finally the side queried first is dropped and the other one swept once more.  Every answer is compared with the
// shadow (the statements the side was given) and, for a sample of the scenarios, with the Coq model (C10/Query.v).
// Enumerated: 14 graph / dataset types x 8 mutation plans x side of the first query x shape of the first query.
// =====================================================================================================================
/// the statement table (g, s, p, o); 0 = default graph.  Graphs ignore g (their five triples are distinct)
const QST: [[u64; 4]; 5] = [[7, 1, 2, 3], [7, 4, 2, 3], [0, 1, 2, 5], [7, 4, 6, 5], [0, 4, 6, 3]];
fn qterm(i: u64) -> ST { match i { 1 => iri("http://q.example/s1"), 2 => iri("http://q.example/p1"), 3 => lit_lang("o1", "en"), 4 => bnode("s2"), 5 => lit_dt("5", &format!("{XSD}integer")), 6 => iri("http://q.example/p2"), _ => iri("http://q.example/g") } }
const QHEADER: &str = "From Sophia.C10 Require Import Model Query.\nDefinition QS (i : N) : quad := match i with 0 => Q 7 1 2 3 | 1 => Q 7 4 2 3 | 2 => Q 0 1 2 5 | 3 => Q 7 4 6 5 | _ => Q 0 4 6 3 end.\nDefinition QX (sid m i : N) : qop := QQuery sid (P m (QS i)).\nDefinition QL (l : list N) : qobs := OList (map QS l).\nDefinition QLG (l : list N) : qobs := OList (map (fun i => norm LightG (QS i)) l).";
const QBASE: usize = 1_000_000;
const QUIET_BASE: usize = 500_000;
const HOSTILE_BASE: usize = 2_000_000;
#[derive(Clone, Copy, Debug)]
struct QScen { kind: usize, plan: usize, first_side: usize, first_mask: u8 }
fn qscen_list() -> Vec<QScen> {
    let mut v = vec![];
    for kind in (0..NKINDS).filter(|k| fam_of(*k) != 0) { let nm = if fam_of(kind) == 1 { 8u8 } else { 16 };
        for plan in 0..8 { for first_side in 0..2 { for first_mask in 0..nm { v.push(QScen { kind, plan, first_side, first_mask }); } } } }
    v
}
fn design_of(kind: usize) -> &'static str { match kind { 3 | 10 | 12 | 15 => "LightG", 2 | 6 | 8 => "FastG", 5 | 14 | 16 => "LightD", _ => "FastD" } }
const SIDE: [&str; 2] = ["the original", "the clone"];
struct QRun { isg: bool, nm: u8, kind: &'static str, terms: Vec<ST>, tmap: std::collections::HashMap<ST, u64>, record: bool, doing: (&'static str, usize, u8, usize), sides: [Option<Store>; 2], shadow: [Vec<usize>; 2], ops: Vec<String>, obs: Vec<String>, hist: Vec<String>, fail: Option<String>, nq: usize }
impl QRun {
    fn parts(&self, j: usize) -> ([ST; 3], Option<ST>) { let q = QST[j]; ([self.terms[q[1] as usize].clone(), self.terms[q[2] as usize].clone(), self.terms[q[3] as usize].clone()], if q[0] == 0 { None } else { Some(self.terms[q[0] as usize].clone()) }) }
    fn same_stmt(&self, a: usize, b: usize) -> bool { if self.isg { QST[a][1..] == QST[b][1..] } else { QST[a] == QST[b] } }
    fn ins(&mut self, side: usize, j: usize) {
        if self.fail.is_some() { return; }
        let (t, g) = self.parts(j); self.doing = ("insert", side, 0, j);
        let r = self.sides[side].as_mut().unwrap().insert([&t[0], &t[1], &t[2]], g.as_ref(), 0);
        let was = self.shadow[side].iter().any(|x| self.same_stmt(*x, j)); if !was { self.shadow[side].push(j); }
        if self.record { self.hist.push(format!("insert S{j} into {}", SIDE[side])); self.ops.push(format!("QIns {side} (QS {j})")); }
        match r { Ok(Some(b)) => { if self.record { self.obs.push(format!("OBool {}", coq_bool(b))); } if b == was { self.fail = Some(format!("inserting S{j} into {} returned {b}, but the statement was {} there", SIDE[side], if was { "already" } else { "not yet" })); } }
            _ => { self.obs.push("ONone".into()); self.fail = Some(format!("inserting S{j} into {} failed", SIDE[side])); } }
    }
    fn rem(&mut self, side: usize, j: usize) {
        if self.fail.is_some() { return; }
        let (t, g) = self.parts(j); self.doing = ("remove", side, 0, j);
        let r = self.sides[side].as_mut().unwrap().remove([&t[0], &t[1], &t[2]], g.as_ref());
        let was = self.shadow[side].iter().any(|x| self.same_stmt(*x, j)); let isg = self.isg; self.shadow[side].retain(|x| !(if isg { QST[*x][1..] == QST[j][1..] } else { QST[*x] == QST[j] }));
        if self.record { self.hist.push(format!("remove S{j} from {}", SIDE[side])); self.ops.push(format!("QRem {side} (QS {j})")); }
        match r { Some(b) => { if self.record { self.obs.push(format!("OBool {}", coq_bool(b))); } if b != was { self.fail = Some(format!("removing S{j} from {} returned {b}, but the statement was {} there", SIDE[side], if was { "" } else { "not" })); } }
            None => { self.obs.push("ONone".into()); self.fail = Some("remove is not available".into()); } }
    }
    fn query(&mut self, side: usize, mask: u8, j: usize) {
        if self.fail.is_some() { return; }
        let (t, g) = self.parts(j); self.nq += 1; self.doing = ("query", side, mask, j);
        let got = self.sides[side].as_ref().unwrap().matching(mask, [&t[0], &t[1], &t[2]], g.as_ref());
        let tid = |t: &ST| -> u64 { self.tmap.get(t).copied().filter(|i| same_term(&self.terms[*i as usize], t)).unwrap_or(99) };
        let gq: Vec<[u64; 4]> = got.iter().map(|(t, g)| [g.as_ref().map(|g| tid(g)).unwrap_or(0), tid(&t[0]), tid(&t[1]), tid(&t[2])]).collect();
        let mut gi: Vec<Option<usize>> = gq.iter().map(|q| (0..QST.len()).find(|x| if self.isg { QST[*x][1..] == q[1..] && q[0] == 0 } else { QST[*x] == *q })).collect();
        let pos = |b: usize| [1usize, 2, 3, 0][b];
        let mut exp: Vec<usize> = self.shadow[side].iter().copied().filter(|x| (0..4).all(|b| mask >> b & 1 == 0 || (self.isg && b == 3) || QST[*x][pos(b)] == QST[j][pos(b)])).collect();
        if self.record { self.ops.push(format!("QX {side} {mask} {j}"));
        self.obs.push(if gi.iter().all(|x| x.is_some()) { format!("{} {}", if self.isg { "QLG" } else { "QL" }, coq_list(gi.iter().map(|x| x.unwrap().to_string()))) } else { format!("OList {}", coq_list(gq.iter().map(|q| format!("Q {} {} {} {}", q[0], q[1], q[2], q[3])))) });
        }
        gi.sort(); exp.sort();
        let shape: String = (0..4).filter(|b| mask >> b & 1 == 1).map(|b| ["s", "p", "o", "g"][b]).collect::<Vec<_>>().join(",");
        if self.record { self.hist.push(format!("query {} with the {} of S{j} as constants", SIDE[side], if shape.is_empty() { "nothing".to_string() } else { shape.clone() })); }
        if gi.len() != exp.len() || gi.iter().zip(exp.iter()).any(|(a, b)| *a != Some(*b)) {
            self.fail = Some(format!("{} answers the pattern with constants [{shape}] taken from S{j} = {:?} with {:?} (statements as g,s,p,o identifiers), but it holds {:?} and the matching ones are {:?}", SIDE[side], QST[j], gq, self.shadow[side].iter().map(|x| format!("S{x}")).collect::<Vec<_>>(), exp.iter().map(|x| format!("S{x}")).collect::<Vec<_>>()));
        }
    }
    fn sweep(&mut self, side: usize, probes: &[usize]) { for j in probes { for mask in 0..self.nm { self.query(side, mask, *j); } } }
}
/// record = keep the history as text and as Coq terms (the scenario is run again with it when it fails or is sampled for Coq)
fn run_qscen(k: usize, sc: &QScen, record: bool) -> (Option<String>, String, usize) {
    let isg = fam_of(sc.kind) == 1;
    let mut r = QRun { isg, nm: if isg { 8 } else { 16 }, kind: "", terms: (0..=7).map(qterm).collect(), tmap: (1..=7u64).map(|i| (qterm(i), i)).collect(), record, doing: ("", 0, 0, 0), sides: [Some(Store::mk(sc.kind, k % 4)), None], shadow: [vec![], vec![]], ops: vec![], obs: vec![], hist: vec![], fail: None, nq: 0 };
    r.kind = r.sides[0].as_ref().unwrap().kind();
    let res = { let r = &mut r; std::panic::catch_unwind(std::panic::AssertUnwindSafe(move || {
    r.ops.push(format!("QNew 0 {}", design_of(sc.kind))); r.obs.push("ONone".into());
    for j in 0..3 { r.ins(0, j); }
    // clone, in one of the 18 ways, before any query was made
    let via = k % NVIA; let (h, c, _) = clone_via(Held::Plain(r.sides[0].take().unwrap()), via); r.sides[0] = Some(h.unwrap()); r.sides[1] = Some(c); r.shadow[1] = r.shadow[0].clone();
    r.hist.push(format!("clone (way {via})")); r.ops.push("QClone 0 1".into()); r.obs.push("ONone".into());
    let x = sc.plan & 1; let y = 1 - x;
    match sc.plan >> 1 { 0 => r.ins(x, 3), 1 => r.rem(x, 0), 2 => { r.ins(x, 3); r.rem(y, 1); } _ => { r.rem(x, 0); r.ins(x, 3); } }
    let f = sc.first_side; let o = 1 - f;
    r.query(f, sc.first_mask, if sc.plan >> 1 == 1 { 0 } else { 3 });
    r.sweep(o, &[3, 0]); r.sweep(f, &[3, 0]);
    r.ins(y, 4); r.rem(x, 2);
    r.sweep(f, &[4, 2]); r.sweep(o, &[4, 2]);
    if r.fail.is_none() { r.sides[f] = None; r.hist.push(format!("drop {}", SIDE[f])); r.ops.push(format!("QDrop {f}")); r.obs.push("ONone".into()); }
    r.sweep(o, &[1]);
    })) };
    if res.is_err() && r.fail.is_none() { let (what, side, mask, j) = r.doing; let shape: String = (0..4).filter(|b| mask >> b & 1 == 1).map(|b| ["s", "p", "o", "g"][b]).collect::<Vec<_>>().join(",");
        r.fail = Some(format!("then `{what}` on {} with statement S{j}{} PANICKED: {}", SIDE[side], if what == "query" { format!(" (constants [{shape}])") } else { String::new() }, last_panic())); }
    let fail = r.fail.as_ref().map(|why| format!("directed clone/mutate/query history #{k} on a {} (S0..S4 = {:?} as g,s,p,o; 0 = default graph{}): [{}]: {why}", r.kind, QST, if isg { "; a graph ignores g" } else { "" }, r.hist.join("; ")));
    (fail, format!("qhist_ok {} {}", coq_list(r.ops.iter().cloned()), coq_list(r.obs.iter().cloned())), r.nq)
}

// =====================================================================================================================
// Safe but ILL-BEHAVED user-defined implementations of the public traits the stores accept.  No sequence of safe calls
// may be undefined behaviour, whatever such an implementation answers: the store may refuse or panic (cleanly), it must
// not abort the process or corrupt itself or its clones.  Every scenario runs in a SUBPROCESS (an abort cannot be caught).
// =====================================================================================================================
thread_local! { static BAD: std::cell::RefCell<Vec<String>> = std::cell::RefCell::new(vec![]); }
fn note_bad(b: Option<String>) { if let Some(b) = b { BAD.with(|v| v.borrow_mut().push(b)); } }
/// a well-behaved matcher around a user-defined term (the constant of a pattern)
#[derive(Clone, Copy)]
enum TMg<T> { K(T), A }
impl<T: Term + Copy> sophia_api::term::matcher::TermMatcher for TMg<T> {
    type Term = T;
    fn matches<T2: Term + ?Sized>(&self, t: &T2) -> bool { match self { TMg::K(k) => Term::eq(k, t.borrow_term()), TMg::A => true } }
    fn constant(&self) -> Option<&T> { if let TMg::K(k) = self { Some(k) } else { None } }
}
#[derive(Clone, Copy)]
enum GMg<T> { K(Option<T>), A }
impl<T: Term + Copy> sophia_api::term::matcher::GraphNameMatcher for GMg<T> {
    type Term = T;
    fn matches<T2: Term + ?Sized>(&self, g: GraphName<&T2>) -> bool { match self { GMg::K(k) => sophia_api::term::graph_name_eq(k.as_ref().map(|t| t.borrow_term()), g.map(|t| t.borrow_term())), GMg::A => true } }
    fn constant(&self) -> Option<GraphName<&T>> { if let GMg::K(k) = self { Some(k.as_ref()) } else { None } }
}
const HOSTILE_TERMS: &[(u8, &str)] = &[
    (0, "kind() = Iri, every accessor returns None"), (1, "kind() = BlankNode, every accessor returns None"), (2, "kind() = Literal, every accessor returns None"), (3, "kind() = Triple, every accessor returns None"), (4, "kind() = Variable, every accessor returns None"),
    (5, "kind() = Literal with a lexical form but neither datatype nor language tag"), (6, "kind() = Literal with a datatype but no lexical form"), (7, "kind() = Literal with a language tag but no lexical form"),
    (8, "kind() = Iri, EVERY accessor returns Some (bnode_id, lexical_form, datatype, language_tag, variable, triple too)"), (9, "kind() = BlankNode, only iri() returns Some"), (10, "kind() = Literal with a language tag AND the datatype xsd:integer"),
    (11, "kind() = Triple whose subject is a term of kind Iri without text"), (12, "kind() = Triple, triple() = None but to_triple() = Some"), (13, "kind() = Triple, triple() = Some but to_triple() = None"),
    (14, "kind() alternates between Iri and Literal from one call to the next"), (15, "kind() = Iri, iri() returns Some for its first calls and None afterwards"), (16, "kind() = Iri, iri() returns None for its first calls and Some afterwards"), (17, "kind() = Iri, iri() returns another text at every call"),
    (24, "a consistent term whose kind() turns to Variable after a few calls"), (25, "kind() = Variable, only iri() returns Some"), (26, "kind() = Iri with the empty text"), (27, "kind() = Triple nested 3 deep whose innermost object changes kind between calls"),
    (40, "a consistent term whose eq() always answers true"), (41, "a consistent term whose eq() always answers false"), (42, "a consistent term whose hash() feeds nothing"), (43, "a consistent term whose hash() feeds a counter (differs at every call)"), (44, "a consistent term whose cmp() always answers Less"), (45, "a consistent term whose eq() alternates"),
];
/// kind() and the accessors follow the table above, NOT the contract of `Term`; `n` counts the calls (the answers of some variants depend on it)
#[derive(Clone, Copy)]
struct Hostile<'a> { v: u8, depth: u8, n: &'a std::cell::Cell<u32>, good: &'a ST }
impl std::fmt::Debug for Hostile<'_> { fn fmt(&self, f: &mut std::fmt::Formatter<'_>) -> std::fmt::Result { write!(f, "Hostile({})", self.v) } }
impl<'a> Hostile<'a> {
    fn tick(&self) -> u32 { let c = self.n.get(); self.n.set(c.wrapping_add(1)); c }
    fn with(&self, v: u8) -> Hostile<'a> { Hostile { v, depth: self.depth + 1, n: self.n, good: self.good } }
    /// does the variant answer Some at accessor `acc` (0 iri, 1 bnode_id, 2 lexical_form, 3 datatype, 4 language_tag, 5 variable, 6 triple)?
    fn some(&self, acc: u8) -> bool { let c = self.tick(); match self.v {
        0..=4 => false, 5 => acc == 2, 6 => acc == 3, 7 => acc == 4, 8 => true, 9 => acc == 0, 10 => matches!(acc, 2 | 3 | 4), 11 | 13 | 27 => acc == 6, 12 => false,
        14 => matches!(acc, 0 | 2 | 3), 15 => acc == 0 && c < 3, 16 => acc == 0 && c >= 3, 17 | 26 => acc == 0, 25 => acc == 0,
        _ => match acc { 0 => self.good.iri().is_some(), 1 => self.good.bnode_id().is_some(), 2 => self.good.lexical_form().is_some(), 3 => self.good.datatype().is_some(), 4 => self.good.language_tag().is_some(), 5 => self.good.variable().is_some(), _ => self.good.triple().is_some() } } }
    fn faithful(&self) -> bool { self.v >= 24 && self.v != 25 && self.v != 26 && self.v != 27 }
}
impl<'a> Term for Hostile<'a> {
    type BorrowTerm<'x> = Hostile<'a> where Self: 'x;
    fn borrow_term(&self) -> Hostile<'a> { *self }
    fn kind(&self) -> TermKind { use TermKind::*; let c = self.tick(); match self.v {
        0 | 8 | 15 | 16 | 17 | 26 => Iri, 1 | 9 => BlankNode, 2 | 5 | 6 | 7 | 10 => Literal, 3 | 11 | 12 | 13 => Triple, 4 | 25 => Variable,
        14 => if c % 2 == 0 { Iri } else { Literal }, 24 => if c < 4 { self.good.kind() } else { Variable }, 27 => if self.depth >= 3 { if c % 2 == 0 { Literal } else { Iri } } else { Triple }, _ => self.good.kind() } }
    fn iri(&self) -> Option<sophia_api::term::IriRef<MownStr<'_>>> { if !self.some(0) { return None; } Some(sophia_api::term::IriRef::new_unchecked(
        if self.faithful() { MownStr::from(self.good.iri()?.as_str().to_string()) } else if self.v == 17 { MownStr::from(format!("http://hostile.example/{}", self.n.get())) } else if self.v == 26 { MownStr::from_ref("") } else { MownStr::from_ref("http://hostile.example/t") })) }
    fn bnode_id(&self) -> Option<sophia_api::term::BnodeId<MownStr<'_>>> { if !self.some(1) { return None; } Some(sophia_api::term::BnodeId::new_unchecked(if self.faithful() { MownStr::from(self.good.bnode_id()?.as_str().to_string()) } else { MownStr::from_ref("hb") })) }
    fn lexical_form(&self) -> Option<MownStr<'_>> { if !self.some(2) { return None; } Some(if self.faithful() { MownStr::from(self.good.lexical_form()?.to_string()) } else { MownStr::from_ref("hostile lexical form") }) }
    fn datatype(&self) -> Option<sophia_api::term::IriRef<MownStr<'_>>> { if !self.some(3) { return None; } Some(sophia_api::term::IriRef::new_unchecked(if self.faithful() { MownStr::from(self.good.datatype()?.as_str().to_string()) } else if self.v == 10 { MownStr::from_ref("http://www.w3.org/2001/XMLSchema#integer") } else { MownStr::from_ref("http://www.w3.org/2001/XMLSchema#string") })) }
    fn language_tag(&self) -> Option<sophia_api::term::LanguageTag<MownStr<'_>>> { if !self.some(4) { return None; } Some(sophia_api::term::LanguageTag::new_unchecked(if self.faithful() { MownStr::from(self.good.language_tag()?.as_str().to_string()) } else { MownStr::from_ref("en") })) }
    fn variable(&self) -> Option<sophia_api::term::VarName<MownStr<'_>>> { if !self.some(5) { return None; } Some(sophia_api::term::VarName::new_unchecked(if self.faithful() { MownStr::from(self.good.variable()?.as_str().to_string()) } else { MownStr::from_ref("hv") })) }
    fn triple(&self) -> Option<[Hostile<'a>; 3]> { if !self.some(6) { return None; } self.comps() }
    fn to_triple(self) -> Option<[Hostile<'a>; 3]> { self.tick(); match self.v { 12 => Some([self.with(100), self.with(100), self.with(100)]), 13 => None, _ => self.triple() } }
}
impl<'a> Hostile<'a> {
    fn comps(&self) -> Option<[Hostile<'a>; 3]> { match self.v {
        11 => Some([self.with(0), self.with(100), self.with(100)]), 27 => Some([self.with(100), self.with(100), self.with(27)]),
        8 | 13 => Some([self.with(100), self.with(100), self.with(100)]),
        _ => self.good.triple().map(|tr| [0, 1, 2].map(|i| Hostile { v: 100, depth: self.depth + 1, n: self.n, good: tr[i] })) } }
}
/// consistent kind and accessors (those of `good`), but eq / hash / cmp are overridden and do not agree with them
#[derive(Clone, Copy)]
struct Liar<'a> { v: u8, n: &'a std::cell::Cell<u32>, good: &'a ST }
impl std::fmt::Debug for Liar<'_> { fn fmt(&self, f: &mut std::fmt::Formatter<'_>) -> std::fmt::Result { write!(f, "Liar({})", self.v) } }
impl<'a> Term for Liar<'a> {
    type BorrowTerm<'x> = Liar<'a> where Self: 'x;
    fn borrow_term(&self) -> Liar<'a> { *self }
    fn kind(&self) -> TermKind { self.good.kind() }
    fn iri(&self) -> Option<sophia_api::term::IriRef<MownStr<'_>>> { self.good.iri() }
    fn bnode_id(&self) -> Option<sophia_api::term::BnodeId<MownStr<'_>>> { self.good.bnode_id() }
    fn lexical_form(&self) -> Option<MownStr<'_>> { self.good.lexical_form() }
    fn datatype(&self) -> Option<sophia_api::term::IriRef<MownStr<'_>>> { self.good.datatype() }
    fn language_tag(&self) -> Option<sophia_api::term::LanguageTag<MownStr<'_>>> { self.good.language_tag() }
    fn variable(&self) -> Option<sophia_api::term::VarName<MownStr<'_>>> { self.good.variable() }
    fn triple(&self) -> Option<[Liar<'a>; 3]> { self.good.triple().map(|tr| [0, 1, 2].map(|i| Liar { v: self.v, n: self.n, good: tr[i] })) }
    fn to_triple(self) -> Option<[Liar<'a>; 3]> { self.triple() }
    fn eq<T: Term>(&self, other: T) -> bool { let c = self.n.get(); self.n.set(c.wrapping_add(1)); match self.v { 40 => true, 41 => false, 45 => c % 2 == 0, _ => Term::eq(self.good, other) } }
    fn hash<H: std::hash::Hasher>(&self, state: &mut H) { let c = self.n.get(); self.n.set(c.wrapping_add(1)); match self.v { 42 => {} 43 => state.write_u32(c), _ => Term::hash(self.good, state) } }
    fn cmp<T: Term>(&self, other: T) -> std::cmp::Ordering { if self.v == 44 { std::cmp::Ordering::Less } else { Term::cmp(self.good, other) } }
}
const HOSTILE_MATCHERS: &[(u8, &str)] = &[(0, "constant() = Some(k) but matches() always answers false"), (1, "constant() alternates between Some(k) and None"), (2, "constant() alternates between two different terms"), (3, "constant() = Some(a term the store never saw) but matches() always answers true"),
    (4, "constant() = None, matches() alternates between true and false"), (5, "constant() = Some(k), matches() always answers true"), (6, "as a graph-name matcher: constant() alternates between the default graph and a name; as a term matcher: constant() = Some(a quoted triple)")];
/// a user-defined matcher whose constant() and matches() do not agree (also usable as a graph-name matcher)
#[derive(Clone, Copy)]
struct HM<'a> { v: u8, n: &'a std::cell::Cell<u32>, k: &'a ST, k2: &'a ST, absent: &'a ST }
impl<'a> HM<'a> {
    fn tick(&self) -> u32 { let c = self.n.get(); self.n.set(c.wrapping_add(1)); c }
    fn answer<T2: Term + ?Sized>(&self, t: Option<&T2>) -> bool { let c = self.tick(); match self.v { 0 => false, 3 | 5 => true, 4 => c % 2 == 0, _ => t.is_some_and(|t| Term::eq(self.k, t.borrow_term())) } }
    fn konst(&self) -> Option<&'a ST> { let c = self.tick(); match self.v { 0 | 5 => Some(self.k), 1 => if c % 2 == 0 { Some(self.k) } else { None }, 2 => Some(if c % 2 == 0 { self.k } else { self.k2 }), 3 => Some(self.absent), 6 => Some(self.k2), _ => None } }
}
impl<'a> sophia_api::term::matcher::TermMatcher for HM<'a> {
    type Term = ST;
    fn matches<T2: Term + ?Sized>(&self, t: &T2) -> bool { self.answer(Some(t)) }
    fn constant(&self) -> Option<&ST> { self.konst() }
}
impl<'a> sophia_api::term::matcher::GraphNameMatcher for HM<'a> {
    type Term = ST;
    fn matches<T2: Term + ?Sized>(&self, g: GraphName<&T2>) -> bool { self.answer(g) }
    fn constant(&self) -> Option<GraphName<&ST>> { if self.v == 6 { let c = self.tick(); return Some(if c % 2 == 0 { None } else { Some(self.k) }); } self.konst().map(Some) }
}
enum MX<'a> { H(HM<'a>), K(ST), A }
impl<'a> sophia_api::term::matcher::TermMatcher for MX<'a> {
    type Term = ST;
    fn matches<T2: Term + ?Sized>(&self, t: &T2) -> bool { match self { MX::H(h) => sophia_api::term::matcher::TermMatcher::matches(h, t), MX::K(k) => Term::eq(k, t.borrow_term()), MX::A => true } }
    fn constant(&self) -> Option<&ST> { match self { MX::H(h) => sophia_api::term::matcher::TermMatcher::constant(h), MX::K(k) => Some(k), MX::A => None } }
}
enum GX<'a> { H(HM<'a>), K(Option<ST>), A }
impl<'a> sophia_api::term::matcher::GraphNameMatcher for GX<'a> {
    type Term = ST;
    fn matches<T2: Term + ?Sized>(&self, g: GraphName<&T2>) -> bool { match self { GX::H(h) => sophia_api::term::matcher::GraphNameMatcher::matches(h, g), GX::K(k) => sophia_api::term::graph_name_eq(k.as_ref().map(|t| t.borrow_term()), g.map(|t| t.borrow_term())), GX::A => true } }
    fn constant(&self) -> Option<GraphName<&ST>> { match self { GX::H(h) => sophia_api::term::matcher::GraphNameMatcher::constant(h), GX::K(k) => Some(k.as_ref()), GX::A => None } }
}
const HOSTILE_SOURCES: &[(u8, &str)] = &[(0, "try_for_some_item answers Ok(true) several times without yielding anything, and yields again after having answered Ok(false)"), (1, "try_for_some_item yields ALL its items at every call, three calls"),
    (2, "size_hint_items() = (usize::MAX, Some(0)); two items"), (3, "yields one item, fails, and goes on yielding when called again"), (4, "size_hint_items() = (0, Some(0)); yields every item twice")];
/// a user-defined source that does not keep the contract of `Source`
struct HSrc<It: Clone> { v: u8, calls: u32, pos: usize, items: Vec<It> }
impl<It: Clone> sophia_api::source::Source for HSrc<It> {
    type Item<'x> = It;
    type Error = MyErr;
    fn try_for_some_item<E, F>(&mut self, mut f: F) -> sophia_api::source::StreamResult<bool, MyErr, E> where E: std::error::Error + Send + Sync + 'static, F: FnMut(It) -> Result<(), E> {
        use sophia_api::source::StreamError::{SinkError, SourceError};
        self.calls += 1; let c = self.calls;
        match self.v {
            0 => { if c <= 4 { return Ok(true); } if c == 5 + self.items.len() as u32 { return Ok(false); } if c > 8 + self.items.len() as u32 { return Ok(false); } let it = self.items[(c as usize - 5) % self.items.len()].clone(); f(it).map_err(SinkError)?; Ok(true) }
            1 => { for it in self.items.clone() { f(it).map_err(SinkError)?; } Ok(c < 3) }
            3 => { if c == 2 { return Err(SourceError(MyErr(7))); } if self.pos >= self.items.len() { return Ok(false); } let it = self.items[self.pos].clone(); self.pos += 1; f(it).map_err(SinkError)?; Ok(true) }
            4 => { if self.pos >= self.items.len() { return Ok(false); } let it = self.items[self.pos].clone(); self.pos += 1; f(it.clone()).map_err(SinkError)?; f(it).map_err(SinkError)?; Ok(true) }
            _ => { if self.pos >= self.items.len().min(2) { return Ok(false); } let it = self.items[self.pos].clone(); self.pos += 1; f(it).map_err(SinkError)?; Ok(true) }
        }
    }
    fn size_hint_items(&self) -> (usize, Option<usize>) { match self.v { 2 => (usize::MAX, Some(0)), 4 => (0, Some(0)), 0 => (1 << 40, None), _ => (0, None) } }
}
/// a store after anything was done to it through safe calls: its index passes the storage audit, owns all its strings, hands out
/// well-formed terms that it finds again, and (graphs, datasets) answers every pattern shape with the statements it lists
fn sane<X: St>(x: &X, what: &str) -> Option<String> { sane2(x, what, true) }
fn sane2<X: St>(x: &X, what: &str, shapes: bool) -> Option<String> {
    let ti = x.ti();
    let au = ti.verif_audit(); if au.iter().any(|b| !b) { return Some(format!("{what}: {} of its {} index entries do not hold the term of their key (storage audit)", au.iter().filter(|b| !**b).count(), au.len())); }
    let (keys, entries) = ti.verif_strings(); if keys.iter().chain(entries.iter()).any(|k| !k.2) { return Some(format!("{what}: a key or an index-table entry borrows a string instead of owning it")); }
    let mut own: Vec<(usize, usize)> = keys.iter().chain(entries.iter()).filter(|k| k.1 > 0).map(|k| (k.0, k.0 + k.1)).collect(); own.sort_unstable();
    if own.windows(2).any(|w| w[1].0 < w[0].1) { return Some(format!("{what}: two of its own strings overlap")); }
    for i in 0..ti.len() { let t = ti.get_term(<X::I as Index>::from_usize(i)); let d: ST = deep(t);
        if !same_term(t, &d) || !wf_accessors(&d) { return Some(format!("{what}: the term at index {i} is not well-formed: {t:?}")); }
        if ti.get_index(t).map(|j| j.into_usize()) != Some(i) { return Some(format!("{what}: the term at index {i} ({t:?}) is not found again by get_index")); } }
    if !shapes { return None; }
    x.shapes(&iri("http://absent.example/never-inserted")).map(|why| format!("{what}: {why}"))
}
/// kind() and the accessors of a SimpleTerm agree (they do by construction, unless the value was made out of garbage)
fn wf_accessors(t: &ST) -> bool { use TermKind::*; let k = t.kind();
    t.iri().is_some() == (k == Iri) && t.bnode_id().is_some() == (k == BlankNode) && t.lexical_form().is_some() == (k == Literal) && t.datatype().is_some() == (k == Literal) && t.variable().is_some() == (k == Variable) && t.triple().is_some() == (k == Triple)
        && (t.language_tag().is_none() || k == Literal) && t.triple().is_none_or(|tr| tr.iter().all(|c| wf_accessors(c))) }
fn listing<X: St>(x: &X) -> (Vec<ST>, Vec<String>) {
    let terms: Vec<ST> = x.terms_dyn().map(deep).collect();
    let mut st: Vec<String> = match Src::fam(x) { 1 => x.triples_dyn().map(|t| format!("{:?}", t.ok().unwrap().map(deep))).collect(), 2 => x.quads_dyn().map(|q| { let (g, t) = q.ok().unwrap(); format!("{:?} {:?}", t.map(deep), g.map(deep)) }).collect(), _ => vec![] };
    st.sort(); (terms, st)
}
fn disjoint<X: St>(a: &X, b: &X) -> bool {
    let f = |x: &X| { let (k, e) = x.ti().verif_strings(); k.into_iter().chain(e).filter(|s| s.1 > 0).map(|s| (s.0, s.0 + s.1)).collect::<Vec<_>>() };
    let (ra, rb) = (f(a), f(b)); !ra.iter().any(|x| rb.iter().any(|y| x.0 < y.1 && y.0 < x.1))
}
/// the child process: one class (0 terms, 1 matchers, 2 sources), one variant, one store type, every entry point
fn hostile_child<X: St>(class: u8, v: u8, kind: &str) {
    use std::io::Write;
    let (a, b, p, o, o2, g, fresh) = (iri("http://h.example/a"), bnode("hb0"), iri("http://h.example/p"), lit_lang("chat", "fr"), lit_dt("12", &format!("{XSD}integer")), iri("http://h.example/g"), iri("http://h.example/fresh"));
    let qt = triple(a.clone(), p.clone(), o2.clone()); let absent = iri("http://absent.example/never-inserted");
    let mut x = X::mk(1);
    let _ = x.ins([&a, &p, &o], Some(&g)); let _ = x.ins([&b, &p, &a], None); let _ = x.ins([&qt, &p, &o2], Some(&g));
    let c = x.clone(); let snap = listing(&c); let removing = |name: &str| name.contains("remove") || name.contains("retain");
    let n = std::cell::Cell::new(0u32);
    let mut bad: Vec<String> = vec![]; let mut ncalls = 0usize;
    let after = |x: &X, c: &X, pre: &(Vec<ST>, Vec<String>), name: &str, input: &str, outcome: &str, bad: &mut Vec<String>| {
      let n0 = bad.len();
      let r = std::panic::catch_unwind(std::panic::AssertUnwindSafe(|| {
        let mut b: Vec<String> = BAD.with(|v| std::mem::take(&mut *v.borrow_mut()));
        let now = listing(x);
        // (every pattern shape is queried again at the end of each entry point that changed what the store lists, and at the very end)
        if let Some(w) = sane2(x, "the store", false) { b.push(w); }
        if listing(c) != snap { b.push("a clone taken BEFORE the call no longer holds the terms and statements it was cloned with".into()); }
        if !disjoint(x, c) { b.push("the store and the clone taken before the call share string storage".into()); }
        if !removing(name) && !pre.1.iter().all(|s| now.1.contains(s)) { b.push(format!("the store lost statements it held before the call (it listed {:?}, it lists {:?})", pre.1, now.1)); }
        if now.0.len() < pre.0.len() || !pre.0.iter().zip(now.0.iter()).all(|(s, t)| same_term(s, t)) { b.push("the terms the store had interned before the call changed (a term index never forgets or renumbers a term)".into()); }
        b }));
      match r { Ok(b) => for w in b { bad.push(format!("{kind}: {name} with {input} ({outcome}): {w}")); },
          Err(_) => bad.push(format!("{kind}: {name} with {input} ({outcome}): afterwards the store or the clone taken before cannot be read back, the storage audit / content comparison PANICKED: {}", last_panic())) }
      // a store that cannot be read back any more: stop here (the findings are printed, the remaining store types run in a new process)
      if bad.len() > n0 && bad[n0..].iter().any(|b| b.contains("PANICKED")) { for b in bad.iter() { println!("BAD {b}"); } println!("HOSTILE-DONE 0 {}", bad.len()); std::process::exit(3); }
    };
    let run = |f: &mut dyn FnMut()| -> String { QUIET.with(|q| q.set(true)); let r = std::panic::catch_unwind(std::panic::AssertUnwindSafe(|| f())); QUIET.with(|q| q.set(false)); if r.is_ok() { "returned".into() } else { "panicked, caught".into() } };
    let at = |s: String| { println!("AT {s}"); let _ = std::io::stdout().flush(); };
    match class {
        0 => { let names = X::term_entries(); let npos = if Src::fam(&x) == 1 { 3 } else { 4 };
            let base: [&ST; 4] = [&a, &p, &o, &g];
            let starts: &[u32] = if matches!(v, 14 | 15 | 16 | 17 | 24 | 27 | 43 | 45) { &[0, 1] } else { &[0] };
            // the consistent counterpart only matters to the variants that follow it
            let ngood = if v >= 24 && !matches!(v, 25 | 26) { 3 } else { 1 };
            for e in 0..names.len() { let at_entry = listing(&x); for pos in 0..npos { for (gi, good) in [&fresh, base[pos], &qt].into_iter().take(if pos == 0 { ngood } else { ngood.min(2) }).enumerate() { for start in starts.iter().copied() {
                let input = format!("a user-defined term ({}) at position {} (its consistent counterpart: {}; call counter starting at {start}), well-behaved terms elsewhere", HOSTILE_TERMS.iter().find(|t| t.0 == v).map(|t| t.1).unwrap_or("?"), ["s", "p", "o", "g"][pos], ["a fresh IRI", "the term the store holds at that position", "a quoted triple the store holds"][gi]);
                at(format!("{kind} | {} | {input}", names[e])); n.set(start); ncalls += 1; let pre = listing(&x);
                let outcome = if v >= 40 { let h = Liar { v, n: &n, good }; let d = |i: usize| if i == pos { h } else { Liar { v: 100, n: &n, good: base[i] } }; run(&mut || x.term_entry(e, [d(0), d(1), d(2)], Some(d(3)))) }
                    else { let h = Hostile { v, depth: 0, n: &n, good }; let d = |i: usize| if i == pos { h } else { Hostile { v: 100, depth: 0, n: &n, good: base[i] } }; run(&mut || x.term_entry(e, [d(0), d(1), d(2)], Some(d(3)))) };
                after(&x, &c, &pre, names[e], &input, &outcome, &mut bad);
                if removing(names[e]) { let _ = x.ins([&a, &p, &o], Some(&g)); let _ = x.ins([&b, &p, &a], None); }
            } } }
            if listing(&x) != at_entry { if let Some(w) = sane(&x, "the store") { bad.push(format!("{kind}: after the calls of {} with user-defined terms ({}): {w}", names[e], HOSTILE_TERMS.iter().find(|t| t.0 == v).map(|t| t.1).unwrap_or("?"))); } } } }
        1 => { let names = X::matcher_entries(); let npos = if Src::fam(&x) == 1 { 3 } else { 4 };
            for e in 0..names.len() { let at_entry = listing(&x); for pos in 0..npos { for start in [0u32, 1] {
                let input = format!("a user-defined matcher ({}) at position {} (k = the term the store holds there; call counter starting at {start})", HOSTILE_MATCHERS.iter().find(|t| t.0 == v).map(|t| t.1).unwrap_or("?"), ["s", "p", "o", "g"][pos]);
                at(format!("{kind} | {} | {input}", names[e])); n.set(start); ncalls += 1; let pre = listing(&x);
                let h = HM { v, n: &n, k: [&a, &p, &o, &g][pos], k2: &qt, absent: &absent };
                let outcome = run(&mut || x.matcher_entry(e, pos, h, [&a, &p, &o]));
                after(&x, &c, &pre, names[e], &input, &outcome, &mut bad);
                if removing(names[e]) { let _ = x.ins([&a, &p, &o], Some(&g)); let _ = x.ins([&b, &p, &a], None); }
            } }
            if listing(&x) != at_entry { if let Some(w) = sane(&x, "the store") { bad.push(format!("{kind}: after the calls of {} with user-defined matchers: {w}", names[e])); } } } }
        _ => { let names = X::source_entries();
            let items: Vec<([&ST; 3], Option<&ST>)> = vec![([&a, &p, &o], Some(&g)), ([&fresh, &p, &qt], None), ([&b, &fresh, &o2], Some(&fresh))];
            for e in 0..names.len() {
                let input = format!("a user-defined source ({})", HOSTILE_SOURCES.iter().find(|t| t.0 == v).map(|t| t.1).unwrap_or("?"));
                at(format!("{kind} | {} | {input}", names[e])); ncalls += 1; let pre = listing(&x);
                let outcome = run(&mut || x.source_entry(e, v, &items));
                after(&x, &c, &pre, names[e], &input, &outcome, &mut bad);
            } }
    }
    if let Some(w) = sane(&x, "the store, after all the calls") { bad.push(format!("{kind}: {w}")); }
    if let Some(w) = sane(&c, "the clone taken before the calls") { bad.push(format!("{kind}: {w}")); }
    // finally: drop the store, the clone must still read as cloned
    drop(x); let junk: Vec<String> = (0..32).map(|k| format!("http://h.example/{k}")).collect(); std::hint::black_box(&junk);
    if listing(&c) != snap { bad.push(format!("{kind}: after the store was dropped, the clone taken at the beginning no longer holds what it was cloned with")); }
    for b in &bad { println!("BAD {b}"); }
    println!("HOSTILE-DONE {ncalls} {}", bad.len());
}
/// (class, variant, description) of every hostile scenario
fn hostile_variants() -> Vec<(u8, u8, &'static str)> {
    HOSTILE_TERMS.iter().map(|t| (0u8, t.0, t.1)).chain(HOSTILE_MATCHERS.iter().map(|t| (1u8, t.0, t.1))).chain(HOSTILE_SOURCES.iter().map(|t| (2u8, t.0, t.1))).collect()
}
/// the parent: one subprocess per (class, variant) going through the store types; an abnormal end (signal, abort, missing end
/// marker) is the failure, and the remaining store types are then run in a new subprocess
fn hostile_stream(sum: &mut Summary, only: Option<usize>) {
    let exe = std::env::current_exe().unwrap();
    // case identifier: HOSTILE_BASE + class * 100000 + variant * 100 + store type (99 = all of them)
    let mut jobs: Vec<(u8, u8, &'static str, usize, usize)> = vec![];
    for (class, v, desc) in hostile_variants() { let base = HOSTILE_BASE + class as usize * 100_000 + v as usize * 100;
        match only { None => jobs.push((class, v, desc, 0, NKINDS - 1)), Some(o) if o >= base && o < base + 100 => { let k = o - base; if k >= NKINDS { jobs.push((class, v, desc, 0, NKINDS - 1)) } else { jobs.push((class, v, desc, k, k)) } } _ => {} } }
    let spawn = |class: u8, v: u8, from: usize, to: usize| std::process::Command::new(&exe).args(["--hostile", &class.to_string(), &v.to_string(), &from.to_string(), &to.to_string()]).stdout(std::process::Stdio::piped()).stderr(std::process::Stdio::piped()).spawn();
    let par = 8usize; let mut calls = 0u64;
    for chunk in jobs.chunks(par) {
        // (each child is drained by its own thread: a child blocks once the pipe is full)
        let children: Vec<_> = chunk.iter().map(|(class, v, desc, from, to)| { let ch = spawn(*class, *v, *from, *to); (*class, *v, *desc, *to, std::thread::spawn(move || ch.and_then(|c| c.wait_with_output()))) }).collect();
        for (class, v, desc, to, th) in children {
            let what = ["user-defined term", "user-defined matcher", "user-defined source"][class as usize];
            let base = HOSTILE_BASE + class as usize * 100_000 + v as usize * 100;
            let mut res = th.join().unwrap();
            loop {
                let out = match res { Ok(o) => o, Err(e) => { sum.oracle_failures.push(((base + 99).to_string(), format!("could not run the subprocess of the scenario ({what}: {desc}): {e}"))); break; } };
                let so = String::from_utf8_lossy(&out.stdout).to_string(); let se = String::from_utf8_lossy(&out.stderr).to_string();
                if only.is_some() { println!("{so}\n{}", se.lines().rev().take(20).collect::<Vec<_>>().into_iter().rev().collect::<Vec<_>>().join("\n")); }
                for d in so.lines().filter_map(|l| l.strip_prefix("HOSTILE-DONE ")) { calls += d.split(' ').next().and_then(|x| x.parse::<u64>().ok()).unwrap_or(0); sum.evaluations += 1; sum.bump(&format!("hostile:{what}")); }
                let bads: Vec<&str> = so.lines().filter_map(|l| l.strip_prefix("BAD ")).collect();
                let kind_at = so.lines().rev().find_map(|l| l.strip_prefix("KIND ")).and_then(|k| k.parse::<usize>().ok());
                if let Some(b) = bads.first() { sum.oracle_failures.push(((base + if out.status.success() { 99 } else { kind_at.unwrap_or(99) }).to_string(), format!("safe calls with an ill-behaved {what} left a store or its clone corrupted ({} findings; first): {b}", bads.len()))); }
                if out.status.success() && so.lines().any(|l| l == "HOSTILE-END") { break; }
                if out.status.code() == Some(3) && !bads.is_empty() { match kind_at { Some(k) if k < to => { res = spawn(class, v, k + 1, to).and_then(|c| c.wait_with_output()); continue; } _ => break } }
                let last = so.lines().rev().find_map(|l| l.strip_prefix("AT ")).unwrap_or("(before the first call)");
                #[cfg(unix)] let sig = { use std::os::unix::process::ExitStatusExt; out.status.signal().map(|s| format!(", signal {s}")).unwrap_or_default() };
                #[cfg(not(unix))] let sig = String::new();
                let tail: String = se.lines().rev().take(4).collect::<Vec<_>>().into_iter().rev().collect::<Vec<_>>().join(" / ");
                sum.oracle_failures.push(((base + kind_at.unwrap_or(99)).to_string(), format!("a sequence of SAFE calls killed the process ({}{sig}) instead of returning or panicking: store type | entry point | input = {last}; the store had been filled with 3 statements and cloned before.  Last output: {}", out.status, tail.chars().take(600).collect::<String>())));
                sum.evaluations += 1; sum.bump(&format!("hostile:{what}"));
                // the store types that were not reached
                match kind_at { Some(k) if k < to => { res = spawn(class, v, k + 1, to).and_then(|c| c.wait_with_output()); } _ => break }
            }
        }
    }
    sum.bump_by("hostile:calls of store entry points (each followed by the storage audit and the content comparison of the store and of a clone taken before)", calls);
}


// =====================================================================================================================
// Round 7, directed clone / mutate / OBSERVE histories (cases ABASE..): as the directed query histories above, with the
// other observation methods.  The store is loaded by insertions only (terms of every kind, three graph names, quoted
// triples, a variable), one accessor is possibly called on it BEFORE the clone (a value cached then is cloned with the
// store), it is cloned in one of the 18 ways, one side or both are mutated so that what the accessors must yield changes
// (a new graph name arrives, a graph loses its last quad, a subject / a quoted triple / a literal disappears), and only
// then the FIRST observation is made: ONE accessor (or contains) on ONE side; then every accessor on the other side, then
// on the first side; both sides are mutated again and swept in the other order; the side observed first is dropped and
// the other one swept again.  Every answer is compared with the oracle (expected_acc on the statements the side was
// given) and, for a sample, with the Coq model C10/Observe.v (the term accessors and contains).
// =====================================================================================================================
const ABASE: usize = 1_500_000;
/// (g, s, p, o); 0 = default graph
const AST: [[u64; 4]; 7] = [[7, 1, 2, 3], [7, 4, 2, 5], [0, 1, 6, 10], [8, 4, 6, 3], [0, 10, 2, 11], [9, 12, 2, 13], [8, 1, 2, 11]];
fn aterm(i: u64) -> ST { match i { 1 => iri("http://a.example/s1"), 2 => iri("http://a.example/p1"), 3 => lit_lang("o1", "en"), 4 => bnode("b1"), 5 => lit_dt("5", &format!("{XSD}integer")), 6 => iri("http://a.example/p2"), 7 => iri("http://a.example/g1"), 8 => iri("http://a.example/g2"), 9 => bnode("g3"),
    10 => triple(aterm(4), aterm(6), aterm(5)), 11 => var("v"), 12 => iri("http://a.example/s3"), 13 => triple(aterm(10), aterm(2), aterm(1)), _ => iri("http://a.example/none") } }
const AHEADER: &str = "From Sophia.C10 Require Import Observe.\nDefinition AS (i : N) : quad := match i with 0 => Q 7 1 2 3 | 1 => Q 7 4 2 5 | 2 => Q 0 1 6 10 | 3 => Q 8 4 6 3 | 4 => Q 0 10 2 11 | 5 => Q 9 12 2 13 | _ => Q 8 1 2 11 end.\nDefinition ASG : tsig := [(1, KIri); (2, KIri); (3, KLit); (4, KBnode); (5, KLit); (6, KIri); (7, KIri); (8, KIri); (9, KBnode); (10, KTriple 4 6 5); (11, KVar); (12, KIri); (13, KTriple 10 2 1)].\nDefinition AI (sid i : N) : aop := AQ (QIns sid (AS i)).\nDefinition AR (sid i : N) : aop := AQ (QRem sid (AS i)).\nDefinition AH (sid i : N) : aop := AHas sid (AS i).\nDefinition AB (b : bool) : aobs := AO (OBool b).";
#[derive(Clone, Copy, Debug)]
struct AScen { kind: usize, plan: usize, first_side: usize, first_acc: usize, pre: bool }
fn nacc(kind: usize) -> usize { if fam_of(kind) == 1 { GACC.len() } else { DACC.len() } }
fn ascen_list() -> Vec<AScen> {
    let mut v = vec![];
    // (the table has 13 terms: the types over the tiny capacity-limited indexes are left to the query histories)
    for kind in (0..NKINDS).filter(|k| fam_of(*k) != 0 && !matches!(*k, 8 | 15 | 16 | 17)) { for plan in 0..8 { for first_side in 0..2 { for first_acc in 0..=nacc(kind) { for pre in [false, true] { v.push(AScen { kind, plan, first_side, first_acc, pre }); } } } } }
    v
}
/// the constructor of the Coq model for the accessor `name`, if the model has it
fn coq_acc(name: &str) -> Option<&'static str> { Some(match name { "subjects()" => "ASubjects", "predicates()" => "APredicates", "objects()" => "AObjects", "graph_names()" => "AGraphNames", "iris()" => "AIris", "blank_nodes()" => "ABnodes", "literals()" => "ALiterals", "quoted_triples()" => "AQuoted", "variables()" => "AVariables", _ => return None }) }
struct ARun { isg: bool, fam: u8, kind: &'static str, terms: Vec<ST>, rmap: std::collections::HashMap<String, u64>, record: bool, doing: String, sides: [Option<Store>; 2], shadow: [Vec<usize>; 2], ops: Vec<String>, obs: Vec<String>, hist: Vec<String>, fail: Option<String>, nobs: usize }
impl ARun {
    fn parts(&self, j: usize) -> ([ST; 3], Option<ST>) { let q = AST[j]; ([self.terms[q[1] as usize].clone(), self.terms[q[2] as usize].clone(), self.terms[q[3] as usize].clone()], if q[0] == 0 { None } else { Some(self.terms[q[0] as usize].clone()) }) }
    fn same_stmt(&self, a: usize, b: usize) -> bool { if self.isg { AST[a][1..] == AST[b][1..] } else { AST[a] == AST[b] } }
    fn ins(&mut self, side: usize, j: usize) {
        if self.fail.is_some() { return; }
        let (t, g) = self.parts(j); self.doing = format!("insert A{j} into {}", SIDE[side]);
        let r = self.sides[side].as_mut().unwrap().insert([&t[0], &t[1], &t[2]], g.as_ref(), 0);
        let was = self.shadow[side].iter().any(|x| self.same_stmt(*x, j)); if !was { self.shadow[side].push(j); }
        self.hist.push(self.doing.clone()); if self.record { self.ops.push(format!("AI {side} {j}")); }
        match r { Ok(Some(b)) => { if self.record { self.obs.push(format!("AB {}", coq_bool(b))); } if b == was { self.fail = Some(format!("inserting A{j} into {} returned {b}, but the statement was {} there", SIDE[side], if was { "already" } else { "not yet" })); } }
            _ => { self.fail = Some(format!("inserting A{j} into {} failed", SIDE[side])); } }
    }
    fn rem(&mut self, side: usize, j: usize) {
        if self.fail.is_some() { return; }
        let (t, g) = self.parts(j); self.doing = format!("remove A{j} from {}", SIDE[side]);
        let r = self.sides[side].as_mut().unwrap().remove([&t[0], &t[1], &t[2]], g.as_ref());
        let was = self.shadow[side].iter().any(|x| self.same_stmt(*x, j)); let isg = self.isg; self.shadow[side].retain(|x| !(if isg { AST[*x][1..] == AST[j][1..] } else { AST[*x] == AST[j] }));
        self.hist.push(self.doing.clone()); if self.record { self.ops.push(format!("AR {side} {j}")); }
        match r { Some(b) => { if self.record { self.obs.push(format!("AB {}", coq_bool(b))); } if b != was { self.fail = Some(format!("removing A{j} from {} returned {b}, but the statement was {} there", SIDE[side], if was { "" } else { "not" })); } }
            None => { self.fail = Some("remove is not available".into()); } }
    }
    /// one accessor (k < number of accessors) or `contains` of every statement of the table (k = number of accessors)
    fn observe(&mut self, side: usize, k: usize) {
        if self.fail.is_some() { return; }
        let names: &[&str] = if self.isg { &GACC } else { &DACC };
        if k >= names.len() {
            for j in 0..AST.len() { let (t, g) = self.parts(j); self.doing = format!("contains(A{j}) on {}", SIDE[side]); self.nobs += 1;
                let got = self.sides[side].as_ref().unwrap().has([&t[0], &t[1], &t[2]], g.as_ref()); let want = self.shadow[side].iter().any(|x| self.same_stmt(*x, j));
                if self.record { self.hist.push(self.doing.clone()); self.ops.push(format!("AH {side} {j}")); self.obs.push(format!("AB {}", coq_bool(got == Some(true)))); }
                if got != Some(want) { if !self.record { self.hist.push(self.doing.clone()); } self.fail = Some(format!("contains(A{j}) on {} answers {got:?}, but it holds {:?}", SIDE[side], self.shadow[side].iter().map(|x| format!("A{x}")).collect::<Vec<_>>())); return; } }
            return;
        }
        self.doing = format!("{} on {}", names[k], SIDE[side]); self.nobs += 1;
        let rec = self.record;
        let got = self.sides[side].as_ref().unwrap().accessors(Some(k), rec).pop().unwrap();
        let held_ref: Vec<([&ST; 3], Option<&ST>)> = self.shadow[side].iter().map(|j| { let q = AST[*j]; ([&self.terms[q[1] as usize], &self.terms[q[2] as usize], &self.terms[q[3] as usize]], if self.isg || q[0] == 0 { None } else { Some(&self.terms[q[0] as usize]) }) }).collect();
        let exp = expected_acc_of(self.fam, &held_ref, rec, Some(k)).swap_remove(k);
        // (without the record, only the hashes are compared; a history that fails is run again with the record)
        if !rec { if as_set(&got.1) != as_set(&exp.1) { self.hist.push(self.doing.clone()); self.fail = Some(format!("{} on {} does not yield what it must", names[k], SIDE[side])); } return; }
        if self.record { self.hist.push(self.doing.clone()); if let Some(c) = coq_acc(names[k]) { self.ops.push(format!("AObs {side} {c}")); self.obs.push(format!("ASet {}", coq_list(got.2.iter().map(|r| self.rmap.get(r).copied().unwrap_or(99).to_string())))); } }
        if as_set(&got.2) != as_set(&exp.2) || as_set(&got.1) != as_set(&exp.1) { if !self.record { self.hist.push(self.doing.clone()); }
            self.fail = Some(format!("{} on {} yields {:?}, but it holds {:?} and must yield {:?}", names[k], SIDE[side], as_set(&got.2), self.shadow[side].iter().map(|x| format!("A{x}")).collect::<Vec<_>>(), as_set(&exp.2))); }
    }
    fn sweep(&mut self, side: usize) { let n = if self.isg { GACC.len() } else { DACC.len() }; for k in 0..=n { self.observe(side, k); } }
}
fn run_ascen(k: usize, sc: &AScen, record: bool) -> (Option<String>, String, usize) {
    let isg = fam_of(sc.kind) == 1;
    let terms: Vec<ST> = (0..=13).map(aterm).collect();
    let mut r = ARun { isg, fam: fam_of(sc.kind), kind: "", rmap: (1..=13u64).map(|i| (rend(&terms[i as usize]), i)).collect(), terms, record, doing: String::new(), sides: [Some(Store::mk(sc.kind, k % 4)), None], shadow: [vec![], vec![]], ops: vec![], obs: vec![], hist: vec![], fail: None, nobs: 0 };
    r.kind = r.sides[0].as_ref().unwrap().kind();
    let res = { let r = &mut r; std::panic::catch_unwind(std::panic::AssertUnwindSafe(move || {
    r.ops.push(format!("AQ (QNew 0 {})", design_of(sc.kind))); r.obs.push("AO ONone".into());
    for j in 0..3 { r.ins(0, j); }
    if sc.pre { r.observe(0, sc.first_acc); }
    let via = k % NVIA; let (h, c, _) = clone_via(Held::Plain(r.sides[0].take().unwrap()), via); r.sides[0] = Some(h.unwrap()); r.sides[1] = Some(c); r.shadow[1] = r.shadow[0].clone();
    r.hist.push(format!("clone (way {via})")); r.ops.push("AQ (QClone 0 1)".into()); r.obs.push("AO ONone".into());
    let x = sc.plan & 1; let y = 1 - x;
    match sc.plan >> 1 { 0 => r.ins(x, 3), 1 => r.rem(x, 2), 2 => { r.ins(x, 5); r.rem(y, 0); r.rem(y, 1); } _ => { r.rem(x, 0); r.rem(x, 1); r.ins(x, 3); } }
    let f = sc.first_side; let o = 1 - f;
    r.observe(f, sc.first_acc);
    r.sweep(o); r.sweep(f);
    r.ins(y, 4); r.rem(x, 2); r.ins(x, 6);
    r.sweep(f); r.sweep(o);
    if r.fail.is_none() { r.sides[f] = None; r.hist.push(format!("drop {}", SIDE[f])); r.ops.push(format!("AQ (QDrop {f})")); r.obs.push("AO ONone".into()); }
    r.sweep(o);
    })) };
    if res.is_err() && r.fail.is_none() { r.fail = Some(format!("then `{}` PANICKED: {}", r.doing, my_panic())); }
    let fail = r.fail.as_ref().map(|why| format!("directed clone/mutate/observe history #{k} on a {} (A0..A6 = {:?} as g,s,p,o; 0 = default graph{}; terms 1 s1, 2 p1, 3 \"o1\"@en, 4 _:b1, 5 \"5\"^^xsd:integer, 6 p2, 7 g1, 8 g2, 9 _:g3, 10 << _:b1 p2 5 >>, 11 ?v, 12 s3, 13 << <<10>> p1 s1 >>): [{}]: {why}", r.kind, AST, if isg { "; a graph ignores g" } else { "" }, r.hist.join("; ")));
    (fail, format!("ahist_ok ASG {} {}", coq_list(r.ops.iter().cloned()), coq_list(r.obs.iter().cloned())), r.nobs)
}

// =====================================================================================================================
// Round 7, SIZE thresholds (cases BIG_BASE..): an implementation may copy, query or release a store differently from a
// certain size on (parallel copies, other containers, bulk paths).  One store per store type is grown ONCE per run along
// a ladder of sizes just below, at and just above powers of two (2^10, 2^16, 2^17 statements in the quick tier; 2^20 as
// well in the thorough tier); at every rung it is cloned (Clone and clone_from at every rung, each of the 18 ways at the
// rungs just above a power of two), and the clone and the original are compared with the oracle (the statements that were
// inserted): every pattern shape for a probe statement, the number of statements listed, the full listing and every
// accessor for the plain clone; then the clone is mutated (a removal, an insertion of new terms) and both are compared
// again, the clone is cloned and dropped, and at the end of the rung the ORIGINAL is dropped and its last clone goes on
// growing.  The same for term indexes (and stores) holding 2^16 / 2^17 DISTINCT terms.  One history of 257 statements
// per design is also evaluated by the Coq model (C10/Query.v).
// =====================================================================================================================
const BIG_BASE: usize = 3_000_000;
const BIG_NO: usize = 128; const BIG_NP: usize = 16;
/// the i-th statement (s, p, o, g) of the big stores: identifiers 1e6.. subjects, 2e6.. predicates, 3e6.. objects, 4e6+1..3 graph names (0 = default graph)
fn big_stmt(i: usize, isg: bool) -> [u64; 4] { let (o, p, s) = (i % BIG_NO, (i / BIG_NO) % BIG_NP, i / (BIG_NO * BIG_NP)); [1_000_000 + s as u64, 2_000_000 + p as u64, 3_000_000 + o as u64, if isg || (s + o) % 4 == 0 { 0 } else { 4_000_000 + ((s + o) % 4) as u64 }] }
const BIG_NEW: [u64; 4] = [1_999_999, 2_999_999, 3_999_999, 4_000_009];
fn big_term(id: u64) -> ST { iri(&format!("http://big.example/{}{}", ["", "s", "p", "o", "g", "t"][(id / 1_000_000) as usize], id % 1_000_000)) }
fn big_id<T: Term>(t: T) -> u64 { t.iri().and_then(|i| { let x = i.as_str().strip_prefix("http://big.example/")?; let k = match x.as_bytes().first()? { b's' => 1, b'p' => 2, b'o' => 3, b'g' => 4, b't' => 5, _ => return None }; x[1..].parse::<u64>().ok().map(|n| k * 1_000_000 + n) }).unwrap_or(u64::MAX) }
#[derive(Default)]
struct SideOut { fails: Vec<(String, String)>, bumps: Vec<(String, u64)>, evals: u64, nontrivial: u64, coq: Vec<(usize, String)> }
impl SideOut { fn bump(&mut self, k: &str, n: u64) { if let Some(e) = self.bumps.iter_mut().find(|e| e.0 == k) { e.1 += n; } else { self.bumps.push((k.into(), n)); } }
    fn merge(&mut self, o: SideOut) { self.fails.extend(o.fails); for (k, n) in o.bumps { self.bump(&k, n); } self.evals += o.evals; self.nontrivial += o.nontrivial; self.coq.extend(o.coq); } }
fn big_answers(s: &Store, mask: u8, p: &[ST; 4], g0: bool) -> Vec<[u64; 4]> { let mut v = s.matching_ids(mask, [&p[0], &p[1], &p[2]], if g0 { None } else { Some(&p[3]) }); v.sort_unstable(); v }
/// every pattern shape but the listing (mask 0, unless `with0`) for the probe, against `exp` minus `minus` plus `plus`
fn big_shapes(s: &Store, who: &str, nm: u8, probe: [u64; 4], exp: &[Vec<[u64; 4]>], minus: Option<[u64; 4]>, with0: bool) -> Option<String> {
    let p = [big_term(probe[0]), big_term(probe[1]), big_term(probe[2]), big_term(probe[3].max(4_000_001))];
    for mask in (if with0 { 0 } else { 1 })..nm { let got = big_answers(s, mask, &p, probe[3] == 0); let want: Vec<[u64; 4]> = exp[mask as usize].iter().copied().filter(|q| Some(*q) != minus).collect();
        if got != want { let shape: String = (0..4).filter(|b| mask >> b & 1 == 1).map(|b| ["s", "p", "o", "g"][b]).collect::<Vec<_>>().join(",");
            return Some(format!("{who} answers the pattern with the constants [{shape}] of the statement {probe:?} (identifiers s, p, o, g; 0 = default graph) with {} statements (first ones {:?}), but {} of the statements it was given match (first ones {:?})", got.len(), got.iter().take(3).collect::<Vec<_>>(), want.len(), want.iter().take(3).collect::<Vec<_>>())); } }
    None
}
fn big_ladder(kind: usize, sizes: &[usize], seed: u64, out: &mut SideOut) {
    let isg = fam_of(kind) == 1; let nm: u8 = if isg { 8 } else { 16 };
    let mut store = Store::mk(kind, 1); let kname = store.kind(); let mut shadow: Vec<[u64; 4]> = vec![];
    let tcache: std::cell::RefCell<std::collections::HashMap<u64, ST>> = Default::default();
    let term = |id: u64| -> ST { tcache.borrow_mut().entry(id).or_insert_with(|| big_term(id)).clone() };
    let largest = *sizes.iter().max().unwrap();
    for (rung, &n) in sizes.iter().enumerate() {
        let case = BIG_BASE + kind * 100 + rung; out.evals += 1; out.nontrivial += 1; let t_rung = std::time::Instant::now();
        let mut stage = String::from("growing the store");
        let mut fail: Option<String> = None;
        let r = std::panic::catch_unwind(std::panic::AssertUnwindSafe(|| {
            while shadow.len() < n { let q = big_stmt(shadow.len(), isg); let (a, b, c) = (term(q[0]), term(q[1]), term(q[2])); let g = if q[3] == 0 { None } else { Some(term(q[3])) };
                if store.insert([&a, &b, &c], g.as_ref(), 0) != Ok(Some(true)) { fail = Some(format!("inserting the new statement {q:?} (#{}) did not return Ok(true)", shadow.len())); return; } shadow.push(q); }
            let probe = big_stmt(n / 2, isg);
            let exp: Vec<Vec<[u64; 4]>> = (0..nm).map(|mask| { let mut v: Vec<[u64; 4]> = shadow.iter().copied().filter(|q| (0..4).all(|b| mask >> b & 1 == 0 || q[b] == probe[b])).collect(); v.sort_unstable(); v }).collect();
            // just above a power of two: Clone, clone_from and one more way (all 18 ways up to 2^10 + 1 statements); below and at it: Clone
            let above = (n - 1).is_power_of_two();
            let vias: Vec<usize> = if above && n <= 2048 { (0..NVIA).collect() } else if above { vec![0, 16, 1 + (seed as usize + rung + kind) % 15] } else { vec![0] };
            for via in vias {
                if std::env::var("BIG_TRACE").is_ok() { eprintln!("BIG   {kname} rung {n} via {via} at {} ms", t_rung.elapsed().as_millis()); }
                stage = format!("cloning it (way {via})");
                let (h, mut c, _) = clone_via(Held::Plain(std::mem::replace(&mut store, Store::mk(kind, 0))), via); store = h.unwrap();
                let what = format!("a clone (way {via}) of a store of {n} statements");
                stage = format!("querying {what}");
                if c.stmts().len() != n { fail = Some(format!("{what} lists {} statements", c.stmts().len())); return; }
                if let Some(w) = big_shapes(&c, &what, nm, probe, &exp, None, via == 0 && above) { fail = Some(w); return; }
                if via == 0 && above {
                    let mut got: Vec<[u64; 4]> = c.stmts().iter().map(|(t, g)| [big_id(t[0]), big_id(t[1]), big_id(t[2]), g.map(|g| big_id(g)).unwrap_or(0)]).collect(); got.sort_unstable();
                    if got != exp[0] { let k = got.iter().zip(exp[0].iter()).position(|(a, b)| a != b).unwrap_or(0); fail = Some(format!("{what} does not list the statements of its original: {} statements, the {k}-th in sorted order is {:?}, expected {:?}", got.len(), got.get(k), exp[0].get(k))); return; }
                    if n == largest || n == 1025 { stage = format!("calling the accessors of {what}");
                        let ts: Vec<[ST; 4]> = shadow.iter().map(|q| [term(q[0]), term(q[1]), term(q[2]), term(q[3].max(4_000_001))]).collect();
                        let st: Vec<([&ST; 3], Option<&ST>)> = ts.iter().zip(shadow.iter()).map(|(t, q)| ([&t[0], &t[1], &t[2]], if q[3] == 0 { None } else { Some(&t[3]) })).collect();
                        if n <= 2048 { if let Some(w) = acc_mismatch(&c, &st, &iri("http://absent.example/never-inserted")) { fail = Some(format!("{what}: {w}")); return; } }
                        else { let k = (seed as usize + kind) % nacc(kind); let (got, exp) = (c.accessors(Some(k), false).pop().unwrap(), expected_acc(fam_of(kind), &st, false).swap_remove(k));
                            if as_set(&got.1) != as_set(&exp.1) { fail = Some(format!("{what}: {} yields {} distinct items, {} expected", got.0, as_set(&got.1).len(), as_set(&exp.1).len())); return; } } }
                }
                stage = format!("querying the original after {what} was made");
                if via == 0 { if let Some(w) = big_shapes(&store, &format!("the original of {what}"), nm, probe, &exp, None, false) { fail = Some(w); return; } }
                stage = format!("mutating {what}");
                let pt = [term(probe[0]), term(probe[1]), term(probe[2]), term(probe[3].max(4_000_001))]; let nt = [term(BIG_NEW[0]), term(BIG_NEW[1]), term(BIG_NEW[2]), term(BIG_NEW[3])];
                let r1 = c.remove([&pt[0], &pt[1], &pt[2]], if probe[3] == 0 { None } else { Some(&pt[3]) }); let r2 = c.insert([&nt[0], &nt[1], &nt[2]], Some(&nt[3]), 0);
                if r1 != Some(true) || r2 != Ok(Some(true)) { fail = Some(format!("removing the statement {probe:?} from {what} returned {r1:?}, inserting a statement of new terms returned {r2:?}; expected Some(true), Ok(Some(true))")); return; }
                stage = format!("querying {what} after a removal and an insertion");
                if let Some(w) = big_shapes(&c, &format!("{what}, the statement {probe:?} removed and a new one inserted,"), nm, probe, &exp, Some(probe), false) { fail = Some(w); return; }
                let newq = [BIG_NEW[0], BIG_NEW[1], BIG_NEW[2], if isg { 0 } else { BIG_NEW[3] }];
                for mask in [1u8, 2, 4, 7, nm - 1] { let got = big_answers(&c, mask, &nt, false); if got != vec![newq] { fail = Some(format!("{what}, mutated, answers the pattern of shape {mask:04b} (gops) made of the statement of new terms just inserted into it with {:?}", got.iter().take(3).collect::<Vec<_>>())); return; } }
                if c.stmts().len() != n { fail = Some(format!("{what} lists {} statements after one removal and one insertion", c.stmts().len())); return; }
                stage = format!("querying the original after {what} was mutated");
                if via == 0 || n <= 2048 { if let Some(w) = big_shapes(&store, &format!("the original of {what}, after the clone was mutated,"), nm, probe, &exp, None, false) { fail = Some(w); return; } }
                else { for mask in [2u8, 5, nm - 1] { if big_answers(&store, mask, &pt, probe[3] == 0) != exp[mask as usize] { fail = Some(format!("the original of {what}, after the clone was mutated, no longer answers the pattern of shape {mask:04b} (gops) of {probe:?} with the {} statements it was given that match", exp[mask as usize].len())); return; } } }
                if store.stmts().len() != n { fail = Some(format!("the original of {what} lists {} statements after the clone was mutated", store.stmts().len())); return; }
                if via % 2 == 1 { stage = format!("cloning {what} again and dropping it"); let d = c.clone(); drop(c);
                    if let Some(w) = big_shapes(&d, &format!("a clone of {what} (mutated, then dropped)"), nm, probe, &exp, Some(probe), false) { fail = Some(w); return; } }
            }
            // the original is dropped, its last clone goes on growing
            stage = "dropping the original and querying its last clone".into();
            let c = store.clone(); drop(std::mem::replace(&mut store, c));
            if let Some(w) = big_shapes(&store, &format!("a clone of a store of {n} statements, the original dropped,"), nm, probe, &exp, None, false) { fail = Some(w); }
        }));
        if r.is_err() && fail.is_none() { fail = Some(format!("PANICKED while {stage}: {}", my_panic())); }
        if std::env::var("BIG_TRACE").is_ok() { eprintln!("BIG {kname} rung {n}: {} ms", t_rung.elapsed().as_millis()); }
        out.bump(&format!("size thresholds: rungs of {kname}"), 1);
        if let Some(f) = fail { out.fails.push((case.to_string(), format!("size ladder of a {kname} (statement #i = s{{i/2048}} p{{(i/128)%16}} o{{i%128}}, graph name g{{(s+o)%4}}, 0 = default graph), rung of {n} statements: {f}"))); return; }
    }
}
/// term indexes and stores holding 2^16 / 2^17 DISTINCT terms
fn big_terms(kind: usize, sizes: &[usize], out: &mut SideOut) {
    let fam = fam_of(kind); let mut store = Store::mk(kind, 1); let kname = store.kind(); let mut next = 0u64;
    let (s0, p0, g0) = (big_term(1_000_000), big_term(2_000_000), big_term(4_000_001));
    for (rung, &n) in sizes.iter().enumerate() {
        let case = BIG_BASE + 50_000 + kind * 100 + rung; out.evals += 1; out.nontrivial += 1;
        let mut stage = String::from("growing the store"); let mut fail: Option<String> = None;
        let r = std::panic::catch_unwind(std::panic::AssertUnwindSafe(|| {
            while store.len() < n { let t = big_term(5_000_000 + next); next += 1; let r = if fam == 0 { store.insert([&t, &t, &t], None, 0) } else { store.insert([&s0, &p0, &t], Some(&g0), 0) }; if r.is_err() { fail = Some(format!("interning the term #{} failed", store.len())); return; } }
            let ids: Vec<u64> = (0..store.len()).map(|k| big_id(store.term_at(k))).collect();
            for via in [0usize, 16] {
                stage = format!("cloning it (way {via})");
                let (h, mut c, _) = clone_via(Held::Plain(std::mem::replace(&mut store, Store::mk(kind, 0))), via); store = h.unwrap();
                let what = format!("a clone (way {via}) of a store of {n} distinct terms");
                stage = format!("reading {what}");
                if c.len() != n { fail = Some(format!("{what} holds {} terms", c.len())); return; }
                if let Some(k) = (0..n).find(|k| !same_term(c.term_at(*k), store.term_at(*k)) || big_id(c.term_at(*k)) != ids[*k]) { fail = Some(format!("{what}: the term at index {k} reads {:?}, the original's {:?}", c.term_at(k), store.term_at(k))); return; }
                if c.audit().iter().any(|b| !b) { fail = Some(format!("{what} fails the storage audit")); return; }
                let (mut iv, mut n_own) = (vec![], 0usize);
                for (w, st) in [(0u8, &c), (1u8, &store)] { let (k, e) = st.strings(); for x in k.iter().chain(e.iter()) { if !x.2 { fail = Some(format!("{what}: a string of {} is borrowed, not owned", if w == 0 { "the clone" } else { "the original" })); return; } if x.1 > 0 { iv.push((x.0, x.0 + x.1, w)); n_own += 1; } } }
                iv.sort_unstable(); if let Some(w) = iv.windows(2).find(|w| w[1].0 < w[0].1) { fail = Some(format!("{what}: two of the {n_own} strings of the clone and of its original overlap at {:#x} ({})", w[1].0, if w[0].2 == w[1].2 { "same store" } else { "one in each" })); return; }
                if fam != 0 { if c.stmts().len() != store.stmts().len() { fail = Some(format!("{what} lists {} statements, its original {}", c.stmts().len(), store.stmts().len())); return; }
                    let probe = big_term(5_000_000 + next / 2); for mask in [4u8, 5, 7] { let (a, b) = (c.matching(mask, [&s0, &p0, &probe], Some(&g0)).len(), store.matching(mask, [&s0, &p0, &probe], Some(&g0)).len()); if a != b || a != 1 { fail = Some(format!("{what} answers the pattern of shape {mask:03b} (ops) with the object {probe:?} with {a} statements, its original with {b}; expected 1")); return; } } }
                stage = format!("mutating {what}");
                let t = big_term(5_999_999); let r = if fam == 0 { c.insert([&t, &t, &t], None, 0) } else { c.insert([&s0, &p0, &t], Some(&g0), 0) };
                if r.is_err() || c.len() != n + 1 || store.len() != n || !same_term(c.term_at(n), &t) { fail = Some(format!("after interning one more term into {what}: the clone holds {} terms, the original {}", c.len(), store.len())); return; }
            }
            stage = "dropping the original and reading its last clone".into();
            let c = store.clone(); drop(std::mem::replace(&mut store, c));
            if let Some(k) = (0..n).find(|k| big_id(store.term_at(*k)) != ids[*k]) { fail = Some(format!("a clone of a store of {n} distinct terms, the original dropped: the term at index {k} reads {:?}", store.term_at(k))); }
        }));
        if r.is_err() && fail.is_none() { fail = Some(format!("PANICKED while {stage}: {}", my_panic())); }
        out.bump(&format!("size thresholds: rungs of distinct terms, {kname}"), 1);
        if let Some(f) = fail { out.fails.push((case.to_string(), format!("ladder of distinct terms of a {kname}, rung of {n} terms: {f}"))); return; }
    }
}
/// a history of 257 statements (the model's sets are lists: quadratic): load, clone, every shape on both sides, mutate the clone, every shape again, drop the original, every shape; through the oracle and the Coq model
fn big_coq_case(kind: usize, out: &mut SideOut) {
    let isg = fam_of(kind) == 1; let nm: u8 = if isg { 8 } else { 16 }; let n = 257usize; let case = BIG_BASE + 90_000 + kind;
    out.evals += 1; out.nontrivial += 1;
    let mut sides: [Option<Store>; 2] = [Some(Store::mk(kind, 1)), None]; let kname = sides[0].as_ref().unwrap().kind();
    let mut shadow: [Vec<[u64; 4]>; 2] = [vec![], vec![]]; let mut ops = vec![format!("QNew 0 {}", design_of(kind))]; let mut obs = vec!["ONone".to_string()]; let mut fail: Option<String> = None;
    let cq = |q: &[u64; 4]| format!("Q {} {} {} {}", q[3], q[0], q[1], q[2]);
    let r = std::panic::catch_unwind(std::panic::AssertUnwindSafe(|| {
        let ts = |q: [u64; 4]| [big_term(q[0]), big_term(q[1]), big_term(q[2]), big_term(q[3].max(4_000_001))];
        for i in 0..n { let q = big_stmt(i, isg); let t = ts(q); let r = sides[0].as_mut().unwrap().insert([&t[0], &t[1], &t[2]], if q[3] == 0 { None } else { Some(&t[3]) }, 0); ops.push(format!("QIns 0 ({})", cq(&q))); obs.push(format!("OBool {}", coq_bool(r == Ok(Some(true))))); if r != Ok(Some(true)) { fail = Some(format!("inserting {q:?} did not return Ok(true)")); return; } shadow[0].push(q); }
        sides[1] = Some(sides[0].as_ref().unwrap().clone()); shadow[1] = shadow[0].clone(); ops.push("QClone 0 1".into()); obs.push("ONone".into());
        let probe = big_stmt(n / 2, isg); let pt = ts(probe);
        let mut sweep = |sides: &[Option<Store>; 2], shadow: &[Vec<[u64; 4]>; 2], order: [usize; 2], ops: &mut Vec<String>, obs: &mut Vec<String>| -> Option<String> { for side in order { if let Some(s) = &sides[side] { for mask in 0..nm {
            let got = big_answers(s, mask, &pt, probe[3] == 0); let mut want: Vec<[u64; 4]> = shadow[side].iter().copied().filter(|q| (0..4).all(|b| mask >> b & 1 == 0 || q[b] == probe[b])).collect(); want.sort_unstable();
            ops.push(format!("QQuery {side} (P {mask} ({}))", cq(&probe))); obs.push(format!("OList {}", coq_list(got.iter().map(|q| cq(q)))));
            if got != want { return Some(format!("{} answers the pattern of shape {mask:04b} (gops) of {probe:?} with {} statements, {} expected", SIDE[side], got.len(), want.len())); } } } } None };
        if let Some(w) = sweep(&sides, &shadow, [1, 0], &mut ops, &mut obs) { fail = Some(w); return; }
        let nt = ts(BIG_NEW); let newq = [BIG_NEW[0], BIG_NEW[1], BIG_NEW[2], if isg { 0 } else { BIG_NEW[3] }];
        let r1 = sides[1].as_mut().unwrap().remove([&pt[0], &pt[1], &pt[2]], if probe[3] == 0 { None } else { Some(&pt[3]) }); ops.push(format!("QRem 1 ({})", cq(&probe))); obs.push(format!("OBool {}", coq_bool(r1 == Some(true)))); shadow[1].retain(|q| *q != probe);
        let r2 = sides[1].as_mut().unwrap().insert([&nt[0], &nt[1], &nt[2]], Some(&nt[3]), 0); ops.push(format!("QIns 1 ({})", cq(&newq))); obs.push(format!("OBool {}", coq_bool(r2 == Ok(Some(true))))); shadow[1].push(newq);
        if r1 != Some(true) || r2 != Ok(Some(true)) { fail = Some(format!("removing {probe:?} from the clone returned {r1:?}, inserting a new statement returned {r2:?}")); return; }
        if let Some(w) = sweep(&sides, &shadow, [0, 1], &mut ops, &mut obs) { fail = Some(w); return; }
        sides[0] = None; ops.push("QDrop 0".into()); obs.push("ONone".into());
        if let Some(w) = sweep(&sides, &shadow, [1, 1], &mut ops, &mut obs) { fail = Some(w); }
    }));
    if r.is_err() && fail.is_none() { fail = Some(format!("PANICKED: {}", my_panic())); }
    out.bump("size thresholds: histories of 257 statements also evaluated by the Coq model", 1);
    if let Some(f) = fail { out.fails.push((case.to_string(), format!("history of {n} statements on a {kname} (load, clone, every shape on both sides, mutate the clone, every shape, drop the original, every shape): {f}"))); }
    out.coq.push((case, format!("qhist_ok {} {}", coq_list(ops), coq_list(obs))));
}
thread_local! { static TL_PANIC: std::cell::RefCell<String> = std::cell::RefCell::new(String::new()); }
/// the message of the last panic of THIS thread
fn my_panic() -> String { TL_PANIC.with(|m| m.borrow().replace('\n', " ")) }
/// everything of round 7 that does not depend on the random histories; run beside them on other threads
fn side_streams(only: Option<usize>, seed: u64, thorough: bool) -> SideOut {
    let mut out = SideOut::default(); let t_side = std::time::Instant::now();
    // the size ladders: one thread per store type
    let ladder: Vec<usize> = vec![1023, 1024, 1025, 1 << 16, (1 << 16) + 1, 1 << 17, (1 << 17) + 1];
    let short: Vec<usize> = vec![1023, 1024, 1025, (1 << 16) + 1];
    let long: Vec<usize> = [1usize << 10, 1 << 16, 1 << 17, 1 << 20].iter().flat_map(|t| [t - 1, *t, t + 1]).collect();
    let tl: Vec<usize> = [1usize << 16, 1 << 17].iter().flat_map(|t| [t - 1, *t, t + 1]).collect();
    // (kind, what: 0 statements, 1 distinct terms, 2 the history for Coq, sizes)
    let mut jobs: Vec<(usize, u8, Vec<usize>)> = vec![];
    // quick tier: FastGraph climbs the whole ladder, FastDataset every other rung of it; the single-index stores and two of the u16-indexed ones stop at 2^16 + 1, the others at 2^10 + 1
    jobs.push((4, 0, if thorough { long.clone() } else { vec![1023, 1024, 1025, (1 << 16) + 1, (1 << 17) + 1] }));
    jobs.push((2, 0, if thorough { long.clone() } else { ladder.clone() }));
    for kind in [5usize, 3] { jobs.push((kind, 0, if thorough { long.clone() } else { short.clone() })); }
    for kind in [13usize, 6] { jobs.push((kind, 0, if thorough { ladder.clone() } else { short.clone() })); }
    for kind in [12usize, 14, 10, 11] { jobs.push((kind, 0, if thorough { ladder.clone() } else { vec![1023, 1024, 1025] })); }
    for kind in [0usize, 3] { jobs.push((kind, 1, if thorough { tl.clone() } else { vec![1 << 16, (1 << 16) + 1, 1 << 17, (1 << 17) + 1] })); }
    for kind in [9usize, 4] { jobs.push((kind, 1, if thorough { tl.clone() } else { vec![(1 << 16) + 1, (1 << 17) + 1] })); }
    for kind in [2usize, 3, 4, 5, 6, 11] { jobs.push((kind, 2, vec![])); }
    let jobs: Vec<_> = jobs.into_iter().filter(|(kind, what, sizes)| only.is_none_or(|o| { let b = BIG_BASE + [0, 50_000, 90_000][*what as usize] + kind * if *what == 2 { 1 } else { 100 }; o >= b && o < b + sizes.len().max(1) })).collect();
    let acases = ascen_list(); let stride = 16usize;
    let atodo: Vec<usize> = (0..acases.len()).filter(|k| only.is_none_or(|o| o == ABASE + k)).collect();
    let next = std::sync::atomic::AtomicUsize::new(0); let anext = std::sync::atomic::AtomicUsize::new(0);
    let parts: Vec<SideOut> = std::thread::scope(|scope| {
        let hs: Vec<_> = (0..6).map(|_| { let (jobs, next, anext, acases, atodo) = (&jobs, &next, &anext, &acases, &atodo); scope.spawn(move || { let mut o = SideOut::default();
            loop { let j = next.fetch_add(1, std::sync::atomic::Ordering::SeqCst); if j >= jobs.len() { break; } let (kind, what, sizes) = &jobs[j]; match what { 0 => big_ladder(*kind, sizes, seed, &mut o), 1 => big_terms(*kind, sizes, &mut o), _ => big_coq_case(*kind, &mut o) } }
            if std::env::var("BIG_TRACE").is_ok() { eprintln!("SIDE thread done with the ladders at {} ms", t_side.elapsed().as_millis()); }
            loop { let j = anext.fetch_add(64, std::sync::atomic::Ordering::SeqCst); if j >= atodo.len() { break; }
                for &k in &atodo[j..(j + 64).min(atodo.len())] { let sc = &acases[k]; let sampled = only.is_some() || k % stride == seed as usize % stride;
                    let (mut fail, mut coq, n) = run_ascen(k, sc, sampled); if fail.is_some() && !sampled { (fail, coq, _) = run_ascen(k, sc, true); }
                    o.evals += 1; o.nontrivial += 1; o.bump(&format!("directed clone/mutate/observe:{}", design_of(sc.kind)), 1); o.bump("directed clone/mutate/observe: observations compared with the oracle", n as u64);
                    if only.is_some() { println!("DIRECTED-OBSERVE {k}: {sc:?}\n{coq}\nFAIL {fail:?}"); }
                    if fail.is_some() || sampled { o.coq.push((ABASE + k, coq)); o.bump("directed clone/mutate/observe: histories also evaluated by the Coq model", 1); }
                    if let Some(f) = fail { o.fails.push(((ABASE + k).to_string(), f)); } } }
            o }) }).collect();
        hs.into_iter().map(|h| h.join().unwrap()).collect() });
    if std::env::var("BIG_TRACE").is_ok() { eprintln!("SIDE all done at {} ms", t_side.elapsed().as_millis()); }
    for p in parts { out.merge(p); }
    out.fails.sort(); out.coq.sort_by_key(|c| c.0);
    // (at most 12 of the directed histories are reported)
    let mut nd = 0; out.fails.retain(|f| { if f.1.starts_with("directed") { nd += 1; nd <= 12 } else { true } });
    out
}

fn main() {
    let a = parse_args();
    // a child process of the ill-behaved-trait scenarios (its panics are printed: the parent shows the last ones if it dies)
    if let Some(i) = a.rest.iter().position(|x| x == "--hostile") {
        // --hostile <class> <variant> <first store type> <last store type>
        let (class, v, from, to): (u8, u8, usize, usize) = (a.rest[i + 1].parse().unwrap(), a.rest[i + 2].parse().unwrap(), a.rest[i + 3].parse().unwrap(), a.rest[i + 4].parse().unwrap());
        std::panic::set_hook(Box::new(|info| { if let Ok(mut m) = LAST_PANIC.lock() { *m = format!("{info}"); } TL_PANIC.with(|m| *m.borrow_mut() = format!("{info}")); eprintln!("panic: {info}") }));
        for kind in from..=to.min(NKINDS - 1) { if class != 0 && fam_of(kind) == 0 { continue; }
            let name = Store::mk(kind, 1).kind(); println!("KIND {kind}");
            by_kind!(kind; T, _v => hostile_child::<T>(class, v, name)); }
        println!("HOSTILE-END");
        return;
    }
    let default_hook = std::panic::take_hook();
    std::panic::set_hook(Box::new(move |info| { if let Ok(mut m) = LAST_PANIC.lock() { *m = format!("{info}"); } TL_PANIC.with(|m| *m.borrow_mut() = format!("{info}")); if !QUIET.with(|q| q.get()) { default_hook(info) } }));
    // round 7: the size ladders and the directed clone / mutate / observe histories run beside the random histories
    let side = { let (only, seed, thorough) = (a.only, a.seed, a.rest.iter().any(|x| x == "--thorough-sizes"));
        if only.is_none_or(|o| (o >= ABASE && o < HOSTILE_BASE) || o >= BIG_BASE) { Some(std::thread::spawn(move || side_streams(only, seed, thorough))) } else { None } };
    let mut sum = Summary::default();
    sum.rule = "case = history of 4..40 ops over up to 5 store slots (18 kinds: SimpleTermIndex<u32/u16/usize/tiny>, Fast/Light graph and dataset over u32, u16, usize and tiny capacity-limited indexes), each store kept inline or inside a Box/Rc/Arc/Vec: \
new (Default, new(), bulk constructor on an empty source, mem::take), insert statement (terms of every kind incl. quoted triples, default-graph quads, also through a term type with owned-string accessors), bulk insert of 20..300 fresh terms (table growth across reallocation thresholds), remove (mostly of a statement that is there, or of one differing from it by one term, possibly a term the store never saw), \
clone in 18 ways (Clone, Box, Rc/Arc::make_mut, unwrap_or_clone, Vec clone/to_vec/extend_from_slice/cloned/vec![x;n]/resize, Option, Cow, to_owned, array, tuple, clone of a clone, clone_from into a fresh store), clone_from, collect the statements of a live store into a new store of any kind of the same family (from_*_source, collect_*, insert_all, via a Vec), extend a live store from another, \
drop (drop, overwrite, Vec::clear/truncate, on another thread), swap/move (slots, mem::swap), mem::take/replace, re-wrap into another container, clone then grow the original by 200..600 terms, insert on another thread; \
queries as operations (one pattern shape first, then every shape, on a store and on the stores it was cloned from / into, in either order), a quarter more histories observed only through the storage hooks between those queries (clones taken and mutated before the first query of either side); \
plus 2688 directed clone/mutate/query histories (14 graph and dataset types x 8 mutation plans x side and shape of the first query; all of them through the oracle, 1 in 16 through the Coq model C10/Query.v), \
plus subprocess scenarios with safe but ill-behaved user-defined Term / TermMatcher / GraphNameMatcher / Source implementations at every entry point of the 18 store types (a process that dies is the failure; storage audit and content comparison of the store and of a clone taken before after every call); \
plus (round 7) every other observation method (subjects / predicates / objects / graph_names / iris / blank_nodes / literals / quoted_triples / variables / contains / as_dataset / union_graph / graph(g)) compared with the oracle on the stores a step touched and on their relatives by cloning, at every Query operation and at the end of every history; \
5152 directed clone/mutate/observe histories (first observation = one accessor on one side, possibly also called before the clone; 1 in 16 through the Coq model C10/Observe.v); \
size ladders: one store per type grown once to 2^10, 2^16, 2^17 (+-1) statements (2^20 in the thorough tier), cloned at every rung (every way at 2^k+1), every pattern shape on the clone and on the original before and after mutating the clone, original dropped and the clone grown further; the same with 2^16 / 2^17 distinct terms; a 257-statement history per design through the Coq model; \
non-trivial = at least one clone whose source is later dropped or mutated while the clone stays live and non-empty (every directed history is); distinct = distinct printed history".into();
    let ids = Ids::new();
    let absent = iri("http://absent.example/never-inserted");
    let base = Rng::new(a.seed);
    let mut cases = vec![]; let mut seen = std::collections::HashSet::new();
    // cases 0..n: every step is followed by the full comparison (which itself queries the stores); cases QUIET_BASE..: the
    // stores are only observed through the storage hooks and the term index between the explicit Query operations of the
    // history, so that clones are taken and mutated BEFORE the first query (of a shape) is ever made on either side
    let range: Vec<usize> = match a.only { Some(i) if i >= QBASE => vec![], Some(i) => vec![i], None => (0..a.n).chain((0..a.n / 4).map(|j| QUIET_BASE + j)).collect() };
    for idx in range {
        let quiet = idx >= QUIET_BASE;
        if a.only.is_none() { let _ = std::fs::create_dir_all(&a.out); let _ = std::fs::write(format!("{}/progress", a.out), idx.to_string()); }
        let mut r = base.fork(idx as u64);
        let nops = r.range(4, 40);
        let mut slots: Vec<Option<Held>> = (0..5).map(|_| None).collect();
        let mut shadow: Vec<Sh> = (0..5).map(|_| Sh::default()).collect(); // expected terms by index and statements, per slot
        let mut ops: Vec<Op> = vec![]; let mut coq_steps: Vec<String> = vec![];
        let mut bulk_next = 1000u64; let mut interesting = false; let mut cloned_from: Vec<(usize, usize)> = vec![]; let mut tmp_next = 100u64;
        let mut failure: Option<String> = None; let mut current: Option<Op> = None;
        // (a panic of the implementation in the middle of a history is a finding, reported with the history)
        let unwound = std::panic::catch_unwind(std::panic::AssertUnwindSafe(|| {
        for _ in 0..nops {
            let live: Vec<usize> = (0..5).filter(|i| slots[*i].is_some()).collect();
            let free: Vec<usize> = (0..5).filter(|i| slots[*i].is_none()).collect();
            let choice = r.below(if quiet { 28 } else { 24 });
            let gen_ids = |r: &mut Rng, specials: bool| -> Vec<u64> { (0..4).map(|j| if specials && r.chance(1, 5) { 900 + r.below(4) as u64 } else if j == 3 && r.chance(1, 4) { 0 } else { 1 + r.below(16) as u64 }).collect() };
            let op = if live.is_empty() || (choice == 0 && !free.is_empty()) { Op::New(*r.pick(&free), r.below(NKINDS), r.below(4)) }
                else { let s = *r.pick(&live); let fam = slots[s].as_ref().unwrap().get().fam(); match choice {
                    1..=4 => Op::Insert(s, gen_ids(&mut r, true), r.below(3)),
                    5 => { let n = r.range(20, 300); let o = Op::Bulk(s, bulk_next, n); bulk_next += n as u64; o }
                    6 => { let sh = &shadow[s]; if !sh.stmts.is_empty() && r.chance(2, 3) { let mut v = r.pick(&sh.stmts).to_vec(); if r.chance(1, 3) { let j = r.below(if fam == 2 { 4 } else { 3 }); v[j] = if r.chance(1, 2) { 999 } else { 1 + r.below(16) as u64 }; } Op::Remove(s, v) } else { Op::Remove(s, gen_ids(&mut r, false)) } }
                    7..=9 if !free.is_empty() => Op::Clone(s, *r.pick(&free), if r.chance(1, 3) { 0 } else { r.below(NVIA) }),
                    10 => Op::Drop(s, r.below(6)),
                    11 if live.len() >= 2 => Op::Swap(s, *r.pick(&live), r.below(2)),
                    12 if live.len() >= 2 => { // prefer a target of the same type (the concrete clone_from); else any other live store (drop + clone)
                        let same: Vec<usize> = live.iter().copied().filter(|d| *d != s && slots[*d].as_ref().unwrap().get().knum() == slots[s].as_ref().unwrap().get().knum()).collect();
                        let d = if !same.is_empty() { *r.pick(&same) } else { *r.pick(&live) };
                        if d != s { Op::CloneFrom(s, d) } else if !free.is_empty() { Op::Clone(s, *r.pick(&free), 0) } else { Op::Drop(s, 0) } }
                    13 if !free.is_empty() => Op::Take(s, *r.pick(&free), r.below(2)),
                    14..=15 if !free.is_empty() => { let kinds: Vec<usize> = (0..NKINDS).filter(|k| fam_of(*k) == fam).collect(); Op::Collect(s, *r.pick(&free), *r.pick(&kinds), r.below(4)) }
                    16 if live.iter().any(|d| *d != s && slots[*d].as_ref().unwrap().get().fam() == fam) => { let c: Vec<usize> = live.iter().copied().filter(|d| *d != s && slots[*d].as_ref().unwrap().get().fam() == fam).collect(); Op::Extend(s, *r.pick(&c)) }
                    17 => Op::Rewrap(s, r.below(5)),
                    18 if !free.is_empty() => { let n = r.range(200, 600); let o = Op::CloneGrow(s, *r.pick(&free), bulk_next, n); bulk_next += n as u64; o }
                    19 => Op::Thread(s, gen_ids(&mut r, true)),
                    24..=27 => Op::Query(s, r.below(16) as u8, r.below(2)),
                    _ => Op::Insert(s, gen_ids(&mut r, false), 0),
                } };
            if a.only.is_some() { eprintln!("OP {op:?}"); }
            current = Some(op.clone());
            let mutated_source = |s: usize, slots: &Vec<Option<Held>>, cloned_from: &Vec<(usize, usize)>| cloned_from.iter().any(|(src, dst)| *src == s && slots[*dst].is_some());
            match &op {
                Op::New(s, k, how) => { slots[*s] = Some(Held::wrap(Store::mk(*k, *how), r.below(5))); shadow[*s] = Sh::default(); coq_steps.push(format!("[New {s}]")); }
                Op::Insert(s, ..) | Op::Thread(s, ..) | Op::Bulk(s, ..) if slots[*s].as_ref().unwrap().get().is_u16() && slots[*s].as_ref().unwrap().get().len() > 55000 => { continue; }
                Op::Insert(s, tids, via) => {
                    let ts: Vec<Option<ST>> = tids.iter().map(|i| if *i == 0 { None } else { Some(ids.term(*i, &mut r)) }).collect();
                    let st = slots[*s].as_mut().unwrap().get_mut(); let stmt = shape_stmt(st.fam(), tids, &ts); let mut em = vec![];
                    if let Some(f) = do_insert(st, &mut shadow[*s], *s, &stmt, *via, &mut em) { failure = Some(format!("after {:?} then {:?}: store #{s}: {f}", ops, op)); }
                    coq_steps.push(ins_ops(*s, &em));
                    if mutated_source(*s, &slots, &cloned_from) { interesting = true; }
                }
                Op::Thread(s, tids) => {
                    let ts: Vec<Option<ST>> = tids.iter().map(|i| if *i == 0 { None } else { Some(ids.term(*i, &mut r)) }).collect();
                    let mut st = slots[*s].take().unwrap().unwrap(); let stmt = shape_stmt(st.fam(), tids, &ts); let mut sh = std::mem::take(&mut shadow[*s]); let slot = *s;
                    let (st, sh, em, f) = std::thread::spawn(move || { let mut em = vec![]; let f = do_insert(&mut st, &mut sh, slot, &stmt, 0, &mut em); (st, sh, em, f) }).join().unwrap();
                    slots[*s] = Some(Held::wrap(st, r.below(5))); shadow[*s] = sh;
                    if let Some(f) = f { failure = Some(format!("after {:?} then {:?}: store #{s} (moved to another thread and back): {f}", ops, op)); }
                    coq_steps.push(ins_ops(*s, &em));
                    if mutated_source(*s, &slots, &cloned_from) { interesting = true; }
                }
                Op::Bulk(s, from, n) | Op::CloneGrow(s, _, from, n) => {
                    if let Op::CloneGrow(_, d, ..) = &op { let c = slots[*s].as_ref().unwrap().get().clone(); slots[*d] = Some(Held::wrap(c, r.below(5))); shadow[*d] = shadow[*s].clone(); cloned_from.push((*s, *d)); coq_steps.push(format!("[Clone {s} {d}]")); }
                    let st = slots[*s].as_mut().unwrap().get_mut(); let mut em = vec![];
                    if !(st.is_u16() && st.len() + 4 * n > 55000) {
                        for k in (0..*n).step_by(4) {
                            let tids: Vec<u64> = (0..4).map(|j| from + (k + j) as u64).collect(); let ts: Vec<Option<ST>> = tids.iter().map(|i| Some(ids.term(*i, &mut r))).collect();
                            let stmt = shape_stmt(st.fam(), &tids, &ts);
                            if let Some(f) = do_insert(st, &mut shadow[*s], *s, &stmt, 0, &mut em) { if failure.is_none() { failure = Some(format!("after {:?} then {:?}: store #{s}: {f}", ops, op)); } }
                        }
                    }
                    coq_steps.push(ins_ops(*s, &em)); coq_steps.push(format!("[Grow {s}]"));
                    if mutated_source(*s, &slots, &cloned_from) { interesting = true; }
                }
                Op::Remove(s, tids) => {
                    let ts: Vec<Option<ST>> = tids.iter().map(|i| if *i == 0 { None } else { Some(ids.term(*i, &mut r)) }).collect();
                    let st = slots[*s].as_mut().unwrap().get_mut(); let fam = st.fam();
                    let got = st.remove([ts[0].as_ref().unwrap(), ts[1].as_ref().unwrap(), ts[2].as_ref().unwrap()], ts[3].as_ref());
                    if fam != 0 { let key = [tids[0], tids[1], tids[2], if fam == 2 { tids[3] } else { 0 }]; let sh = &mut shadow[*s]; let was = sh.stmts.contains(&key); sh.stmts.retain(|k| *k != key);
                        if got != Some(was) { failure = Some(format!("after {:?} then {:?}: store #{s} ({}): remove returned {got:?}, but the statement was {} the store", ops, op, st.kind(), if was { "in" } else { "not in" })); }
                        if was && mutated_source(*s, &slots, &cloned_from) { interesting = true; } }
                }
                Op::Clone(s, d, via) => {
                    let h = slots[*s].take().unwrap(); let (h2, c, extra) = clone_via(h, *via); slots[*s] = Some(h2); slots[*d] = Some(Held::wrap(c, r.below(5)));
                    shadow[*d] = shadow[*s].clone(); cloned_from.push((*s, *d));
                    coq_steps.push(if *via == 15 { tmp_next += 1; format!("clone_chain_ops {s} {} {d}", tmp_next - 1) } else if *via == 16 { format!("(New {d} :: clone_from_ops {s} {d})") }
                        else if extra > 0 { let t: Vec<String> = (0..extra).map(|_| { tmp_next += 1; (tmp_next - 1).to_string() }).collect(); format!("clone_via_ops {s} {d} {}", coq_list(t)) } else { format!("[Clone {s} {d}]") });
                }
                Op::CloneFrom(s, d) => {
                    // for the model: the target is dropped and replaced by a clone of the source
                    let src = slots[*s].take().unwrap(); slots[*d].as_mut().unwrap().get_mut().clone_from(src.get()); slots[*s] = Some(src);
                    shadow[*d] = shadow[*s].clone(); cloned_from.push((*s, *d)); coq_steps.push(format!("clone_from_ops {s} {d}"));
                }
                Op::Collect(s, d, dk, how) => {
                    let src = slots[*s].as_ref().unwrap().get();
                    match Store::collect(src, *dk, *how) {
                        Ok(new) => {
                            let seq = source_seq(src, &ids); let mut sh = Sh::default(); let mut em = vec![];
                            let (_, early, left) = walk(&mut sh, new.fam(), &seq, new.len(), &mut em);
                            if early || left != 0 { failure = Some(format!("after {:?} then {:?}: a {} collected from store #{s} ({}) holds {} terms, the source lists {} distinct ones", ops, op, new.kind(), src.kind(), new.len(), sh.terms.len() + usize::from(early))); }
                            if cap(&new).is_some_and(|c| sh.terms.len() > c) { failure = Some(format!("after {:?} then {:?}: a {} holds {} terms, more than its index type can number", ops, op, new.kind(), sh.terms.len())); }
                            slots[*d] = Some(Held::wrap(new, r.below(5))); shadow[*d] = sh; cloned_from.push((*s, *d));
                            coq_steps.push(format!("collect_ops {d} {}", coq_list(em.iter().map(|(id, n, q)| format!("({id}, {n}%nat, {})", coq_bool(*q))))));
                        }
                        Err(()) => { // only a capacity-limited target may refuse, and only if the source has more terms than it can number
                            let need = { let seq = source_seq(src, &ids); let mut sh = Sh::default(); let mut em = vec![]; walk(&mut sh, fam_of(*dk), &seq, usize::MAX, &mut em); sh.terms.len() };
                            let c = match *dk { 7 => Some(6), 8 | 15 | 16 | 17 => Some(9), _ => None };
                            if !c.is_some_and(|c| need > c) { failure = Some(format!("after {:?} then {:?}: collecting the {need} terms of store #{s} ({}) into a store of kind {dk} failed", ops, op, src.kind())); }
                        }
                    }
                }
                Op::Extend(s, d) => {
                    let mut dst = slots[*d].take().unwrap(); let src = slots[*s].as_ref().unwrap().get();
                    let seq = source_seq(src, &ids); let before = dst.get().len();
                    let res = dst.get_mut().extend(src); let newly = dst.get().len().wrapping_sub(before); let mut em = vec![];
                    let (_, early, left) = walk(&mut shadow[*d], dst.get().fam(), &seq, newly, &mut em);
                    if left != 0 || res.is_err() != early || (early && cap(dst.get()) != Some(shadow[*d].terms.len())) { failure = Some(format!("after {:?} then {:?}: extending store #{d} ({}) with the content of store #{s} ({}) returned {}, its index grew by {newly} terms ({left} unexplained) to {}", ops, op, dst.get().kind(), src.kind(), if res.is_err() { "an error" } else { "Ok" }, dst.get().len())); }
                    slots[*d] = Some(dst); coq_steps.push(ins_ops(*d, &em));
                    if mutated_source(*d, &slots, &cloned_from) { interesting = true; }
                }
                Op::Take(s, d, via) => {
                    let st = slots[*s].as_mut().unwrap().get_mut();
                    let old = if *via == 0 { st.take() } else { let fresh = Store::mk(st.knum(), r.below(4)); std::mem::replace(st, fresh) };
                    slots[*d] = Some(Held::wrap(old, r.below(5))); shadow[*d] = std::mem::take(&mut shadow[*s]);
                    for c in cloned_from.iter_mut() { for e in [&mut c.0, &mut c.1] { if *e == *s { *e = *d } } }
                    coq_steps.push(format!("take_ops {s} {d}"));
                }
                Op::Rewrap(s, k) => { let st = slots[*s].take().unwrap().unwrap(); slots[*s] = Some(Held::wrap(st, *k)); coq_steps.push(format!("[Grow {s}]")); }
                Op::Drop(s, via) => {
                    let st = slots[*s].take().unwrap();
                    match via { 1 => { drop(st); slots[*s] = Some(Held::wrap(Store::mk(r.below(NKINDS), r.below(4)), r.below(5))); }
                        2 => { let mut v = vec![st.unwrap()]; v.clear(); std::hint::black_box(&v); } 3 => { let mut v = vec![st.unwrap(), Store::mk(0, 0)]; v.truncate(0); std::hint::black_box(&v); }
                        4 => { let x = st.unwrap(); std::thread::spawn(move || drop(x)).join().unwrap(); } 5 => { let _ = st; } _ => drop(st) }
                    shadow[*s] = Sh::default(); coq_steps.push(if *via == 1 { format!("overwrite_ops {s}") } else { format!("[Drop {s}]") });
                    if cloned_from.iter().any(|(src, dst)| (src == s && slots[*dst].as_ref().is_some_and(|x| x.get().len() > 0)) || (dst == s && slots[*src].as_ref().is_some_and(|x| x.get().len() > 0))) { interesting = true; } }
                Op::Query(s, mask, order) => {
                    let mut group: Vec<usize> = vec![*s];
                    for (a2, b2) in &cloned_from { for (x, y) in [(a2, b2), (b2, a2)] { if x == s && slots[*y].is_some() && !group.contains(y) { group.push(*y); } } }
                    if *order == 1 { group.reverse(); }
                    // the first query: ONE shape, on the first store of the group, its constants taken from a statement of the group
                    let first = group[0];
                    let probe = group.iter().find_map(|i| shadow[*i].stmts.first().map(|st| (*st, *i)));
                    if let Some((st, from)) = probe { let store = slots[first].as_ref().unwrap().get(); if store.fam() != 0 {
                        let term_of = |id: u64| -> Option<ST> { if id == 0 { None } else { shadow[from].terms.iter().find(|t| t.0 == id).map(|t| t.1.clone()) } };
                        let (ts, g) = ([term_of(st[0]).unwrap(), term_of(st[1]).unwrap(), term_of(st[2]).unwrap()], term_of(st[3]));
                        let mask = if store.fam() == 1 { mask & 7 } else { *mask };
                        let mut got: Vec<[u64; 4]> = store.matching(mask, [&ts[0], &ts[1], &ts[2]], g.as_ref()).iter().map(|(t, g)| [ids.id(&t[0]), ids.id(&t[1]), ids.id(&t[2]), g.as_ref().map(|g| ids.id(g)).unwrap_or(0)]).collect();
                        let mut exp: Vec<[u64; 4]> = shadow[first].stmts.iter().copied().filter(|x| (0..4).all(|b| mask >> b & 1 == 0 || x[b] == st[b])).collect();
                        got.sort_unstable(); exp.sort_unstable();
                        if got != exp { failure = Some(format!("after {:?} then {:?}: store #{first} ({}) answers the pattern with constants at positions {mask:04b} (gops, s lowest bit) of the statement {st:?} with {got:?}, but the matching ones among the statements it was given are {exp:?} (identifiers s, p, o, g)", ops, op, store.kind())); }
                    } }
                    // then every shape, and the listing, on every store of the group in that order
                    ops.push(op.clone());
                    for i in &group { if failure.is_none() { failure = full_store_check(*i, &slots, &shadow, &ids, &ops, &absent); } }
                    ops.pop();
                }
                Op::Swap(x, y, via) => { if x != y {
                    if *via == 0 { slots.swap(*x, *y); } else { let mut hx = slots[*x].take().unwrap(); let mut hy = slots[*y].take().unwrap(); std::mem::swap(hx.get_mut(), hy.get_mut()); slots[*x] = Some(hx); slots[*y] = Some(hy); }
                    shadow.swap(*x, *y); for c in cloned_from.iter_mut() { for e in [&mut c.0, &mut c.1] { if *e == *x { *e = *y } else if *e == *y { *e = *x } } } coq_steps.push(format!("[Swap {x} {y}]")); } }
            }
            ops.push(op);
            // oracle after every step (see check_step)
            if failure.is_none() {
                let run_shapes = matches!(ops.last(), Some(Op::Clone(..)) | Some(Op::CloneFrom(..)) | Some(Op::Insert(..)) | Some(Op::Remove(..)) | Some(Op::Collect(..)) | Some(Op::Extend(..)) | Some(Op::Take(..)) | Some(Op::CloneGrow(..)) | Some(Op::Thread(..)) | Some(Op::Bulk(..)));
                let touched: Vec<usize> = match ops.last().unwrap() { Op::New(s, ..) | Op::Insert(s, ..) | Op::Bulk(s, ..) | Op::Remove(s, ..) | Op::Drop(s, ..) | Op::Rewrap(s, ..) | Op::Thread(s, ..) => vec![*s],
                    Op::Clone(s, d, ..) | Op::Swap(s, d, ..) | Op::CloneFrom(s, d) | Op::Take(s, d, ..) | Op::Collect(s, d, ..) | Op::Extend(s, d) | Op::CloneGrow(s, d, ..) => vec![*s, *d], Op::Query(..) => vec![] };
                // (C10 is about clones: after a step, the accessors of the stores it touched are compared if they have live relatives by cloning, and those of the relatives)
                let mut group = clone_group(&touched, &cloned_from); group.retain(|i| slots[*i].is_some()); if group.len() < 2 { group.clear(); }
                failure = check_step(&slots, &shadow, &ids, &ops, &cloned_from, run_shapes && !quiet, &absent, quiet, &group, false);
            }
            if failure.is_some() { break; }
        }
        // a quiet history ends with the full comparison of every live store (every shape on every clone and source of a clone)
        if failure.is_none() { failure = check_step(&slots, &shadow, &ids, &ops, &cloned_from, quiet, &absent, false, &[0, 1, 2, 3, 4], true); }
        }));
        if unwound.is_err() && failure.is_none() { failure = Some(format!("after {:?}: the operation {:?} (or the comparison of the stores with what they were given, right after it) PANICKED: {}", ops, current, last_panic())); }
        if failure.is_none() { for (i, h) in slots.iter().enumerate() { if let Some(h) = h { let s = h.get(); let bad = s.out_of_range_reads(); if let Some(b) = bad.first() { failure = Some(format!("after {:?}: store #{i} ({}): {b} (TermIndex::get_term is a safe method: an index that was never handed out must panic, not read out of bounds)", ops, s.kind())); break; } } } }
        // owned copies of what the stores return: sorted (Ord of SimpleTerm) they are the sorted expected terms; to_triple of a quoted triple gives its components
        if failure.is_none() { for (i, h) in slots.iter().enumerate() { if let Some(h) = h { let s = h.get();
            let mut got: Vec<ST> = (0..s.len()).map(|k| deep(s.term_at(k))).collect(); let mut exp: Vec<ST> = shadow[i].terms.iter().map(|x| x.1.clone()).collect();
            let tt = got.iter().zip(exp.iter()).all(|(g, e)| match (g.clone().to_triple(), e.triple()) { (None, None) => true, (Some(x), Some(y)) => (0..3).all(|j| same_term(&x[j], y[j])), _ => false });
            got.sort(); exp.sort();
            let bs: std::collections::BTreeSet<ST> = exp.iter().cloned().collect(); // BTreeSet orders with Ord::cmp, sort with PartialOrd::lt
            let ord = bs.len() == exp.len() && bs.iter().zip(got.iter()).all(|(b, g)| same_term(b, g)) && got.windows(2).all(|w| Ord::cmp(&w[0], &w[1]) == std::cmp::Ordering::Less);
            if !tt || !ord || got.len() != exp.len() || got.iter().zip(exp.iter()).any(|(g, e)| !same_term(g, e)) { failure = Some(format!("after {:?}: store #{i} ({}): owned copies of its terms, sorted or split by to_triple, differ from the expected ones", ops, s.kind())); break; }
        } } }
        let text = format!("{ops:?}");
        if let Some(f) = &failure { sum.oracle_failures.push((idx.to_string(), f.clone())); }
        // observation (only read content when the audit says it is safe to)
        let mut obs = vec![];
        for (i, h) in slots.iter().enumerate() { if let Some(h) = h { let s = h.get();
            let au = s.audit();
            let content: Vec<u64> = if au.iter().all(|b| *b) { (0..s.len()).map(|k| ids.id(s.term_at(k))).collect() } else { vec![] };
            obs.push(format!("({i}, {}, {})", coq_list(au.iter().map(|b| coq_bool(*b).to_string())), coq_list(content.iter().map(|x| x.to_string()))));
        } }
        if a.only.is_some() { println!("CASE {idx}: {text}\nOBS {obs:?}\nFAIL {failure:?}"); }
        if seen.insert(text.clone()) && interesting { sum.distinct_nontrivial += 1; }
        for o in &ops { sum.bump(&format!("op:{}", format!("{o:?}").split('(').next().unwrap())); if let Op::Clone(_, _, v) = o { sum.bump(&format!("clone-via:{v}")); } if let Op::Collect(_, _, _, h) = o { sum.bump(&format!("collect-how:{h}")); } }
        for h in slots.iter().flatten() { sum.bump(&format!("live-at-end:{}", h.get().kind())); }
        if sum.samples.len() < 3 && interesting && text.len() < 900 { sum.samples.push(format!("case {idx}: {text}")); }
        sum.evaluations += 1;
        cases.push((idx, format!("history_ok (concat {}) {}", coq_list(coq_steps.clone()), coq_list(obs))));
    }
    // directed clone / mutate / query histories (all of them through the oracle, a sample through the Coq model)
    let qs = qscen_list(); let stride = 16usize; let mut nq_total = 0u64; let mut coq_q = 0u64;
    // (run on 4 threads: the histories are independent of each other)
    let (only, seed) = (a.only, a.seed as usize);
    let one = |k: usize, sc: &QScen| -> (bool, Option<String>, String, usize) {
        let sampled = only.is_some() || k % stride == seed % stride;
        let (mut fail, mut coq, nq) = run_qscen(k, sc, sampled);
        if fail.is_some() && !sampled { (fail, coq, _) = run_qscen(k, sc, true); }
        (sampled, fail, coq, nq) };
    let todo: Vec<usize> = (0..qs.len()).filter(|k| only.is_none_or(|o| o == QBASE + k)).collect();
    let mut results: Vec<(usize, (bool, Option<String>, String, usize))> = std::thread::scope(|scope| {
        let hs: Vec<_> = (0..4).map(|t| { let (todo, qs, one) = (&todo, &qs, &one); scope.spawn(move || todo.iter().copied().filter(|k| k % 4 == t).map(|k| (k, one(k, &qs[k]))).collect::<Vec<_>>()) }).collect();
        hs.into_iter().flat_map(|h| h.join().unwrap()).collect() });
    results.sort_by_key(|r| r.0);
    for (k, (sampled, fail, coq, nq)) in results { let sc = &qs[k]; nq_total += nq as u64;
        sum.evaluations += 1; sum.distinct_nontrivial += 1;
        if a.only.is_some() { println!("DIRECTED {k}: {sc:?}\n{coq}\nFAIL {fail:?}"); }
        let failed = fail.is_some();
        if let Some(f) = fail { if sum.oracle_failures.iter().filter(|x| x.1.starts_with("directed")).count() < 12 { sum.oracle_failures.push(((QBASE + k).to_string(), f)); } }
        if failed || sampled { cases.push((QBASE + k, coq)); coq_q += 1; }
        sum.bump(&format!("directed clone/mutate/query:{}", design_of(sc.kind)));
    }
    sum.bump_by("directed clone/mutate/query: queries compared with the shadow", nq_total);
    sum.bump_by("directed clone/mutate/query: histories also evaluated by the Coq model", coq_q);
    if a.only.is_none_or(|o| o >= HOSTILE_BASE && o < BIG_BASE) { hostile_stream(&mut sum, a.only); }
    if let Some(side) = side { match side.join() {
        Ok(o) => { sum.evaluations += o.evals; sum.distinct_nontrivial += o.nontrivial; for (k, n) in o.bumps { sum.bump_by(&k, n); } sum.oracle_failures.extend(o.fails); cases.extend(o.coq); }
        Err(_) => sum.oracle_failures.push(("side-streams".into(), format!("the thread of the size ladders / directed observe histories PANICKED outside a scenario: {}", last_panic()))) } }
    if a.only.is_some_and(|o| o >= QBASE) { println!("c10: {} oracle failures: {:?}", sum.oracle_failures.len(), sum.oracle_failures); return; }
    for b in inline_term_scenarios() { sum.oracle_failures.push(("inline-terms".into(), b)); }
    sum.evaluations += 4; sum.bump("scenario:inline self-borrowing term type");
    for b in static_clone_scenarios() { sum.oracle_failures.push(("static-clone".into(), b)); }
    sum.evaluations += 3; sum.bump("scenario:static-clone (what a caller keeps of a store's terms owns its text)");
    for b in owned_accessor_scenarios() { sum.oracle_failures.push(("owned-accessors".into(), b)); }
    sum.evaluations += 4; sum.bump("scenario:owned-string accessors and native literals");
    if a.only.is_none() {
        sum.extra.push(("coq_cases".into(), cases.len().to_string()));
        sum.shards = write_shards(&a.out, &format!("{QHEADER}\n{AHEADER}"), &cases, a.shards);
        std::fs::write(format!("{}/summary.json", a.out), sum.to_json()).unwrap();
    }
    if std::env::var("BIG_TRACE").is_ok() { eprintln!("accessor comparisons: {} ms", ACC_NS.load(std::sync::atomic::Ordering::Relaxed) / 1_000_000); }
    println!("c10: {} cases, {} distinct non-trivial, {} oracle failures", sum.evaluations, sum.distinct_nontrivial, sum.oracle_failures.len());
}
