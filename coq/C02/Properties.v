(* C02/Properties.v -- pinned statements of property C02. *)
From Sophia.C02 Require Import Model Proofs.
From Sophia.gen Require Consts.

(* the model's kind order is the one the source declares (re-generated from `enum TermKind`) *)
Check (eq_refl : (kind_rank KBnode, kind_rank KIri, kind_rank KLiteral, kind_rank KTriple, kind_rank KVariable)
               = (Consts.termkind_BlankNode, Consts.termkind_Iri, Consts.termkind_Literal, Consts.termkind_Triple, Consts.termkind_Variable)).
Theorem kind_ranks_from_source :
  (kind_rank KBnode, kind_rank KIri, kind_rank KLiteral, kind_rank KTriple, kind_rank KVariable)
  = (Consts.termkind_BlankNode, Consts.termkind_Iri, Consts.termkind_Literal, Consts.termkind_Triple, Consts.termkind_Variable).
Proof. reflexivity. Qed.
(* blank nodes < IRIs < literals < quoted triples < variables, for the generated numbers *)
Theorem kind_chain_from_source :
  (Consts.termkind_BlankNode < Consts.termkind_Iri /\ Consts.termkind_Iri < Consts.termkind_Literal
   /\ Consts.termkind_Literal < Consts.termkind_Triple /\ Consts.termkind_Triple < Consts.termkind_Variable)%N.
Proof. repeat split; reflexivity. Qed.

(* equality is an equivalence relation *)
Check (term_eqb_refl : forall a, term_eqb a a = true).
Check (term_eqb_sym : forall a b, term_eqb a b = term_eqb b a).
Check (term_eqb_trans : forall a b c, term_eqb a b = true -> term_eqb b c = true -> term_eqb a c = true).
(* equal terms hash identically *)
Check (eq_same_hash : forall a b, term_eqb a b = true -> hash_stream a = hash_stream b).
(* comparison is a total order, Equal exactly on equal terms *)
Check (term_cmp_antisym : forall a b, wf a -> wf b -> term_cmp b a = CompOpp (term_cmp a b)).
Check (term_cmp_trans : forall c x y z, wf x -> wf y -> wf z ->
  term_cmp x y = c -> term_cmp y z = c -> term_cmp x z = c).
Check (term_cmp_eq : forall a b, wf a -> wf b -> (term_cmp a b = Eq <-> term_eqb a b = true)).
Check (term_cmp_total : forall a b, wf a -> wf b ->
  term_cmp a b = Lt \/ term_eqb a b = true \/ term_cmp b a = Lt).
Check (kind_order : forall a b, (kind_rank (kind_of a) < kind_rank (kind_of b))%N -> term_cmp a b = Lt).
(* the one overridden eq (NsTerm) coincides with the default *)
Check (ns_term_eq_is_default : forall ns suffix other,
  ns_iri_eqb ns suffix other = term_eqb (Iri (ns ++ suffix)) (Iri other)).

Print Assumptions kind_ranks_from_source.
Print Assumptions kind_chain_from_source.
Print Assumptions term_eqb_refl.
Print Assumptions term_eqb_sym.
Print Assumptions term_eqb_trans.
Print Assumptions eq_same_hash.
Print Assumptions term_cmp_antisym.
Print Assumptions term_cmp_trans.
Print Assumptions term_cmp_eq.
Print Assumptions term_cmp_total.
Print Assumptions kind_order.
Print Assumptions ns_term_eq_is_default.

(* ---- accessors, components, constructors (widened harness) ---- *)
(* a copy / conversion / accessor result spelled the same is the same term, hence an equal one *)
Check (term_same_spec : forall a b, term_same a b = true <-> a = b).
Check (term_same_eqb : forall a b, term_same a b = true -> term_eqb a b = true).
Check (built_ok_eq : forall t obs, built_ok t obs = true -> forallb (term_eqb t) obs = true).
(* equality of atoms depends only on what the accessors return *)
Check (eq_via_accessors : forall a b, t_is_atom a = true -> term_eqb a b = eq_acc a b).
Check (atom_view_inj : forall a b,
  t_is_atom a = true -> t_is_atom b = true -> kind_of a = kind_of b ->
  acc_iri a = acc_iri b -> acc_bnode a = acc_bnode b -> acc_var a = acc_var b ->
  acc_lex a = acc_lex b -> acc_dt a = acc_dt b -> acc_tag a = acc_tag b -> a = b).
Check (tview_ok_self : forall t,
  tview_ok t (kind_rank (kind_of t)) (t_is_atom t) (acc_iri t) (acc_bnode t) (acc_lex t) (acc_dt t)
           (acc_tag t) (acc_var t) = true).
(* quoted-triple components: atoms / constituents / to_triple of equal terms are pairwise equal *)
Check (atoms_filter : forall t, t_atoms t = filter t_is_atom (t_constituents t)).
Check (atoms_atomic : forall t, forallb t_is_atom (t_atoms t) = true).
Check (constituents_count : forall t,
  if t_is_atom t then t_constituents t = [t] /\ t_atoms t = [t]
  else (4 <= length (t_constituents t))%nat /\ (3 <= length (t_atoms t))%nat).
Check (eq_atoms : forall a b, term_eqb a b = true -> list_eqb term_eqb (t_atoms a) (t_atoms b) = true).
Check (eq_constituents : forall a b,
  term_eqb a b = true -> list_eqb term_eqb (t_constituents a) (t_constituents b) = true).
Check (eq_to_triple : forall a b, term_eqb a b = true ->
  match t_to_triple a, t_to_triple b with
  | Some (s, p, o), Some (s', p', o') => term_eqb s s' && term_eqb p p' && term_eqb o o' = true
  | None, None => True
  | _, _ => False
  end).
(* `lex * ns_term` *)
Check (ns_lit_eq : forall ns sfx lex lex' other,
  term_eqb (ns_lit ns sfx lex) (LitDt lex' other) = str_eqb lex lex' && ns_iri_eqb ns sfx other).
(* graph names *)
Check (gname_eqb_refl : forall a, gname_eqb a a = true).
Check (gname_eqb_sym : forall a b, gname_eqb a b = gname_eqb b a).
Check (gname_eqb_trans : forall a b c, gname_eqb a b = true -> gname_eqb b c = true -> gname_eqb a c = true).
Check (gname_default : forall a, gname_eqb None a = true <-> a = None).

(* non-vacuity: a nested quoted triple, its atoms in order, and a copy that differs only in tag case *)
Example components_example :
  let t := Triple (Triple (Bnode [98]) (Iri [112]) (LitLang [108] [69;78])) (Iri [113]) (Var [118]) in
  t_atoms t = [Bnode [98]; Iri [112]; LitLang [108] [69;78]; Iri [113]; Var [118]]
  /\ length (t_constituents t) = 7%nat
  /\ term_same t (Triple (Triple (Bnode [98]) (Iri [112]) (LitLang [108] [101;110])) (Iri [113]) (Var [118])) = false
  /\ term_eqb t (Triple (Triple (Bnode [98]) (Iri [112]) (LitLang [108] [101;110])) (Iri [113]) (Var [118])) = true
  /\ gname_eqb None (Some t) = false.
Proof. repeat split; vm_compute; reflexivity. Qed.

Print Assumptions term_same_spec.
Print Assumptions term_same_eqb.
Print Assumptions built_ok_eq.
Print Assumptions eq_via_accessors.
Print Assumptions atom_view_inj.
Print Assumptions tview_ok_self.
Print Assumptions atoms_filter.
Print Assumptions atoms_atomic.
Print Assumptions constituents_count.
Print Assumptions eq_atoms.
Print Assumptions eq_constituents.
Print Assumptions eq_to_triple.
Print Assumptions ns_lit_eq.
Print Assumptions gname_eqb_refl.
Print Assumptions gname_eqb_sym.
Print Assumptions gname_eqb_trans.
Print Assumptions gname_default.

(* ---- the calls made on the Hasher (strengthened harness): "hash identically" for EVERY hasher ---- *)
(* the call sequence refines the byte stream *)
Check (hash_calls_bytes : forall t, calls_bytes (hash_calls t) = hash_stream t).
(* equal terms make the same calls, hence get the same digest from any hasher (any state type, any transition) *)
Check (eq_same_hash_calls : forall a b, term_eqb a b = true -> hash_calls a = hash_calls b).
Check (eq_same_digest : forall (S : Type) (step : S -> hcall -> S) (s0 : S) a b,
  term_eqb a b = true -> run_hasher step s0 a = run_hasher step s0 b).
Check (hash_calls_ok_spec : forall t obs, hash_calls_ok t obs = true <-> obs = hash_calls t).
Check (hash_calls_ok_eq : forall a b obs, term_eqb a b = true -> hash_calls_ok a obs = hash_calls_ok b obs).
(* NsTerm hashes as the IRI it is equal to; splitting the write keeps the bytes and is rejected all the same *)
Check (ns_hash_is_default : forall ns sfx other,
  ns_iri_eqb ns sfx other = true -> ns_hash_calls ns sfx = hash_calls (Iri other)).
Check (ns_split_same_bytes : forall ns sfx, calls_bytes (ns_split_calls ns sfx) = hash_stream (Iri (ns ++ sfx))).
Check (ns_split_other_calls : forall ns sfx, hash_calls_ok (Iri (ns ++ sfx)) (ns_split_calls ns sfx) = false).
(* non-vacuity: the byte-level checker accepts the split hash of <http://e/ab> = "http://e/" + "ab", the call-level
   checker does not, and two boundary-sensitive hashers (length-mixing, word-at-a-time) do give other digests *)
Example split_hash_example :
  let ns := [104;116;116;112;58;47;47;101;47] in let sfx := [97;98] in
  hash_ok (Iri (ns ++ sfx)) (calls_bytes (ns_split_calls ns sfx)) = true
  /\ hash_calls_ok (Iri (ns ++ sfx)) (ns_split_calls ns sfx) = false
  /\ hash_calls_ok (Iri (ns ++ sfx)) (ns_hash_calls ns sfx) = true
  /\ fold_left lenmix_step (ns_split_calls ns sfx) 0 <> run_hasher lenmix_step 0 (Iri (ns ++ sfx))
  /\ fold_left fx_step (ns_split_calls ns sfx) 0 <> run_hasher fx_step 0 (Iri (ns ++ sfx))
  /\ run_hasher fx_step 0 (LitLang [97] [69;78]) = run_hasher fx_step 0 (LitLang [97] [101;110]).
Proof. repeat split; vm_compute; congruence. Qed.

Print Assumptions hash_calls_bytes.
Print Assumptions eq_same_hash_calls.
Print Assumptions eq_same_digest.
Print Assumptions hash_calls_ok_spec.
Print Assumptions hash_calls_ok_eq.
Print Assumptions ns_hash_is_default.
Print Assumptions ns_split_same_bytes.
Print Assumptions ns_split_other_calls.

(* ---- the string stashes: a stashed copy is the SAME term, whatever its text looks like ---- *)
Check (copy_str_spec : forall st s, copy_str st s = (stash_add st s, s)).
Check (copy_term_same : forall st t, snd (copy_term st t) = t).
Check (copy_term_eqb : forall st t, term_eqb t (snd (copy_term st t)) = true).
Check (copy_term_hash : forall st t, hash_calls (snd (copy_term st t)) = hash_calls t).
Check (copy_terms_same : forall st ts, snd (copy_terms st ts) = ts).
Check (copy_term_inj : forall st1 st2 a b, snd (copy_term st1 a) = snd (copy_term st2 b) -> a = b).
Check (copy_term_idem : forall st t, copy_term (fst (copy_term st t)) t = (fst (copy_term st t), t)).
(* the stash holds exactly the strings copied into it, each once *)
Check (stash_content : forall st t x, In x (fst (copy_term st t)) <-> In x st \/ In x (term_strs t)).
Check (stash_nodup : forall st t, NoDup st -> NoDup (fst (copy_term st t))).
Check (stash_run_content : forall ts x, In x (fst (copy_terms [] ts)) <-> In x (flat_map term_strs ts)).
Check (stash_run_nodup : forall ts, NoDup (fst (copy_terms [] ts))).
Check (stash_run_ok_spec : forall ts copies len,
  stash_run_ok ts copies len = true -> copies = ts /\ len = N.of_nat (length (fst (copy_terms [] ts)))).
(* non-vacuity: <HTTP://e/a> and <http://e/a> are two terms and stay two terms (two strings) in one stash, in either
   order; a copy with the scheme lower-cased is refused by the checker *)
Example stash_example :
  let up := Iri [72;84;84;80;58;47;47;101;47;97] in let lo := Iri [104;116;116;112;58;47;47;101;47;97] in
  term_eqb up lo = false
  /\ stash_run_ok [up; lo; LitDt [49] [72;84;84;80;58;47;47;101;47;97]; up] [up; lo; LitDt [49] [72;84;84;80;58;47;47;101;47;97]; up] 3 = true
  /\ stash_run_ok [lo; up] [lo; up] 2 = true
  /\ stash_run_ok [lo; up] [lo; lo] 2 = false
  /\ stash_run_ok [lo; up] [lo; up] 1 = false.
Proof. repeat split; vm_compute; reflexivity. Qed.

Print Assumptions copy_str_spec.
Print Assumptions copy_term_same.
Print Assumptions copy_term_eqb.
Print Assumptions copy_term_hash.
Print Assumptions copy_terms_same.
Print Assumptions copy_term_inj.
Print Assumptions copy_term_idem.
Print Assumptions stash_content.
Print Assumptions stash_nodup.
Print Assumptions stash_run_content.
Print Assumptions stash_run_nodup.
Print Assumptions stash_run_ok_spec.
