(* C14/ContextProofs.v -- ORDER BY in its evaluation context (model: Context.v):
   - an ORDER BY returns a permutation of its input that is strictly sorted for the keys evaluated against the
     graph_matcher it received, and ANY sorted permutation (the contract of sort_unstable_by) is that sequence;
   - GRAPH <g> { .. } and GRAPH ?g { .. } replace the active graph: the keys of an ORDER BY below them are
     evaluated against the named graph, whatever the active graph outside is;
   - EXISTS over a pattern of the active graph only looks at the quads of the active graph;
   - evaluating the keys somewhere else is unobservable without GRAPH, and observable with it (witness). *)
From Coq Require Import QArith Sorting.Sorted Sorting.Permutation.
From Sophia.C14 Require Import Model Proofs Context.
Close Scope Q_scope.
Open Scope N_scope.

(* ================= a strictly sorted permutation is unique ================= *)
Lemma list_eqb_Forall2 {A} (eqb : A -> A -> bool) : forall l m,
  list_eqb eqb l m = true -> Forall2 (fun a b => eqb a b = true) l m.
Proof.
  induction l as [|x l IH]; intros [|y m] H; simpl in H; try discriminate; constructor.
  - apply andb_true_iff in H. apply H.
  - apply IH. apply andb_true_iff in H. apply H.
Qed.

Lemma Forall2_imp {A B} (R S : A -> B -> Prop) : (forall a b, R a b -> S a b) ->
  forall l m, Forall2 R l m -> Forall2 S l m.
Proof. intros H l m F. induction F; constructor; auto. Qed.

Lemma Forall2_len {A B} (R : A -> B -> Prop) l m : Forall2 R l m -> length l = length m.
Proof. intros F. induction F; simpl; auto. Qed.

Theorem strictly_sorted_unique {A} (P : A -> Prop) (c : A -> A -> comparison) :
  (forall a b, P a -> P b -> c b a = CompOpp (c a b)) ->
  forall l1 l2, Forall P l1 -> strictly_sorted c l1 = true -> Permutation l1 l2 ->
    all_pairs_le (leb_of c) l2 = true -> l1 = l2.
Proof.
  intros Hanti. induction l1 as [|x t IH]; intros l2 FP S Pm L.
  - apply Permutation_nil in Pm. congruence.
  - destruct l2 as [|y t2]; [apply Permutation_sym, Permutation_nil in Pm; discriminate|].
    inversion FP as [|? ? Px Pt]; subst.
    unfold strictly_sorted in S. simpl in S, L.
    apply andb_true_iff in S. destruct S as [Sx St].
    apply andb_true_iff in L. destruct L as [Ly Lt2].
    assert (Hy : In y (x :: t)).
    { eapply Permutation_in; [apply Permutation_sym; exact Pm | left; reflexivity]. }
    assert (Hx : In x (y :: t2)).
    { eapply Permutation_in; [exact Pm | left; reflexivity]. }
    destruct Hy as [Hy | Hy].
    + subst y. f_equal. apply IH; auto. eapply Permutation_cons_inv; exact Pm.
    + destruct Hx as [Hx | Hx].
      * subst y. f_equal. apply IH; auto. eapply Permutation_cons_inv; exact Pm.
      * exfalso.
        rewrite forallb_forall in Sx. specialize (Sx y Hy).
        rewrite forallb_forall in Ly. specialize (Ly x Hx).
        assert (Py : P y) by (rewrite Forall_forall in Pt; auto).
        unfold ltb_of in Sx. unfold leb_of in Ly.
        rewrite (Hanti x y Px Py) in Ly.
        destruct (c x y); simpl in *; discriminate.
Qed.

(* ================= ORDER BY: a sorted permutation for the keys evaluated against ITS graph_matcher ================= *)
Theorem order_by_output ds gm keys q out o :
  ceval ds gm (COrder keys q) = Some (out, o) ->
  exists l o', ceval ds gm q = Some (l, o') /\ o = true /\ Permutation l out
               /\ strictly_sorted (cmp_sol ds gm keys) out = true.
Proof.
  simpl. destruct (ceval ds gm q) as [[l o']|]; [|discriminate].
  destruct (strictly_sorted (cmp_sol ds gm keys) (isort (cmp_sol ds gm keys) l)) eqn:E; [|discriminate].
  intros H. inversion H; subst. exists l, o'. repeat split; auto. apply isort_perm.
Qed.

Definition keys_ok ds gm (keys : list (expr * bool)) (b : binding) : Prop :=
  row_ok (map snd keys) (keys_of ds gm keys b).

Lemma cmp_sol_antisym ds gm keys a b :
  keys_ok ds gm keys a -> keys_ok ds gm keys b ->
  cmp_sol ds gm keys b a = CompOpp (cmp_sol ds gm keys a b).
Proof.
  intros Ha Hb. unfold cmp_sol.
  apply (po_antisym _ _ (cmp_bindings_preorder order_by (map snd keys) order_by_preorder)); assumption.
Qed.

(* sort_unstable_by is only known to return SOME sorted permutation: when the model has an opinion, there is
   only one *)
Theorem any_sorted_permutation_is_the_output ds gm keys q l o' out o out' :
  ceval ds gm q = Some (l, o') -> ceval ds gm (COrder keys q) = Some (out, o) ->
  Forall (keys_ok ds gm keys) l ->
  Permutation l out' -> all_pairs_le (leb_of (cmp_sol ds gm keys)) out' = true ->
  out' = out.
Proof.
  intros El Eo F Pm S.
  destruct (order_by_output _ _ _ _ _ _ Eo) as (l2 & o2 & El2 & _ & Pm2 & S2).
  rewrite El in El2. inversion El2; subst l2 o2.
  symmetry. apply (strictly_sorted_unique (keys_ok ds gm keys) (cmp_sol ds gm keys)); auto.
  - intros a b. apply cmp_sol_antisym.
  - eapply Permutation_Forall; eauto.
  - eapply perm_trans; [apply Permutation_sym; exact Pm2 | exact Pm].
Qed.

(* ... and it has no inversion: the first key on which two solutions differ decides, in the context [gm] *)
Lemma all_pairs_le_nth {A} (f : A -> A -> bool) : forall l, all_pairs_le f l = true ->
  forall i j d, (i < j < length l)%nat -> f (nth i l d) (nth j l d) = true.
Proof.
  induction l as [|x l IH]; intros H i j d [Hij Hj]; simpl in *; [lia|].
  apply andb_true_iff in H. destruct H as [Hx Hl].
  destruct j as [|j]; [lia|]. destruct i as [|i].
  - rewrite forallb_forall in Hx. apply Hx. apply nth_In. lia.
  - apply IH; auto. lia.
Qed.
Theorem order_by_output_strict ds gm keys q out o :
  ceval ds gm (COrder keys q) = Some (out, o) ->
  forall i j d, (i < j < length out)%nat ->
    cmp_bindings_with order_by (map snd keys) (keys_of ds gm keys (nth i out d)) (keys_of ds gm keys (nth j out d)) = Lt.
Proof.
  intros E i j d Hij.
  destruct (order_by_output _ _ _ _ _ _ E) as (l & o' & _ & _ & _ & S).
  pose proof (all_pairs_le_nth _ _ S i j d Hij) as H.
  unfold ltb_of, cmp_sol in H.
  destruct (cmp_bindings_with order_by (map snd keys) (keys_of ds gm keys (nth i out d)) (keys_of ds gm keys (nth j out d)));
    [discriminate | reflexivity | discriminate].
Qed.

(* ================= GRAPH replaces the active graph ================= *)
Theorem graph_const_ignores_outer_graph ds gm gm' g q :
  ceval ds gm (CGraphC g q) = ceval ds gm' (CGraphC g q).
Proof. reflexivity. Qed.
Theorem graph_var_ignores_outer_graph ds gm gm' v q :
  ceval ds gm (CGraphV v q) = ceval ds gm' (CGraphV v q).
Proof. reflexivity. Qed.

(* the sub-select of  GRAPH <g> { SELECT vs { q } ORDER BY keys LIMIT len OFFSET st } : its keys are evaluated
   against [g], and the window makes its order visible *)
Theorem subselect_under_graph_const ds gm g vs keys st len q out o :
  is_named ds g = true ->
  ceval ds gm (CGraphC g (CSlice st len (CProject vs (COrder keys q)))) = Some (out, o) ->
  exists l o' sorted,
    ceval ds [Some g] q = Some (l, o') /\ Permutation l sorted
    /\ strictly_sorted (cmp_sol ds [Some g] keys) sorted = true
    /\ out = window st len (map (project_to vs) sorted).
Proof.
  intros Hn. cbn [ceval]. rewrite Hn.
  destruct (ceval ds [Some g] q) as [[l o']|]; [|discriminate].
  destruct (strictly_sorted (cmp_sol ds [Some g] keys) (isort (cmp_sol ds [Some g] keys) l)) eqn:E; [|discriminate].
  cbn. intros H. inversion H; subst.
  exists l, o', (isort (cmp_sol ds [Some g] keys) l). repeat split; auto. apply isort_perm.
Qed.
Theorem graph_const_not_named ds gm g q : is_named ds g = false -> ceval ds gm (CGraphC g q) = Some ([], false).
Proof. intros H. simpl. rewrite H. reflexivity. Qed.

Lemma concat_opt_in {A} : forall (l : list (option (list A))) out x xs,
  concat_opt l = Some out -> In (Some xs) l -> In x xs -> In x out.
Proof.
  induction l as [|[y|] l IH]; intros out x xs H Hin Hx; simpl in *; try contradiction; try discriminate.
  destruct (concat_opt l) as [r|] eqn:E; [|discriminate]. simpl in H. inversion H; subst.
  apply in_or_app. destruct Hin as [Hin | Hin].
  - inversion Hin; subst. left; assumption.
  - right. eapply IH; eauto.
Qed.
Lemma concat_opt_all {A} : forall (l : list (option (list A))) out,
  concat_opt l = Some out -> forall y, In y l -> y <> None.
Proof.
  induction l as [|[y|] l IH]; intros out H z Hz; simpl in *; try contradiction; try discriminate.
  destruct (concat_opt l) as [r|] eqn:E; [|discriminate].
  destruct Hz as [Hz | Hz]; [subst; discriminate | eapply IH; eauto].
Qed.
(* GRAPH ?v { q }: for every named graph g, q is evaluated with g as the active graph (so are the keys of the
   ORDER BYs of q), and its solutions, joined with { v -> g }, are solutions of the whole *)
Theorem graph_var_each_graph ds gm v q out o :
  ceval ds gm (CGraphV v q) = Some (out, o) ->
  forall g, In g (graph_names ds) ->
    exists l o', ceval ds [Some g] q = Some (l, o') /\ forall b, In b (join_graph v g l) -> In b out.
Proof.
  cbn [ceval]. intros H g Hg.
  destruct (concat_opt (map (fun g0 => option_map (fun r => join_graph v g0 (fst r)) (ceval ds [Some g0] q)) (graph_names ds))) as [r|] eqn:E;
    [|discriminate].
  simpl in H. inversion H; subst.
  assert (Hin : In (option_map (fun r => join_graph v g (fst r)) (ceval ds [Some g] q))
                   (map (fun g0 => option_map (fun r => join_graph v g0 (fst r)) (ceval ds [Some g0] q)) (graph_names ds))).
  { apply in_map_iff. exists g. split; auto. }
  destruct (ceval ds [Some g] q) as [[l o']|] eqn:Eg.
  - exists l, o'. split; auto. intros b Hb. eapply concat_opt_in; eauto.
  - exfalso. eapply concat_opt_all; eauto.
Qed.

(* ================= EXISTS on the active graph only sees the active graph ================= *)
Lemma flat_map_filter {A B} (f : A -> list B) (g : A -> bool) : forall l,
  (forall a, g a = false -> f a = []) -> flat_map f l = flat_map f (filter g l).
Proof.
  intros l H. induction l as [|a l IH]; simpl; auto.
  destruct (g a) eqn:E; simpl; [rewrite IH; reflexivity | rewrite (H a E); exact IH].
Qed.
Theorem exists_only_sees_the_active_graph ds1 ds2 gm b p :
  filter (fun q => in_matcher gm (qg q)) ds1 = filter (fun q => in_matcher gm (qg q)) ds2 ->
  eval_exists ds1 gm b GActive p = eval_exists ds2 gm b GActive p.
Proof.
  intros H. unfold eval_exists, exists_in. cbn [bgp].
  set (f := fun q => match match_tp gm b p q with Some b' => [b'] | None => [] end).
  assert (Hf : forall q, in_matcher gm (qg q) = false -> f q = []).
  { intros q Hq. unfold f, match_tp. rewrite Hq. reflexivity. }
  rewrite (flat_map_filter f (fun q => in_matcher gm (qg q)) ds1 Hf).
  rewrite (flat_map_filter f (fun q => in_matcher gm (qg q)) ds2 Hf).
  rewrite H. reflexivity.
Qed.
(* the value of a key is a function of the context: same expression, same solution, two active graphs *)
Theorem key_value_depends_on_active_graph : exists ds b e g,
  eval_expr ds default_matcher b e <> eval_expr ds [Some g] b e.
Proof.
  exists [mkQ (Some (Iri [103])) (Iri [97]) (Iri [102]) (mkItem (Iri [121]) None)],
         [(0, mkItem (Iri [97]) None)],
         (EExists GActive (mkTP (NV 0) (NC (Iri [102])) (NC (Iri [121])))),
         (Iri [103]).
  vm_compute. discriminate.
Qed.

(* ================= evaluating the keys elsewhere: invisible without GRAPH, visible with it ================= *)
Fixpoint no_graph (q : cq) : bool :=
  match q with
  | CBgp _ => true
  | CUnion l r => no_graph l && no_graph r
  | CGraphC _ _ | CGraphV _ _ => false
  | CExtend _ _ q' | COrder _ q' | CProject _ q' | CSlice _ _ q' => no_graph q'
  end.
Theorem keys_elsewhere_unobservable_without_graph ds gm q :
  no_graph q = true -> eval_keys_at gm ds gm q = ceval ds gm q.
Proof.
  induction q; simpl; intros H; try discriminate; try reflexivity;
    try (apply andb_true_iff in H; destruct H as [H1 H2]; rewrite IHq1, IHq2 by assumption; reflexivity);
    rewrite IHq by assumption; reflexivity.
Qed.

(* the witness: default graph  a,c flagged;  graph g: a p 1, b p 2, c p 3, b flagged;
   GRAPH <g> { SELECT ?x { ?x <p> ?v } ORDER BY (EXISTS { ?x <flag> <yes> }) ?v LIMIT 2 } *)
Definition w_iri (n : N) : term := Iri [n].
Definition w_int (z : Z) : item :=
  mkItem (LitDt [] (xsd_ns ++ [105;110;116;101;103;101;114])) (Some (VNum (NativeInt z))).
Definition w_g := w_iri 103.
Definition w_ds : dataset :=
  [ mkQ None (w_iri 97) (w_iri 102) (mkItem (w_iri 121) None);
    mkQ None (w_iri 99) (w_iri 102) (mkItem (w_iri 121) None);
    mkQ (Some w_g) (w_iri 97) (w_iri 112) (w_int 1);
    mkQ (Some w_g) (w_iri 98) (w_iri 112) (w_int 2);
    mkQ (Some w_g) (w_iri 99) (w_iri 112) (w_int 3);
    mkQ (Some w_g) (w_iri 98) (w_iri 102) (mkItem (w_iri 121) None) ].
Definition w_keys : list (expr * bool) :=
  [ (EExists GActive (mkTP (NV 0) (NC (w_iri 102)) (NC (w_iri 121))), false); (EVar 1, false) ].
Definition w_query : cq :=
  CProject [0] (CGraphC w_g (CSlice 0 (Some 2) (CProject [0] (COrder w_keys (CBgp [mkTP (NV 0) (NC (w_iri 112)) (NV 1)]))))).
Definition w_row (n : N) : list (option item) := [Some (mkItem (w_iri n) None)].
Theorem keys_elsewhere_observable_under_graph :
  ctx_ok w_ds w_query [0] [w_row 97; w_row 99] = true
  /\ ctx_ok w_ds w_query [0] [w_row 98; w_row 97] = false
  /\ option_map (fun r => map (row_of [0]) (fst r)) (eval_keys_at default_matcher w_ds default_matcher w_query)
     = Some [w_row 98; w_row 97].
Proof. vm_compute. repeat split. Qed.

(* ================= the checker ================= *)
Theorem ctx_ok_ordered gm0 ds q vs out :
  ctx_ok_at gm0 ds q vs out = true ->
  exists l o, ceval ds gm0 q = Some (l, o) /\ length out = length l
    /\ (o = true -> Forall2 (Forall2 (fun a b => cell_eqb a b = true)) (map (row_of vs) l) out).
Proof.
  unfold ctx_ok_at. destruct (ceval ds gm0 q) as [[l [|]]|]; [| |discriminate]; intros H.
  - exists l, true. apply list_eqb_Forall2 in H.
    assert (F : Forall2 (Forall2 (fun a b => cell_eqb a b = true)) (map (row_of vs) l) out).
    { eapply Forall2_imp; [|exact H]. intros a b Hab. apply list_eqb_Forall2. exact Hab. }
    split; [reflexivity|]. split; [|intros _; exact F].
    apply Forall2_len in F. rewrite map_length in F. auto.
  - exists l, false. split; [reflexivity|]. split; [|discriminate].
    unfold bag_eqb in H. apply andb_true_iff in H. destruct H as [H _].
    apply Nat.eqb_eq in H. rewrite map_length in H. auto.
Qed.

(* ================= the values that keys take are items of the implementation ================= *)
Lemma bool_item_ok b : item_ok (bool_item b).
Proof. split; [|reflexivity]. simpl. destruct b; vm_compute; discriminate. Qed.
Fixpoint expr_ok (e : expr) : Prop :=
  match e with
  | EConst i => item_ok i
  | ENot a => expr_ok a
  | ECoalesce a b => expr_ok a /\ expr_ok b
  | EIf c t f => expr_ok c /\ expr_ok t /\ expr_ok f
  | _ => True
  end.
Theorem eval_expr_ok ds gm b e :
  (forall v i, lookup b v = Some i -> item_ok i) -> expr_ok e ->
  forall i, eval_expr ds gm b e = Some i -> item_ok i.
Proof.
  intros Hb. induction e; simpl; intros He r H.
  - eapply Hb; eauto.
  - inversion H; subst; assumption.
  - inversion H; subst. apply bool_item_ok.
  - inversion H; subst. apply bool_item_ok.
  - destruct (eval_expr ds gm b e) as [j|]; [|discriminate].
    destruct (ebv j); simpl in H; [|discriminate]. inversion H; subst. apply bool_item_ok.
  - destruct He as [H1 H2]. destruct (eval_expr ds gm b e1) as [j|] eqn:E1.
    + inversion H; subst. apply IHe1; auto.
    + apply IHe2; auto.
  - destruct He as (H1 & H2 & H3). destruct (eval_expr ds gm b e1) as [j|]; [|discriminate].
    destruct (ebv j) as [[|]|]; [apply IHe2 | apply IHe3 | discriminate]; auto.
Qed.

(* non-vacuity of the hypotheses of [any_sorted_permutation_is_the_output] on the witness *)
Lemma w_int_ok z : item_ok (w_int z).
Proof. split; [|reflexivity]. vm_compute. discriminate. Qed.
Theorem witness_hypotheses : exists l o out,
  ceval w_ds [Some w_g] (CBgp [mkTP (NV 0) (NC (w_iri 112)) (NV 1)]) = Some (l, o)
  /\ length l = 3%nat
  /\ Forall (keys_ok w_ds [Some w_g] w_keys) l
  /\ ceval w_ds [Some w_g] (COrder w_keys (CBgp [mkTP (NV 0) (NC (w_iri 112)) (NV 1)])) = Some (out, true).
Proof.
  eexists. eexists. eexists. split; [vm_compute; reflexivity|]. split; [reflexivity|]. split.
  - repeat constructor; try apply bool_item_ok; try apply w_int_ok; try (intros; discriminate).
  - vm_compute. reflexivity.
Qed.
