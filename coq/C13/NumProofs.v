(* C13/NumProofs.v -- SparqlNumber: integer arithmetic is exact and never overflows. *)
From Sophia.Common Require Import Prelude.
From Sophia.C13 Require Import NumModel.
Local Open Scope Z_scope.

Section NumProofs.
Variable F : floatlib.
Notation num := (num F).

Lemma checked_some z v : checked z = Some v -> v = z /\ in_isize v = true.
Proof. unfold checked. destruct (in_isize z) eqn:E; [|discriminate]. intros H; injection H as <-. auto. Qed.

(* every function is total: there is no plain isize operation left that could overflow;
   the NativeInt results hold an isize (no wrap-around) *)
Theorem neg_exact n z : int_val F n = Some z ->
  exists m, neg F n = Some m /\ int_val F m = Some (- z) /\ num_wf F m.
Proof.
  destruct n; simpl; try discriminate; intros H; injection H as <-.
  - destruct (checked (- z0)) as [v|] eqn:E.
    + apply checked_some in E as [-> E]. eexists; split; [reflexivity|]. simpl. auto.
    + eexists; split; [reflexivity|]. simpl. auto.
  - eexists; split; [reflexivity|]. simpl. auto.
Qed.
Theorem abs_exact n z : num_wf F n -> int_val F n = Some z ->
  int_val F (abs F n) = Some (Z.abs z) /\ num_wf F (abs F n).
Proof.
  destruct n; simpl; try discriminate; intros W H; injection H as <-.
  - destruct (checked (Z.abs z0)) as [v|] eqn:E.
    + apply checked_some in E as [-> E]. simpl. auto.
    + simpl. split; [|exact I]. f_equal. unfold checked, in_isize, isize_min, isize_max in *.
      destruct ((- 2 ^ 63 <=? Z.abs z0) && (Z.abs z0 <=? 2 ^ 63 - 1)) eqn:B; [discriminate|].
      apply andb_true_iff in W as [W1 W2]. apply Z.leb_le in W1, W2.
      apply andb_false_iff in B. destruct B as [B|B]; apply Z.leb_gt in B; lia.
  - simpl. auto.
Qed.
Theorem neg_total n : exists m, neg F n = Some m.
Proof. destruct n; simpl; eauto. Qed.

Theorem add_exact a b x y : int_val F a = Some x -> int_val F b = Some y ->
  exists m, add F a b = Some m /\ int_val F m = Some (x + y) /\ num_wf F m.
Proof.
  destruct a, b; simpl; try discriminate; intros H1 H2; injection H1 as <-; injection H2 as <-;
    try (eexists; split; [reflexivity|]; simpl; auto; fail).
  unfold add. simpl. destruct (checked (z + z0)) as [v|] eqn:E; simpl.
  - apply checked_some in E as [-> E]. eexists; split; [reflexivity|]. simpl. auto.
  - eexists; split; [reflexivity|]. simpl. auto.
Qed.
Theorem sub_exact a b x y : int_val F a = Some x -> int_val F b = Some y ->
  exists m, sub F a b = Some m /\ int_val F m = Some (x - y) /\ num_wf F m.
Proof.
  destruct a, b; simpl; try discriminate; intros H1 H2; injection H1 as <-; injection H2 as <-;
    try (eexists; split; [reflexivity|]; simpl; auto; fail).
  unfold sub. simpl. destruct (checked (z - z0)) as [v|] eqn:E; simpl.
  - apply checked_some in E as [-> E]. eexists; split; [reflexivity|]. simpl. auto.
  - eexists; split; [reflexivity|]. simpl. auto.
Qed.
Theorem mul_exact a b x y : int_val F a = Some x -> int_val F b = Some y ->
  exists m, mul F a b = Some m /\ int_val F m = Some (x * y) /\ num_wf F m.
Proof.
  destruct a, b; simpl; try discriminate; intros H1 H2; injection H1 as <-; injection H2 as <-;
    try (eexists; split; [reflexivity|]; simpl; auto; fail).
  unfold mul. simpl. destruct (checked (z * z0)) as [v|] eqn:E; simpl.
  - apply checked_some in E as [-> E]. eexists; split; [reflexivity|]. simpl. auto.
  - eexists; split; [reflexivity|]. simpl. auto.
Qed.
(* integer division yields a decimal, or an error (None) for a zero divisor; it never panics *)
Theorem div_int a b x y : int_val F a = Some x -> int_val F b = Some y ->
  div F a b = if y =? 0 then None else Some (Decimal F (dec_div F (dec_of_Z F x) (dec_of_Z F y))).
Proof.
  destruct a, b; simpl; try discriminate; intros H1 H2; injection H1 as <-; injection H2 as <-;
    reflexivity.
Qed.
Theorem cmp_int a b x y : int_val F a = Some x -> int_val F b = Some y ->
  num_cmp F a b = Some (x ?= y).
Proof.
  destruct a, b; simpl; try discriminate; intros H1 H2; injection H1 as <-; injection H2 as <-;
    reflexivity.
Qed.

(* ---------- the representation of an integer is not observable ----------
   (seeded change r4c13b: a fast path that compared a NativeInt with a BigInt by the sign of the
   BigInt alone, "because a BigInt never fits an isize") *)
Lemma num_sim_refl n : num_sim F n n.
Proof. destruct n; simpl; reflexivity. Qed.
Lemma num_sim_sym a b : num_sim F a b -> num_sim F b a.
Proof. destruct a, b; simpl; auto. Qed.
Lemma num_sim_trans a b c : num_sim F a b -> num_sim F b c -> num_sim F a c.
Proof. destruct a, b, c; simpl; try tauto; congruence. Qed.
Lemma normalize_sim n : num_sim F (normalize F n) n.
Proof. destruct n; simpl; try reflexivity. destruct (in_isize z); simpl; reflexivity. Qed.
Lemma normalize_wf n : num_wf F n -> num_wf F (normalize F n).
Proof. destruct n; simpl; auto. destruct (in_isize z) eqn:E; simpl; auto. Qed.

Ltac sim_cases a a' b b' :=
  destruct a, a', b, b'; simpl in *; try contradiction; subst; try reflexivity.

(* = != < <= > >= (and IN, through =): the answer depends on the numbers only *)
Theorem cmp_sim a a' b b' : num_sim F a a' -> num_sim F b b' -> num_cmp F a b = num_cmp F a' b'.
Proof. intros H1 H2. unfold num_cmp, coercing. sim_cases a a' b b'. Qed.
Theorem eq_sim a a' b b' : num_sim F a a' -> num_sim F b b' -> num_eq F a b = num_eq F a' b'.
Proof. intros H1 H2. unfold num_eq. rewrite (cmp_sim _ _ _ _ H1 H2). reflexivity. Qed.
Corollary cmp_normalize a b : num_cmp F (normalize F a) (normalize F b) = num_cmp F a b.
Proof. apply cmp_sim; apply normalize_sim. Qed.
Corollary eq_normalize a b : num_eq F (normalize F a) (normalize F b) = num_eq F a b.
Proof. apply eq_sim; apply normalize_sim. Qed.
(* in particular a computed integer that is back in the isize range compares like the literal *)
Corollary cmp_bigint_native x y : num_cmp F (BigInt F x) (NativeInt F y) = Some (x ?= y)
  /\ num_cmp F (NativeInt F x) (BigInt F y) = Some (x ?= y).
Proof. split; reflexivity. Qed.

(* + - * / and unary minus send representations of the same numbers to representations of the
   same number (or fail together) *)
Ltac sim_arith :=
  repeat match goal with
         | |- context [checked ?z] =>
             let E := fresh "E" in destruct (checked z) eqn:E; simpl;
             [apply checked_some in E; destruct E as [? ?]; subst|]
         end; simpl; auto.
Theorem add_sim a a' b b' : num_sim F a a' -> num_sim F b b' -> osim F (add F a b) (add F a' b').
Proof. intros H1 H2. unfold add, coercing. sim_cases a a' b b'; sim_arith. Qed.
Theorem sub_sim a a' b b' : num_sim F a a' -> num_sim F b b' -> osim F (sub F a b) (sub F a' b').
Proof. intros H1 H2. unfold sub, coercing. sim_cases a a' b b'; sim_arith. Qed.
Theorem mul_sim a a' b b' : num_sim F a a' -> num_sim F b b' -> osim F (mul F a b) (mul F a' b').
Proof. intros H1 H2. unfold mul, coercing. sim_cases a a' b b'; sim_arith. Qed.
Theorem div_sim a a' b b' : num_sim F a a' -> num_sim F b b' -> osim F (div F a b) (div F a' b').
Proof.
  intros H1 H2. unfold div, coercing. sim_cases a a' b b';
    repeat match goal with |- context [if ?c then _ else _] => destruct c end; simpl; auto.
Qed.
Theorem neg_sim a a' : num_sim F a a' -> osim F (neg F a) (neg F a').
Proof. intros H. destruct a, a'; simpl in *; try contradiction; subst; sim_arith. Qed.
Theorem abs_sim a a' : num_wf F a -> num_wf F a' -> num_sim F a a' -> num_sim F (abs F a) (abs F a').
Proof.
  intros W1 W2 H. destruct a, a'; simpl in *; try contradiction; subst; auto;
    try (destruct (checked (Z.abs z0)) as [v|] eqn:E; simpl;
         [apply checked_some in E as [-> _]; reflexivity|]);
    unfold checked, in_isize, isize_min, isize_max in *;
    destruct ((- 2 ^ 63 <=? Z.abs z0) && (Z.abs z0 <=? 2 ^ 63 - 1)) eqn:B; try discriminate;
    match goal with W : _ && _ = true |- _ => apply andb_true_iff in W as [W1' W2']; apply Z.leb_le in W1', W2' end;
    apply andb_false_iff in B; destruct B as [B|B]; apply Z.leb_gt in B; lia.
Qed.
(* the value of an integer representation is all that is left of it in a term (to_string) *)
Lemma sim_int_val a a' : num_sim F a a' -> int_val F a = int_val F a'.
Proof. destruct a, a'; simpl; try contradiction; congruence. Qed.

(* where the old code did not panic and was right, the fix changes nothing *)
Theorem neg0_agrees n r : neg0 F n = Val r -> r = neg F n.
Proof.
  destruct n; simpl; try (intros H; injection H as <-; reflexivity).
  unfold plain_neg, checked. destruct (in_isize (- z)); [|discriminate].
  intros H; injection H as <-. reflexivity.
Qed.
Theorem abs0_agrees_native z r : abs0 F (NativeInt F z) = Val r -> r = abs F (NativeInt F z).
Proof.
  simpl. unfold plain_abs, checked. destruct (in_isize (Z.abs z)); [|discriminate].
  intros H; injection H as <-. reflexivity.
Qed.

(* DESIGN section 4 rows 22 and 23 on the code before the fixes *)
Example neg0_refuted : neg0 F (NativeInt F isize_min) = Panic.
Proof. reflexivity. Qed.
Example abs0_min_refuted : abs0 F (NativeInt F isize_min) = Panic.
Proof. reflexivity. Qed.
Example abs0_big_refuted :
  abs0 F (BigInt F (-99999999999999999999)) = Val (BigInt F (-99999999999999999999)).
Proof. reflexivity. Qed.
(* ... and after *)
Example neg_min : neg F (NativeInt F isize_min) = Some (BigInt F 9223372036854775808).
Proof. reflexivity. Qed.
Example abs_min : abs F (NativeInt F isize_min) = BigInt F 9223372036854775808.
Proof. reflexivity. Qed.
Example abs_big : abs F (BigInt F (-99999999999999999999)) = BigInt F 99999999999999999999.
Proof. reflexivity. Qed.
End NumProofs.
