(* C18/IrisProofs.v -- theorems about C18/Iris.v: the scheme rule, IRIs of any shape through
   convert_triple, the formatter and Rio's reader with and without a base. *)
From Sophia.C09 Require Import Regex Rfc3987 Resolve.
From Sophia.C18 Require Import Model Proofs Paths PathsProofs Iris.

(* ---- the scheme rule ---- *)
Lemma scheme_char_not_colon c : is_scheme_char c = true -> (c =? 58) = false.
Proof.
  intros H. destruct (c =? 58) eqn:E; [|reflexivity]. apply N.eqb_eq in E. subst c. discriminate H.
Qed.
Lemma scheme_tail_complete r rest :
  forallb is_scheme_char r = true -> scheme_tail (r ++ 58 :: rest) = Some (r, rest).
Proof.
  induction r as [|c r IH]; cbn [app scheme_tail forallb]; intros H.
  - rewrite N.eqb_refl. reflexivity.
  - apply andb_true_iff in H as [Hc Hr]. rewrite (scheme_char_not_colon c Hc), Hc, (IH Hr). reflexivity.
Qed.
(* THEOREM: whatever follows the colon, a text that starts with ALPHA *( ALPHA / DIGIT / "+" / "-" / "." ) ":"
   has that scheme -- "+", "-", ".", digits and upper case included *)
Theorem scheme_of_complete s rest :
  scheme_ok s = true -> scheme_of (s ++ 58 :: rest) = Some (s, rest).
Proof.
  destruct s as [|c r]; [discriminate|]. cbn [scheme_ok app scheme_of]. intros H.
  apply andb_true_iff in H as [Hc Hr]. rewrite Hc, (scheme_tail_complete r rest Hr). reflexivity.
Qed.
Lemma scheme_tail_sound : forall i a b, scheme_tail i = Some (a, b) ->
  i = a ++ 58 :: b /\ forallb is_scheme_char a = true.
Proof.
  induction i as [|c r IH]; cbn [scheme_tail]; intros a b H; [discriminate|].
  destruct (c =? 58) eqn:E.
  - apply N.eqb_eq in E. subst c. inversion H; subst. split; reflexivity.
  - destruct (is_scheme_char c) eqn:Hc; [|discriminate].
    destruct (scheme_tail r) as [[a' b']|] eqn:T; [|discriminate]. inversion H; subst.
    destruct (IH a' b eq_refl) as [-> Ha]. split; [reflexivity|]. cbn [forallb]. rewrite Hc, Ha. reflexivity.
Qed.
(* THEOREM: and only such a text has a scheme *)
Theorem scheme_of_sound i s rest :
  scheme_of i = Some (s, rest) -> i = s ++ 58 :: rest /\ scheme_ok s = true.
Proof.
  destruct i as [|c r]; cbn [scheme_of]; [discriminate|].
  destruct (is_alpha c) eqn:Hc; [|discriminate].
  destruct (scheme_tail r) as [[a b]|] eqn:T; [|discriminate]. intros H. inversion H; subst.
  destruct (scheme_tail_sound r a rest T) as [-> Ha]. split; [reflexivity|]. cbn [scheme_ok]. rewrite Hc, Ha. reflexivity.
Qed.
Corollary has_scheme_prefix s rest : scheme_ok s = true -> has_scheme (s ++ 58 :: rest) = true.
Proof. intros H. unfold has_scheme. rewrite (scheme_of_complete s rest H). reflexivity. Qed.
Corollary has_scheme_inv i : has_scheme i = true -> exists s rest, i = s ++ 58 :: rest /\ scheme_ok s = true.
Proof.
  unfold has_scheme. destruct (scheme_of i) as [[s rest]|] eqn:E; [|discriminate]. intros _.
  exists s, rest. apply scheme_of_sound. exact E.
Qed.

(* ---- sophia's convert_triple never looks inside an IRI ---- *)
(* THEOREM: a triple of three IRIs -- ANY three texts -- is handed to the formatter as it is *)
Theorem convert_any_iri : forall a p b : str,
  convert (Iri a, Iri p, Iri b) = CRio (SNode (RIri a)) p (OObj (ONode (RIri b))).
Proof. reflexivity. Qed.
(* THEOREM: so is a literal with ANY datatype IRI (xsd:string becomes a simple literal) *)
Theorem convert_any_datatype : forall a p v d : str,
  convert (Iri a, Iri p, LitDt v d) = CRio (SNode (RIri a)) p (OObj (if str_eqb xsd_string d then OSimple v else OTyped v d)).
Proof. reflexivity. Qed.
(* THEOREM: no triple of a graph of IRIs, blank nodes and literals is dropped: what is collected for the
   formatter is, read back as terms, the graph itself -- whatever the IRIs look like *)
Theorem collect_keeps_every_triple g :
  forallb representable g = true -> snd (collect false g) = None /\ map unconvert (rts g) = g.
Proof.
  intros H. assert (Hf : forallb flat3 g = true).
  { apply forallb_forall. intros [[s p] o] Hin. rewrite forallb_forall in H. specialize (H _ Hin).
    unfold representable in H. apply andb_true_iff in H as [H Ho]. apply andb_true_iff in H as [Hs Hp].
    unfold flat3. destruct s; try discriminate; destruct p; try discriminate; destruct o; try discriminate; reflexivity. }
  destruct (collect_flat g Hf) as [He Hm]. split; [exact He|]. rewrite Hm.
  clear -H. induction g as [|t g IH]; [reflexivity|]. cbn [forallb filter] in *.
  apply andb_true_iff in H as [Ht Hg]. rewrite Ht, (IH Hg). reflexivity.
Qed.

(* ---- oxiri's resolver on an IRI ---- *)
(* THEOREM: under ANY base, an IRI is read back character for character (no dot-segment removal either) *)
Theorem ox_resolve_iri base i : has_scheme i = true -> ox_resolve base i = Some i.
Proof. intros H. unfold ox_resolve. rewrite H. reflexivity. Qed.

(* ---- the reader's IRI handling on what the formatter wrote ---- *)
Lemma res_node_fix f P n : (forall i, P i = true -> f i = Some i) -> node_pos P n = true -> res_node f n = Some n.
Proof. intros Hf. destruct n as [i|b]; cbn [node_pos res_node]; intros H; [rewrite (Hf i H)|]; reflexivity. Qed.
Lemma res_t_fix f P t : (forall i, P i = true -> f i = Some i) -> t_pos P t = true -> res_t f t = Some t.
Proof.
  intros Hf. destruct t as [[s p] o]. cbn [t_pos res_t]. intros H. apply andb_true_iff in H as [Hs Ho].
  rewrite (res_node_fix f P s Hf Hs).
  destruct o as [n|v|v tag|v d]; cbn [obj_pos res_obj] in *.
  - rewrite (res_node_fix f P n Hf Ho). reflexivity.
  - reflexivity.
  - reflexivity.
  - rewrite (Hf d Ho). reflexivity.
Qed.
Lemma map_opt_fix f P ts : (forall i, P i = true -> f i = Some i) ->
  forallb (t_pos P) ts = true -> map_opt (res_t f) ts = Some ts.
Proof.
  intros Hf. induction ts as [|t ts IH]; [reflexivity|]. cbn [forallb map_opt]. intros H.
  apply andb_true_iff in H as [Ht Hts]. rewrite (res_t_fix f P t Hf Ht), (IH Hts). reflexivity.
Qed.
Lemma res_node_none f P n : (forall i, P i = false -> f i = None) -> node_pos P n = false -> res_node f n = None.
Proof. intros Hf. destruct n as [i|b]; cbn [node_pos res_node]; intros H; [rewrite (Hf i H); reflexivity|discriminate]. Qed.
Lemma res_t_none f P t : (forall i, P i = false -> f i = None) -> t_pos P t = false -> res_t f t = None.
Proof.
  intros Hf. destruct t as [[s p] o]. cbn [t_pos res_t]. intros H. apply andb_false_iff in H as [Hs|Ho].
  - rewrite (res_node_none f P s Hf Hs). reflexivity.
  - destruct (res_node f s); [|reflexivity].
    destruct o as [n|v|v tag|v d]; cbn [obj_pos res_obj] in *; try discriminate.
    + rewrite (res_node_none f P n Hf Ho). reflexivity.
    + rewrite (Hf d Ho). reflexivity.
Qed.
Lemma map_opt_none f P ts : (forall i, P i = false -> f i = None) ->
  forallb (t_pos P) ts = false -> map_opt (res_t f) ts = None.
Proof.
  intros Hf. induction ts as [|t ts IH]; [discriminate|]. cbn [forallb map_opt]. intros H.
  apply andb_false_iff in H as [Ht|Hts].
  - rewrite (res_t_none f P t Hf Ht). reflexivity.
  - rewrite (IH Hts). destruct (res_t f t); reflexivity.
Qed.
Lemma t_pos_norm_ren P guard x : t_pos P (norm_t (ren_t guard x)) = t_pos P x.
Proof. destruct x as [[s p] o]. destruct s; destruct o as [[]|v|v tag|v dt]; reflexivity. Qed.

(* THEOREM (with the repair, i.e. the serializer as it is today): for a graph without quoted triples that RDF/XML
   can express, with terms valid in sophia, whose IRIs in subject / object / datatype position all satisfy P,
   and a reader that leaves such IRIs alone, reading the written document gives the representable triples:
   nothing is lost, whatever the shape of the IRIs *)
Theorem parse_iris_roundtrip f P k g :
  (forall i, P i = true -> f i = Some i) ->
  forallb flat3 g = true -> forallb expressible (rts g) = true ->
  forallb (triple_valid false) (rts g) = true -> forallb (t_pos P) (rts g) = true ->
  serialize true k g = SerOk (flatten (doc_events k (map (ren_t true) (rts g))))
  /\ parse_iris f true k g = Some (expected_parse true g).
Proof.
  intros Hfix Hf He Hv Hp. pose proof (collect_guarded g Hf) as H. rewrite He in H.
  destruct (collect_flat g Hf) as [_ Hm].
  unfold serialize, parse_iris, expected_parse. rewrite H. split; [reflexivity|].
  rewrite document_roundtrip.
  - rewrite (map_opt_fix f P).
    + cbn [option_map]. rewrite !map_map, <- Hm, map_map. f_equal. apply map_ext. intros x. apply unconvert_norm.
    + exact Hfix.
    + rewrite map_map. rewrite forallb_forall in *. intros x Hin. apply in_map_iff in Hin as (y & <- & Hy).
      rewrite t_pos_norm_ren. auto.
  - rewrite forallb_forall in *. intros x Hin. apply in_map_iff in Hin as (y & <- & Hy).
    apply guard_triple_ok; auto.
Qed.
(* COROLLARY: without a base, IRIs (RFC 3987 `IRI`) in those positions suffice *)
Corollary iris_roundtrip_nobase k g :
  forallb flat3 g = true -> forallb expressible (rts g) = true ->
  forallb (triple_valid false) (rts g) = true -> forallb (t_pos rio_iri) (rts g) = true ->
  nobase_parse true k g = Some (expected_parse true g).
Proof.
  intros. apply (parse_iris_roundtrip nobase_iri rio_iri); auto.
  intros i Hi. unfold nobase_iri. rewrite Hi. reflexivity.
Qed.
(* COROLLARY: and under ANY base the same graph comes back *)
Corollary iris_roundtrip_any_base k base g :
  forallb flat3 g = true -> forallb expressible (rts g) = true ->
  forallb (triple_valid false) (rts g) = true -> forallb (t_pos iri_any_base) (rts g) = true ->
  base_parse true k base g = Some (expected_parse true g).
Proof.
  intros. apply (parse_iris_roundtrip (base_iri base) iri_any_base); auto.
  intros i Hi. unfold iri_any_base in Hi. apply andb_true_iff in Hi as [Hr Hs].
  unfold base_iri. rewrite Hr. apply ox_resolve_iri. exact Hs.
Qed.
(* THEOREM: a relative reference in subject / object / datatype position is written as it is, and a reader
   without a base then rejects the document (the input was not an RDF graph: generalized input) *)
Theorem relative_needs_base guard k g ts rs :
  collect guard g = (ts, None) -> read false (doc_events k ts) = Some rs ->
  forallb (t_pos rio_iri) rs = false -> nobase_parse guard k g = None.
Proof.
  intros Hc Hr Hp. unfold nobase_parse, parse_iris. rewrite Hc, Hr.
  rewrite (map_opt_none nobase_iri rio_iri); [reflexivity| |exact Hp].
  intros i Hi. unfold nobase_iri. rewrite Hi. reflexivity.
Qed.
(* the indentation is as invisible to this reader as to the others *)
Theorem parse_iris_indentation f guard k g : parse_iris f guard k g = parse_iris f guard 0 g.
Proof.
  unfold parse_iris. destruct (collect guard g) as [ts [e|]]; [reflexivity|].
  rewrite (indentation_irrelevant false k ts), (indentation_irrelevant false 0 ts). reflexivity.
Qed.

(* ---- constants of the examples (code points; generated once from the texts in the comments) ---- *)
Definition ex_shapes : list str :=
  [[99;111;97;112;43;116;99;112;58;47;47;101;120;97;109;112;108;101;46;111;114;103;47;115;101;110;115;111;114;115;47;116;101;109;112]  (* coap+tcp://example.org/sensors/temp *);
   [115;118;110;43;115;115;104;58;47;47;117;64;104;47;114;101;112;111;47;116;114;117;110;107]  (* svn+ssh://u@h/repo/trunk *);
   [122;51;57;46;53;48;115;58;47;47;104;47;100;98]  (* z39.50s://h/db *);
   [118;105;101;119;45;115;111;117;114;99;101;58;104;116;116;112;58;47;47;101;47;110;115;35;112]  (* view-source:http://e/ns#p *);
   [120;45;100;116;58;105;110;116]  (* x-dt:int *);
   [97;58;98]  (* a:b *);
   [90;58;98]  (* Z:b *);
   [72;84;84;80;58;47;47;69;47;88]  (* HTTP://E/X *);
   [104;50;58;120]  (* h2:x *);
   [97;49;43;98;45;99;46;100;58;120]  (* a1+b-c.d:x *);
   [120;46;58;121]  (* x.:y *);
   [117;114;110;58;97;58;98]  (* urn:a:b *);
   [109;97;105;108;116;111;58;120;64;121]  (* mailto:x@y *);
   [102;105;108;101;58;47;47;47;120]  (* file:///x *);
   [120;58;47;97;47;98]  (* x:/a/b *);
   [120;58]  (* x: *);
   [120;58;63;113]  (* x:?q *);
   [120;58;35;102]  (* x:#f *);
   [104;116;116;112;58;47;47;104]  (* http://h *);
   [104;116;116;112;58;47;47;104;63;113]  (* http://h?q *);
   [104;116;116;112;58;47;47;117;58;112;119;64;104;58;56;48;56;48;47;112]  (* http://u:pw@h:8080/p *);
   [104;116;116;112;58;47;47;104;58;47;112]  (* http://h:/p *);
   [104;116;116;112;58;47;47;91;58;58;49;93;47;112]  (* http://[::1]/p *);
   [104;116;116;112;58;47;47;91;50;48;48;49;58;100;98;56;58;58;55;93;58;56;48;56;48;47;112;63;113;35;102]  (* http://[2001:db8::7]:8080/p?q#f *);
   [104;116;116;112;58;47;47;91;118;55;46;97;58;98;93;47;112]  (* http://[v7.a:b]/p *);
   [104;116;116;112;58;47;47;49;50;55;46;48;46;48;46;49;47;112]  (* http://127.0.0.1/p *);
   [104;116;116;112;58;47;47;104;47;97;37;50;48;98;47;37;67;51;37;65;57]  (* http://h/a%20b/%C3%A9 *);
   [104;116;116;112;58;47;47;233;46;101;120;97;109;112;108;101;47;252]  (* http://\xe9.example/\xfc *);
   [104;116;116;112;58;47;47;104;47;128512;63;128512;35;128512]  (* http://h/\U0001f600?\U0001f600#\U0001f600 *);
   [104;116;116;112;58;47;47;104;47;112;63;57344]  (* http://h/p?\ue000 *);
   [104;116;116;112;58;47;47;104;47;97;47;46;47;98;47;46;46;47;99]  (* http://h/a/./b/../c *);
   [104;116;116;112;58;47;47;97;33;36;38;39;40;41;42;43;44;59;61;98;47;112;63;97;61;49;38;98;61;39;50;39]  (* http://a!$&'()*+,;=b/p?a=1&b='2' *)].
Definition ex_refs : list str :=
  [[]  (*  *);
   [35]  (* # *);
   [35;102]  (* #f *);
   [63;113]  (* ?q *);
   [63;113;35;102]  (* ?q#f *);
   [112]  (* p *);
   [112;47;113]  (* p/q *);
   [46;47;112]  (* ./p *);
   [46;46;47;112]  (* ../p *);
   [46;46;47;46;46;47;46;46;47;46;46;47;112]  (* ../../../../p *);
   [47;112]  (* /p *);
   [47]  (* / *);
   [47;47;104;47;112]  (* //h/p *);
   [47;47;117;64;104;58;56;48;47;112;63;113;35;102]  (* //u@h:80/p?q#f *);
   [46]  (* . *);
   [46;46]  (* .. *);
   [97;47;98;58;99]  (* a/b:c *);
   [46;47;97;58;98]  (* ./a:b *);
   [233]  (* \xe9 *);
   [37;52;49]  (* %41 *);
   [49;97]  (* 1a *);
   [103;63;121;47;46;47;120]  (* g?y/./x *);
   [103;35;115;47;46;46;47;120]  (* g#s/../x *);
   [46;46;103]  (* ..g *)].
Definition ex_bad : list str :=
  [[97;32;98]  (* a b *);
   [49;97;58;98]  (* 1a:b *);
   [104;116;116;112;58;47;47;104;47;37;122;122]  (* http://h/%zz *);
   [104;116;116;112;58;47;47;91;58;58;49]  (* http://[::1 *);
   [104;116;116;112;58;47;47;104;58;56;97;47]  (* http://h:8a/ *);
   [35;97;35;98]  (* #a#b *);
   [37]  (* % *);
   [104;116;116;112;58;47;47;104;47;60;120;62]  (* http://h/<x> *);
   [97;58;98;32;99]  (* a:b c *)].
Definition rfc_base : str := [104;116;116;112;58;47;47;97;47;98;47;99;47;100;59;112;63;113].  (* http://a/b/c/d;p?q *)
Definition rfc_examples : list (str * str) :=
  [([103;58;104], [103;58;104])  (* g:h -> g:h *);
   ([103], [104;116;116;112;58;47;47;97;47;98;47;99;47;103])  (* g -> http://a/b/c/g *);
   ([46;47;103], [104;116;116;112;58;47;47;97;47;98;47;99;47;103])  (* ./g -> http://a/b/c/g *);
   ([103;47], [104;116;116;112;58;47;47;97;47;98;47;99;47;103;47])  (* g/ -> http://a/b/c/g/ *);
   ([47;103], [104;116;116;112;58;47;47;97;47;103])  (* /g -> http://a/g *);
   ([47;47;103], [104;116;116;112;58;47;47;103])  (* //g -> http://g *);
   ([63;121], [104;116;116;112;58;47;47;97;47;98;47;99;47;100;59;112;63;121])  (* ?y -> http://a/b/c/d;p?y *);
   ([103;63;121], [104;116;116;112;58;47;47;97;47;98;47;99;47;103;63;121])  (* g?y -> http://a/b/c/g?y *);
   ([35;115], [104;116;116;112;58;47;47;97;47;98;47;99;47;100;59;112;63;113;35;115])  (* #s -> http://a/b/c/d;p?q#s *);
   ([103;35;115], [104;116;116;112;58;47;47;97;47;98;47;99;47;103;35;115])  (* g#s -> http://a/b/c/g#s *);
   ([103;63;121;35;115], [104;116;116;112;58;47;47;97;47;98;47;99;47;103;63;121;35;115])  (* g?y#s -> http://a/b/c/g?y#s *);
   ([59;120], [104;116;116;112;58;47;47;97;47;98;47;99;47;59;120])  (* ;x -> http://a/b/c/;x *);
   ([103;59;120], [104;116;116;112;58;47;47;97;47;98;47;99;47;103;59;120])  (* g;x -> http://a/b/c/g;x *);
   ([103;59;120;63;121;35;115], [104;116;116;112;58;47;47;97;47;98;47;99;47;103;59;120;63;121;35;115])  (* g;x?y#s -> http://a/b/c/g;x?y#s *);
   ([], [104;116;116;112;58;47;47;97;47;98;47;99;47;100;59;112;63;113])  (*  -> http://a/b/c/d;p?q *);
   ([46], [104;116;116;112;58;47;47;97;47;98;47;99;47])  (* . -> http://a/b/c/ *);
   ([46;47], [104;116;116;112;58;47;47;97;47;98;47;99;47])  (* ./ -> http://a/b/c/ *);
   ([46;46], [104;116;116;112;58;47;47;97;47;98;47])  (* .. -> http://a/b/ *);
   ([46;46;47], [104;116;116;112;58;47;47;97;47;98;47])  (* ../ -> http://a/b/ *);
   ([46;46;47;103], [104;116;116;112;58;47;47;97;47;98;47;103])  (* ../g -> http://a/b/g *);
   ([46;46;47;46;46], [104;116;116;112;58;47;47;97;47])  (* ../.. -> http://a/ *);
   ([46;46;47;46;46;47], [104;116;116;112;58;47;47;97;47])  (* ../../ -> http://a/ *);
   ([46;46;47;46;46;47;103], [104;116;116;112;58;47;47;97;47;103])  (* ../../g -> http://a/g *);
   ([46;46;47;46;46;47;46;46;47;103], [104;116;116;112;58;47;47;97;47;103])  (* ../../../g -> http://a/g *);
   ([46;46;47;46;46;47;46;46;47;46;46;47;103], [104;116;116;112;58;47;47;97;47;103])  (* ../../../../g -> http://a/g *);
   ([47;46;47;103], [104;116;116;112;58;47;47;97;47;103])  (* /./g -> http://a/g *);
   ([47;46;46;47;103], [104;116;116;112;58;47;47;97;47;103])  (* /../g -> http://a/g *);
   ([103;46], [104;116;116;112;58;47;47;97;47;98;47;99;47;103;46])  (* g. -> http://a/b/c/g. *);
   ([46;103], [104;116;116;112;58;47;47;97;47;98;47;99;47;46;103])  (* .g -> http://a/b/c/.g *);
   ([103;46;46], [104;116;116;112;58;47;47;97;47;98;47;99;47;103;46;46])  (* g.. -> http://a/b/c/g.. *);
   ([46;46;103], [104;116;116;112;58;47;47;97;47;98;47;99;47;46;46;103])  (* ..g -> http://a/b/c/..g *);
   ([46;47;46;46;47;103], [104;116;116;112;58;47;47;97;47;98;47;103])  (* ./../g -> http://a/b/g *);
   ([46;47;103;47;46], [104;116;116;112;58;47;47;97;47;98;47;99;47;103;47])  (* ./g/. -> http://a/b/c/g/ *);
   ([103;47;46;47;104], [104;116;116;112;58;47;47;97;47;98;47;99;47;103;47;104])  (* g/./h -> http://a/b/c/g/h *);
   ([103;47;46;46;47;104], [104;116;116;112;58;47;47;97;47;98;47;99;47;104])  (* g/../h -> http://a/b/c/h *);
   ([103;59;120;61;49;47;46;47;121], [104;116;116;112;58;47;47;97;47;98;47;99;47;103;59;120;61;49;47;121])  (* g;x=1/./y -> http://a/b/c/g;x=1/y *);
   ([103;59;120;61;49;47;46;46;47;121], [104;116;116;112;58;47;47;97;47;98;47;99;47;121])  (* g;x=1/../y -> http://a/b/c/y *);
   ([103;63;121;47;46;47;120], [104;116;116;112;58;47;47;97;47;98;47;99;47;103;63;121;47;46;47;120])  (* g?y/./x -> http://a/b/c/g?y/./x *);
   ([103;63;121;47;46;46;47;120], [104;116;116;112;58;47;47;97;47;98;47;99;47;103;63;121;47;46;46;47;120])  (* g?y/../x -> http://a/b/c/g?y/../x *);
   ([103;35;115;47;46;47;120], [104;116;116;112;58;47;47;97;47;98;47;99;47;103;35;115;47;46;47;120])  (* g#s/./x -> http://a/b/c/g#s/./x *);
   ([103;35;115;47;46;46;47;120], [104;116;116;112;58;47;47;97;47;98;47;99;47;103;35;115;47;46;46;47;120])  (* g#s/../x -> http://a/b/c/g#s/../x *);
   ([104;116;116;112;58;103], [104;116;116;112;58;103])  (* http:g -> http:g *)].
Definition ex_base : str := [104;116;116;112;58;47;47;98;97;115;101;46;101;120;97;109;112;108;101;47;100;105;114;47;102;105;108;101;63;113;35;102].  (* http://base.example/dir/file?q#f *)
Definition ex_rel_s : str := [46;46;47;112].  (* ../p *)
Definition ex_rel_o : str := [35;102].  (* #f *)
Definition ex_res_s : str := [104;116;116;112;58;47;47;98;97;115;101;46;101;120;97;109;112;108;101;47;112].  (* http://base.example/p *)
Definition ex_res_o : str := [104;116;116;112;58;47;47;98;97;115;101;46;101;120;97;109;112;108;101;47;100;105;114;47;102;105;108;101;63;113;35;102].  (* http://base.example/dir/file?q#f *)
Definition ex_rel_dt : str := [100;116].  (* dt *)
Definition ex_res_dt : str := [104;116;116;112;58;47;47;98;97;115;101;46;101;120;97;109;112;108;101;47;100;105;114;47;100;116].  (* http://base.example/dir/dt *)
Definition ex_rel_p : str := [46;46;47;110;115;35;112].  (* ../ns#p *)

(* ---- examples: non-vacuity, the catalogue, RFC 3986 5.4 ---- *)
(* every shape is an IRI for the grammar of RFC 3987 AND for the scheme rule *)
Example shapes_are_iris : forallb (fun i => rio_iri i && rio_ref i && has_scheme i) ex_shapes = true.
Proof. vm_compute. reflexivity. Qed.
(* relative references of every kind: valid, not IRIs, no scheme *)
Example refs_are_relative : forallb (fun i => rio_ref i && negb (rio_iri i) && negb (has_scheme i)) ex_refs = true.
Proof. vm_compute. reflexivity. Qed.
(* the grammar rejects *)
Example bad_are_rejected : forallb (fun i => negb (rio_ref i)) ex_bad = true.
Proof. vm_compute. reflexivity. Qed.
(* RFC 3986 5.4.1 / 5.4.2 (strict): the specification gives the RFC's table, and oxiri's resolver agrees on it *)
Example rfc3986_examples :
  forallb (fun x => str_eqb (resolve rfc_base (fst x)) (snd x)) rfc_examples = true
  /\ forallb (fun x => opt_eqb str_eqb (ox_resolve rfc_base (fst x)) (Some (snd x))) rfc_examples = true.
Proof. vm_compute. split; reflexivity. Qed.
(* each shape as subject, as predicate (its last character starts or continues an XML name in these), as object, as datatype *)
Definition shape_graph (x : str) : list (term * term * term) :=
  [(Iri x, ex_p, LitDt [115] xsd_string); (ex_s, Iri (x ++ [107]), LitDt [112] xsd_string); (ex_s, ex_p, Iri x); (ex_s, ex_p, LitDt [49] x)].
Definition shapes_graph : list (term * term * term) := flat_map shape_graph ex_shapes.
Definition opt_graph_eqb := opt_eqb (list_eqb triple3_same).
(* the hypotheses of the round-trip theorems hold for the catalogue (so they are not vacuous), and their
   conclusions are what evaluation gives *)
Example shapes_graph_in_class :
  forallb flat3 shapes_graph && forallb expressible (rts shapes_graph)
  && forallb (triple_valid false) (rts shapes_graph) && forallb (triple_valid true) (rts shapes_graph)
  && forallb (t_pos rio_iri) (rts shapes_graph) && forallb (t_pos iri_any_base) (rts shapes_graph) = true.
Proof. vm_compute. reflexivity. Qed.
Example shapes_graph_roundtrip :
  opt_graph_eqb (nobase_parse true 2 shapes_graph) (Some shapes_graph)
  && opt_graph_eqb (base_parse true 2 ex_base shapes_graph) (Some shapes_graph)
  && opt_graph_eqb (model_parse true true 2 shapes_graph) (Some shapes_graph)
  && N.eqb (N.of_nat (length shapes_graph)) (4 * N.of_nat (length ex_shapes)) = true.
Proof. vm_compute. reflexivity. Qed.
(* a graph with relative references (generalized input): written as it is; the XML reader gives it back verbatim,
   Rio's reader rejects it without a base and resolves subject / object / datatype -- not the predicate -- with one *)
Definition rel_graph : list (term * term * term) :=
  [(Iri ex_rel_s, ex_p, Iri ex_rel_o); (Iri ex_rel_s, Iri ex_rel_p, LitDt [49] ex_rel_dt)].
Example relative_example :
  (match serialize true 0 rel_graph with SerOk _ => true | _ => false end)
  && opt_graph_eqb (model_parse true true 0 rel_graph) (Some rel_graph)
  && opt_graph_eqb (nobase_parse true 0 rel_graph) None
  && opt_graph_eqb (base_parse true 0 ex_base rel_graph)
       (Some [(Iri ex_res_s, ex_p, Iri ex_res_o); (Iri ex_res_s, Iri ex_rel_p, LitDt [49] ex_res_dt)]) = true.
Proof. vm_compute. reflexivity. Qed.
Example ex_checkers :
  nobase_std true 3 shapes_graph && base_ok true 0 ex_base rel_graph (base_parse true 0 ex_base rel_graph)
  && iris_ok [(ex_rel_s, false); (ex_res_s, true)] && negb (iris_ok [(ex_rel_s, true)])
  && resolved_ok ex_base [(ex_rel_s, ex_res_s); (ex_rel_o, ex_res_o); (ex_rel_dt, ex_res_dt)]
  && negb (resolved_ok ex_base [(ex_rel_s, ex_rel_s)]) = true.
Proof. vm_compute. reflexivity. Qed.
