(* C08/Utf8Proofs.v -- the strict decoder accepts exactly the encodings of scalar-value strings, decoding is
   compositional on character boundaries and fails inside a character. *)
From Sophia.Common Require Import Prelude Term.
From Sophia.C08 Require Import Utf8.

(* lia on N with division / remainder by constants *)
Ltac Zify.zify_post_hook ::= Z.to_euclidean_division_equations.

Lemma utf8_app a b : utf8 (a ++ b) = utf8 a ++ utf8 b.
Proof. unfold utf8. apply flat_map_app. Qed.
Lemma utf8_cons c s : utf8 (c :: s) = utf8_1 c ++ utf8 s.
Proof. reflexivity. Qed.

Lemma scalar_lt c : scalar c = true -> c < 1114112.
Proof.
  unfold scalar. intros H. apply orb_true_iff in H as [H|H].
  - apply N.ltb_lt in H. lia.
  - apply andb_true_iff in H as [_ H]. apply N.ltb_lt in H. exact H.
Qed.

Ltac tt := symmetry; first [apply N.ltb_lt; lia | apply N.leb_le; lia].
Ltac ff := symmetry; first [apply N.ltb_ge; lia | apply N.leb_gt; lia].

Lemma utf8_dec_1 c r : scalar c = true -> utf8_dec (utf8_1 c ++ r) = option_map (cons c) (utf8_dec r).
Proof.
  intros Hs. unfold utf8_1.
  destruct (c <? 128) eqn:E1.
  { cbn [app utf8_dec]. rewrite E1. reflexivity. }
  apply N.ltb_ge in E1.
  destruct (c <? 2048) eqn:E2.
  { apply N.ltb_lt in E2. cbn [app utf8_dec].
    replace (192 + c / 64 <? 128) with false by ff.
    replace (192 + c / 64 <? 192) with false by ff.
    replace (192 + c / 64 <? 224) with true by tt.
    replace ((192 + c / 64 - 192) * 64 + (128 + c mod 64 - 128)) with c by lia.
    unfold cont.
    replace (128 <=? 128 + c mod 64) with true by tt.
    replace (128 + c mod 64 <? 192) with true by tt.
    replace (128 <=? c) with true by tt.
    reflexivity. }
  apply N.ltb_ge in E2.
  destruct (c <? 65536) eqn:E3.
  { apply N.ltb_lt in E3. cbn [app utf8_dec].
    replace (224 + c / 4096 <? 128) with false by ff.
    replace (224 + c / 4096 <? 192) with false by ff.
    replace (224 + c / 4096 <? 224) with false by ff.
    replace (224 + c / 4096 <? 240) with true by tt.
    replace ((224 + c / 4096 - 224) * 4096 + (128 + (c / 64) mod 64 - 128) * 64 + (128 + c mod 64 - 128))
      with c by lia.
    unfold cont.
    replace (128 <=? 128 + (c / 64) mod 64) with true by tt.
    replace (128 + (c / 64) mod 64 <? 192) with true by tt.
    replace (128 <=? 128 + c mod 64) with true by tt.
    replace (128 + c mod 64 <? 192) with true by tt.
    replace (2048 <=? c) with true by tt.
    rewrite Hs. reflexivity. }
  apply N.ltb_ge in E3.
  pose proof (scalar_lt c Hs) as Hlt.
  cbn [app utf8_dec].
  replace (240 + c / 262144 <? 128) with false by ff.
  replace (240 + c / 262144 <? 192) with false by ff.
  replace (240 + c / 262144 <? 224) with false by ff.
  replace (240 + c / 262144 <? 240) with false by ff.
  replace (240 + c / 262144 <? 248) with true by tt.
  replace ((240 + c / 262144 - 240) * 262144 + (128 + (c / 4096) mod 64 - 128) * 4096
           + (128 + (c / 64) mod 64 - 128) * 64 + (128 + c mod 64 - 128)) with c by lia.
  unfold cont.
  replace (128 <=? 128 + (c / 4096) mod 64) with true by tt.
  replace (128 + (c / 4096) mod 64 <? 192) with true by tt.
  replace (128 <=? 128 + (c / 64) mod 64) with true by tt.
  replace (128 + (c / 64) mod 64 <? 192) with true by tt.
  replace (128 <=? 128 + c mod 64) with true by tt.
  replace (128 + c mod 64 <? 192) with true by tt.
  replace (65536 <=? c) with true by tt.
  rewrite Hs. reflexivity.
Qed.

(* decoding is compositional on a character boundary: a well-formed prefix can be split off *)
Theorem utf8_dec_app s r : scalar_str s = true -> utf8_dec (utf8 s ++ r) = option_map (app s) (utf8_dec r).
Proof.
  induction s as [|c s IH]; intros H.
  - cbn [utf8 flat_map app]. destruct (utf8_dec r); reflexivity.
  - cbn [scalar_str forallb] in H. apply andb_true_iff in H as [Hc Hs].
    rewrite utf8_cons, <- app_assoc, utf8_dec_1 by assumption. rewrite (IH Hs).
    destruct (utf8_dec r); reflexivity.
Qed.

Theorem utf8_dec_utf8 s : scalar_str s = true -> utf8_dec (utf8 s) = Some s.
Proof.
  intros H. pose proof (utf8_dec_app s [] H) as E. rewrite app_nil_r in E. rewrite E.
  cbn [utf8_dec option_map]. rewrite app_nil_r. reflexivity.
Qed.

(* ---- soundness: whatever the decoder accepts is the encoding of the scalar-value string it returns ---- *)
Lemma cont_bounds b : cont b = true -> 128 <= b < 192.
Proof. unfold cont. intros H. apply andb_true_iff in H as [A B]. apply N.leb_le in A. apply N.ltb_lt in B. lia. Qed.

Lemma scalar_small c : c < 55296 -> scalar c = true.
Proof. intros H. unfold scalar. apply orb_true_iff. left. apply N.ltb_lt. exact H. Qed.

Theorem utf8_dec_sound : forall b s, utf8_dec b = Some s -> utf8 s = b /\ scalar_str s = true.
Proof.
  intros b. remember (length b) as n eqn:Hn. revert b Hn.
  induction n as [n IH] using lt_wf_ind. intros b Hn s H.
  destruct b as [|b0 r]; [injection H as <-; split; reflexivity|].
  cbn [utf8_dec] in H.
  destruct (b0 <? 128) eqn:E1.
  { apply N.ltb_lt in E1. destruct (utf8_dec r) as [s'|] eqn:Er; [|discriminate]. injection H as <-.
    destruct (IH (length r) ltac:(subst n; cbn; lia) r eq_refl s' Er) as [A B].
    split.
    - rewrite utf8_cons, A. unfold utf8_1. replace (b0 <? 128) with true by tt. reflexivity.
    - cbn [scalar_str forallb]. rewrite scalar_small by lia. exact B. }
  apply N.ltb_ge in E1.
  destruct (b0 <? 192) eqn:E2; [discriminate|]. apply N.ltb_ge in E2.
  destruct (b0 <? 224) eqn:E3.
  { apply N.ltb_lt in E3. destruct r as [|b1 r1]; [discriminate|].
    destruct (cont b1 && (128 <=? (b0 - 192) * 64 + (b1 - 128))) eqn:Ec; [|discriminate].
    apply andb_true_iff in Ec as [C1 C2]. apply cont_bounds in C1. apply N.leb_le in C2.
    destruct (utf8_dec r1) as [s'|] eqn:Er; [|discriminate]. injection H as <-.
    destruct (IH (length r1) ltac:(subst n; cbn; lia) r1 eq_refl s' Er) as [A B].
    set (c := (b0 - 192) * 64 + (b1 - 128)) in *.
    assert (Hc : c < 2048) by (unfold c; lia).
    split.
    - rewrite utf8_cons, A. unfold utf8_1.
      replace (c <? 128) with false by ff. replace (c <? 2048) with true by tt.
      replace (192 + c / 64) with b0 by (unfold c; lia).
      replace (128 + c mod 64) with b1 by (unfold c; lia). reflexivity.
    - cbn [scalar_str forallb]. rewrite scalar_small by lia. exact B. }
  apply N.ltb_ge in E3.
  destruct (b0 <? 240) eqn:E4.
  { apply N.ltb_lt in E4. destruct r as [|b1 [|b2 r1]]; try discriminate.
    destruct (cont b1 && cont b2 && (2048 <=? (b0 - 224) * 4096 + (b1 - 128) * 64 + (b2 - 128))
              && scalar ((b0 - 224) * 4096 + (b1 - 128) * 64 + (b2 - 128))) eqn:Ec; [|discriminate].
    apply andb_true_iff in Ec as [Ec C4]. apply andb_true_iff in Ec as [Ec C3]. apply andb_true_iff in Ec as [C1 C2].
    apply cont_bounds in C1. apply cont_bounds in C2. apply N.leb_le in C3.
    destruct (utf8_dec r1) as [s'|] eqn:Er; [|discriminate]. injection H as <-.
    destruct (IH (length r1) ltac:(subst n; cbn; lia) r1 eq_refl s' Er) as [A B].
    set (c := (b0 - 224) * 4096 + (b1 - 128) * 64 + (b2 - 128)) in *.
    assert (Hc : c < 65536) by (unfold c; lia).
    split.
    - rewrite utf8_cons, A. unfold utf8_1.
      replace (c <? 128) with false by ff. replace (c <? 2048) with false by ff. replace (c <? 65536) with true by tt.
      replace (224 + c / 4096) with b0 by (unfold c; lia).
      replace (128 + (c / 64) mod 64) with b1 by (unfold c; lia).
      replace (128 + c mod 64) with b2 by (unfold c; lia). reflexivity.
    - cbn [scalar_str forallb]. rewrite C4. exact B. }
  apply N.ltb_ge in E4.
  destruct (b0 <? 248) eqn:E5; [|discriminate].
  apply N.ltb_lt in E5. destruct r as [|b1 [|b2 [|b3 r1]]]; try discriminate.
  destruct (cont b1 && cont b2 && cont b3
            && (65536 <=? (b0 - 240) * 262144 + (b1 - 128) * 4096 + (b2 - 128) * 64 + (b3 - 128))
            && scalar ((b0 - 240) * 262144 + (b1 - 128) * 4096 + (b2 - 128) * 64 + (b3 - 128))) eqn:Ec; [|discriminate].
  apply andb_true_iff in Ec as [Ec C5]. apply andb_true_iff in Ec as [Ec C4]. apply andb_true_iff in Ec as [Ec C3].
  apply andb_true_iff in Ec as [C1 C2].
  apply cont_bounds in C1. apply cont_bounds in C2. apply cont_bounds in C3. apply N.leb_le in C4.
  destruct (utf8_dec r1) as [s'|] eqn:Er; [|discriminate]. injection H as <-.
  destruct (IH (length r1) ltac:(subst n; cbn; lia) r1 eq_refl s' Er) as [A B].
  set (c := (b0 - 240) * 262144 + (b1 - 128) * 4096 + (b2 - 128) * 64 + (b3 - 128)) in *.
  split.
  - rewrite utf8_cons, A. unfold utf8_1.
    replace (c <? 128) with false by ff. replace (c <? 2048) with false by ff. replace (c <? 65536) with false by ff.
    replace (240 + c / 262144) with b0 by (unfold c; lia).
    replace (128 + (c / 4096) mod 64) with b1 by (unfold c; lia).
    replace (128 + (c / 64) mod 64) with b2 by (unfold c; lia).
    replace (128 + c mod 64) with b3 by (unfold c; lia). reflexivity.
  - cbn [scalar_str forallb]. rewrite C5. exact B.
Qed.

(* the decoder accepts exactly the encodings of scalar-value strings *)
Theorem utf8_valid_iff b : utf8_valid b = true <-> exists s, scalar_str s = true /\ utf8 s = b.
Proof.
  unfold utf8_valid. split.
  - destruct (utf8_dec b) as [s|] eqn:E; [|discriminate]. intros _. exists s.
    destruct (utf8_dec_sound b s E) as [A B]. split; assumption.
  - intros [s [Hs <-]]. rewrite utf8_dec_utf8 by exact Hs. reflexivity.
Qed.

(* the encoding is injective on scalar-value strings: a text is determined by its bytes *)
Theorem utf8_injective s t : scalar_str s = true -> scalar_str t = true -> utf8 s = utf8 t -> s = t.
Proof.
  intros Hs Ht E. pose proof (utf8_dec_utf8 s Hs) as A. rewrite E, (utf8_dec_utf8 t Ht) in A. congruence.
Qed.

(* ---- inside a character ---- *)
(* every byte of an encoded character after the first is a continuation byte *)
Lemma utf8_1_tail_cont c x r : scalar c = true -> tl (utf8_1 c) = x :: r -> cont x = true.
Proof.
  intros Hs. pose proof (scalar_lt c Hs) as Hlt. unfold utf8_1.
  destruct (c <? 128) eqn:E1; [discriminate|]. apply N.ltb_ge in E1.
  destruct (c <? 2048) eqn:E2.
  { cbn [tl]. intros H. assert (Hx : x = 128 + c mod 64) by congruence. subst x.
    unfold cont. apply andb_true_iff. split; [apply N.leb_le|apply N.ltb_lt]; lia. }
  destruct (c <? 65536) eqn:E3.
  { cbn [tl]. intros H. assert (Hx : x = 128 + (c / 64) mod 64) by congruence. subst x.
    unfold cont. apply andb_true_iff. split; [apply N.leb_le|apply N.ltb_lt]; lia. }
  cbn [tl]. intros H. assert (Hx : x = 128 + (c / 4096) mod 64) by congruence. subst x.
  unfold cont. apply andb_true_iff. split; [apply N.leb_le|apply N.ltb_lt]; lia.
Qed.

(* a byte string that starts with a continuation byte is never well-formed: a slice that begins inside a
   character (what an offset computed on a case-mapped copy of the text can give) is not text *)
Theorem utf8_dec_starts_inside x r : cont x = true -> utf8_dec (x :: r) = None.
Proof.
  intros H. apply cont_bounds in H. cbn [utf8_dec].
  replace (x <? 128) with false by ff. replace (x <? 192) with true by tt. reflexivity.
Qed.

Corollary utf8_dec_after_first_byte c r : scalar c = true -> 128 <= c -> utf8_dec (tl (utf8_1 c) ++ r) = None.
Proof.
  intros Hs Hc. destruct (tl (utf8_1 c)) as [|x t] eqn:E.
  - exfalso. unfold utf8_1 in E. replace (c <? 128) with false in E by ff.
    destruct (c <? 2048); [discriminate|]. destruct (c <? 65536); discriminate.
  - cbn [app]. apply utf8_dec_starts_inside. exact (utf8_1_tail_cont c x t Hs E).
Qed.

(* offsets: the end of an encoded prefix is a character boundary of the whole *)
Lemma utf8_1_head_not_cont c : scalar c = true -> exists x t, utf8_1 c = x :: t /\ cont x = false.
Proof.
  intros Hs. pose proof (scalar_lt c Hs) as Hlt. unfold utf8_1, cont.
  destruct (c <? 128) eqn:E1.
  { apply N.ltb_lt in E1. eexists; eexists; split; [reflexivity|]. apply andb_false_iff. left. apply N.leb_gt. lia. }
  apply N.ltb_ge in E1.
  destruct (c <? 2048) eqn:E2.
  { eexists; eexists; split; [reflexivity|]. apply andb_false_iff. right. apply N.ltb_ge. lia. }
  destruct (c <? 65536) eqn:E3.
  { eexists; eexists; split; [reflexivity|]. apply andb_false_iff. right. apply N.ltb_ge. lia. }
  eexists; eexists; split; [reflexivity|]. apply andb_false_iff. right. apply N.ltb_ge. lia.
Qed.

Theorem boundary_after_prefix s t :
  scalar_str s = true -> scalar_str t = true -> is_boundary (utf8 s ++ utf8 t) (length (utf8 s)) = true.
Proof.
  intros Hs Ht. unfold is_boundary.
  destruct (length (utf8 s)) as [|k] eqn:El; [reflexivity|]. rewrite <- El.
  destruct t as [|c t].
  - cbn [utf8 flat_map]. rewrite app_nil_r, Nat.eqb_refl. reflexivity.
  - destruct (Nat.eqb (length (utf8 s)) (length (utf8 s ++ utf8 (c :: t)))); [reflexivity|].
    rewrite nth_error_app2 by lia. rewrite Nat.sub_diag.
    cbn [scalar_str forallb] in Ht. apply andb_true_iff in Ht as [Hc _].
    destruct (utf8_1_head_not_cont c Hc) as [x [tl0 [E Hx]]].
    rewrite utf8_cons, E. cbn [app nth_error]. rewrite Hx. reflexivity.
Qed.

(* ---- the checker ---- *)
Theorem utf8_ok_complete s : scalar_str s = true -> utf8_ok (utf8 s) true s None = true /\ utf8_ok (utf8 s) true s (Some false) = true.
Proof.
  intros H. unfold utf8_ok, jsonld_parse_bytes. rewrite utf8_dec_utf8 by exact H.
  rewrite str_eqb_refl. split; reflexivity.
Qed.

Theorem utf8_ok_sound b cps j : utf8_ok b true cps j = true -> utf8 cps = b /\ scalar_str cps = true /\ j <> Some true.
Proof.
  unfold utf8_ok, jsonld_parse_bytes. destruct (utf8_dec b) as [s|] eqn:E; [|discriminate].
  intros H. apply andb_true_iff in H as [H J]. cbn [andb] in H. apply str_eqb_eq in H. subst s.
  destruct (utf8_dec_sound b cps E) as [A B]. repeat split; try assumption.
  destruct j as [[|]|]; [discriminate|congruence|congruence].
Qed.

(* the JSON-LD bytes entry point reports the UTF-8 error exactly on ill-formed input *)
Theorem jsonld_bytes_error_iff b : jsonld_parse_bytes b = Utf8Error <-> utf8_valid b = false.
Proof. unfold jsonld_parse_bytes, utf8_valid. destruct (utf8_dec b); split; intros H; congruence. Qed.

Theorem jsonld_bytes_text s : scalar_str s = true -> jsonld_parse_bytes (utf8 s) = Text s.
Proof. intros H. unfold jsonld_parse_bytes. rewrite utf8_dec_utf8 by exact H. reflexivity. Qed.

(* non-vacuity and the data the round-4 streams are built on: lower-casing is not length preserving in UTF-8
   (U+0130 -> U+0069 U+0307 grows from 2 to 3 bytes; U+212A -> U+006B shrinks from 3 bytes to 1), so a byte offset
   found in a lower-cased copy falls inside a character of the original *)
Example lowercase_changes_length :
  length (utf8 [304]) = 2%nat /\ length (utf8 [105; 775]) = 3%nat /\ length (utf8 [8490]) = 3%nat /\ length (utf8 [107]) = 1%nat.
Proof. repeat split; vm_compute; reflexivity. Qed.
(* "İş" : offset 3 = the length of the lower-cased "i̇" is inside "ş" *)
Example shifted_offset_not_boundary :
  is_boundary (utf8 [304; 351]) 3 = false /\ slice (utf8 [304; 351]) 3 4 = None /\ slice (utf8 [304; 351]) 2 4 = Some (utf8 [351]).
Proof. repeat split; vm_compute; reflexivity. Qed.
Example utf8_examples :
  utf8_dec [240; 159; 152; 128] = Some [128512] /\ utf8_dec [237; 160; 128] = None /\ utf8_dec [192; 175] = None
  /\ utf8_dec [244; 144; 128; 128] = None /\ utf8_dec [239; 187; 191; 123; 125] = Some [65279; 123; 125] /\ utf8_dec [226; 132] = None.
Proof. repeat split; vm_compute; reflexivity. Qed.
