(* C15/Proofs.v -- a pipeline delivers exactly the filter_map image of the prefix before the
   fault, in order, pulls nothing after it, and blames the right side.  Sources may hand over
   several items per step (parsers) or one (iterators). *)
From Sophia.C15 Require Import Model.

Section P.
Variable St : Type.

Lemma wrap_through chain (f : sink St) x st :
  wrap St chain f x st = match through chain x with Some y => f y st | None => (st, None) end.
Proof.
  revert x; induction chain as [|a c IH]; intros x; simpl; auto.
  destruct a as [p|m|m]; simpl.
  - destruct (p x); auto.
  - apply IH.
  - destruct (m x); auto.
Qed.

Lemma feed_wrap chain (f : sink St) items st :
  feed St (wrap St chain f) items st = feed_spec St chain f items st.
Proof.
  revert st; induction items as [|x r IH]; intros st; simpl; auto.
  rewrite wrap_through. destruct (through chain x) as [y|]; simpl.
  - destruct (f y st) as [st' [e|]]; auto.
  - apply IH.
Qed.

(* refinement: the adapter stack is the two-line specification *)
Theorem try_for_each_spec src chain (f : sink St) st :
  try_for_each St src chain f st = spec St src chain f st.
Proof.
  revert st; induction src as [|[items oe] rest IH]; intros st; simpl; auto.
  rewrite feed_wrap. destruct (feed_spec St chain f items st) as [st' [e|]]; auto.
  destruct oe; auto.
Qed.

(* step-wise driving (try_for_some_item in a loop) is whole-stream driving *)
Theorem stepwise_is_try_for_each src chain (f : sink St) st fuel :
  (length src < fuel)%nat ->
  stepwise St fuel src chain f st = try_for_each St src chain f st.
Proof.
  revert src st; induction fuel as [|n IH]; intros src st H; [inversion H|].
  destruct src as [|[items oe] rest]; simpl; auto.
  destruct (feed St (wrap St chain f) items st) as [st' [e|]]; auto.
  destruct oe; auto. apply IH. simpl in H. lia.
Qed.

(* try_for_some_item performs exactly one step of the source *)
Theorem try_for_some_pulls_one src chain (f : sink St) st :
  let '(rest, _, o) := try_for_some St src chain f st in
  match src with
  | [] => rest = [] /\ o = Done
  | _ :: tl => rest = tl
  end.
Proof.
  destruct src as [|[items oe] rest]; simpl; auto.
  destruct (feed St (wrap St chain f) items st) as [st' [e|]]; auto.
Qed.
End P.

(* ---------- the recording consumer ---------- *)
Definition fm (chain : list adapter) (l : list item) : list item :=
  flat_map (fun x => match through chain x with Some y => [y] | None => [] end) l.

Definition not_reached (fault : option (nat * err)) (n : nat) : Prop :=
  match fault with None => True | Some (j, _) => (n <= j)%nat end.

Lemma fm_app chain a b : fm chain (a ++ b) = fm chain a ++ fm chain b.
Proof. unfold fm. apply flat_map_app. Qed.

(* a batch that the consumer survives *)
Lemma feed_rec_ok chain fault items : forall st,
  not_reached fault (length (st ++ fm chain items)) ->
  feed_spec _ chain (rec_sink fault) items st = (st ++ fm chain items, None).
Proof.
  induction items as [|x r IH]; intros st H; simpl.
  - rewrite app_nil_r. reflexivity.
  - unfold fm in *. simpl in *. destruct (through chain x) as [y|]; simpl in *.
    + assert (Hs : rec_sink fault y st = (st ++ [y], None)).
      { unfold rec_sink. destruct fault as [[j e]|]; auto.
        simpl in H. rewrite app_length in H. simpl in H.
        destruct (Nat.eqb_spec (length st) j); auto. lia. }
      rewrite Hs. rewrite IH; rewrite <- app_assoc; [reflexivity | exact H].
    + apply IH. exact H.
Qed.

(* a batch in which the consumer fails on the item y produced from x *)
Lemma feed_rec_fail chain pre x y post j e : forall st,
  through chain x = Some y ->
  length (st ++ fm chain pre) = j ->
  feed_spec _ chain (rec_sink (Some (j, e))) (pre ++ x :: post) st = (st ++ fm chain pre ++ [y], Some e).
Proof.
  induction pre as [|z pre IH]; intros st Hx Hj; simpl.
  - rewrite Hx. unfold rec_sink. unfold fm in Hj. simpl in Hj. rewrite app_nil_r in Hj.
    rewrite Hj, Nat.eqb_refl. reflexivity.
  - unfold fm in *. simpl in *. destruct (through chain z) as [w|]; simpl in *.
    + destruct (Nat.eqb_spec (length st) j) as [Heq|Hne].
      { rewrite app_length in Hj. simpl in Hj. lia. }
      rewrite IH; auto; rewrite <- app_assoc; [reflexivity | exact Hj].
    + apply IH; auto.
Qed.

Definition items_of (steps : list (list item)) : list item := concat steps.
Definition clean (steps : list (list item)) : source := map (fun b => (b, None)) steps.

Lemma rec_prefix chain fault steps : forall st tail,
  not_reached fault (length (st ++ fm chain (items_of steps))) ->
  try_for_each _ (clean steps ++ tail) chain (rec_sink fault) st =
  try_for_each _ tail chain (rec_sink fault) (st ++ fm chain (items_of steps)).
Proof.
  induction steps as [|b steps IH]; intros st tail H; simpl.
  - rewrite app_nil_r. reflexivity.
  - unfold items_of in *. simpl in *. rewrite fm_app in H.
    rewrite feed_wrap, feed_rec_ok.
    + rewrite IH; rewrite <- app_assoc; [rewrite fm_app; reflexivity | exact H].
    + destruct fault as [[j e]|]; simpl in *; auto. rewrite !app_length in *. lia.
Qed.

(* (a) source fault in step k (after that step's own items): exactly the items before it were
   consumed, nothing after it was pulled, SourceError carries the original value *)
Theorem source_fault_prefix chain fault steps last e post st :
  not_reached fault (length (st ++ fm chain (items_of steps ++ last))) ->
  try_for_each _ (clean steps ++ (last, Some e) :: post) chain (rec_sink fault) st
  = (post, st ++ fm chain (items_of steps ++ last), SourceError e).
Proof.
  intros H. rewrite fm_app in *. rewrite rec_prefix.
  - simpl. rewrite feed_wrap, feed_rec_ok.
    + rewrite <- app_assoc. reflexivity.
    + rewrite <- app_assoc. exact H.
  - destruct fault as [[j e']|]; simpl in *; auto. rewrite !app_length in *. lia.
Qed.

(* (b) sink fault on the item y produced from x: everything before was consumed once and in
   order, y is the last thing the consumer saw, the rest of the batch and every later step are
   untouched (post, whatever it contains), SinkError carries the original value *)
Theorem sink_fault_prefix chain steps pre x y rest_of_batch oe post j e st :
  through chain x = Some y ->
  length (st ++ fm chain (items_of steps ++ pre)) = j ->
  try_for_each _ (clean steps ++ (pre ++ x :: rest_of_batch, oe) :: post) chain (rec_sink (Some (j, e))) st
  = (post, st ++ fm chain (items_of steps ++ pre) ++ [y], SinkError e).
Proof.
  intros Hx Hj. rewrite fm_app in *. rewrite rec_prefix.
  - simpl. rewrite feed_wrap. rewrite (feed_rec_fail chain pre x y rest_of_batch j e); auto.
    + rewrite <- !app_assoc. reflexivity.
    + rewrite <- app_assoc. exact Hj.
  - simpl. rewrite !app_length in *. lia.
Qed.

(* (c) no fault: the whole filter_map image, in order, each once *)
Theorem no_fault_all chain fault steps st :
  not_reached fault (length (st ++ fm chain (items_of steps))) ->
  try_for_each _ (clean steps) chain (rec_sink fault) st = ([], st ++ fm chain (items_of steps), Done).
Proof.
  intros H. rewrite <- (app_nil_r (clean steps)). rewrite rec_prefix by exact H. reflexivity.
Qed.

(* the iterator-backed source is the one-item-per-step special case *)
Theorem of_results_clean items : of_results (map inl items) = clean (map (fun x => [x]) items).
Proof. unfold of_results, clean. rewrite !map_map. reflexivity. Qed.
Lemma items_of_singletons items : items_of (map (fun x => [x]) items) = items.
Proof. unfold items_of. induction items as [|x r IH]; simpl; congruence. Qed.

Corollary iterator_source_fault chain fault pre e post st :
  not_reached fault (length (st ++ fm chain pre)) ->
  try_for_each _ (of_results (map inl pre ++ inr e :: post)) chain (rec_sink fault) st
  = (of_results post, st ++ fm chain pre, SourceError e).
Proof.
  intros H. unfold of_results at 1. rewrite map_app. simpl.
  fold (of_results (map inl pre)). fold (of_results post). rewrite of_results_clean.
  pose proof (source_fault_prefix chain fault (map (fun x => [x]) pre) [] e (of_results post) st) as S.
  rewrite items_of_singletons, app_nil_r in S. apply S. exact H.
Qed.

(* the chain as a whole is `filter_map`: order-preserving, each passing item exactly once *)
Lemma fm_nil l : fm [] l = l.
Proof. unfold fm. induction l as [|x l IH]; simpl in *; [reflexivity | f_equal; exact IH]. Qed.
Lemma fm_filter p c l : fm (AFilter p :: c) l = fm c (filter p l).
Proof. unfold fm. induction l as [|x l IH]; simpl in *; auto. destruct (p x); simpl; rewrite IH; auto. Qed.
Lemma fm_map m c l : fm (AMap m :: c) l = fm c (map m l).
Proof. unfold fm. induction l as [|x l IH]; simpl in *; auto. rewrite IH; auto. Qed.

(* ---------- the iterator wrappers (into_iter of MapSource / FilterMapSource) ---------- *)
Definition all_out (chain : list adapter) (src : source) : list (item + err) :=
  flat_map (step_out chain) src.

Lemma fill_spec chain src :
  let '(src', b) := fill src chain in b ++ all_out chain src' = all_out chain src.
Proof.
  induction src as [|stp rest IH]; simpl; auto.
  destruct (step_out chain stp) as [|x b] eqn:E.
  - destruct (fill rest chain) as [src' b']. exact IH.
  - reflexivity.
Qed.

Lemma fill_nil chain src : snd (fill src chain) = [] -> all_out chain src = [] /\ fst (fill src chain) = [].
Proof.
  induction src as [|stp rest IH]; simpl; auto.
  destruct (step_out chain stp) as [|x b] eqn:E; simpl; [|discriminate]. exact IH.
Qed.

(* nothing is lost, duplicated or reordered, items delivered in the same step as an error come
   before it, and the error is passed through unchanged *)
Theorem drain_all chain : forall fuel src buf,
  (length (buf ++ all_out chain src) < fuel)%nat ->
  drain fuel chain (src, buf) = buf ++ all_out chain src.
Proof.
  induction fuel as [|n IH]; intros src buf H; [inversion H|].
  simpl. destruct buf as [|x b].
  - pose proof (fill_spec chain src) as Hf. pose proof (fill_nil chain src) as Hn.
    destruct (fill src chain) as [src' b'] eqn:E. simpl in *.
    destruct b' as [|y b''].
    + destruct (Hn eq_refl) as [Hn1 Hn2]. rewrite Hn1. reflexivity.
    + rewrite <- Hf. simpl. f_equal. apply IH. rewrite <- Hf in H. simpl in H. lia.
  - simpl. f_equal. apply IH. simpl in H. lia.
Qed.

(* ---------- insert_all / remove_all counts ---------- *)
Lemma existsb_In x s : existsb (N.eqb x) s = true <-> In x s.
Proof.
  rewrite existsb_exists. split.
  - intros [y [H E]]. apply N.eqb_eq in E. subst; auto.
  - intros H. exists x. split; auto. apply N.eqb_refl.
Qed.

Lemma NoDup_app_single_N (l : list N) x : NoDup l -> ~ In x l -> NoDup (l ++ [x]).
Proof.
  induction l as [|y l IH]; simpl; intros Hn Hx.
  - constructor; [intros []|constructor].
  - inversion Hn; subst. constructor.
    + rewrite in_app_iff. simpl. intuition.
    + apply IH; auto.
Qed.

Lemma insert_feed chain items : forall s c,
  NoDup s ->
  let '((s', c'), oe) := feed_spec _ chain (insert_sink None 0) items (s, c) in
  oe = None /\ NoDup s'
  /\ (c' - c = length s' - length s)%nat /\ (c <= c')%nat
  /\ (forall x, In x s' <-> In x s \/ In x (fm chain items)).
Proof.
  induction items as [|x items IH]; intros s c Hn; simpl.
  - repeat split; auto; try lia. intros [H|[]]; auto.
  - unfold fm. simpl. destruct (through chain x) as [y|]; simpl.
    + destruct (existsb (N.eqb y) s) eqn:E.
      * specialize (IH s c Hn).
        destruct (feed_spec _ chain (insert_sink None 0) items (s, c)) as [[s' c'] oe].
        destruct IH as (H1 & H3 & H4 & H5 & H6). repeat split; auto.
        -- intros H. apply H6 in H. tauto.
        -- intros [H|[H|H]]; apply H6; auto. subst. left. apply existsb_In. exact E.
      * assert (Hn' : NoDup (s ++ [y])).
        { apply NoDup_app_single_N; auto. rewrite <- existsb_In. congruence. }
        specialize (IH (s ++ [y]) (S c) Hn').
        destruct (feed_spec _ chain (insert_sink None 0) items (s ++ [y], S c)) as [[s' c'] oe].
        destruct IH as (H1 & H3 & H4 & H5 & H6). rewrite app_length in H4. simpl in H4.
        assert (length s + 1 <= length s')%nat.
        { assert (Hle : (length (s ++ [y]) <= length s')%nat).
          { apply NoDup_incl_length; auto. intros z Hz. apply H6. left. exact Hz. }
          rewrite app_length in Hle. simpl in Hle. exact Hle. }
        repeat split; auto; try lia.
        -- intros H0. apply H6 in H0. rewrite in_app_iff in H0. simpl in H0. tauto.
        -- intros H0. apply H6. rewrite in_app_iff. simpl. tauto.
    + apply IH. exact Hn.
Qed.

Theorem insert_all_count chain steps : forall s c,
  NoDup s ->
  let '(rest, (s', c'), o) := try_for_each _ (clean steps) chain (insert_sink None 0) (s, c) in
  o = Done /\ rest = [] /\ NoDup s'
  /\ (c' - c = length s' - length s)%nat /\ (c <= c')%nat
  /\ (forall x, In x s' <-> In x s \/ In x (fm chain (items_of steps))).
Proof.
  induction steps as [|b steps IH]; intros s c Hn; simpl.
  - repeat split; auto; try lia. intros [H|[]]; auto.
  - rewrite feed_wrap. pose proof (insert_feed chain b s c Hn) as Hb.
    destruct (feed_spec _ chain (insert_sink None 0) b (s, c)) as [[s1 c1] oe].
    destruct Hb as (-> & B3 & B4 & B5 & B6).
    specialize (IH s1 c1 B3).
    destruct (try_for_each _ (clean steps) chain (insert_sink None 0) (s1, c1)) as [[rest [s' c']] o].
    destruct IH as (H1 & H2 & H3 & H4 & H5 & H6).
    assert (length s1 <= length s')%nat.
    { apply NoDup_incl_length; auto. intros z Hz. apply H6. left. exact Hz. }
    assert (length s <= length s1)%nat.
    { apply NoDup_incl_length; auto. intros z Hz. apply B6. left. exact Hz. }
    repeat split; auto; try lia.
    + intros H7. apply H6 in H7. unfold items_of. simpl. rewrite fm_app, in_app_iff.
      destruct H7 as [H7|H7]; [apply B6 in H7|]; tauto.
    + intros H7. apply H6. unfold items_of in H7. simpl in H7. rewrite fm_app, in_app_iff in H7.
      destruct H7 as [H7|[H7|H7]]; [left; apply B6; tauto | left; apply B6; tauto | right; exact H7].
Qed.
