//! C19: LocalLoader::get on a real directory tree (files contain their own path, canaries outside)
//! against the Coq model (C19/Model.v) and the confinement oracle.
use sophia_iri::Iri;
use sophia_resource::loader::{Loader, LoaderError, LocalLoader};
use std::path::{Path, PathBuf};
use std::sync::{Arc, Mutex};
use sophia_api::prelude::*;
use sophia_api::term::SimpleTerm;
use sophia_resource::Resource;
use verif_harness::*;

/// A loader that forwards `get` to a LocalLoader and records every call with its outcome: the provided methods of the
/// Loader trait (get_graph, get_resource, ...) and the link-following methods of Resource then run on top of it, so
/// every file access they cause (links in loaded data, JSON-LD remote contexts) is seen at the `get` level.
struct Spy { inner: LocalLoader, log: Mutex<Vec<(String, Result<(Vec<u8>, String), u64>)>> }
impl Loader for Spy {
    fn get<T: std::borrow::Borrow<str>>(&self, iri: Iri<T>) -> Result<(Vec<u8>, String), LoaderError> {
        let r = self.inner.get(iri.as_ref());
        let rec = match &r { Ok((d, c)) => Ok((d.clone(), c.clone())), Err(LoaderError::NotFound(_)) => Err(1), Err(LoaderError::UnsupportedIri(..)) => Err(2), Err(LoaderError::IoError(..)) => Err(3), Err(_) => Err(9) };
        self.log.lock().unwrap().push((iri.as_str().to_string(), rec));
        r
    }
}
/// the path a data file says it has: files either contain their own path, or (RDF files) a `PATH:<path>` marker
fn path_of(content: &str) -> String {
    let c = content.trim_start_matches("CANARY:");
    match c.find("PATH:") { Some(i) => c[i + 5..].split(|ch: char| ch == '"' || ch == '\n' || ch == ' ' || ch == '<').next().unwrap().to_string(), None => c.to_string() }
}
type G = Vec<[SimpleTerm<'static>; 3]>;

fn comps(p: &Path) -> Vec<String> { p.components().filter_map(|c| match c { std::path::Component::Normal(s) => Some(s.to_str().unwrap().to_string()), _ => None }).collect() }
fn c_path(p: &[String]) -> String { coq_list(p.iter().map(|s| coq_str(s))) }

// ---------- loaders are VALUES: histories over several loader values alive at once (coq/C19/History.v) ----------
#[derive(Clone, Debug)]
enum HOp {
    /// LocalLoader::new(mappings), or LocalLoader::default() when new() refuses
    New(Vec<(String, String)>),
    /// a new value copied from loader i: 0 = clone(), 1 = clone().arced(), 2 = loader i becomes an Arc and the new value is Arc::clone of it
    Clone(usize, u8),
    /// loader i .add(ns, dir) (through Arc::make_mut when the value is held in an Arc)
    Add(usize, String, String),
    /// loader i .get(iri): 0 = direct, 1 = from another thread by reference, 2 = the loader is moved to another thread and back,
    /// 3 = through an Arc clone moved to another thread, 4 = get_graph first (checked against the marker of the file), then get
    Get(usize, String, u8),
    /// loader i is dropped and replaced by LocalLoader::default()
    Reset(usize),
}
enum Slot { Owned(LocalLoader), Arced(Arc<LocalLoader>) }
impl Slot { fn l(&self) -> &LocalLoader { match self { Slot::Owned(l) => l, Slot::Arced(a) => a } } }
struct GetObs { code: u64, pth: Vec<String>, ct: u64, desc: String, raw: Option<String> }
fn classify(res: &Result<(Vec<u8>, String), LoaderError>) -> GetObs {
    match res {
        Ok((data, ctype)) => {
            let s = String::from_utf8_lossy(data).to_string();
            let ct = match ctype.as_str() { "text/turtle" => 1, "application/n-triples" => 2, "application/ld+json" => 3, "application/rdf+xml" => 4, _ => 0 };
            let file = path_of(&s.replace("CANARY-PATH:", "PATH:"));
            GetObs { code: 0, pth: comps(Path::new(&file)), ct, desc: format!("Ok(content of {file}, {ctype})"), raw: Some(s) }
        }
        Err(LoaderError::NotFound(_)) => GetObs { code: 1, pth: vec![], ct: 0, desc: "NotFound".into(), raw: None },
        Err(LoaderError::UnsupportedIri(..)) => GetObs { code: 2, pth: vec![], ct: 0, desc: "UnsupportedIri".into(), raw: None },
        Err(LoaderError::IoError(..)) => GetObs { code: 3, pth: vec![], ct: 0, desc: "IoError".into(), raw: None },
        Err(e) => GetObs { code: 9, pth: vec![], ct: 0, desc: format!("{e:?}"), raw: None },
    }
}
/// the documented pre-conditions of a mapping: Ok(the directory) or the refusal code (1 slash, 2 absolute, 3 directory)
fn precond(ns: &str, d: &str) -> Result<PathBuf, u64> {
    let p = Path::new(d);
    if !ns.ends_with('/') { Err(1) } else if !d.starts_with('/') { Err(2) } else if !std::fs::metadata(p).map(|m| m.is_dir()).unwrap_or(false) { Err(3) } else { Ok(p.canonicalize().unwrap()) }
}
/// the property itself, for one answer: the served file is no canary and lies inside a directory that THIS loader value maps to a
/// namespace prefixing the IRI; returns the offending file otherwise
fn leak(raw: &str, iri: &str, maps: &[(String, PathBuf)]) -> Option<String> {
    let canary = raw.starts_with("CANARY:") || raw.contains("CANARY-PATH:") || raw.contains("CANARY");
    let file = path_of(&raw.replace("CANARY-PATH:", "PATH:"));
    let no_frag = iri.split('#').next().unwrap();
    let ok = !canary && maps.iter().any(|(ns, d)| no_frag.starts_with(ns.as_str()) && Path::new(&file).starts_with(d));
    if ok { None } else { Some(if canary { format!("CANARY:{file}") } else { file }) }
}
/// Runs a history on real loader values. Returns (Coq list of operations, Coq list of observations, trace, oracle failures).
fn run_history(ops: &[HOp]) -> (String, String, Vec<String>, Vec<String>) {
    let mut slots: Vec<Slot> = vec![];
    let mut acc: Vec<Vec<(String, PathBuf)>> = vec![];   // independent book-keeping: the acceptable mappings of each value
    let (mut c_ops, mut c_obs, mut trace, mut fails) = (vec![], vec![], vec![], vec![]);
    let mk_iri = |n: &str| Iri::new_unchecked(n.to_string().into());
    let show = |acc: &Vec<(String, PathBuf)>| format!("{:?}", acc.iter().map(|(n, d)| format!("{n} -> {}", d.display())).collect::<Vec<_>>());
    for (k, op) in ops.iter().enumerate() {
        match op {
            HOp::New(l) => {
                let mut first_err = 0u64; let mut a = vec![];
                for (n, d) in l { match precond(n, d) { Ok(p) => a.push((n.clone(), p)), Err(c) => { if first_err == 0 { first_err = c } } } }
                let code = match LocalLoader::new(l.iter().map(|(n, d)| (mk_iri(n), PathBuf::from(d))).collect()) {
                    Ok(x) => { slots.push(Slot::Owned(x)); 0 }
                    Err(e) => { slots.push(Slot::Owned(LocalLoader::default())); use sophia_resource::loader::LocalLoaderError::*; match e { IriMustEndWithSlash(_) => 1, PathMustBeAbsolute(_) => 2, PathMustBeDirectory(_) => 3 } }
                };
                if code != first_err { fails.push(format!("history step {k}: LocalLoader::new({l:?}) answered code {code}, the first offending mapping gives {first_err}")); }
                acc.push(if first_err == 0 { a } else { vec![] });
                c_ops.push(format!("HNew {}", coq_list(l.iter().map(|(n, d)| format!("({}, {})", coq_str(n), coq_str(d))))));
                c_obs.push(format!("OCode {code}"));
                trace.push(format!("L{} = new({l:?}) -> code {code}", slots.len() - 1));
            }
            HOp::Clone(i, how) => {
                let new = match how {
                    0 => Slot::Owned(slots[*i].l().clone()),
                    1 => Slot::Arced(slots[*i].l().clone().arced()),
                    _ => {
                        let a = match std::mem::replace(&mut slots[*i], Slot::Owned(LocalLoader::default())) { Slot::Owned(l) => l.arced(), Slot::Arced(a) => a };
                        slots[*i] = Slot::Arced(a.clone());
                        Slot::Arced(a)
                    }
                };
                slots.push(new); let a = acc[*i].clone(); acc.push(a);
                c_ops.push(format!("HClone {i}")); c_obs.push("ONone".into());
                trace.push(format!("L{} = L{i}.{}", slots.len() - 1, ["clone()", "clone().arced()", "arced() shared by Arc::clone"][(*how).min(2) as usize]));
            }
            HOp::Add(i, n, d) => {
                let want = match precond(n, d) { Ok(p) => { acc[*i].push((n.clone(), p)); 0 } Err(c) => c };
                let r = match &mut slots[*i] { Slot::Owned(l) => l.add(mk_iri(n), PathBuf::from(d)), Slot::Arced(a) => Arc::make_mut(a).add(mk_iri(n), PathBuf::from(d)) };
                let code = match r { Ok(()) => 0, Err(e) => { use sophia_resource::loader::LocalLoaderError::*; match e { IriMustEndWithSlash(_) => 1, PathMustBeAbsolute(_) => 2, PathMustBeDirectory(_) => 3 } } };
                if code != want { fails.push(format!("history step {k}: L{i}.add({n:?}, {d:?}) answered code {code} (0 accepted, 1 slash, 2 absolute, 3 directory), the documented pre-conditions give {want}")); }
                c_ops.push(format!("HAdd {i} {} {}", coq_str(n), coq_str(d))); c_obs.push(format!("OCode {code}"));
                trace.push(format!("L{i}.add({n:?}, {d:?}) -> code {code}"));
            }
            HOp::Reset(i) => {
                slots[*i] = Slot::Owned(LocalLoader::default()); acc[*i] = vec![];
                c_ops.push(format!("HReset {i}")); c_obs.push("ONone".into());
                trace.push(format!("L{i} dropped, replaced by LocalLoader::default()"));
            }
            HOp::Get(i, iri, via) => {
                if *via == 4 {
                    let g: Result<G, _> = slots[*i].l().get_graph(Iri::new_unchecked(iri.split('#').next().unwrap()));
                    if let Ok(g) = g {
                        for t in g.triples_matching(Any, [Iri::new_unchecked("http://x/marker")], Any) {
                            let m = t.unwrap().o().lexical_form().map(|l| l.to_string()).unwrap_or_default();
                            if let Some(f) = leak(&m, iri, &acc[*i]) { fails.push(format!("history step {k}: L{i}.get_graph({iri:?}) parsed {f}, which is outside every directory that THIS loader value maps to a namespace prefixing the IRI; L{i} has {}; history: {}", show(&acc[*i]), trace.join("; "))); }
                        }
                    }
                }
                let is_arc = matches!(slots[*i], Slot::Arced(_));
                let mode = match (*via, is_arc) { (1, _) | (3, false) => 1, (2, false) => 2, (2, true) | (3, true) => 3, _ => 0 };
                let o = match mode {
                    1 => { let l = slots[*i].l(); std::thread::scope(|sc| sc.spawn(|| classify(&l.get(Iri::new_unchecked(iri.as_str())))).join().unwrap()) }
                    2 => {
                        let Slot::Owned(l) = std::mem::replace(&mut slots[*i], Slot::Owned(LocalLoader::default())) else { unreachable!() };
                        let iri2 = iri.clone();
                        let (l, o) = std::thread::spawn(move || { let o = classify(&l.get(Iri::new_unchecked(iri2.as_str()))); (l, o) }).join().unwrap();
                        slots[*i] = Slot::Owned(l); o
                    }
                    3 => { let Slot::Arced(a) = &slots[*i] else { unreachable!() }; let a2 = a.clone(); let iri2 = iri.clone(); std::thread::spawn(move || classify(&a2.get(Iri::new_unchecked(iri2.as_str())))).join().unwrap() }
                    _ => classify(&slots[*i].l().get(Iri::new_unchecked(iri.as_str()))),
                };
                if let Some(raw) = &o.raw {
                    if let Some(f) = leak(raw, iri, &acc[*i]) { fails.push(format!("history step {k}: L{i}.get({iri:?}) returned the content of {f}, which is outside every directory that THIS loader value maps to a namespace prefixing the IRI; L{i} has {}; history: {}", show(&acc[*i]), trace.join("; "))); }
                }
                c_ops.push(format!("HGet {i} {}", coq_str(iri))); c_obs.push(format!("OGot {} {} {}", o.code, c_path(&o.pth), o.ct));
                trace.push(format!("L{i}.get({iri:?}){} -> {}", ["", " [other thread, by reference]", " [loader moved to another thread]", " [Arc clone moved to another thread]", " [after get_graph]"][(*via).min(4) as usize], o.desc));
            }
        }
    }
    (coq_list(c_ops), coq_list(c_obs), trace, fails)
}

fn main() {
    let a = parse_args();
    let mut sum = Summary::default();
    sum.rule = "case = (order of two overlapping namespace->directory mappings, IRI built from a namespace or a foreign prefix + 0..5 segments drawn from {names of files/dirs, '..', '.', '', percent-encoded dots, dotted names, the absolute path of a canary} + optional query/fragment); \
non-trivial = the IRI contains a dot/empty/encoded segment or an absolute remainder, or resolves through content negotiation; distinct = distinct (config, IRI); \
plus (a) IRIs of other schemes built on the mapped directories (file://<dir>/.., file://localhost<dir>/.., file:<dir>/.., percent escapes, http(s)/ftp/urn IRIs outside every namespace), also against configurations whose namespace is itself a file: IRI; \
(b) histories over several loader VALUES alive at once (new / clone / arced / Arc::clone / add / get from other threads / drop), each get checked against the configuration of the value it was sent to (random histories + directed clone-add-get streams in both orders)".into();
    let root = PathBuf::from(&a.out).join("fsroot");
    let _ = std::fs::remove_dir_all(&root);
    let root = { std::fs::create_dir_all(&root).unwrap(); root.canonicalize().unwrap() };
    let mk = |rel: &str, canary: bool| { let p = root.join(rel); std::fs::create_dir_all(p.parent().unwrap()).unwrap(); std::fs::write(&p, if canary { format!("CANARY:{}", p.display()) } else { p.display().to_string() }).unwrap(); };
    for f in ["r1/a.ttl", "r1/b", "r1/b.nt", "r1/d/c.rdf", "r1/d/e", "r1/%2e%2e", "r1/...", "r1/.hidden", "r1/f.jsonld", "r1/sub/inner.ttl", "r1/g", "r2/g.ttl", "r2/a", "r2/d/e.nt"] { mk(f, false); }
    for f in ["secret", "secret.ttl", "outside/secret.ttl", "r1x/a.ttl", "a.ttl", "g.ttl",
              // siblings of the mapped directories whose names are the directory name plus a negotiated extension
              "r1.ttl", "r1.nt", "r1.jsonld", "r1.rdf", "r2.ttl", "r2.nt", "r1", "sub.ttl"] { if f == "r1" { continue; } mk(f, true); }
    // model file system: every existing path with its kind, including the ancestors of root
    let mut fs_entries: Vec<(Vec<String>, bool)> = vec![];
    { let rc = comps(&root); for i in 1..=rc.len() { fs_entries.push((rc[..i].to_vec(), false)); } }
    let mut extra_shards: Vec<String> = vec![];
    fn walk(dir: &Path, out: &mut Vec<(Vec<String>, bool)>) { for e in std::fs::read_dir(dir).unwrap() { let e = e.unwrap(); let p = e.path(); let isf = p.is_file(); out.push((comps(&p), isf)); if !isf { walk(&p, out) } } }
    walk(&root, &mut fs_entries);
    let c_fs = coq_list(fs_entries.iter().map(|(p, f)| format!("({}, {})", c_path(p), coq_bool(*f))));
    let ns1 = "http://e/ns/"; let ns2 = "http://e/ns/sub/";
    let (d1, d2) = (root.join("r1"), root.join("r2"));
    let header = format!("From Sophia.C19 Require Import Model Config History.\nFrom Sophia.gen Require Consts.\nDefinition the_fs : fsys := {c_fs}.\nDefinition cfgA : list cache := [({}, {}); ({}, {})].\nDefinition cfgB : list cache := [({}, {}); ({}, {})].\n",
        coq_str(ns1), c_path(&comps(&d1)), coq_str(ns2), c_path(&comps(&d2)), coq_str(ns2), c_path(&comps(&d2)), coq_str(ns1), c_path(&comps(&d1)));
    let loader_a = LocalLoader::new(vec![(Iri::new_unchecked(ns1.into()), d1.clone()), (Iri::new_unchecked(ns2.into()), d2.clone())]).unwrap();
    let loader_b = LocalLoader::new(vec![(Iri::new_unchecked(ns2.into()), d2.clone()), (Iri::new_unchecked(ns1.into()), d1.clone())]).unwrap();
    // configuration through `add`: the mappings of loader A registered one by one (the enclosing namespace first),
    // interleaved with adds that must be REFUSED (namespace without final slash, relative directory, a file) and must
    // leave nothing behind; the Coq model of this loader is cfgA
    let mut loader_c = LocalLoader::new(vec![]).unwrap();
    let mut add_failures: Vec<String> = vec![];
    {
        let mut refused = |l: &mut LocalLoader, ns: &str, dir: PathBuf, why: &str| { if l.add(Iri::new_unchecked(ns.to_string().into()), dir.clone()).is_ok() { add_failures.push(format!("LocalLoader::add({ns:?}, {dir:?}) was accepted although {why}")); } };
        refused(&mut loader_c, "http://e/outside", root.join("outside"), "the namespace does not end with a slash");
        loader_c.add(Iri::new_unchecked(ns1.into()), d1.clone()).unwrap();
        refused(&mut loader_c, "http://e/rel/", PathBuf::from("fsroot-relative"), "the directory is relative");
        refused(&mut loader_c, "http://e/file/", root.join("secret"), "the path is a file, not a directory");
        refused(&mut loader_c, "http://e/missing/", root.join("no-such-dir"), "the directory does not exist");
        loader_c.add(Iri::new_unchecked(ns2.into()), d2.clone()).unwrap();
        refused(&mut loader_c, "http://e/ns/sub", root.join("r1x"), "the namespace does not end with a slash");
    }
    // a mapped directory written with a `..` that follows a symbolic link: <root>/link -> real/sub, so that
    // <root>/link/../r3 IS <root>/real/r3 (and not <root>/r3, which holds a canary)
    mk("real/sub/x.ttl", false); mk("real/r3/a.ttl", false); mk("real/r3/b", false); mk("r3/a.ttl", true); mk("r3/b", true);
    let _ = std::os::unix::fs::symlink(root.join("real/sub"), root.join("link"));
    let loader_d = LocalLoader::new(vec![(Iri::new_unchecked("http://e/ln/".into()), root.join("link/../r3"))]);
    // generated configurations (Config.v): mappings drawn from a pool of acceptable and unacceptable ones, registered
    // through new() or through add() calls; the model predicts the refusal pattern and the behaviour of the result
    let rs = root.display().to_string();
    let cfg_pool: Vec<(String, String)> = vec![
        (ns1.into(), format!("{rs}/r1")), (ns2.into(), format!("{rs}/r2")), ("http://e/ns3/".into(), format!("{rs}/r1/sub")),
        (ns1.into(), format!("{rs}/r2")), ("http://e/ns/sub/deep/".into(), format!("{rs}/r2/d")), ("http://e/".into(), format!("{rs}/r1/d")),
        (ns2.into(), format!("{rs}/r1/../r2")), ("http://e/ns3/".into(), format!("{rs}/r1/d/../../r2/./d/")), (ns1.into(), format!("{rs}//r1/")),
        ("http://e/ns".into(), format!("{rs}/r1")), ("http://e/ns/sub".into(), format!("{rs}/r2")), ("http://e/ns#".into(), format!("{rs}/r1")),
        (ns1.into(), "r1".into()), (ns2.into(), "./r2".into()), (ns1.into(), "".into()),
        (ns1.into(), format!("{rs}/secret")), (ns2.into(), format!("{rs}/r1/a.ttl")), (ns1.into(), format!("{rs}/no-such-dir")),
        (ns2.into(), format!("{rs}/no-such-dir/../r2")), (ns1.into(), format!("{rs}/r1/a.ttl/../../r1")), (ns2.into(), format!("{rs}/r1/a.ttl/")),
        ("http://e/ns".into(), "r1".into()), ("http://e/ns".into(), format!("{rs}/secret")),
    ];
    let cfg_code = |e: &sophia_resource::loader::LocalLoaderError| -> u64 { use sophia_resource::loader::LocalLoaderError::*; match e { IriMustEndWithSlash(_) => 1, PathMustBeAbsolute(_) => 2, PathMustBeDirectory(_) => 3 } };
    let canary_abs = root.join("secret").display().to_string();
    let segs: Vec<String> = ["a", "b", "d", "c.rdf", "c", "e", "..", ".", "", "%2e%2e", "%2E%2E", "%2e", "...", ".hidden", "sub", "inner", "g", "g.ttl", "secret", "outside", "a.ttl", "b.nt", "f", "r1", "r2", "r1x", "..%2f", "%2f"].iter().map(|s| s.to_string()).collect();
    // histories over several loader values: mappings (the first HIST_OK are acceptable) and request tails
    let hist_pool: Vec<(String, String)> = vec![
        (ns1.into(), format!("{rs}/r1")), (ns2.into(), format!("{rs}/r2")), ("http://e/ns3/".into(), format!("{rs}/r1/sub")), ("http://priv/".into(), format!("{rs}/r2/d")),
        ("http://e/".into(), format!("{rs}/r1/d")), (ns1.into(), format!("{rs}/r2")), ("http://priv/".into(), format!("{rs}/r1")), (format!("file://{rs}/r1/"), format!("{rs}/r1")),
        (ns2.into(), format!("{rs}/r1/../r2")), ("http://priv/".into(), format!("{rs}/r2")),
        ("http://e/ns".into(), format!("{rs}/r1")), (ns1.into(), "r1".into()), (ns2.into(), format!("{rs}/secret")), (ns1.into(), format!("{rs}/no-such-dir")), ("http://priv".into(), format!("{rs}/r2")),
    ];
    const HIST_OK: usize = 10;
    let hist_tails = ["a.ttl", "a", "b", "b.nt", "d/c.rdf", "d/c", "d/e", "e", "e.nt", "g", "g.ttl", "inner", "inner.ttl", "sub/inner", "c", "c.rdf", "f", "f.jsonld", "a.ttl", "a", "g",
                      "../secret.ttl", "../r2/a", "./a", "d//e", "../r1/a.ttl", "", "sub/../a.ttl", "%2e%2e/secret"];
    let gen_history = |r: &mut Rng| -> Vec<HOp> {
        // a theme of a few mappings; the requests are built on the namespaces of the theme, so that the same IRI is asked of several values
        let theme: Vec<(String, String)> = (0..r.range(2, 3)).map(|_| if r.chance(7, 8) { hist_pool[r.below(HIST_OK)].clone() } else { r.pick(&hist_pool).clone() }).collect();
        let mapping = |r: &mut Rng| if r.chance(7, 8) { r.pick(&theme).clone() } else { r.pick(&hist_pool).clone() };
        let iris: Vec<String> = (0..r.range(2, 3)).map(|_| format!("{}{}", r.pick(&theme).0, r.ps(&hist_tails))).filter(|i| Iri::new(i.as_str()).is_ok()).collect();
        let iris = if iris.is_empty() { vec![format!("{ns1}a")] } else { iris };
        let request = |r: &mut Rng| { let mut i = r.pick(&iris).clone(); if r.chance(1, 4) { i.push_str("#x"); } i };
        let mut ops = vec![HOp::New((0..r.below(3)).map(|_| mapping(r)).collect())];
        let mut n = 1usize;
        for _ in 0..r.range(5, 14) {
            match r.below(20) {
                10..=13 => { let (ns, d) = mapping(r); ops.push(HOp::Add(r.below(n), ns, d)); }
                14..=16 if n < 5 => {
                    ops.push(HOp::Clone(r.below(n), r.below(3) as u8)); n += 1;
                    // configurations diverge: add to one of the two copies only
                    if r.chance(1, 2) { let (ns, d) = mapping(r); ops.push(HOp::Add(n - 1, ns, d)); }
                }
                17 if n < 5 => { ops.push(HOp::New((0..r.below(3)).map(|_| mapping(r)).collect())); n += 1; }
                18 => ops.push(HOp::Reset(r.below(n))),
                _ => ops.push(HOp::Get(r.below(n), request(r), *r.pick(&[0u8, 0, 0, 1, 2, 3]))),
            }
        }
        // every value is asked for every IRI of the history at the end
        if r.chance(1, 2) { for i in 0..n { for q in &iris { ops.push(HOp::Get(i, q.clone(), 0)); } } }
        ops
    };
    let base = Rng::new(a.seed);
    let mut cases = vec![]; let mut seen = std::collections::HashSet::new();
    let range: Vec<usize> = match a.only { Some(i) => vec![i], None => (0..a.n).collect() };
    for idx in range {
        let mut r = base.fork(idx as u64);
        // choices of the round-6 streams come from a second generator, so that the older streams keep their cases
        let mut r2 = base.fork((idx as u64) ^ 0x5EED_C190_0000_0000);
        if r2.chance(1, 6) {
            let ops = gen_history(&mut r2);
            let (c_ops, c_obs, trace, fails) = run_history(&ops);
            let gets = ops.iter().filter(|o| matches!(o, HOp::Get(..))).count() as u64;
            let values = 1 + ops.iter().skip(1).filter(|o| matches!(o, HOp::Clone(..) | HOp::New(..))).count();
            sum.evaluations += gets.max(1); sum.bump("history:random"); sum.bump_by("history:gets", gets);
            if ops.iter().any(|o| matches!(o, HOp::Clone(..))) { sum.bump("history:with-clone"); }
            if ops.iter().any(|o| matches!(o, HOp::Get(_, _, v) if *v != 0)) { sum.bump("history:get-from-another-thread"); }
            {
                // the point of the stream: the same IRI (up to its fragment) served by one value and refused by another
                let mut by_iri: std::collections::HashMap<String, (bool, bool)> = Default::default();
                for t in &trace { if let Some(p) = t.find(".get(\"") { let q = t[p + 6..].split(|c| c == '"' || c == '#').next().unwrap().to_string(); let e = by_iri.entry(q).or_default(); if t.contains("-> Ok(") { e.0 = true } else if t.contains("-> UnsupportedIri") { e.1 = true } } }
                if by_iri.values().any(|e| e.0) { sum.bump("history:random-with-a-file-served"); }
                if by_iri.values().any(|e| e.0 && e.1) { sum.bump("history:random-same-IRI-served-and-refused"); }
            }
            let text = trace.join("; ");
            if a.only.is_some() { println!("CASE {idx}: history\n  {}", trace.join("\n  ")); }
            if seen.insert(text.clone()) && values >= 2 { sum.distinct_nontrivial += 1; }
            if sum.samples.len() < 7 && values >= 2 && idx % 5 == 0 { sum.samples.push(format!("case {idx}: history {text}")); }
            for f in fails { sum.oracle_failures.push((idx.to_string(), f)); }
            cases.push((idx, format!("hist_ok the_fs Consts.loader_exts {c_ops} {c_obs}")));
            continue;
        }
        let use_b = r.chance(1, 2);
        let mut prefix = *r.pick(&[ns1, ns1, ns1, ns1, ns1, ns1, ns2, ns2, "http://e/ns", "http://e/", "http://other/ns/", "http://e/ns/sub", "http://e/outside", "http://e/rel/", "http://e/file/", "http://e/missing/", "http://e/ns3/", "http://e/ns/sub/deep/", "http://e/ns3/", "http://e/"]);
        let n = r.below(6);
        let mut path: Vec<String> = (0..n).map(|_| r.pick(&segs).clone()).collect();
        let abs_attack = r.chance(1, 10);
        if abs_attack { path = vec![format!("/{}", canary_abs.trim_start_matches('/')), ]; if r.chance(1, 2) { path.insert(0, "".into()); } }
        // directed escape attempts: climb out with (possibly encoded) parent steps, then name a canary
        let climb = !abs_attack && r.chance(1, 4);
        if climb {
            let ups = ["..", "%2e%2e", "%2E%2E", ".%2e", "%2e.", "..%2f..", "%2e%2e%2f%2e%2e", "sub/..", "d/../..",
                       // empty segments must not count as a level down
                       ".//..", "sub//../..", "/..", "d//../..", "a///../../..", "./", "", "sub//.."];
            let targets = ["secret", "secret.ttl", "a.ttl", "g.ttl", "outside/secret.ttl", "outside/secret", "r1x/a.ttl", "r1x/a", "r2/a", "r1/b", "..%2fsecret.ttl"];
            path = (0..r.range(1, 3)).map(|_| r.ps(&ups).to_string()).collect();
            if r.chance(1, 5) { path.insert(0, r.pick(&segs).clone()); }
            path.push(r.ps(&targets).to_string());
        }
        // requests that designate existing files (directly, through content negotiation, with dot / empty segments as noise)
        let valid = !abs_attack && !climb && r.chance(1, 4);
        if valid {
            let good = ["a.ttl", "a", "b", "b.nt", "d/c.rdf", "d/c", "d/e", "f", "f.jsonld", "sub/inner.ttl", "sub/inner", "g", "g.ttl", ".hidden", "%2e%2e", "...", "e.nt", "e", "c.rdf", "inner", "inner.ttl", "d/e.nt"];
            let mut p: Vec<String> = r.ps(&good).split('/').map(|x| x.to_string()).collect();
            if r.chance(1, 3) { p.insert(0, ".".into()); }
            if r.chance(1, 4) { let k = r.below(p.len()); p.insert(k, "".into()); }
            if r.chance(1, 5) { let k = r.below(p.len()); p.insert(k, ".".into()); }
            path = p;
            if r.chance(3, 4) { prefix = if r.chance(2, 3) { ns1 } else { ns2 }; }
        }
        let long = r.chance(1, 40);
        if long { path.push("x".repeat(300)); }
        // the namespace itself (and "the namespace plus ./"): the last path component is then the mapped directory
        if !abs_attack && !climb && r.chance(1, 12) { path = match r.below(4) { 0 => vec![], 1 => vec![".".into()], 2 => vec!["".into()], _ => vec![".".into(), "".into()] }; }
        // IRIs of other schemes that a loader might serve specially, built on the mapped directories
        let scheme = r2.chance(1, 7);
        let mut scheme_file = false;
        let mut scheme_dir = String::new();
        let prefix: String = if scheme {
            let mut d = r2.pick(&[d1.display().to_string(), d1.display().to_string(), d2.display().to_string(), rs.clone(), format!("{rs}/r1/sub"), format!("{rs}/r1/d"), format!("{rs}/r1x"), String::new()]).clone();
            scheme_dir = d.clone();
            if !d.is_empty() && r2.chance(1, 6) {
                // a percent escape in the directory part (an alphanumeric character, a dot or a slash)
                let pos: Vec<usize> = d.char_indices().filter(|(i, c)| *i > 0 && (c.is_ascii_alphanumeric() || *c == '/' || *c == '.')).map(|(i, _)| i).collect();
                let k = *r2.pick(&pos); let c = d.as_bytes()[k];
                d = format!("{}%{:02x}{}", &d[..k], c, &d[k + 1..]);
            }
            let k = r2.below(22);
            scheme_file = k < 12;
            match k {
                0 | 1 | 2 => format!("file://{d}/"), 3 | 4 => format!("file://localhost{d}/"), 5 | 6 => format!("file:{d}/"), 7 => format!("file:///{}/", d.trim_start_matches('/')),
                8 => format!("FILE://{d}/"), 9 => format!("file://LOCALHOST{d}/"), 10 => format!("file://127.0.0.1{d}/"), 11 => format!("file://e{d}/"),
                12 => "https://e/ns/".into(), 13 => "http://e:80/ns/".into(), 14 => "http://E/ns/".into(), 15 => format!("http://localhost{d}/"), 16 => format!("https://localhost{d}/"),
                17 => "ftp://e/ns/".into(), 18 => "urn:example:ns/".into(), 19 => "http://user@e/ns/".into(), 20 => "http://e//ns/".into(), _ => "http://e/./ns/".into(),
            }
        } else { prefix.to_string() };
        // directed: a file: IRI that starts with a mapped directory and climbs out of it by exactly the right number of levels
        if scheme_file && r2.chance(1, 3) {
            let depth = Path::new(&scheme_dir).strip_prefix(&root).map(|p| p.components().count()).unwrap_or(0);
            let mut p: Vec<String> = (0..depth).map(|_| r2.ps(&["..", "..", "..", "./..", "%2e%2e", ".%2e", "sub/../..", "d/../..", "a.ttl/../..", ".//.."]).to_string()).collect();
            if r2.chance(1, 4) { p.insert(0, r2.ps(&["sub/..", "d/e/../..", ".", "sub//.."]).to_string()); }
            p.push(r2.ps(&["secret", "secret.ttl", "a.ttl", "g.ttl", "outside/secret.ttl", "outside/secret", "r1x/a.ttl", "r1x/a", "r2/a", "r1/b", "r1.ttl", "r1", "sub.ttl", "g"]).to_string());
            path = p; sum.bump("other-scheme:file-directed-climb");
        }
        // ... half of the file: ones against a configuration whose namespace is itself a file: IRI
        let force_gen = scheme_file && r2.chance(1, 2);
        let mut iri = format!("{prefix}{}", path.join("/"));
        if r.chance(1, 8) { iri.push_str("?q=1"); }
        if r.chance(1, 4) { iri.push_str("#frag/../x"); }
        let Ok(iri_v) = Iri::new(iri.clone()) else { continue };
        let use_c = !use_b && r.chance(1, 2);
        // a generated configuration for a quarter of the cases
        let use_gen = r.chance(1, 4) || force_gen;
        let mut gen_loader: Option<LocalLoader> = None;
        let mut gen_ops: Vec<(String, String)> = vec![];
        let mut gen_codes: Vec<u64> = vec![];
        let mut gen_new_err: Option<u64> = None;   // Some(code) when built with new(): 0 = accepted
        let mut gen_accepted: Vec<(String, PathBuf)> = vec![];
        if use_gen {
            let k = r.range(1, 4);
            // mostly acceptable mappings, so that new() often succeeds
            gen_ops = (0..k).map(|_| if r.chance(2, 3) { cfg_pool[r.below(9)].clone() } else { r.pick(&cfg_pool).clone() }).collect();
            if force_gen {
                let file_ns: Vec<(String, String)> = vec![(format!("file://{rs}/r1/"), format!("{rs}/r1")), (format!("file://{rs}/"), format!("{rs}/r1")), (format!("file://localhost{rs}/r2/"), format!("{rs}/r2")),
                    (format!("file:{rs}/r1/"), format!("{rs}/r1")), ("file:///".into(), format!("{rs}/r2")), (format!("file://{rs}/r1/sub/"), format!("{rs}/r1/sub")), (format!("file://{rs}/r1"), format!("{rs}/r1"))];
                gen_ops = (0..r2.range(1, 2)).map(|_| r2.pick(&file_ns).clone()).collect();
                // mostly: the prefix of the IRI itself is the namespace, mapped to the directory it names when that is r1, r2 or below (the canaries live next to them), else to r1
                if r2.chance(2, 3) { gen_ops[0] = (prefix.clone(), if (Path::new(&scheme_dir).starts_with(&d1) || Path::new(&scheme_dir).starts_with(&d2)) && Path::new(&scheme_dir).is_dir() && r2.chance(3, 4) { scheme_dir.clone() } else { format!("{rs}/r1") }); }
                if r2.chance(1, 3) { gen_ops.push(cfg_pool[r2.below(9)].clone()); }
            }
            let mk_iri = |n: &str| Iri::new_unchecked(n.to_string().into());
            if r.chance(1, 2) {
                match LocalLoader::new(gen_ops.iter().map(|(n, d)| (mk_iri(n), PathBuf::from(d))).collect()) {
                    Ok(l) => { gen_new_err = Some(0); gen_loader = Some(l); }
                    Err(e) => { gen_new_err = Some(cfg_code(&e)); }
                }
            } else {
                let mut l = LocalLoader::default();
                for (n, d) in &gen_ops { gen_codes.push(match l.add(mk_iri(n), PathBuf::from(d)) { Ok(()) => 0, Err(e) => cfg_code(&e) }); }
                gen_loader = Some(l);
            }
            // independent expectation of which mappings are acceptable (the documented pre-conditions)
            let mut first_err = 0u64;
            for (i, (n, d)) in gen_ops.iter().enumerate() {
                let p = Path::new(d);
                let want = if !n.ends_with('/') { 1 } else if !d.starts_with('/') { 2 } else if !std::fs::metadata(p).map(|m| m.is_dir()).unwrap_or(false) { 3 } else { 0 };
                if want == 0 { gen_accepted.push((n.clone(), p.canonicalize().unwrap())); } else if first_err == 0 { first_err = want; }
                if gen_new_err.is_none() && gen_codes[i] != want { sum.oracle_failures.push((idx.to_string(), format!("config: LocalLoader::add({n:?}, {d:?}) answered code {} (0 accepted, 1 slash, 2 absolute, 3 directory), the documented pre-conditions give {want}", gen_codes[i]))); }
            }
            if let Some(c) = gen_new_err { if c != first_err { sum.oracle_failures.push((idx.to_string(), format!("config: LocalLoader::new({gen_ops:?}) answered code {c}, the first offending mapping gives {first_err}"))); } }
            sum.bump(if gen_new_err.is_some() { "config:generated-new" } else { "config:generated-adds" });
            if gen_new_err.unwrap_or(0) != 0 || gen_codes.iter().any(|c| *c != 0) { sum.bump("config:with-refusal"); }
        }
        let c_ops = coq_list(gen_ops.iter().map(|(n, d)| format!("({}, {})", coq_str(n), coq_str(d))));
        if use_gen && gen_loader.is_none() {
            // new() refused: the refusal itself is the case
            sum.evaluations += 1;
            let text = format!("cfg=new{gen_ops:?} refused");
            if seen.insert(text.clone()) { sum.distinct_nontrivial += 1; }
            cases.push((idx, format!("new_get_ok the_fs Consts.loader_exts {c_ops} {} [] 0 [] 0", gen_new_err.unwrap())));
            continue;
        }
        let loader = if use_gen { gen_loader.as_ref().unwrap() } else if use_b { &loader_b } else if use_c { &loader_c } else { &loader_a };
        let res = loader.get(iri_v);
        let (code, pth, ct, desc): (u64, Vec<String>, u64, String) = match &res {
            Ok((data, ctype)) => {
                let s = String::from_utf8_lossy(data).to_string();
                let ct = match ctype.as_str() { "text/turtle" => 1, "application/n-triples" => 2, "application/ld+json" => 3, "application/rdf+xml" => 4, _ => 0 };
                (0, comps(Path::new(&path_of(&s))), ct, format!("Ok(content of {}, {ctype})", path_of(&s)))
            }
            Err(LoaderError::NotFound(_)) => (1, vec![], 0, "NotFound".into()),
            Err(LoaderError::UnsupportedIri(..)) => (2, vec![], 0, "UnsupportedIri".into()),
            Err(LoaderError::IoError(..)) => (3, vec![], 0, "IoError".into()),
            Err(e) => (9, vec![], 0, format!("{e:?}")),
        };
        // oracle: content only ever comes from inside the directory of a namespace prefixing the IRI
        if let Ok((data, _)) = &res {
            let raw = String::from_utf8_lossy(data).to_string();
            let s = if raw.starts_with("CANARY:") || raw.contains("CANARY-PATH:") { format!("CANARY:{}", path_of(&raw.replace("CANARY-PATH:", "PATH:"))) } else { path_of(&raw) };
            let no_frag = iri.split('#').next().unwrap();
            let maps: Vec<(String, PathBuf)> = if use_gen { gen_accepted.clone() } else { vec![(ns1.to_string(), d1.clone()), (ns2.to_string(), d2.clone())] };
            let ok = !s.starts_with("CANARY:") && maps.iter().any(|(ns, d)| no_frag.starts_with(ns.as_str()) && Path::new(&s).starts_with(d));
            if !ok { sum.oracle_failures.push((idx.to_string(), format!("LocalLoader.get({iri:?}) with mappings {} returned the content of {s}, which is outside every directory mapped to a namespace prefixing the IRI", if use_gen { format!("{gen_ops:?} (generated; acceptable: {gen_accepted:?})") } else if use_b { "[sub->r2, ns->r1]".to_string() } else if use_c { "[ns->r1, sub->r2] (registered with add(), refused adds in between)".to_string() } else { "[ns->r1, sub->r2]".to_string() }))); }
        }
        let text = format!("cfg={} iri={iri}", if use_gen { format!("{}{gen_ops:?}", if gen_new_err.is_some() { "new" } else { "adds" }) } else if use_b { "B".into() } else if use_c { "A(add)".into() } else { "A".into() });
        if a.only.is_some() { println!("CASE {idx}: {text} => {desc}"); }
        if scheme { sum.bump(if scheme_file { "other-scheme:file" } else { "other-scheme:not-file" }); if code == 0 { sum.bump("other-scheme:served"); } }
        let nontrivial = scheme || iri.contains("..") || iri.contains("/./") || iri.contains("//e") == false && iri[7..].contains("//") || iri.contains("%2") || abs_attack || (code == 0 && !iri.split('#').next().unwrap().ends_with(pth.last().map(|s| s.as_str()).unwrap_or("")));
        if seen.insert(text.clone()) && nontrivial { sum.distinct_nontrivial += 1; }
        sum.bump(&format!("result:{}", ["found", "not-found", "unsupported", "io-error"].get(code as usize).unwrap_or(&"other")));
        if valid { sum.bump("request-for-an-existing-file"); } if abs_attack { sum.bump("absolute-remainder"); } if climb { sum.bump("directed-climb"); } if iri.contains("..") { sum.bump("has-dotdot"); }
        if sum.samples.len() < 5 && nontrivial && (code == 0 || sum.samples.len() < 2) { sum.samples.push(format!("case {idx}: {text} => {desc}")); }
        sum.evaluations += 1;
        if !long {
            if use_gen && gen_new_err.is_some() { cases.push((idx, format!("new_get_ok the_fs Consts.loader_exts {c_ops} 0 {} {code} {} {ct}", coq_str(&iri), c_path(&pth)))); }
            else if use_gen { cases.push((idx, format!("adds_get_ok the_fs Consts.loader_exts {c_ops} {} {} {code} {} {ct}", coq_list(gen_codes.iter().map(|c| c.to_string())), coq_str(&iri), c_path(&pth)))); }
            else { cases.push((idx, format!("get_ok the_fs Consts.loader_exts {} {} {code} {} {ct}", if use_b { "cfgB" } else { "cfgA" }, coq_str(&iri), c_path(&pth)))); }
        }
    }
    for f in add_failures { sum.oracle_failures.push(("config-add".into(), f)); }
    match &loader_d {
        Err(e) => sum.oracle_failures.push(("config-symlink".into(), format!("LocalLoader::new refused the directory <root>/link/../r3 (which exists: link -> real/sub): {e:?}"))),
        Ok(l) => for (req, want) in [("http://e/ln/a.ttl", Some("real/r3/a.ttl")), ("http://e/ln/b", Some("real/r3/b")), ("http://e/ln/x.ttl", None), ("http://e/ln/sub/x.ttl", None)] {
            let got = l.get(Iri::new_unchecked(req.to_string())).ok().map(|(d, _)| String::from_utf8_lossy(&d).to_string());
            let want_s = want.map(|w| root.join(w).display().to_string());
            sum.evaluations += 1; sum.bump("config:directory-with-dotdot-after-symlink");
            if got != want_s { sum.oracle_failures.push(("config-symlink".into(), format!("mapping http://e/ln/ -> <root>/link/../r3 with link -> real/sub (so the directory is <root>/real/r3): get({req:?}) returned {got:?}, expected {want_s:?}"))); }
        }
    }
    // ---------- links followed in loaded data (resource/src/loader/_trait.rs provided methods, resource/_struct.rs) ----------
    if a.only.is_none() {
        let hub_targets: Vec<String> = {
            let ca = canary_abs.trim_start_matches('/');
            let mut v: Vec<String> = ["t1.ttl", "t1", "d/t2.nt", "./d//t2", "t1.ttl#frag", "t3.jsonld", "t3", "t4.rdf", "t4", "sub/../t1.ttl", "no-such-file",
                "../leak.ttl", "../leak", "d/../../leak.ttl", "%2e%2e/leak.ttl", "..%2fleak.ttl", "", "./", "sub//..//../leak.ttl", "t1.ttl/../../leak.ttl",
                "sub/../../leak.ttl", "sub/t5.ttl", "sub/t5", "sub/../../outside/leak.nt", "../r1x/leak", "../r1", "../r1.ttl#x"].iter().map(|t| format!("{ns1}{t}")).collect();
            v.push(format!("{ns1}/{ca}")); v.push(format!("{ns1}//{ca}")); v.push("http://e/leak.ttl".into()); v.push("http://other/ns/t1.ttl".into()); v.push("file:///etc/hostname".into());
            v.push(format!("{ns2}../leak.ttl")); v.push(format!("{ns2}t5.ttl"));
            // links with other schemes, built on the mapped directories (inside them, climbing out of them, plainly outside)
            for pre in ["file://", "file://localhost", "file:", "FILE://", "https://localhost"] {
                for t in ["r1/t1.ttl", "r1/t1", "r1/../leak.ttl", "r1/../leak", "r1/sub/../../leak.ttl", "r1/d/../../outside/leak.nt", "leak.ttl", "r1/%2e%2e/leak.ttl", "r1/..%2fleak.ttl", "r1/t1.ttl#frag", "r2/../leak.ttl", "r1//../leak.ttl", "r1/./../etc-leak.ttl"] {
                    v.push(format!("{pre}{rs}/{t}"));
                }
            }
            v.push(format!("file:///{}/r1/../leak.ttl", rs.trim_start_matches('/'))); v.push("https://e/ns/t1.ttl".into()); v.push("https://e/ns/../leak.ttl".into()); v.push("http://e:80/ns/t1.ttl".into());
            v
        };
        // relative references as they may be written in a Turtle / JSON-LD / RDF-XML document (resolved by the parser against the document IRI)
        let hub_relative = ["../leak.ttl", "../../leak.ttl", "/leak.ttl", "/ns/../leak.ttl", "//e/ns/../leak.ttl", "t1.ttl", "./d/t2.nt", "d/../../leak", "..", ".", "sub/../../leak.ttl", "%2e%2e/leak.ttl"];
        let marker = |p: &Path| format!("PATH:{}", p.display());
        let rdf_file = |rel: &str, canary: bool, body_ttl: &str, links: &[(String, String)]| {
            let p = root.join(rel); std::fs::create_dir_all(p.parent().unwrap()).unwrap();
            let m = if canary { format!("CANARY-{}", marker(&p)) } else { marker(&p) };
            let ext = rel.rsplit('.').next().unwrap();
            let text = match ext {
                "ttl" => format!("# {m}\n<> <http://x/marker> \"{m}\" .\n{body_ttl}{}", links.iter().map(|(p, o)| format!("<> <{p}> <{o}> .\n<{o}> <{}r> <> .\n", p)).collect::<String>()),
                "nt" => format!("# {m}\n<http://x/doc> <http://x/marker> \"{m}\" .\n{}", links.iter().map(|(p, o)| format!("<{}> <{p}> <{o}> .\n", "http://e/ns/hub.nt")).collect::<String>()),
                "jsonld" => format!("{{\"@id\": \"\", \"http://x/marker\": \"{m}\"{}}}", links.iter().map(|(p, o)| format!(", \"{p}\": {{\"@id\": \"{o}\"}}")).collect::<String>()),
                _ => format!("<?xml version=\"1.0\"?>\n<!-- {m} -->\n<rdf:RDF xmlns:rdf=\"http://www.w3.org/1999/02/22-rdf-syntax-ns#\" xmlns:x=\"http://x/\">\n<rdf:Description rdf:about=\"\"><x:marker>{m}</x:marker>{}</rdf:Description>\n</rdf:RDF>\n",
                             links.iter().map(|(p, o)| format!("<x:{} rdf:resource=\"{}\"/>", p.trim_start_matches("http://x/"), o.replace('&', "&amp;"))).collect::<String>()),
            };
            std::fs::write(&p, text).unwrap();
        };
        for f in ["r1/t1.ttl", "r1/d/t2.nt", "r1/t3.jsonld", "r1/t4.rdf", "r2/t5.ttl", "r1/sub/t5.ttl"] { rdf_file(f, false, "", &[]); }
        for f in ["leak.ttl", "leak.nt", "outside/leak.nt", "outside/leak.ttl", "r1x/leak.ttl", "r2/leak.ttl", "etc-leak.ttl"] { rdf_file(f, true, "", &[]); }
        let abs_links: Vec<(String, String)> = hub_targets.iter().enumerate().map(|(k, t)| (format!("http://x/l{k}"), t.clone())).collect();
        let rel_links: Vec<(String, String)> = hub_relative.iter().enumerate().map(|(k, t)| (format!("http://x/q{k}"), t.to_string())).collect();
        let mut both = abs_links.clone(); both.extend(rel_links.clone());
        rdf_file("r1/hub.ttl", false, "", &both); rdf_file("r1/hub.jsonld", false, "", &both); rdf_file("r1/hub.rdf", false, "", &both);
        rdf_file("r1/hub.nt", false, "", &abs_links);
        // the model's file system has to know the new files
        let mut fs2: Vec<(Vec<String>, bool)> = vec![];
        { let rc = comps(&root); for i in 1..=rc.len() { fs2.push((rc[..i].to_vec(), false)); } }
        walk(&root, &mut fs2);
        let c_fs2 = coq_list(fs2.iter().map(|(p, f)| format!("({}, {})", c_path(p), coq_bool(*f))));
        let mk = || LocalLoader::new(vec![(Iri::new_unchecked(ns1.into()), d1.clone()), (Iri::new_unchecked(ns2.into()), d2.clone())]).unwrap();
        let spy = Arc::new(Spy { inner: mk(), log: Mutex::new(vec![]) });
        let plain = Arc::new(mk());
        let inside = |iri: &str, file: &str| -> bool { let nf = iri.split('#').next().unwrap(); [(ns1, &d1), (ns2, &d2)].iter().any(|(ns, d)| nf.starts_with(ns) && Path::new(file).starts_with(d)) };
        let marker_of = |g: &G| -> Vec<String> { g.triples_matching(Any, [Iri::new_unchecked("http://x/marker")], Any).map(|t| t.unwrap().o().lexical_form().map(|l| l.to_string()).unwrap_or_default()).collect() };
        let mut link_cases: Vec<(usize, String)> = vec![];
        let mut n_followed = 0usize;
        for hub in ["hub.ttl", "hub.nt", "hub.jsonld", "hub.rdf", "hub"] {
            let hub_iri = format!("{ns1}{hub}");
            // (a) through the recording loader
            let r_spy: Result<Resource<G, Spy>, _> = spy.get_resource(Iri::new_unchecked(hub_iri.clone()));
            let r_plain: Result<Resource<G, LocalLoader>, _> = plain.get_resource(Iri::new_unchecked(hub_iri.clone()));
            let (Ok(r_spy), Ok(r_plain)) = (r_spy, r_plain) else { sum.oracle_failures.push(("links".into(), format!("the hub document {hub_iri} (inside the mapped directory) could not be loaded as a resource"))); continue };
            sum.bump("links:hub-loaded");
            let preds: Vec<String> = both.iter().map(|(p, _)| p.clone()).collect();
            for p in &preds {
                let pi = Iri::new_unchecked(p.as_str());
                for how in 0..4 {
                    // the four ways of following a link: exactly-one, any, all, reverse
                    let followed: Vec<Result<Resource<G, LocalLoader>, String>> = match how {
                        0 => vec![r_plain.get_resource(pi).map_err(|e| format!("{e:?}"))],
                        1 => match r_plain.get_any_resource(pi) { Ok(Some(x)) => vec![Ok(x)], Ok(None) => vec![], Err(e) => vec![Err(format!("{e:?}"))] },
                        2 => r_plain.get_all_resources(pi).map(|x| x.map_err(|e| format!("{e:?}"))).collect(),
                        _ => if hub == "hub.ttl" { r_plain.pred_all_resources(Iri::new_unchecked(format!("{p}r"))).map(|x| x.map_err(|e| format!("{e:?}"))).collect() } else { vec![] },
                    };
                    for f in followed {
                        n_followed += 1; sum.evaluations += 1;
                        if let Ok(nb) = f {
                            for m in marker_of(nb.graph()) {
                                let file = path_of(&m.replace("CANARY-PATH:", "PATH:"));
                                let id = nb.id().iri().map(|i| i.as_str().to_string()).unwrap_or_default();
                                let base = nb.base().map(|b| b.as_str().to_string()).unwrap_or_default();
                                sum.bump("links:neighbour-loaded");
                                if m.contains("CANARY") || !(inside(&base, &file) || inside(&id, &file)) {
                                    sum.oracle_failures.push(("links".into(), format!("following the link {p} of {hub_iri} (method {}) loaded {file}, which is outside every directory mapped to a namespace prefixing the link's IRI {id}", ["get_resource", "get_any_resource", "get_all_resources", "pred_all_resources"][how])));
                                }
                            }
                        }
                    }
                }
                // same links through the recording loader (its log is checked below)
                let _ = r_spy.get_resource(pi); let _ = r_spy.get_any_resource(pi); let _ = r_spy.get_all_resources(pi).count();
                if hub == "hub.ttl" { let _ = r_spy.pred_all_resources(Iri::new_unchecked(format!("{p}r"))).count(); }
            }
        }
        // get_graph / get_typed-less entry points on IRIs given by the caller
        for t in &hub_targets { if !t.contains('#') { if let Ok(i) = Iri::new(t.as_str()) { let _: Result<G, _> = spy.get_graph(i); } } }
        // every `get` the link-following code issued: confinement oracle + the model's answer for that IRI
        let log = spy.log.lock().unwrap();
        let mut seen_l = std::collections::HashSet::new();
        for (k, (iri, rec)) in log.iter().enumerate() {
            if !seen_l.insert(iri.clone()) { continue; }
            sum.evaluations += 1; sum.distinct_nontrivial += 1; sum.bump("links:get-issued-by-link-following");
            let (code, pth, ct) = match rec {
                Ok((data, ctype)) => {
                    let raw = String::from_utf8_lossy(data).to_string();
                    let file = path_of(&raw.replace("CANARY-PATH:", "PATH:"));
                    if raw.contains("CANARY") || !inside(iri, &file) { sum.oracle_failures.push(("links".into(), format!("link following made the loader open {file} for the IRI {iri}: outside every directory mapped to a namespace prefixing it"))); }
                    (0u64, comps(Path::new(&file)), match ctype.as_str() { "text/turtle" => 1, "application/n-triples" => 2, "application/ld+json" => 3, "application/rdf+xml" => 4, _ => 0 })
                }
                Err(c) => (*c, vec![], 0),
            };
            if sum.samples.len() < 8 && k % 7 == 0 { sum.samples.push(format!("link-following get({iri}) => code {code} {pth:?}")); }
            link_cases.push((1_000_000 + k, format!("get_ok the_fs2 Consts.loader_exts cfgA {} {code} {} {ct}", coq_str(iri), c_path(&pth))));
        }
        sum.extra.push(("links_followed".into(), n_followed.to_string()));
        let header2 = format!("{header}Definition the_fs2 : fsys := {c_fs2}.\n");
        let dir2 = format!("{}/links", a.out); std::fs::create_dir_all(&dir2).unwrap();
        let sh2 = write_shards(&dir2, &header2, &link_cases, 1);
        for f in sh2 { let _ = std::fs::rename(format!("{dir2}/{f}"), format!("{}/links_{f}", a.out)); extra_shards.push(format!("links_{f}")); }
    }
    // ---------- directed histories: clone / add to one copy only / request through both copies, in both orders ----------
    if a.only.is_none() {
        let own = |v: &[(&str, String)]| -> Vec<(String, String)> { v.iter().map(|(n, d)| (n.to_string(), d.clone())).collect() };
        let bases: Vec<Vec<(String, String)>> = vec![vec![], own(&[(ns1, format!("{rs}/r1"))]), own(&[(ns2, format!("{rs}/r2"))]), own(&[(ns1, format!("{rs}/r1")), (ns2, format!("{rs}/r2"))]), own(&[("http://e/", format!("{rs}/r1/d"))])];
        let file_ns = format!("file://{rs}/r2/");
        let extras: Vec<((String, String), Vec<&str>)> = vec![
            (("http://priv/".into(), format!("{rs}/r2")), vec!["a", "g.ttl", "g", "d/e.nt", "d/e", "t5.ttl", "t5", "./d//e"]),
            ((ns2.into(), format!("{rs}/r2")), vec!["a", "g.ttl", "g", "d/e", "t5.ttl", "t5"]),
            (("http://e/ns3/".into(), format!("{rs}/r1/sub")), vec!["inner.ttl", "inner", "t5.ttl", "t5"]),
            // the namespace of another mapping, another directory: the first match wins, per value
            ((ns1.into(), format!("{rs}/r2")), vec!["g.ttl", "t5", "d/e", "a"]),
            ((file_ns.clone(), format!("{rs}/r2")), vec!["a", "g", "t5.ttl"]),
            (("http://e/ns/d/".into(), format!("{rs}/r1/d")), vec!["c.rdf", "c", "e", "t2.nt", "t2"]),
        ];
        let mut hist_cases: Vec<(usize, String)> = vec![];
        let mut k = 0usize;
        for x in &bases { for (m, tails) in &extras { for tail in tails {
            let i0 = format!("{}{tail}", m.0);
            let i1 = format!("{i0}#frag");
            // the same document without its extension (content negotiation), or with one when it has none
            let i2 = match tail.rfind('.') { Some(p) if p > 0 && !tail[p..].contains('/') => format!("{}{}", m.0, &tail[..p]), _ => format!("{i0}.ttl") };
            let (mn, md) = (m.0.clone(), m.1.clone());
            let mut xm = x.clone(); xm.push(m.clone());
            use HOp::*;
            let shapes: Vec<Vec<HOp>> = vec![
                vec![New(x.clone()), Clone(0, 0), Add(1, mn.clone(), md.clone()), Get(1, i0.clone(), 0), Get(0, i0.clone(), 0), Get(0, i1.clone(), 0), Get(1, i1.clone(), 0), Get(1, i2.clone(), 4), Get(0, i2.clone(), 4)],
                vec![New(x.clone()), Clone(0, 0), Add(1, mn.clone(), md.clone()), Get(0, i0.clone(), 0), Get(1, i0.clone(), 0), Get(0, i0.clone(), 0), Get(1, i2.clone(), 0), Get(0, i2.clone(), 0), Get(0, i1.clone(), 4)],
                vec![New(x.clone()), Clone(0, 1), Clone(1, 2), Add(2, mn.clone(), md.clone()), Get(2, i0.clone(), 3), Get(1, i0.clone(), 3), Get(0, i0.clone(), 1), Reset(2), Get(1, i1.clone(), 0), Get(0, i1.clone(), 0), Get(2, i0.clone(), 0)],
                vec![New(x.clone()), New(xm.clone()), Get(1, i0.clone(), 2), Get(0, i0.clone(), 2), Get(1, i2.clone(), 0), Get(0, i2.clone(), 0), Get(0, i1.clone(), 4)],
                vec![New(xm.clone()), Clone(0, 0), Get(0, i0.clone(), 0), Reset(0), Get(0, i0.clone(), 0), Get(1, i0.clone(), 0), Get(0, i1.clone(), 0), Get(0, i2.clone(), 4)],
                vec![New(x.clone()), Add(0, mn.clone(), md.clone()), Get(0, i0.clone(), 0), Clone(0, 2), Reset(0), Get(0, i0.clone(), 0), Get(1, i0.clone(), 0), Get(0, i2.clone(), 0)],
                // the add goes to the ORIGINAL: the clone must not see it
                vec![New(x.clone()), Clone(0, 0), Add(0, mn.clone(), md.clone()), Get(0, i0.clone(), 0), Get(1, i0.clone(), 0), Get(1, i1.clone(), 0), Get(0, i2.clone(), 0), Get(1, i2.clone(), 4)],
                // three copies, the middle one extended, asked last-to-first and first-to-last
                vec![New(x.clone()), Clone(0, 2), Clone(0, 0), Add(1, mn.clone(), md.clone()), Get(2, i0.clone(), 0), Get(1, i0.clone(), 1), Get(0, i0.clone(), 3), Get(0, i2.clone(), 0), Get(1, i2.clone(), 0), Get(2, i2.clone(), 0)],
            ];
            for ops in shapes {
                let (c_ops, c_obs, trace, fails) = run_history(&ops);
                let gets = ops.iter().filter(|o| matches!(o, Get(..))).count() as u64;
                sum.evaluations += gets; sum.distinct_nontrivial += 1; sum.bump("history:directed"); sum.bump_by("history:gets", gets);
                if trace.iter().any(|t| t.contains("-> Ok(")) { sum.bump("history:directed-with-a-file-served"); }
                if k % 211 == 0 && sum.samples.len() < 10 { sum.samples.push(format!("directed history {k}: {}", trace.join("; "))); }
                for f in fails { sum.oracle_failures.push((format!("history-directed-{k}"), f)); }
                hist_cases.push((2_000_000 + k, format!("hist_ok the_fs2 Consts.loader_exts {c_ops} {c_obs}")));
                k += 1;
            }
        } } }
        let mut fs2: Vec<(Vec<String>, bool)> = vec![];
        { let rc = comps(&root); for i in 1..=rc.len() { fs2.push((rc[..i].to_vec(), false)); } }
        walk(&root, &mut fs2);
        let c_fs2 = coq_list(fs2.iter().map(|(p, f)| format!("({}, {})", c_path(p), coq_bool(*f))));
        let header2 = format!("{header}Definition the_fs2 : fsys := {c_fs2}.\n");
        let dir2 = format!("{}/hist", a.out); std::fs::create_dir_all(&dir2).unwrap();
        let sh2 = write_shards(&dir2, &header2, &hist_cases, 4);
        for f in sh2 { let _ = std::fs::rename(format!("{dir2}/{f}"), format!("{}/hist_{f}", a.out)); extra_shards.push(format!("hist_{f}")); }
        sum.extra.push(("directed_histories".into(), k.to_string()));
    }
    if a.only.is_none() {
        sum.shards = write_shards(&a.out, &header, &cases, a.shards);
        sum.shards.extend(extra_shards.clone());
        sum.extra.push(("coq_cases".into(), cases.len().to_string()));
        std::fs::write(format!("{}/summary.json", a.out), sum.to_json()).unwrap();
    }
    println!("c19: {} cases, {} distinct non-trivial, {} oracle failures", sum.evaluations, sum.distinct_nontrivial, sum.oracle_failures.len());
}
